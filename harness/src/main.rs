//! wvh: line-protocol harness around the real wild code (libwild built with feature `verif`,
//! linker-utils). Reads one request per line on stdin, writes one canonical line per request.
use std::io::BufRead;
use std::io::Write;
use std::panic::catch_unwind;

mod ops;
mod ops_c29;
mod ops_c12c13;
mod ops_c14;
mod ops_c07;
mod ops_c15;
mod ops_c32;
mod ops_c16;
mod ops_c24;
mod ops_c25;
mod ops_c23;
mod ops_c11;
mod ops_c22;
// ADD-MODS-HERE

fn main() {
    std::panic::set_hook(Box::new(|_| {}));
    if ops_c12c13::maybe_subcommand() { return; } // `wvh dump-reloc-tables` (C12 T1)
    let stdin = std::io::stdin();
    let stdout = std::io::stdout();
    let mut out = std::io::BufWriter::new(stdout.lock());
    for line in stdin.lock().lines() {
        let line = line.expect("read");
        let toks: Vec<&str> = line.split(' ').filter(|t| !t.is_empty()).collect();
        if toks.is_empty() {
            writeln!(out, "bad-op").unwrap();
            continue;
        }
        let res = catch_unwind(|| ops::dispatch(&toks));
        match res {
            Ok(s) => writeln!(out, "{s}").unwrap(),
            Err(e) => {
                let msg = if let Some(s) = e.downcast_ref::<String>() {
                    s.clone()
                } else if let Some(s) = e.downcast_ref::<&str>() {
                    s.to_string()
                } else {
                    "?".to_string()
                };
                writeln!(out, "panic:{}", ops::panic_class(&msg)).unwrap()
            }
        }
    }
}
