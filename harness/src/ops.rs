use libwild::verif_api as v;

pub fn panic_class(msg: &str) -> &'static str {
    if msg.contains("overflow") {
        "overflow"
    } else if msg.contains("out of range") || msg.contains("out of bounds") || msg.contains("index") {
        "bounds"
    } else {
        "other"
    }
}

fn u(s: &str) -> u64 {
    if let Some(h) = s.strip_prefix("0x") {
        u64::from_str_radix(h, 16).expect("hex")
    } else {
        s.parse::<u64>().expect("dec")
    }
}

pub fn dispatch(t: &[&str]) -> String {
    match t[0] {
        "align-new" => match v::alignment_new(u(t[1])) {
            Some(e) => format!("ok {e}"),
            None => "err".into(),
        },
        "align-up" => format!("0x{:x}", v::align_up(u(t[1]) as u8, u(t[2]))),
        "align-down" => format!("0x{:x}", v::align_down(u(t[1]) as u8, u(t[2]))),
        "align-mod" => format!("0x{:x}", v::align_modulo(u(t[1]) as u8, u(t[2]), u(t[3]))),
        _ => "bad-op".into(),
    }
}
