//! Dispatch of line-protocol requests to per-property op modules. Each `ops_*.rs` exposes
//! `pub fn dispatch(t: &[&str]) -> Option<String>` and returns `None` for ops it does not own.

pub fn panic_class(msg: &str) -> &'static str {
    if msg.contains("overflow") {
        "overflow"
    } else if msg.contains("out of range") || msg.contains("out of bounds") || msg.contains("index") {
        "bounds"
    } else {
        "other"
    }
}

/// Decimal or 0x-hex u64.
pub fn u(s: &str) -> u64 {
    if let Some(h) = s.strip_prefix("0x") {
        u64::from_str_radix(h, 16).expect("hex")
    } else {
        s.parse::<u64>().expect("dec")
    }
}

/// Lowercase hex of bytes ("-" for empty).
pub fn hex(bytes: &[u8]) -> String {
    if bytes.is_empty() {
        return "-".into();
    }
    bytes.iter().map(|b| format!("{b:02x}")).collect()
}

pub fn unhex(s: &str) -> Vec<u8> {
    if s == "-" {
        return Vec::new();
    }
    (0..s.len() / 2).map(|i| u8::from_str_radix(&s[2 * i..2 * i + 2], 16).expect("hex byte")).collect()
}

pub fn dispatch(t: &[&str]) -> String {
    None.or_else(|| crate::ops_c29::dispatch(t))
        .or_else(|| crate::ops_c12c13::dispatch(t))
        .or_else(|| crate::ops_c14::dispatch(t))
        .or_else(|| crate::ops_c07::dispatch(t))
        .or_else(|| crate::ops_c15::dispatch(t))
        .or_else(|| crate::ops_c32::dispatch(t))
        .or_else(|| crate::ops_c16::dispatch(t))
        .or_else(|| crate::ops_c24::dispatch(t))
        .or_else(|| crate::ops_c25::dispatch(t))
        .or_else(|| crate::ops_c23::dispatch(t))
        .or_else(|| crate::ops_c11::dispatch(t))
        .or_else(|| crate::ops_c22::dispatch(t))
        // ADD-OPS-HERE (one `.or_else(|| crate::ops_cNN::dispatch(t))` line per module)
        .unwrap_or_else(|| "bad-op".into())
}
