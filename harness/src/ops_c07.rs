//! C07 ops: run the real string-merging code (libwild::verif_api::strmerge) on given sections.
//!   sm-bucket <hex>                                   -> bucket index of a string (real hash)
//!   sm-split <group_bytes> <secs>                     -> real split_sections group ranges
//!   sm-merge <group_bytes> <par> <threads> <secs> <table> <queries>
//! secs    = comma list of `S:<hex>` (string section) / `N:<hex>` (non-string merge section)
//! table   = comma list `<hex>=<bucket>` (used by the model as the bucket function; checked here)
//! queries = comma list `<sec>:<value>:<addend>:<n|s>` (named symbol / section symbol), or `-`
use crate::ops::{hex, u, unhex};
use libwild::verif_api::strmerge as sm;

fn secs(s: &str) -> Vec<(Vec<u8>, bool)> {
    if s == "-" {
        return Vec::new();
    }
    s.split(',')
        .map(|p| {
            let (k, h) = p.split_once(':').expect("sec");
            (unhex(if h.is_empty() { "-" } else { h }), k == "S")
        })
        .collect()
}

fn err_class(msg: &str) -> &'static str {
    if msg.contains("not null-terminated") {
        "unterminated"
    } else if msg.contains("bucket too large") {
        "toolarge"
    } else if msg.contains("Failed to find merge-string") {
        "notfound"
    } else {
        "other"
    }
}

pub fn dispatch(t: &[&str]) -> Option<String> {
    Some(match t[0] {
        "sm-bucket" => format!("{}", sm::bucket_of(&unhex(t[1]))),
        "sm-split" => {
            let g = sm::split(&secs(t[2]), u(t[1]));
            if g.is_empty() {
                "-".to_string()
            } else {
                g.iter().map(|(f, n, lo, hi)| format!("{f}:{n}:{lo}:{hi}")).collect::<Vec<_>>().join(";")
            }
        }
        "sm-merge" => {
            let sections = secs(t[4]);
            if t[5] != "-" {
                for e in t[5].split(',') {
                    let (h, b) = e.split_once('=').expect("table");
                    if sm::bucket_of(&unhex(h)) as u64 != u(b) {
                        return Some("bad-table".into());
                    }
                }
            }
            let queries: Vec<(usize, u64, i64, bool)> = if t[6] == "-" {
                Vec::new()
            } else {
                t[6].split(',')
                    .map(|q| {
                        let p: Vec<&str> = q.split(':').collect();
                        (u(p[0]) as usize, u(p[1]), p[2].parse::<i64>().expect("addend"), p[3] == "n")
                    })
                    .collect()
            };
            match sm::merge(&sections, u(t[1]), u(t[2]), u(t[3]) as usize, &queries) {
                Err(e) => format!("err {}", err_class(&e)),
                Ok(m) => {
                    let off = m.bucket_offsets.iter().map(|o| format!("{o:x}")).collect::<Vec<_>>().join(",");
                    let bytes = m.bucket_bytes.iter().map(|b| hex(b)).collect::<Vec<_>>().join(",");
                    let map = if m.map.is_empty() {
                        "-".to_string()
                    } else {
                        m.map.iter().map(|(k, v)| format!("{k:x}:{v:x}")).collect::<Vec<_>>().join(",")
                    };
                    let q = if m.answers.is_empty() {
                        "-".to_string()
                    } else {
                        m.answers
                            .iter()
                            .map(|a| match a {
                                Ok(v) => format!("{v:x}"),
                                Err(e) => format!("e:{}", err_class(e)),
                            })
                            .collect::<Vec<_>>()
                            .join(",")
                    };
                    format!("ok off={off} bytes={bytes} map={map} q={q}")
                }
            }
        }
        _ => return None,
    })
}
