//! C11: range-extension thunks. Calls the real `assign_thunk_blocks` / `ElfAArch64::write_thunk`.
use crate::ops::{hex, u};
use libwild::verif_api::thunks as v;

pub fn dispatch(t: &[&str]) -> Option<String> {
    Some(match t[0] {
        // thunk-assign <max_branch_range> <start>:<end>...   (objects in address order)
        // -> n=<num_blocks> <block>:<o|-> per object (final state after all `assign` callbacks; the
        //    callback overwrites (thunk_block_id, owns_thunk_block), so the last call wins; `none` if
        //    the object never received a callback)
        "thunk-assign" => {
            let r = u(t[1]);
            let ranges: Vec<(u64, u64)> = t[2..]
                .iter()
                .map(|p| {
                    let (a, b) = p.split_once(':').expect("start:end");
                    (u(a), u(b))
                })
                .collect();
            let (n, calls) = v::assign_thunk_blocks(&ranges, r);
            let mut fin: Vec<Option<(u32, bool)>> = vec![None; ranges.len()];
            for (obj, block, owner) in calls {
                fin[obj as usize] = Some((block, owner));
            }
            let mut s = format!("n={n}");
            for f in fin {
                match f {
                    Some((b, o)) => s.push_str(&format!(" {b}:{}", if o { "o" } else { "-" })),
                    None => s.push_str(" none"),
                }
            }
            s
        }
        "thunk-write" => hex(&v::aarch64_write_thunk(u(t[1]), u(t[2]))),
        "thunk-consts" => {
            let (r, sz, m) = v::aarch64_thunk_constants();
            format!("min_branch_range=0x{r:x} thunk_size=0x{sz:x} max_thunk_bytes=0x{m:x}")
        }
        _ => return None,
    })
}
