//! C12 / C13: implementation side. Calls the real `linker_utils` code (public crate, no hooks).
//!
//! Line ops:
//!   insn-write <arch> <kind> <value> <neg:0|1> <word>   -> 0x<word after write_to_value>
//!   insn-read  <arch> <kind> <word>                     -> 0x<value> <neg:0|1>
//!   reloc-write <arch> <r_type> <value> <buflen>        -> ok <hex bytes> | err:align | err:range | err:bounds | none
//!       (`RelocationKindInfo::write_to_buffer` on a buffer of `buflen` bytes initialised to 0xa5;
//!        instruction (bit-mask) rows use a zero buffer so that the result is the pure field image)
//!   range-from-bits <n_bits> <signed:0|1>               -> <min> <max> | panic:...
//!   range-contains <min> <max> <value>                  -> 0|1
//! Sub-command (argv[1]): `wvh dump-reloc-tables` prints every recognised r_type in 0..65536 of the
//! four architectures, one row per line (see `dump_reloc_tables`).
use crate::ops::hex;
use crate::ops::u;
use linker_utils::elf::AArch64Instruction as A;
use linker_utils::elf::AllowedRange;
use linker_utils::elf::LoongArch64Instruction as L;
use linker_utils::elf::PageMask;
use linker_utils::elf::RelocationInstruction;
use linker_utils::elf::RelocationKindInfo;
use linker_utils::elf::RelocationSize;
use linker_utils::elf::RiscVInstruction as R;
use linker_utils::elf::Sign;

fn insn(arch: &str, kind: &str) -> Option<(RelocationInstruction, usize)> {
    Some(match (arch, kind) {
        ("aarch64", "Adr") => (RelocationInstruction::AArch64(A::Adr), 4),
        ("aarch64", "Movkz") => (RelocationInstruction::AArch64(A::Movkz), 4),
        ("aarch64", "Movnz") => (RelocationInstruction::AArch64(A::Movnz), 4),
        ("aarch64", "Ldr") => (RelocationInstruction::AArch64(A::Ldr), 4),
        ("aarch64", "LdrRegister") => (RelocationInstruction::AArch64(A::LdrRegister), 4),
        ("aarch64", "Add") => (RelocationInstruction::AArch64(A::Add), 4),
        ("aarch64", "LdSt") => (RelocationInstruction::AArch64(A::LdSt), 4),
        ("aarch64", "TstBr") => (RelocationInstruction::AArch64(A::TstBr), 4),
        ("aarch64", "Bcond") => (RelocationInstruction::AArch64(A::Bcond), 4),
        ("aarch64", "JumpCall") => (RelocationInstruction::AArch64(A::JumpCall), 4),
        ("riscv64", "UiType") => (RelocationInstruction::RiscV(R::UiType), 8),
        ("riscv64", "UType") => (RelocationInstruction::RiscV(R::UType), 4),
        ("riscv64", "IType") => (RelocationInstruction::RiscV(R::IType), 4),
        ("riscv64", "SType") => (RelocationInstruction::RiscV(R::SType), 4),
        ("riscv64", "BType") => (RelocationInstruction::RiscV(R::BType), 4),
        ("riscv64", "JType") => (RelocationInstruction::RiscV(R::JType), 4),
        ("riscv64", "CbType") => (RelocationInstruction::RiscV(R::CbType), 2),
        ("riscv64", "CjType") => (RelocationInstruction::RiscV(R::CjType), 2),
        ("riscv64", "CluiType") => (RelocationInstruction::RiscV(R::CluiType), 2),
        ("loongarch64", "Shift5") => (RelocationInstruction::LoongArch64(L::Shift5), 4),
        ("loongarch64", "Shift10") => (RelocationInstruction::LoongArch64(L::Shift10), 4),
        ("loongarch64", "Branch21") => (RelocationInstruction::LoongArch64(L::Branch21), 4),
        ("loongarch64", "Branch26") => (RelocationInstruction::LoongArch64(L::Branch26), 4),
        ("loongarch64", "Call30") => (RelocationInstruction::LoongArch64(L::Call30), 8),
        ("loongarch64", "Call36") => (RelocationInstruction::LoongArch64(L::Call36), 8),
        _ => return None,
    })
}

fn lookup(arch: &str, r_type: u32) -> Option<RelocationKindInfo> {
    match arch {
        "x86_64" => linker_utils::x86_64::relocation_from_raw(r_type),
        "aarch64" => linker_utils::aarch64::relocation_type_from_raw(r_type),
        "riscv64" => linker_utils::riscv64::relocation_type_from_raw(r_type),
        "loongarch64" => linker_utils::loongarch64::relocation_type_from_raw(r_type),
        _ => panic!("unknown arch"),
    }
}

fn i(s: &str) -> i64 {
    if let Some(r) = s.strip_prefix('-') { (u(r) as i64).wrapping_neg() } else { u(s) as i64 }
}

pub fn dispatch(t: &[&str]) -> Option<String> {
    Some(match t[0] {
        "insn-write" => {
            let Some((k, len)) = insn(t[1], t[2]) else { return Some("bad-kind".into()) };
            let mut buf = u(t[5]).to_le_bytes();
            k.write_to_value(u(t[3]), t[4] == "1", &mut buf[..len]);
            // bytes beyond `len` are untouched by construction (the slice ends there)
            format!("0x{:x}", u64::from_le_bytes(buf))
        }
        "insn-read" => {
            let Some((k, len)) = insn(t[1], t[2]) else { return Some("bad-kind".into()) };
            let mut buf = [0u8; 8];
            buf.copy_from_slice(&u(t[3]).to_le_bytes());
            // readers of 2-byte kinds index bytes[0..2]; 4-byte kinds need >= 4 bytes
            let (v, neg) = k.read_value(&buf[..len.max(4)]);
            format!("0x{v:x} {}", u8::from(neg))
        }
        "reloc-write" => {
            let Some(info) = lookup(t[1], u(t[2]) as u32) else { return Some("none".into()) };
            let len = u(t[4]) as usize;
            let fill = if matches!(info.size, RelocationSize::BitMasking(_)) { 0 } else { 0xa5 };
            let mut buf = vec![fill; len];
            match info.write_to_buffer(u(t[3]), &mut buf) {
                Ok(()) => format!("ok {}", hex(&buf)),
                Err(e) => {
                    let m = e.to_string();
                    if m.contains("not aligned") {
                        "err:align".into()
                    } else if m.contains("outside of bounds [") {
                        "err:range".into()
                    } else if m.contains("bounds of section") || m.contains("ULEB128") {
                        "err:bounds".into()
                    } else {
                        format!("err:other:{m}")
                    }
                }
            }
        }
        "range-from-bits" => {
            let r = AllowedRange::from_bit_size(u(t[1]) as usize, if t[2] == "1" { Sign::Signed } else { Sign::Unsigned });
            format!("{} {}", r.min, r.max)
        }
        "range-contains" => {
            let r = AllowedRange::new(i(t[1]), i(t[2]));
            format!("{}", u8::from(r.contains(i(t[3]))))
        }
        _ => return None,
    })
}

fn size_str(s: &RelocationSize) -> String {
    match s {
        RelocationSize::ByteSize(n) => format!("bytes {n}"),
        RelocationSize::BitMasking(m) => {
            let (a, k) = match m.instruction {
                RelocationInstruction::AArch64(k) => ("aarch64", format!("{k:?}")),
                RelocationInstruction::RiscV(k) => ("riscv64", format!("{k:?}")),
                RelocationInstruction::LoongArch64(k) => ("loongarch64", format!("{k:?}")),
            };
            format!("bits {} {} {a}:{k}", m.range.start, m.range.end)
        }
    }
}

fn mask_str(m: &Option<PageMask>) -> String {
    match m {
        None => "nomask".into(),
        Some(PageMask::SymbolPlusAddendAndPosition(x)) => format!("SymbolPlusAddendAndPosition:0x{x:x}"),
        Some(PageMask::GotEntryAndPosition(x)) => format!("GotEntryAndPosition:0x{x:x}"),
        Some(PageMask::GotBase(x)) => format!("GotBase:0x{x:x}"),
        Some(PageMask::Position(x)) => format!("Position:0x{x:x}"),
    }
}

/// One row per recognised r_type:
/// `row <arch> <r_type> <name> <kind> <bytes N | bits S E arch:Insn> <min> <max> <alignment> <bias> <mask> <thunkable>`
/// followed by `none-count <arch> <number of r_types in 0..limit answering None>`.
pub fn dump_reloc_tables(limit: u32) {
    use std::io::Write;
    let out = std::io::stdout();
    let mut out = std::io::BufWriter::new(out.lock());
    for arch in ["x86_64", "aarch64", "riscv64", "loongarch64"] {
        let mut none = 0u64;
        for r in 0..limit {
            let Some(info) = lookup(arch, r) else {
                none += 1;
                continue;
            };
            let name = match arch {
                "x86_64" => linker_utils::elf::x86_64_rel_type_to_string(r),
                "aarch64" => linker_utils::elf::aarch64_rel_type_to_string(r),
                "riscv64" => linker_utils::elf::riscv64_rel_type_to_string(r),
                _ => linker_utils::elf::loongarch64_rel_type_to_string(r),
            };
            let name = if name.contains(' ') { format!("R_UNNAMED_{r}") } else { name.to_string() };
            let kind = format!("{:?}", info.kind).replace(['(', ')'], "_");
            writeln!(
                out,
                "row {arch} {r} {name} {kind} {} {} {} {} {} {} {}",
                size_str(&info.size),
                info.range.min,
                info.range.max,
                info.alignment,
                info.bias,
                mask_str(&info.mask),
                u8::from(info.thunkable)
            )
            .unwrap();
        }
        writeln!(out, "none-count {arch} {none}").unwrap();
    }
}

/// argv handling for `wvh dump-reloc-tables [limit]`; returns true if it handled the invocation.
pub fn maybe_subcommand() -> bool {
    let args: Vec<String> = std::env::args().collect();
    if args.get(1).map(String::as_str) == Some("dump-reloc-tables") {
        let limit = args.get(2).map_or(65536, |s| s.parse::<u32>().expect("limit"));
        dump_reloc_tables(limit);
        return true;
    }
    false
}
