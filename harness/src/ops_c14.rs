//! C14: x86-64 relaxation decision + rewriting, through libwild::verif_api::x86relax (real code).
use crate::ops::{hex, u, unhex};
use libwild::verif_api::x86relax as x;

fn int(s: &str) -> i64 {
    if let Some(r) = s.strip_prefix('-') { -(u(r) as i64) } else { u(s) as i64 }
}

fn one(rt: u32, vf: u16, ok: u32, sf: u32, off: u64, add: i64, bytes: &[u8]) -> String {
    match x::x86_relax(rt, bytes, off, vf, ok, sf, add) {
        None => "none".into(),
        Some(o) => format!(
            "{} rt={} m={} skip={} off={} add={} {}",
            o.kind.replace(' ', ""),
            o.new_r_type,
            o.mandatory as u8,
            o.skip_next as u8,
            o.offset,
            o.addend,
            hex(&o.bytes)
        ),
    }
}

fn one_caught(rt: u32, vf: u16, ok: u32, sf: u32, off: u64, add: i64, bytes: &[u8]) -> String {
    let b = bytes.to_vec();
    match std::panic::catch_unwind(move || one(rt, vf, ok, sf, off, add, &b)) {
        Ok(s) => s,
        Err(e) => {
            let msg = if let Some(s) = e.downcast_ref::<String>() {
                s.clone()
            } else if let Some(s) = e.downcast_ref::<&str>() {
                s.to_string()
            } else {
                "?".to_string()
            };
            format!("panic:{}", crate::ops::panic_class(&msg))
        }
    }
}

pub fn dispatch(t: &[&str]) -> Option<String> {
    Some(match t[0] {
        // x86relax <r_type> <value_flags> <output_kind 0..5> <section_flags> <offset> <addend> <section bytes hex>
        "x86relax" => one(u(t[1]) as u32, u(t[2]) as u16, u(t[3]) as u32, u(t[4]) as u32, u(t[5]), int(t[6]), &unhex(t[7])),
        // x86relax-sweep <r_type> <vf> <ok> <sf> <offset> <addend> <i> <j> <bytes>: all 2^16 values of bytes[i],bytes[j];
        // prints the number of windows and every outcome other than `none`
        "x86relax-sweep" => {
            let (rt, vf, ok, sf, off, add) = (u(t[1]) as u32, u(t[2]) as u16, u(t[3]) as u32, u(t[4]) as u32, u(t[5]), int(t[6]));
            let (i, j) = (u(t[7]) as usize, u(t[8]) as usize);
            let mut bytes = unhex(t[9]);
            let mut out = Vec::new();
            for a in 0..=255u8 {
                for b in 0..=255u8 {
                    bytes[i] = a;
                    bytes[j] = b;
                    let r = one_caught(rt, vf, ok, sf, off, add, &bytes);
                    if r != "none" {
                        out.push(format!("{a:02x}{b:02x}={}", r.replace(' ', ",")));
                    }
                }
            }
            format!("n=65536 some={} {}", out.len(), if out.is_empty() { "-".to_string() } else { out.join("|") })
        }
        _ => return None,
    })
}
