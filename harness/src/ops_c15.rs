//! C15: linker-script input-section patterns. Calls the real `glob_match.rs` helpers (and through
//! them the `glob` crate), `SectionRule::{new,matches}`, `SectionRules::{from_rules,lookup}`.
//! All byte strings are hex ("-" = empty, "_" = absent).
use crate::ops::hex;
use crate::ops::unhex;
use libwild::verif_api::rules as r;

fn opt(s: &str) -> Option<Vec<u8>> {
    if s == "_" { None } else { Some(unhex(s)) }
}

fn err(e: &str) -> String {
    if e.contains("UTF-8") {
        "err:utf8".into()
    } else if e.contains("unexpected outcome") {
        "other-outcome".into()
    } else {
        "err:glob".into()
    }
}

fn b(x: bool) -> String {
    if x { "1".into() } else { "0".into() }
}

struct Owned {
    ctor: r::RuleCtor,
    keep: bool,
    pattern: Vec<u8>,
    file_pattern: Option<Vec<u8>>,
}

/// `<n|e|p><0|1>:<pattern>:<file pattern|_>`
fn parse_rule(s: &str) -> Owned {
    let parts: Vec<&str> = s.split(':').collect();
    let head = parts[0].as_bytes();
    Owned {
        ctor: match head[0] {
            b'n' => r::RuleCtor::New,
            b'e' => r::RuleCtor::Exact,
            b'p' => r::RuleCtor::Prefix,
            _ => panic!("bad ctor"),
        },
        keep: head[1] == b'1',
        pattern: unhex(parts[1]),
        file_pattern: opt(parts[2]),
    }
}

fn spec(o: &Owned) -> r::RuleSpec<'_> {
    r::RuleSpec { ctor: o.ctor, keep: o.keep, pattern: &o.pattern, file_pattern: o.file_pattern.as_deref() }
}

pub fn dispatch(t: &[&str]) -> Option<String> {
    Some(match t[0] {
        "glob-analyze" => r::glob_analyze(&unhex(t[1])).to_string(),
        "glob-unescape" => hex(&r::glob_unescape(&unhex(t[1]))),
        "glob-match" => match r::glob_compile_matches(&unhex(t[1]), &unhex(t[2])) {
            Ok(m) => b(m),
            Err(e) => err(&e),
        },
        "rule-new" => match r::rule_new(&unhex(t[1]), opt(t[2]).as_deref()) {
            Ok((k, bytes)) => format!("{}:{}", ["exact", "prefix", "glob"][k as usize], hex(&bytes)),
            Err(e) => err(&e),
        },
        "rule-match" => {
            let o = parse_rule(t[1]);
            match r::rule_matches(&spec(&o), &unhex(t[2]), opt(t[3]).as_deref()) {
                Ok(m) => b(m),
                Err(e) => err(&e),
            }
        }
        "rules-lookup" => {
            let owned: Vec<Owned> = t[3..].iter().map(|s| parse_rule(s)).collect();
            let specs: Vec<r::RuleSpec> = owned.iter().map(spec).collect();
            match r::rules_lookup(&specs, &unhex(t[1]), opt(t[2]).as_deref()) {
                Ok(Some((i, keep))) => format!("{i} {}", b(keep)),
                Ok(None) => "none".into(),
                Err(e) => err(&e),
            }
        }
        _ => return None,
    })
}
