//! C16: linker-script expression parser / evaluator ops (real code via libwild::verif_api::expr).
use crate::ops::unhex;
use libwild::verif_api::expr as v;

pub fn dispatch(t: &[&str]) -> Option<String> {
    Some(match t[0] {
        // expr-parse <hex-of-text> -> s-expression | err
        "expr-parse" => {
            let text = unhex(t.get(1).copied().unwrap_or("-"));
            v::expr_parse_sexp(&text).unwrap_or_else(|| "err".into())
        }
        // expr-eval <hex-of-text> -> 0x.. | err:<class>
        "expr-eval" => {
            let text = unhex(t.get(1).copied().unwrap_or("-"));
            match v::expr_eval(&text) {
                Ok(x) => format!("0x{x:x}"),
                Err(c) => format!("err:{c}"),
            }
        }
        _ => return None,
    })
}
