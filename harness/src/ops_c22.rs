//! C22: the real text / archive parsers on arbitrary bytes (panics are caught by main.rs and printed
//! as `panic:<class>`).
use crate::ops::{hex, unhex};
use libwild::verif_api::malformed as m;

fn ar_class(msg: &str) -> &'static str {
    if msg.contains("Invalid archive size") {
        "size"
    } else if msg.contains("Unsupported archive identifier") {
        "ident"
    } else if msg.contains("Invalid archive member header") {
        "header"
    } else if msg.contains("Invalid archive terminator") {
        "terminator"
    } else if msg.contains("Invalid archive member size") {
        "member-size"
    } else if msg.contains("Invalid archive extended name offset") {
        "ext-name-offset"
    } else if msg.contains("Invalid archive extended name length") {
        "ext-name-length"
    } else if msg.contains("Archive member size is too large") {
        "too-large"
    } else {
        "other"
    }
}

fn args_class(msg: &str) -> &'static str {
    if msg.contains("Missing closing") {
        "missing-closing"
    } else if msg.contains("Expected white space") {
        "expected-ws"
    } else if msg.contains("Missing opening quote") {
        "missing-opening"
    } else if msg.contains("Invalid escape") {
        "invalid-escape"
    } else if msg.contains("Failed to read arguments") {
        "read"
    } else {
        "other"
    }
}

fn entries(ms: &[m::Member]) -> String {
    if ms.is_empty() {
        return "-".into();
    }
    ms.iter()
        .map(|e| format!("{}:{}:{}:{}", if e.thin { "t" } else { "r" }, hex(&e.name), e.data_offset, e.data_len))
        .collect::<Vec<_>>()
        .join(",")
}

pub fn dispatch(t: &[&str]) -> Option<String> {
    Some(match t[0] {
        "mal-args" => {
            let bytes = unhex(t[1]);
            let path = std::env::temp_dir().join(format!("wvh-c22-args-{}", std::process::id()));
            std::fs::write(&path, &bytes).expect("write temp");
            let r = m::args_from_file(&path);
            let _ = std::fs::remove_file(&path);
            match r {
                Ok(args) => format!(
                    "ok {} {}",
                    args.len(),
                    if args.is_empty() { "-".to_string() } else { args.iter().map(|a| hex(a.as_bytes())).collect::<Vec<_>>().join("|") }
                ),
                Err(e) => format!("err {}", args_class(&e)),
            }
        }
        "mal-archive" => {
            let bytes = unhex(t[1]);
            if bytes.starts_with(b"<bigaf>\n") {
                // outside the model; still run it so that a panic is seen
                let _ = m::archive_members(&bytes);
                return Some("aixbig".into());
            }
            match m::archive_members(&bytes) {
                Ok(ms) => format!("walked - {} {}", ms.len(), entries(&ms)),
                Err((ms, e)) if ms.is_empty() && open_error(&bytes) => format!("open-err {}", ar_class(&e)),
                Err((ms, e)) => format!("walked {} {} {}", ar_class(&e), ms.len(), entries(&ms)),
            }
        }
        // accept/reject only (no Lean model of the winnow grammars): `ok` / `err`
        "mal-ldscript" => match m::parse_linker_script(&unhex(t[1])) { Ok(()) => "ok".into(), Err(_) => "err".into() },
        "mal-verscript" => match m::parse_version_script(&unhex(t[1])) { Ok(()) => "ok".into(), Err(_) => "err".into() },
        "mal-exportlist" => match m::parse_export_list(&unhex(t[1])) { Ok(()) => "ok".into(), Err(_) => "err".into() },
        _ => return None,
    })
}

/// Whether the error came from `ArchiveIterator::from_archive_bytes` (as opposed to the first `next`).
fn open_error(bytes: &[u8]) -> bool {
    libwild::verif_api::malformed::archive_open_fails(bytes)
}
