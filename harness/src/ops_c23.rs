//! C23: both sides of wild's per-resolution size accounting over the finite flag domain.
//! `alloc-row <flag bits> <output kind 0..4> <relr 0|1> <raw value> <has dynsym index 0|1>` calls the real
//! `Elf::allocate_resolution` (allocation side), the real `TableWriter::process_resolution`
//! (consumption side, dry-run against scratch buffers) and wild's own
//! `verify_resolution_allocation`, through `libwild::verif_api::alloc`.
use libwild::verif_api::alloc;

fn counts(c: &[u64; 6]) -> String {
    c.iter().map(|x| x.to_string()).collect::<Vec<_>>().join(",")
}

fn class(msg: &str) -> String {
    let m = msg;
    let c = if m.contains("Layout must be present") {
        "needs-layout"
    } else if m.contains("Cannot create dynamic TLSDESC") {
        "tlsdesc-in-static-exe"
    } else if m.contains("Insufficient") {
        "insufficient"
    } else if m.contains("Allocated too much") {
        "excess"
    } else if m.contains("Didn't allocate enough space in .plt.got") {
        "insufficient-plt"
    } else if m.contains("Missing PLT address") {
        "missing-plt-address"
    } else if m.contains("Expected address") {
        "expected-address"
    } else if m.contains("Missing dynamic_symbol_index") {
        "missing-dynsym-index"
    } else if m.contains("non-relocatable output") || m.contains("output is not dynamic") {
        "not-dynamic-output"
    } else if m.contains("no allocation") {
        "debug-assert-no-allocation"
    } else {
        "other"
    };
    format!("err:{c}")
}

pub fn dispatch(t: &[&str]) -> Option<String> {
    match t {
        ["alloc-row", flags, kind, relr, raw, dynidx] => {
            let flags = crate::ops::u(flags) as u16;
            let kind = crate::ops::u(kind) as u32;
            let raw = crate::ops::u(raw);
            let row = alloc::alloc_vs_consume(flags, kind, *relr == "1", raw, *dynidx == "1");
            let c = match &row.consume {
                Ok(c) => counts(c),
                Err(e) => class(e),
            };
            let v = match &row.verify {
                Ok(()) => "ok".to_string(),
                Err(e) => class(e),
            };
            Some(format!("A={} C={} V={}", counts(&row.alloc), c, v))
        }
        ["alloc-row-msg", flags, kind, relr, raw, dynidx] => {
            let row = alloc::alloc_vs_consume(
                crate::ops::u(flags) as u16,
                crate::ops::u(kind) as u32,
                *relr == "1",
                crate::ops::u(raw),
                *dynidx == "1",
            );
            Some(format!("{:?} | {:?}", row.consume, row.verify).replace('\n', " "))
        }
        _ => None,
    }
}
