//! C24: save-dir argument rendering (`SaveDirState::write_args` on the real file system) and the
//! response-file tokenizer. Strings travel as hex of their UTF-8 bytes.
use crate::ops::{hex, unhex};
use libwild::verif_api::savedir as sd;
use std::path::PathBuf;

fn s(h: &str) -> String {
    String::from_utf8(unhex(h)).expect("utf8")
}

fn args_of(toks: &[&str]) -> Vec<String> {
    // <hex>:<flags>; the flags are for the model (the real code looks at the file system).
    toks.iter().map(|t| s(t.split(':').next().unwrap())).collect()
}

fn render(t: &[&str], is_rsp: bool) -> String {
    let cwd = PathBuf::from(s(t[1]));
    let save_dir = PathBuf::from(s(t[2]));
    std::env::set_current_dir(&cwd).expect("chdir");
    match sd::render_args(&save_dir, &args_of(&t[3..]), is_rsp) {
        Ok(r) => format!("ok {}", hex(&r.args)),
        Err(_) => "err".into(),
    }
}

pub fn dispatch(t: &[&str]) -> Option<String> {
    Some(match t[0] {
        "c24-emit" => render(t, false),
        "c24-rsp" => render(t, true),
        "c24-tok" => {
            let dir = std::env::temp_dir().join(format!("wvh-c24-{}", std::process::id()));
            std::fs::create_dir_all(&dir).expect("mkdir");
            let p = dir.join("tok.rsp");
            std::fs::write(&p, unhex(t[1])).expect("write");
            let r = sd::read_args_from_file(&p);
            let _ = std::fs::remove_dir_all(&dir);
            match r {
                Ok(a) if a.is_empty() => "ok none".into(),
                Ok(a) => format!("ok {}", a.iter().map(|x| hex(x.as_bytes())).collect::<Vec<_>>().join(",")),
                Err(_) => "err".into(),
            }
        }
        _ => return None,
    })
}
