//! C25: the real `write_dependency_file` on a given loaded-files list.
use crate::ops::{hex, unhex};
use libwild::verif_api::depfile;
use std::path::PathBuf;

fn s(h: &str) -> String {
    String::from_utf8(unhex(h)).expect("utf8")
}

pub fn dispatch(t: &[&str]) -> Option<String> {
    Some(match t[0] {
        "c25-write" => {
            let out = PathBuf::from(s(t[1]));
            let files: Vec<(PathBuf, bool)> = t[2..]
                .iter()
                .map(|f| {
                    let mut it = f.split(':');
                    let name = s(it.next().unwrap());
                    (PathBuf::from(name), it.next() == Some("t"))
                })
                .collect();
            let dir = std::env::temp_dir().join(format!("wvh-c25-{}", std::process::id()));
            std::fs::create_dir_all(&dir).expect("mkdir");
            let p = dir.join("out.d");
            let r = depfile::write_dependency_file(&p, &out, &files);
            let text = std::fs::read(&p);
            let _ = std::fs::remove_dir_all(&dir);
            match (r, text) {
                (Ok(()), Ok(text)) => format!("ok {}", hex(&text)),
                _ => "err".into(),
            }
        }
        _ => return None,
    })
}
