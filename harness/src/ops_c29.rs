use crate::ops::u;
use libwild::verif_api as v;

pub fn dispatch(t: &[&str]) -> Option<String> {
    Some(match t[0] {
        "align-new" => match v::alignment_new(u(t[1])) {
            Some(e) => format!("ok {e}"),
            None => "err".into(),
        },
        "align-up" => format!("0x{:x}", v::align_up(u(t[1]) as u8, u(t[2]))),
        "align-down" => format!("0x{:x}", v::align_down(u(t[1]) as u8, u(t[2]))),
        "align-mod" => format!("0x{:x}", v::align_modulo(u(t[1]) as u8, u(t[2]), u(t[3]))),
        _ => return None,
    })
}
