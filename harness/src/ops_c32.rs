//! C32: version scripts. Parses the script TEXT (hex) with the real parser and queries the real
//! `find_match` / `version_for_symbol` / `is_local`. The structured description that follows the
//! text on the request line is for the model side only.
use crate::ops::hex;
use crate::ops::unhex;
use libwild::verif_api::versions as v;

pub fn dispatch(t: &[&str]) -> Option<String> {
    Some(match t[0] {
        // vs-find <name> <script text> <structure...>
        "vs-find" => {
            let text = unhex(t[2]);
            let name = unhex(t[1]);
            match v::parse(&text) {
                Err(_) => "parse-err".into(),
                Ok(s) => match s.query(&name) {
                    Err(_) => "query-err".into(),
                    Ok(a) => {
                        if s.is_rust_style() {
                            format!("rust local:{}", a.is_local as u8)
                        } else {
                            let fm = match a.find_match {
                                None => "none".to_string(),
                                Some((i, l)) => format!("{i}{}", if l { "L" } else { "G" }),
                            };
                            let ver = a.version_index.map_or("none".to_string(), |n| n.to_string());
                            format!("fm:{fm} ver:{ver} local:{}", a.is_local as u8)
                        }
                    }
                },
            }
        }
        // vs-nodes <script text> <structure...>
        "vs-nodes" => match v::parse(&unhex(t[1])) {
            Err(_) => "parse-err".into(),
            Ok(s) => {
                if s.is_rust_style() {
                    "rust".into()
                } else {
                    let nodes: Vec<String> = s
                        .nodes()
                        .iter()
                        .map(|n| format!("{}:{}", hex(&n.name), n.parent_index.map_or("_".to_string(), |p| p.to_string())))
                        .collect();
                    format!("count:{} parents:{} {}", s.version_count(), s.parent_count(), nodes.join(" "))
                }
            }
        },
        _ => return None,
    })
}
