import Driver.Util
import Driver.OpsAlign
import Driver.OpsX86Relax
import Driver.OpsLink
import Driver.OpsStrMerge
import Driver.OpsExpr
import Driver.OpsProtoMerge
import Driver.OpsProtoLayout
import Driver.OpsShQuote
import Driver.OpsInsn
import Driver.OpsReloc
import Driver.OpsGlob
import Driver.OpsVersion
import Driver.OpsProc
import Driver.OpsFs
import Driver.OpsHash
import Driver.OpsRelr
import Driver.OpsNotes
import Driver.OpsRelocValue
import Driver.OpsLayout
import Driver.OpsAlloc
import Driver.OpsInitFini
import Driver.OpsThunks
import Driver.OpsSymTab
import Driver.OpsPartial
import Driver.OpsC26C22
import Driver.OpsGc
import Driver.OpsEhFrame
/-! `wmdriver`: evaluates the executable Lean models on the same line protocol as `wvh`. -/
namespace Driver

def dispatch (t : List String) : String :=
  match t with
  | [] => "bad-op"
  | op :: _ =>
    let _ := op
    -- each `opsX` returns `none` for ops it does not own; ADD-OPS-HERE
    let r : Option String :=
      (opsAlign t)
      <|> (opsLink t)
      <|> (opsX86Relax t)
      <|> (opsStrMerge t)
      <|> (opsExpr t)
      <|> (opsProtoMerge t)
      <|> (opsProtoLayout t)
      <|> (opsShQuote t)
      <|> (opsInsn t)
      <|> (opsReloc t)
      <|> (opsGlob t)
      <|> (opsVersion t)
      <|> (opsProc t)
      <|> (opsFs t)
      <|> (opsHash t)
      <|> (opsRelr t)
      <|> (opsNotes t)
      <|> (opsRelocValue t)
      <|> (opsLayout t)
      <|> (opsAlloc t)
      <|> (opsInitFini t)
      <|> (opsThunks t)
      <|> (opsSymTab t)
      <|> (opsPartial t)
      <|> (opsC26C22 t)
      <|> (opsGc t)
      <|> (opsEhFrame t)
      -- <|> (opsFoo t)
    r.getD "bad-op"

partial def loop (h : IO.FS.Stream) (out : IO.FS.Stream) : IO Unit := do
  let line ← h.getLine
  if line.isEmpty then return ()
  out.putStrLn (dispatch (words line))
  loop h out

end Driver

def main : IO Unit := do
  let out ← IO.getStdout
  Driver.loop (← IO.getStdin) out
  out.flush
