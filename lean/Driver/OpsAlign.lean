import Driver.Util
import WildModel.Model.Align
namespace Driver
open Wild.Align

def opsAlign (t : List String) : Option String :=
  match t with
  | ["align-new", a] => do
      let a ← parseNat? a
      some (match new (BitVec.ofNat 64 a) with | some e => s!"ok {e}" | none => "err")
  | ["align-up", e, v] => do
      let e ← parseNat? e; let v ← parseNat? v
      let v := BitVec.ofNat 64 v
      some (if overflows v (value e) then "panic:overflow" else hex64 (alignUp e v))
  | ["align-down", e, v] => do
      let e ← parseNat? e; let v ← parseNat? v
      some (hex64 (alignDown e (BitVec.ofNat 64 v)))
  | ["align-mod", e, r, o] => do
      let e ← parseNat? e; let r ← parseNat? r; let o ← parseNat? o
      let o := BitVec.ofNat 64 o; let r := BitVec.ofNat 64 r
      if overflows o (value e) then some "panic:overflow" else
      let u := alignUp e o
      -- debug-build overflow checks on the adjustment arithmetic
      let m := mask e
      if (u &&& m) = (r &&& m) then some (hex64 u) else
      let adj0 := (r &&& m).toNat + (value e).toNat
      if adj0 ≥ 2^64 ∨ adj0 < (u &&& m).toNat then some "panic:overflow" else
      let res := alignModulo e r o
      let adj := adj0 - (u &&& m).toNat
      let adj := if adj > (value e).toNat then adj - (value e).toNat else adj
      if u.toNat + adj ≥ 2^64 then some "panic:overflow" else some (hex64 res)
  | _ => none

end Driver
