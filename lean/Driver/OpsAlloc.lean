import Driver.Util
import WildModel.Model.Alloc
/-! C23 line protocol (model side).
`alloc-row <flag bits> <kind 0..4> <relr 0|1> <raw value> <dynidx 0|1>`
  → `A=<got,plt,relaplt,general,relative,relr> C=<counts | err:class> valid=<0|1>` -/
namespace Driver
open Wild.Alloc

def showCounts (c : Counts) : String :=
  ",".intercalate ([c.got, c.plt, c.relaPlt, c.general, c.relative, c.relr].map toString)

def refusalName : Refusal → String
  | .noAllocation => "err:debug-assert-no-allocation"
  | .missingDynsymIndex => "err:missing-dynsym-index"
  | .notDynamicOutput => "err:not-dynamic-output"
  | .missingPltAddress => "err:missing-plt-address"
  | .expectedAddress => "err:expected-address"
  | .tlsdescInStaticExe => "err:tlsdesc-in-static-exe"

def kindOfNat? : Nat → Option Kind
  | 0 => some .staticExe | 1 => some .staticPie | 2 => some .dynExe | 3 => some .dynPie | 4 => some .shared
  | _ => none

def resOfBits (flags : Nat) (k : Kind) (relr dynIdx rawZero : Bool) : Res :=
  let b (i : Nat) : Bool := flags.testBit i
  ⟨⟨b 0, b 1, b 2, b 3, b 7, b 8, b 9, b 10, b 11, b 12, b 14⟩, k, relr, dynIdx, rawZero⟩

def opsAlloc (t : List String) : Option String :=
  match t with
  | ["alloc-row", flags, kind, relr, raw, dynidx] => do
    let flags ← parseNat? flags
    let k ← (← parseNat? kind) |> kindOfNat?
    let raw ← parseNat? raw
    let r := resOfBits flags k (relr == "1") (dynidx == "1") (raw == 0)
    let c := match consume r with
      | .ok c => showCounts c
      | .error e => refusalName e
    some s!"A={showCounts (alloc r)} C={c} valid={if Valid r then 1 else 0}"
  | ["alloc-row-old", flags, kind, relr, raw, dynidx] => do
    let flags ← parseNat? flags
    let k ← (← parseNat? kind) |> kindOfNat?
    let raw ← parseNat? raw
    let r := resOfBits flags k (relr == "1") (dynidx == "1") (raw == 0)
    let c := match consumeOld r with
      | .ok c => showCounts c
      | .error e => refusalName e
    some s!"A={showCounts (allocOld r)} C={c} valid={if Valid r then 1 else 0}"
  | _ => none

end Driver
