import Driver.OpsErrSelect
import Driver.OpsMalformed
/-! Single registration point for the C26 / C22 driver ops. -/
namespace Driver

def opsC26C22 (t : List String) : Option String :=
  (opsErrSelect t) <|> (opsMalformed t)

end Driver
