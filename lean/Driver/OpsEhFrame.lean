import Driver.Util
import WildModel.Model.EhFrame
/-! C10 line protocol (model side).
`ehframe <base> <obj> <obj> ...`, `<obj>` = `<secs>|<entries>`; `<secs>` = `,`-separated `<addr or ->:<size>`;
`<entries>` = `,`-separated `C:<size>:<tag>` or `F:<size>:<ciePos>:<target or ->:<off>` (the entries of all
`.eh_frame` input sections of the object, in section order; `<ciePos>` is an offset in that concatenation)
→ `count=<n> hdr=<pc>:<fde>,... fdes=<addr>:<cieAddr>:<pc>,... cies=<addr>:<tag>,...` or `fail`. -/
namespace Driver
open Wild.EhFrame

def parseOptNat? (s : String) : Option (Option Nat) :=
  if s == "-" then some none else (parseNat? s).map some

def parseEhSec? (s : String) : Option Sec :=
  match s.splitOn ":" with
  | [a, sz] => do let a ← parseOptNat? a; let sz ← parseNat? sz; some { addr := a, size := sz }
  | _ => none

def parseEhEntry? (s : String) : Option Entry :=
  match s.splitOn ":" with
  | ["C", sz, tag] => do let sz ← parseNat? sz; let tag ← parseNat? tag; some (.cie sz tag)
  | ["F", sz, cp, tg, off] => do
    let sz ← parseNat? sz; let cp ← parseNat? cp; let tg ← parseOptNat? tg; let off ← parseNat? off
    some (.fde { size := sz, ciePos := cp, target := tg, off := off })
  | _ => none

def parseEhObj? (s : String) : Option Obj :=
  match s.splitOn "|" with
  | [secs, ents] => do
    let ss ← ((secs.splitOn ",").filter (fun x => !x.isEmpty)).mapM parseEhSec?
    let es ← ((ents.splitOn ",").filter (fun x => !x.isEmpty)).mapM parseEhEntry?
    some { entries := es, secs := ss }
  | _ => none

def opsEhFrame (t : List String) : Option String :=
  match t with
  | "ehframe" :: base :: rest => do
    let base ← parseNat? base
    let objs ← rest.mapM parseEhObj?
    match link objs base with
    | none => some "fail"
    | some r =>
      let hdr := ",".intercalate (r.hdr.map fun p => s!"{hexOfNat p.1}:{hexOfNat p.2}")
      let fdes := ",".intercalate (r.outs.filterMap fun x => match x with
        | .fde a c p _ => some s!"{hexOfNat a}:{hexOfNat c}:{hexOfNat p}"
        | .cie .. => none)
      let cies := ",".intercalate (r.outs.filterMap fun x => match x with
        | .cie a t => some s!"{hexOfNat a}:{t}"
        | .fde .. => none)
      some s!"count={r.count} hdr={hdr} fdes={fdes} cies={cies}"
  | _ => none

end Driver
