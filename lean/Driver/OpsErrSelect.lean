import Driver.Util
import WildModel.Model.ErrSelect
/-! C26 ops. Messages travel as hex of their UTF-8 bytes; each byte becomes one `Char` (byte order =
Rust's `String` order). `-` is "no error" (writer op) / the empty message.
  errsel-image <last|first|least> <hex>...   messages the selection can report over ALL arrival orders
  errsel-select <last|first|least> <hex>...  the selection for exactly this arrival order
  errsel-dup <hex>...                        the duplicate-symbol report for this arrival order
  errsel-warn <hex>...                       the warning set (sorted)
  errsel-writer <hex|->...                   per-group results in group order: the reported error
-/
namespace Driver
open Wild.ErrSelect

private def msgOfHex? (s : String) : Option String :=
  (parseHexBytes? s).map (fun bs => String.ofList (bs.map (fun b => Char.ofNat b.toNat)))

private def hexOfMsg (s : String) : String :=
  if s.isEmpty then "-" else hexBytes (s.toList.map (fun c => UInt8.ofNat c.toNat))

private def errsOf? (ws : List String) : Option (List Err) :=
  let rec go : List String → Nat → Option (List Err)
    | [], _ => some []
    | w :: r, i => do
        let m ← msgOfHex? w
        let rest ← go r (i + 1)
        some (⟨m, i⟩ :: rest)
  go ws 0

private def selOf? (s : String) : Option (List Err → Option Err) :=
  match s with
  | "last" => some selectLastArrival
  | "first" => some selectFirstArrival
  | "least" => some selectLeast
  | _ => none

def opsErrSelect (t : List String) : Option String :=
  match t with
  | "errsel-image" :: site :: ws => do
      let sel ← selOf? site
      let es ← errsOf? ws
      if es.length > 7 then some "too-many" else
      let im := image sel es
      some (if im.isEmpty then "none" else ",".intercalate (im.map hexOfMsg))
  | "errsel-select" :: site :: ws => do
      let sel ← selOf? site
      let es ← errsOf? ws
      some (match reported (sel es) with | some m => hexOfMsg m | none => "none")
  | "errsel-dup" :: ws => do
      let es ← errsOf? ws
      some (match selectDup es with | some m => hexOfMsg m | none => "none")
  | "errsel-warn" :: ws => do
      let es ← errsOf? ws
      let w := warningSet es
      some (if w.isEmpty then "none" else ",".intercalate (w.map hexOfMsg))
  | "errsel-writer" :: ws => do
      let rs ← ws.mapM (fun w => if w == "-" then some none else (msgOfHex? w).map (fun m => some (Err.mk m 0)))
      some (match reported (selectFirstInOrder rs) with | some m => hexOfMsg m | none => "none")
  | _ => none

end Driver
