import Driver.Util
import WildModel.Model.Expr
import WildModel.Props.C16Spec
namespace Driver
open Wild.Expr

def binName : BinOp → String
  | .lor => "lor" | .land => "land" | .bor => "bor" | .bxor => "bxor" | .band => "band"
  | .eq => "eq" | .ne => "ne" | .lt => "lt" | .gt => "gt" | .le => "le" | .ge => "ge"
  | .shl => "shl" | .shr => "shr" | .add => "add" | .sub => "sub" | .mul => "mul" | .div => "div"

def unName : UnOp → String
  | .lnot => "lnot" | .bnot => "bnot" | .neg => "neg"

def fn1Name : Fn1 → String
  | .sizeof => "sizeof" | .alignof => "alignof" | .origin => "origin" | .length => "length"
  | .addr => "addr" | .loadaddr => "loadaddr"

def sexp : Expr → String
  | .num v => hex64 v
  | .sym s => "(sym " ++ s ++ ")"
  | .dot => "dot"
  | .fn1 k s => "(" ++ fn1Name k ++ " " ++ s ++ ")"
  | .align e => "(align " ++ sexp e ++ ")"
  | .min a b => "(min " ++ sexp a ++ " " ++ sexp b ++ ")"
  | .max a b => "(max " ++ sexp a ++ " " ++ sexp b ++ ")"
  | .bin o a b => "(" ++ binName o ++ " " ++ sexp a ++ " " ++ sexp b ++ ")"
  | .un o e => "(" ++ unName o ++ " " ++ sexp e ++ ")"

def textOfHex (h : String) : Option (List Char) :=
  (parseHexBytes? h).map (fun bs => bs.map (fun b => Char.ofNat b.toNat))

def opsExpr (t : List String) : Option String :=
  match t with
  | ["expr-parse", h] => do
      let cs ← textOfHex h
      some (match parse cs with | some e => sexp e | none => "err")
  | ["expr-eval", h] => do
      let cs ← textOfHex h
      some (match parse cs with
        | none => "err:parse"
        | some e =>
          if needsContext e then "err:context" else
          match eval e with
          | .ok v => hex64 v
          | .error .div0 => "err:div0"
          | .error .align0 => "err:align0"
          | .error .context => "err:context")
  -- reference side only (no implementation counterpart): C-table parser and GNU ld values
  | ["expr-ref", h] => do
      let cs ← textOfHex h
      some (match (lex cs).bind refParse with | some e => sexp e | none => "err")
  | ["expr-gnu", h] => do
      let cs ← textOfHex h
      some (match (lex cs).bind refParse with
        | none => "err:parse"
        | some e => match gnuEval e with | some v => hex64 v | none => "none")
  | _ => none

end Driver
