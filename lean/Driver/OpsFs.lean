import Driver.Util
import WildModel.Model.OutputFile
import WildModel.Model.InputsChanged
/-!
Driver ops for C18 / C19 / C21 (`of-run`) and C20 (`ic-run`).

`of-run <ver> <prior> <tmp> <flag> <shared> <single> <mmap> <fail> <sched>`
  ver    v0 | v1
  prior  absent | file | ro | busy | mapped | rodir-file | rodir-absent
         (state of the output path before the link; `ro` = no write permission, `busy` = being
          executed, `mapped` = mapped by another process, `rodir-*` = directory without write permission)
  tmp    absent | present | isout     (a file exists at the temporary's name / the temporary's name IS the output)
  flag   default | uip | nouip          (--update-in-place / --no-update-in-place)
  shared, single, mmap   0 | 1
  fail   none | pre-output | pre-set-size | post-set-size | post-create | write-fn | flush | post-write | verify | depfile
  sched  3 bits: bgRan, tmpUnlinkRan, tmpUnlinkLate (e.g. 110)
answer `ok=<0|1> out=<absent|same|modified|new> tmp=<absent|same|other> sib=<same|changed> held=<same|changed|-> trace=<op,op,…>`
-/
namespace Driver
open Wild.Fs Wild.OutputFile

private def outP : Path := 0
private def tmpP : Path := 1
private def sibP : Path := 2

private def mkState (prior tmp : String) : Option State :=
  let hasOut := !(prior == "absent" || prior == "rodir-absent")
  let names : Path → Option Ino := fun p =>
    if p = outP then (if hasOut then some 0 else none)
    else if p = tmpP then (if tmp == "present" then some 1 else none)
    else if p = sibP then some 2 else none
  let inode : Ino → Inode := fun i => if i = 0 then { size := 6, writable := prior != "ro" } else { size := 4 }
  let holders : List Holder :=
    if prior == "busy" then [⟨7, 0, .executing⟩] else if prior == "mapped" then [⟨7, 0, .mapped⟩] else []
  if ["absent", "file", "ro", "busy", "mapped", "rodir-file", "rodir-absent"].contains prior
      && ["absent", "present", "isout"].contains tmp then
    some { names := names, inode := inode, holders := holders, nextIno := 10,
           dirWritable := !(prior.startsWith "rodir") }
  else none

private def parseFail? : String → Option FailPoint
  | "none" => some .none | "pre-output" => some .preOutput | "pre-set-size" => some .preSetSize
  | "post-set-size" => some .postSetSize | "post-create" => some .postCreate | "write-fn" => some .writeFn
  | "flush" => some .flush | "post-write" => some .postWrite | "verify" => some .verify | "depfile" => some .depfile
  | _ => none

private def parseFlag? : String → Option (Option WriteMode)
  | "default" => some none | "uip" => some (some .updateInPlace) | "nouip" => some (some .unlinkAndReplace)
  | _ => none

private def bit? : String → Option Bool
  | "0" => some false | "1" => some true | _ => none

def opsFs (t : List String) : Option String :=
  match t with
  | ["of-run", ver, prior, tmp, flag, shared, single, mmap, fail, sched] => do
      let ver ← (if ver == "v0" then some Version.v0 else if ver == "v1" then some Version.v1 else none)
      let s ← mkState prior tmp
      let flag ← parseFlag? flag
      let shared ← bit? shared; let single ← bit? single; let mmap ← bit? mmap
      let f ← parseFail? fail
      let sb := sched.toList
      let sch : Sched ← (match sb with
        | [a, b, c] => do
          let a ← bit? (String.singleton a); let b ← bit? (String.singleton b); let c ← bit? (String.singleton c)
          some { bgRan := a, tmpUnlinkRan := b, tmpUnlinkLate := c }
        | _ => none)
      let c : Cfg := { out := outP, tmp := if tmp == "isout" then outP else tmpP, flag := flag, shared := shared,
                       single := single, mmap := mmap, size := 9, ver := ver }
      let r := run s c f sch
      let out := match r.fs.names outP with
        | none => "absent"
        | some i => if i = 0 then (if r.fs.inode 0 = s.inode 0 then "same" else "modified") else "new"
      let tmpS := if tmp == "isout" then "-" else match r.fs.names tmpP with
        | none => "absent"
        | some i => if i = 1 ∧ r.fs.inode 1 = s.inode 1 then "same" else "other"
      let sib := if r.fs.names sibP = some 2 ∧ r.fs.inode 2 = s.inode 2 then "same" else "changed"
      let held := match s.holders with
        | h :: _ => if r.fs.view h = s.view h then "same" else "changed"
        | [] => "-"
      let tr := String.intercalate "," (r.tr.map Op.show)
      some s!"ok={if r.ok then 1 else 0} out={out} tmp={tmpS} sib={sib} held={held} trace={if tr.isEmpty then "-" else tr}"
  | ["ic-run", modif, sameTick, newDiffers, linkOk] => do
      -- input 0 ↦ inode 0 (mtime 100, recorded 100), replacement file 3 ↦ inode 3; gran 10
      let sameTick ← bit? sameTick; let newDiffers ← bit? newDiffers; let linkOk ← bit? linkOk
      let m ← (match modif with
        | "none" => some none
        | "rewrite" => some (some Wild.InputsChanged.Modif.rewrite) | "append" => some (some .append)
        | "rename" => some (some (.replaceByRename 3)) | "touch" => some (some .touch)
        | "restore" => some (some .rewriteRestore) | "remove" => some (some .remove) | _ => none)
      let s : State :=
        { names := fun p => if p = 0 then some 0 else if p = 3 then some 3 else none,
          inode := fun i => if i = 3 then { mtime := if newDiffers then 200 else 100, size := 8 } else { mtime := 100, size := 8 },
          nextIno := 10, now := if sameTick then 105 else 115, gran := 10 }
      let s' := match m with | none => s | some m => Wild.InputsChanged.applyModif s 0 m
      let o := Wild.InputsChanged.finishLink s' [{ path := 0, recorded := 100 }] linkOk
      some (match o with | .ok => "ok" | .linkError => "link-error" | .inputsChanged => "inputs-changed" | .metadataError => "metadata-error")
  | _ => none

end Driver
