import Driver.Util
import WildModel.Model.Gc
/-! C05 line protocol (model side).
`gc R=<t>,<t>,... <sec> <sec> ...` with `<sec>` = `<mustLoad 0|1><nonEmpty 0|1>/<set|->/<refs>/<fdeRefs>`
and `<t>` = `s<n>` (symbol defined in section n) | `x<k>` (`__start/__stop` of set k) | `-` (no section)
→ the kept mask, one `0|1` per section. -/
namespace Driver
open Wild.Gc

def parseTarget? (s : String) : Option Target :=
  if s == "-" then some .none
  else if s.startsWith "s" then (s.drop 1).toString.toNat?.map Target.sec
  else if s.startsWith "x" then (s.drop 1).toString.toNat?.map Target.startStop
  else none

def parseTargets? (s : String) : Option (List Target) :=
  ((s.splitOn ",").filter (fun x => !x.isEmpty)).mapM parseTarget?

def parseGcSec? (tok : String) : Option Section :=
  match tok.splitOn "/" with
  | [fl, set, refs, fde] => do
    let (m, e) ← (match fl.toList with
      | [a, b] => some (a == '1', b == '1')
      | _ => none)
    let st ← (if set == "-" then some none else set.toNat?.map some)
    let r ← parseTargets? refs
    let f ← parseTargets? fde
    some { refs := r, fdeRefs := f, nonEmpty := e, mustLoad := m, startStopSet := st }
  | _ => none

def opsGc (t : List String) : Option String :=
  match t with
  | "gc" :: roots :: rest => do
    let rr ← (if roots.startsWith "R=" then parseTargets? (roots.drop 2).toString else none)
    let secs ← rest.mapM parseGcSec?
    let g : Graph := { secs := secs, rootRefs := rr }
    some (String.ofList ((keptMask g).map fun b => if b then '1' else '0'))
  | _ => none

end Driver
