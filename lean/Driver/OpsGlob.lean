import Driver.Util
import WildModel.Model.Rules
import WildModel.Props.C15Spec
/-! Model side of the C15 ops (see harness/src/ops_c15.rs for the protocol). -/
namespace Driver
open Wild.Glob Wild.Rules

def hexB (bs : List UInt8) : String := if bs.isEmpty then "-" else hexBytes bs

def optBytes? (s : String) : Option (Option (List UInt8)) :=
  if s == "_" then some none else (parseHexBytes? s).map some

def errStr : CompileError → String
  | .utf8 => "err:utf8"
  | .glob => "err:glob"

def b01 (b : Bool) : String := if b then "1" else "0"

/-- `<n|e|p><0|1>:<pattern>:<file pattern|_>` with the rule index. -/
def parseRule? (idx : Nat) (s : String) : Option (Except CompileError Rule) :=
  match s.splitOn ":" with
  | [head, pat, fp] => do
    let pat ← parseHexBytes? pat
    let fp ← optBytes? fp
    let keep := head.toList.getD 1 '0' == '1'
    let o := Outcome.section idx keep
    match head.toList.head? with
    | some 'n' => some (Rule.new pat fp o)
    | some 'e' => some (.ok (Rule.exact pat o))
    | some 'p' => some (.ok (Rule.pref pat o))
    | _ => none
  | _ => none

def parseRules? : Nat → List String → Option (Except CompileError (List Rule))
  | _, [] => some (.ok [])
  | i, s :: rest => do
    let r ← parseRule? i s
    let rs ← parseRules? (i + 1) rest
    some (do let r ← r; let rs ← rs; pure (r :: rs))

open Wild.FnmatchSpec in
/-- `spec-fnmatch <pattern> <string>` (ASCII): the POSIX spec of Props/C15Spec.lean, for validation
against libc. `X` = outside the specified domain; suffix ` U` = pattern has an unterminated `[`. -/
def opsFnmatchSpec (t : List String) : Option String :=
  match t with
  | ["spec-fnmatch", p, s] => do
      let p ← parseHexBytes? p; let s ← parseHexBytes? s
      let pc := p.map (fun b => Char.ofNat b.toNat); let sc := s.map (fun b => Char.ofNat b.toNat)
      let u := if hasUnterminated (pc.length + 1) pc then " U" else ""
      some ((match fnmatch pc sc with | none => "X" | some true => "1" | some false => "0") ++ u)
  | _ => none

def opsGlob (t : List String) : Option String :=
  match t with
  | ["glob-analyze", p] => do
      let p ← parseHexBytes? p
      some (match analyze p with | .exact => "0" | .escapedExact => "1" | .star => "2" | .nonStar => "3")
  | ["glob-unescape", p] => do
      let p ← parseHexBytes? p
      some (hexB (unescape p))
  | ["glob-match", p, n] => do
      let p ← parseHexBytes? p; let n ← parseHexBytes? n
      some (match compile p with
        | .error e => errStr e
        | .ok toks => b01 (matchesBytes toks n))
  | ["rule-new", p, fp] => do
      let p ← parseHexBytes? p; let fp ← optBytes? fp
      some (match Rule.new p fp .custom with
        | .error e => errStr e
        | .ok r => match r.matcher with
          | .exact n => "exact:" ++ hexB n
          | .pref n => "prefix:" ++ hexB n
          | .glob n _ => "glob:" ++ hexB n)
  | ["rule-match", spec, n, f] => do
      let r ← parseRule? 0 spec
      let n ← parseHexBytes? n; let f ← optBytes? f
      some (match r with
        | .error e => errStr e
        | .ok r => b01 (r.matches n f))
  | "rules-lookup" :: n :: f :: specs => do
      let n ← parseHexBytes? n; let f ← optBytes? f
      let rs ← parseRules? 0 specs
      some (match rs with
        | .error e => errStr e
        | .ok rs => match lookup (fromRules rs) n f with
          | .section i k => s!"{i} {b01 k}"
          | .custom => "none"
          | .unnamed => "other-outcome")
  | _ => opsFnmatchSpec t

end Driver
