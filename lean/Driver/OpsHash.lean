import Driver.Util
import WildModel.Model.Hash
/-! Model side of the C08 line protocol (`hash-*`). Lists are `,`-joined; `.` is the empty list; names are hex bytes. -/
namespace Driver
open Wild.Hash

def splitList (s : String) : List String :=
  if s == "." then [] else s.splitOn ","

def parseNames? (s : String) : Option (List (List UInt8)) :=
  (splitList s).mapM parseHexBytes?

def parseNats? (s : String) : Option (List Nat) :=
  (splitList s).mapM parseNat?

def joinList (l : List String) : String :=
  if l.isEmpty then "." else ",".intercalate l

def showRes : Res → String
  | .found i => s!"f{i}"
  | .notFound => "n"
  | .outOfFuel => "fuel"
  | .oob => "oob"

def showNames (l : List (List UInt8)) : String := joinList (l.map hexBytes)

def opsHash (t : List String) : Option String :=
  match t with
  | ["hash-fn", n] => do
      let n ← parseHexBytes? n
      some s!"gnu={hexOfNat (dlNewHash n).toNat} sysv={hexOfNat (elfHash n).toNat} gabi={hexOfNat (gabiHash n).toNat}"
  | ["hash-gnu", base, names] => do
      let base ← parseNat? base
      let names ← parseNames? names
      let tb := buildGnu base names
      some (s!"nb={tb.nbuckets} so={tb.symoffset} bs={tb.bloomSize} sh={tb.bloomShift} " ++
        s!"bloom={joinList (tb.bloom.map fun w => hexOfNat w.toNat)} buckets={joinList (tb.buckets.map toString)} " ++
        s!"chain={joinList (tb.chain.map fun w => hexOfNat w.toNat)} order={showNames (gnuOrder names)}")
  | ["hash-sysv", base, names] => do
      let base ← parseNat? base
      let names ← parseNames? names
      let tb := buildSysv base names
      some (s!"nb={tb.nbucket} nchain={tb.nchain} buckets={joinList (tb.buckets.map toString)} " ++
        s!"chain={joinList (tb.chain.map toString)}")
  | ["hash-lookup-gnu", nb, so, bs, sh, bloom, buckets, chain, syms, queries] => do
      let nb ← parseNat? nb; let so ← parseNat? so; let bs ← parseNat? bs; let sh ← parseNat? sh
      let bloom ← parseNats? bloom; let buckets ← parseNats? buckets; let chain ← parseNats? chain
      let syms ← parseNames? syms; let queries ← parseNames? queries
      let tb := GnuTable.mk nb so bs sh (bloom.map (·.toUInt64)) buckets (chain.map (·.toUInt32))
      some (joinList (queries.map fun q => showRes (lookupGnu tb syms q)))
  | ["hash-lookup-sysv", nb, base, buckets, chain, syms, queries] => do
      let nb ← parseNat? nb; let base ← parseNat? base
      let buckets ← parseNats? buckets; let chain ← parseNats? chain
      let syms ← parseNames? syms; let queries ← parseNames? queries
      let tb := SysvTable.mk nb chain.length buckets chain
      some (joinList (queries.map fun q => showRes (lookupSysv tb base syms q)))
  | _ => none

end Driver
