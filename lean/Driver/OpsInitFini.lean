import Driver.Util
import WildModel.Model.InitFini
import WildModel.Props.C30Spec
/-! C30 line protocol (model side).
`initfini <name>=<id>,<id>,... ...` (input sections in command-line order; `name=` for an empty one)
→ `P=<ids> I=<ids> F=<ids> GP=<ids> GI=<ids> GF=<ids>`: wild's model order and GNU ld's spec order
for the three array outputs. -/
namespace Driver
open Wild.InitFini

def parseSec? (tok : String) : Option Sec :=
  match tok.splitOn "=" with
  | [n, ids] => do
    let es ← (ids.splitOn ",").filter (fun s => !s.isEmpty) |>.mapM (fun s => s.toNat?)
    some { name := n.toList, entries := es }
  | _ => none

def showIds (l : List Nat) : String := ",".intercalate (l.map toString)

def opsInitFini (t : List String) : Option String :=
  match t with
  | "initfini" :: rest => do
    let secs ← rest.mapM parseSec?
    some (s!"P={showIds (emit .preinit secs)} I={showIds (emit .init secs)} F={showIds (emit .fini secs)} " ++
          s!"GP={showIds (gnuOrder .preinit secs)} GI={showIds (gnuOrder .init secs)} GF={showIds (gnuOrder .fini secs)}")
  | _ => none

end Driver
