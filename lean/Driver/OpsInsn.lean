import Driver.Util
import WildModel.Model.Insn
import WildModel.Props.C13Spec
/-! Model side of `insn-write` / `insn-read` (C13) and `insn-isa` (the ISA-manual decoders of
`Props/C13Spec.lean`, evaluated so that the check can validate them against assembler output). -/
namespace Driver
open Wild.Insn

def a64Kind? : String → Option A64
  | "Adr" => some .Adr | "Movkz" => some .Movkz | "Movnz" => some .Movnz | "Ldr" => some .Ldr
  | "LdrRegister" => some .LdrRegister | "Add" => some .Add | "LdSt" => some .LdSt
  | "TstBr" => some .TstBr | "Bcond" => some .Bcond | "JumpCall" => some .JumpCall
  | _ => none

/-- apply a 32-bit (resp. 16-bit) writer to the low part of the 8-byte buffer image -/
def on32 (f : BitVec 32 → BitVec 32) (w : BitVec 64) : BitVec 64 :=
  (w &&& 0xffffffff00000000#64) ||| (f (w.setWidth 32)).setWidth 64
def on16 (f : BitVec 16 → BitVec 16) (w : BitVec 64) : BitVec 64 :=
  (w &&& 0xffffffffffff0000#64) ||| (f (w.setWidth 16)).setWidth 64

def insnWrite (arch kind : String) (v : BitVec 64) (neg : Bool) (w : BitVec 64) : Option String :=
  match arch, kind with
  | "aarch64", k => (a64Kind? k).map fun k => hex64 (on32 (A64.write k v neg) w)
  | "riscv64", "UiType" => some (hex64 (RV.writeUi v w))
  | "riscv64", "UType" => some (hex64 (on32 (RV.writeU v) w))
  | "riscv64", "IType" => some (hex64 (on32 (RV.writeI v) w))
  | "riscv64", "SType" => some (hex64 (on32 (RV.writeS v) w))
  | "riscv64", "BType" => some (hex64 (on32 (RV.writeB v) w))
  | "riscv64", "JType" => some (hex64 (on32 (RV.writeJ v) w))
  | "riscv64", "CbType" => some (hex64 (on16 (RV.writeCb v) w))
  | "riscv64", "CjType" => some (hex64 (on16 (RV.writeCj v) w))
  | "riscv64", "CluiType" => some (hex64 (on16 (RV.writeClui v) w))
  | "loongarch64", "Shift5" => some (hex64 (on32 (LA.writeShift5 v) w))
  | "loongarch64", "Shift10" => some (hex64 (on32 (LA.writeShift10 v) w))
  | "loongarch64", "Branch21" => some (hex64 (on32 (LA.writeBranch21 v) w))
  | "loongarch64", "Branch26" => some (hex64 (on32 (LA.writeBranch26 v) w))
  | "loongarch64", "Call30" => some (hex64 (LA.writeCall30 v w))
  | "loongarch64", "Call36" =>
      -- `extracted_value + 0x8000` is a checked addition in the debug profile
      if v.toNat + 0x8000 ≥ 2 ^ 64 then some "panic:overflow" else some (hex64 (LA.writeCall36 v w))
  | _, _ => none

def showRead (r : BitVec 64 × Bool) : String := s!"{hex64 r.1} {if r.2 then 1 else 0}"

def insnRead (arch kind : String) (w : BitVec 64) : Option String :=
  let w32 : BitVec 32 := w.setWidth 32
  let w16 : BitVec 16 := w.setWidth 16
  match arch, kind with
  | "aarch64", k => (a64Kind? k).map fun k => showRead (A64.read k w32)
  | "riscv64", "UiType" => some (showRead (RV.readUi w))
  | "riscv64", "UType" => some (showRead (RV.readU w32))
  | "riscv64", "IType" => some (showRead (RV.readI w32))
  | "riscv64", "SType" => some (showRead (RV.readS w32))
  | "riscv64", "BType" => some (showRead (RV.readB w32))
  | "riscv64", "JType" => some (showRead (RV.readJ w32))
  | "riscv64", "CbType" => some (showRead (RV.readCb w16))
  | "riscv64", "CjType" => some (showRead (RV.readCj w16))
  | "riscv64", "CluiType" => some (showRead (RV.readClui w16))
  | "loongarch64", "Shift5" => some (showRead (LA.readShift5 w32))
  | "loongarch64", "Shift10" => some (showRead (LA.readShift10 w32))
  | "loongarch64", "Branch21" => some (showRead (LA.readBranch21 w32))
  | "loongarch64", "Branch26" => some (showRead (LA.readBranch26 w32))
  | "loongarch64", "Call30" => some (showRead (LA.readCall30 w))
  | "loongarch64", "Call36" => some (showRead (LA.readCall36 w))
  | _, _ => none

open Wild.InsnSpec in
/-- the manual's decoded immediate of a word (spec side) -/
def insnIsa (arch kind : String) (w : BitVec 64) : Option String :=
  let w32 : BitVec 32 := w.setWidth 32
  let w16 : BitVec 16 := w.setWidth 16
  match arch, kind with
  | "aarch64", k => (a64Kind? k).map fun k => hex64 (A64S.decode k w32)
  | "riscv64", "UiType" => some (hex64 (Wild.InsnSpec.RV.decodeUi w))
  | "riscv64", "UType" => some (hex64 (Wild.InsnSpec.RV.decodeU w32))
  | "riscv64", "IType" => some (hex64 (Wild.InsnSpec.RV.decodeI w32))
  | "riscv64", "SType" => some (hex64 (Wild.InsnSpec.RV.decodeS w32))
  | "riscv64", "BType" => some (hex64 (Wild.InsnSpec.RV.decodeB w32))
  | "riscv64", "JType" => some (hex64 (Wild.InsnSpec.RV.decodeJ w32))
  | "riscv64", "CbType" => some (hex64 (Wild.InsnSpec.RV.decodeCb w16))
  | "riscv64", "CjType" => some (hex64 (Wild.InsnSpec.RV.decodeCj w16))
  | "riscv64", "CluiType" => some (hex64 (Wild.InsnSpec.RV.decodeClui w16))
  | _, _ => none

def opsInsn (t : List String) : Option String :=
  match t with
  | ["insn-write", arch, kind, v, neg, w] => do
      let v ← parseNat? v; let w ← parseNat? w
      some ((insnWrite arch kind (BitVec.ofNat 64 v) (neg == "1") (BitVec.ofNat 64 w)).getD "bad-kind")
  | ["insn-read", arch, kind, w] => do
      let w ← parseNat? w
      some ((insnRead arch kind (BitVec.ofNat 64 w)).getD "bad-kind")
  | ["insn-isa", arch, kind, w] => do
      let w ← parseNat? w
      some ((insnIsa arch kind (BitVec.ofNat 64 w)).getD "bad-kind")
  | _ => none

end Driver
