import Driver.Util
import WildModel.Model.Layout
import WildModel.Model.LayoutCheck
import WildModel.Model.ShdrExt
/-!
Driver ops for C04.

`layout <tokens>` recomputes, from the dumped INPUTS of one link (vlib/props/c04.py renders
`WILD_VERIF_DUMP/layout.txt` into one request line), the output order (`OutputOrderBuilder`), the part layouts
(`layout_section_parts`), the section layouts (`layout_sections`) and the segment layouts
(`compute_segment_layout`) with the model, and prints them canonically.

`layout-props <tokens>` evaluates the executable forms of the C04 predicates on the model's outputs.

Tokens (numbers hex unless noted):
  `P<0|1>` partial  `B<hex>` base  `G<dec>` page exponent  `K<hex>` stack size  `R<dec>` RELRO_PADDING id
  `H<dec>` FILE_HEADER id  `U<dec>` number of unconditional defs
  `D<load><w><x><tls><stack><cut>:<key dec>`   one per def (conditional defs first)
  `S<id dec>:<prim dec|->:<alloc><w><x><tls><nobits><hasdata><emitted><notelike>:<minalign dec>:<loc hex|->:<aux bitmask hex>:<a.size,...>`
  `C<primary>[,<secondary>...]`   add_section calls, in order
  `A<id>[,<id>...]` or `A`        header_info.active_segment_ids
-/
namespace Driver
open Wild.Layout

private def bit (c : Char) : Bool := c == '1'

structure LayoutReq where
  cfg : Config := default
  fileHeader : Nat := 1
  nUncond : Nat := 0
  defs : Array SegDef := #[]
  secs : Array (Nat × Sec) := #[]
  calls : Array (Nat × List Nat) := #[]
  activeIds : List Nat := []
  allActive : Bool := false

private def parsePart? (t : String) : Option PartIn :=
  match t.splitOn "." with
  | [a, s] => do some ⟨← a.toNat?, ← parseHex? s⟩
  | _ => none

private def parseSec? (t : String) : Option (Nat × Sec) :=
  match t.splitOn ":" with
  | [id, prim, fl, mina, loc, aux, parts] => do
    let id ← id.toNat?
    let prim ← if prim == "-" then some none else (prim.toNat?).map some
    let f := fl.toList.toArray
    if f.size != 8 then none else
    let mina ← mina.toNat?
    let loc ← if loc == "-" then some none else (parseHex? loc).map some
    let auxn ← parseHex? aux
    let ps ← (if parts.isEmpty then some [] else (parts.splitOn ",").mapM parsePart?)
    some (id, { primary := prim, alloc := bit f[0]!, w := bit f[1]!, x := bit f[2]!, tls := bit f[3]!, nobits := bit f[4]!,
                hasData := bit f[5]!, emitted := bit f[6]!, noteLike := bit f[7]!, minAlign := mina, loc := loc,
                aux := (List.range 64).map (fun k => auxn.testBit k), parts := ps })
  | _ => none

private def parseDef? (t : String) : Option SegDef :=
  match t.splitOn ":" with
  | [fl, key] => do
    let f := fl.toList.toArray
    if f.size != 6 then none else
    some ⟨bit f[0]!, bit f[1]!, bit f[2]!, bit f[3]!, bit f[4]!, bit f[5]!, ← key.toNat?⟩
  | _ => none

private def parseIds? (t : String) : Option (List Nat) :=
  if t.isEmpty then some [] else (t.splitOn ",").mapM (·.toNat?)

def parseLayoutReq (ts : List String) : Option LayoutReq :=
  ts.foldlM (init := ({} : LayoutReq)) fun r t =>
    let rest := (t.drop 1).toString
    match t.front with
    | 'P' => some { r with cfg := { r.cfg with partialObj := rest == "1" } }
    | 'B' => (parseHex? rest).map fun v => { r with cfg := { r.cfg with base := v } }
    | 'G' => rest.toNat?.map fun v => { r with cfg := { r.cfg with page := v } }
    | 'K' => (parseHex? rest).map fun v => { r with cfg := { r.cfg with stack := v } }
    | 'R' => rest.toNat?.map fun v => { r with cfg := { r.cfg with relroPad := v } }
    | 'H' => rest.toNat?.map fun v => { r with fileHeader := v }
    | 'U' => rest.toNat?.map fun v => { r with nUncond := v }
    | 'D' => (parseDef? rest).map fun d => { r with defs := r.defs.push d }
    | 'S' => (parseSec? rest).map fun s => { r with secs := r.secs.push s }
    | 'C' => (parseIds? rest).bind fun ids => match ids with
        | p :: ss => some { r with calls := r.calls.push (p, ss) }
        | [] => none
    | 'A' => if rest == "*" then some { r with allActive := true } else
        (parseIds? rest).map fun ids => { r with activeIds := ids }
    | _ => none

private def hx (n : Nat) : String := String.ofList (Nat.toDigits 16 n)

private def recStr (r : Rec) : String :=
  s!"{hx r.fileOff}:{hx r.memOff}:{hx r.fileSize}:{hx r.memSize}:{r.align}"

private def evStr : Event → String
  | .segStart i => s!"S{i}"
  | .segEnd i => s!"E{i}"
  | .section i => s!"X{i}"
  | .setLoc a => s!"L{hx a}"

structure LayoutOut where
  events : List Event
  segDefs : List Nat
  parts : List (Nat × List Rec)
  secLay : Nat → Rec
  segs : Except LayoutError (List (Nat × Rec))

def LayoutReq.secFn (r : LayoutReq) : Nat → Sec :=
  let maxId := r.secs.foldl (fun m s => max m s.1) 0
  let arr : Array Sec := r.secs.foldl (fun a s => a.set! s.1 s.2) (Array.replicate (maxId + 1) default)
  fun i => arr.getD i default

def runLayout (r : LayoutReq) : LayoutOut :=
  let secs := r.secFn
  let nCond := r.defs.size - r.nUncond
  let condDefs := (r.defs.toList.take nCond)
  let (events, segDefs) := outputOrder condDefs r.nUncond r.cfg.partialObj secs r.calls.toList
  let defOf (seg : Nat) : SegDef := r.defs.getD (segDefs.getD seg 0) default
  let segIsLoad := fun seg => (defOf seg).load
  let parts := layoutParts r.cfg segIsLoad secs events
  let partArr : Array (List Rec) :=
    parts.foldl (fun a p => if p.1 < a.size then a.set! p.1 p.2 else a) (Array.replicate (r.secs.foldl (fun m s => max m s.1) 0 + 1) [])
  -- sections that occur in no `Section` event keep the all-zero default records of `new_part_map`
  let placed : Array Bool :=
    parts.foldl (fun a p => if p.1 < a.size then a.set! p.1 true else a) (Array.replicate partArr.size false)
  let secLay := fun sid => sectionLayout (secs sid).minAlign
    (if placed.getD sid false then partArr.getD sid [] else List.replicate (secs sid).parts.length default)
  let segs := segmentLayout r.cfg (fun seg => (defOf seg).key) (fun seg => (defOf seg).stack) segDefs.length secs secLay
    r.fileHeader (if r.allActive then List.range segDefs.length else r.activeIds) events
  ⟨events, segDefs, parts, secLay, segs⟩

private def errStr : LayoutError → String
  | .endWithoutStart => "end-without-start"
  | .nonzeroAddressOutsideSegments s => s!"nonzero-address-outside-segments:{s}"
  | .allocOutsideSegments s => s!"alloc-outside-segments:{s}"
  | .missingMemOffset s => s!"missing-mem-offset:{s}"
  | .missingAllocFlag s => s!"missing-alloc-flag:{s}"
  | .segmentCountMismatch => "segment-count-mismatch"

def opsLayout (t : List String) : Option String :=
  match t with
  | ["shdr-ext", n, s] => do
    -- section count + .shstrtab index -> e_shnum e_shstrndx sh_size(0) sh_link(0)
    let shnum ← n.toNat?
    let shstrndx ← s.toNat?
    let h := Wild.ShdrExt.encode shnum shstrndx
    some s!"e_shnum={h.eShnum} e_shstrndx={h.eShstrndx} sh0_size={h.sh0Size} sh0_link={h.sh0Link}"
  | "layout" :: ts =>
    match parseLayoutReq ts with
    | none => some "bad-request"
    | some r =>
      let o := runLayout r
      let nCond := r.defs.size - r.nUncond
      -- the conditional defs of the link must be the table the theorems are proved for
      let defsOk := (r.defs.toList.take nCond == elfDefs) && (r.defs.toList.drop nCond == [elfStackDef] || r.nUncond == 0)
      let ev := " ".intercalate (o.events.map evStr)
      let sd := ",".intercalate (o.segDefs.map toString)
      let lay := " ".intercalate (o.parts.map fun (p : Nat × List Rec) => s!"{p.1}=" ++ ",".intercalate (p.2.map recStr))
      let sl := " ".intercalate (r.secs.toList.map fun (p : Nat × Sec) => s!"{p.1}=" ++ recStr (o.secLay p.1))
      let sg := match o.segs with
        | .error e => "err:" ++ errStr e
        | .ok l => " ".intercalate (l.map fun (p : Nat × Rec) => s!"{p.1}=" ++ recStr p.2)
      some s!"defs={if defsOk then "elf" else "other"} ; ev {ev} ; segdefs {sd} ; lay {lay} ; sl {sl} ; sg {sg}"
  | "layout-props" :: ts =>
    match parseLayoutReq ts with
    | none => some "bad-request"
    | some r =>
      let o := runLayout r
      let secs := r.secFn
      let nCond := r.defs.size - r.nUncond
      let condDefs := (r.defs.toList.take nCond)
      let defOf (seg : Nat) : SegDef := r.defs.getD (o.segDefs.getD seg 0) default
      let res := checkAll r.cfg condDefs defOf (fun seg => o.segDefs.getD seg 0) o.segDefs.length secs o.events o.parts
        (match o.segs with | .ok l => some l | .error _ => none)
      let fails := res.filter (fun x => !x.startsWith "note:")
      let notes := res.filter (fun x => x.startsWith "note:")
      let tail := if notes.isEmpty then "" else " " ++ " ".intercalate notes
      some ((if fails.isEmpty then "ok" else "fail:" ++ ",".intercalate fails) ++ tail)
  | _ => none

end Driver
