import Driver.Util
import WildModel.Model.Link
import WildModel.Model.Wrap
import WildModel.Model.Needed
import WildModel.Model.Mentions
namespace Driver
open Wild.Link

/-- Parse `F<dyn><opt>` / `D:<name>:<w|u|s|c>:<size>:<comdat>` / `U:<name>:<weak>` tokens. -/
def parseLinkFiles (toks : List String) : Option (List File) :=
  let step (acc : Option (List File)) (tok : String) : Option (List File) := do
    let fs ← acc
    if tok.startsWith "F" then
      match tok.toList with
      | ['F', d, o] => some ({ dynamic := d == '1', optional := o == '1', entries := [] } :: fs)
      | _ => none
    else
      match fs with
      | [] => none
      | f :: rest =>
        match tok.splitOn ":" with
        | ["D", n, s, sz, c] => do
          let n ← n.toNat?
          let sz ← sz.toNat?
          let st ← (match s with
            | "w" => some Strength.weak | "u" => some Strength.gnuUnique | "s" => some Strength.strong
            | "c" => some (Strength.common sz) | _ => none)
          some ({ f with entries := f.entries ++ [Entry.defn n st (c == "1")] } :: rest)
        | ["U", n, w] => do
          let n ← n.toNat?
          some ({ f with entries := f.entries ++ [Entry.undef n (w == "1")] } :: rest)
        | _ => none
  (toks.foldl step (some [])).map List.reverse

def namesOf (fs : List File) : List Nat :=
  let all := fs.flatMap fun f => f.entries.map fun e => match e with
    | .defn n _ _ => n
    | .undef n _ => n
  (all.foldl (fun acc n => if acc.contains n then acc else acc ++ [n]) []).mergeSort (· ≤ ·)

def linkAnswer (allowMulti : Bool) (fs : List File) : String :=
    let mask := loadedMask fs
    let bits := String.ofList (mask.map fun b => if b then '1' else '0')
    let names := namesOf fs
    let results := names.map fun n =>
      let r := match resolveName allowMulti fs n with
        | none => "none"
        | some (.dup _ _) => "dup"
        | some (.chosen f) => if mask.getD f false then toString f else "undef"
      s!"{n}:{r}"
    let errs := (undefinedErrors allowMulti fs).map fun (i, n) => s!"{i}/{n}"
    s!"L={bits} E={",".intercalate errs} " ++ " ".intercalate results

def opsLink (t : List String) : Option String :=
  match t with
  | "lkw" :: w :: am :: rest => do
    let fs ← parseLinkFiles rest
    let W := (w.splitOn ",").filterMap (·.toNat?)
    let fs' := wrapTransform W fs
    -- per-reference renaming, so the caller can map observed references to transformed names
    let ren := (List.range fs.length).flatMap fun i =>
      match fs[i]? with
      | some f => f.entries.filterMap fun e => match e with
          | .undef n _ => some s!"{i}/{n}>{wrapLookupName W fs n}"
          | _ => none
      | none => []
    some (s!"R={",".intercalate ren} " ++ linkAnswer (am == "1") fs')
  | "mentions" :: rest =>
    -- command-line mentions `path:as_needed` -> the pending requests of FileLoader::load_inputs
    let ms := rest.filterMap fun t => match t.splitOn ":" with
      | [p, a] => (p.toNat?).map fun pn => (pn, a == "1")
      | _ => none
    if ms.length != rest.length then none else
    let r := Wild.Mentions.loadInputs ms
    some ("M=" ++ ",".intercalate (r.map fun (p, a) => s!"{p}:{if a then 1 else 0}"))
  | "lk" :: am :: rest => do
    let fs ← parseLinkFiles rest
    let allowMulti := am == "1"
    let mask := loadedMask fs
    let bits := String.ofList (mask.map fun b => if b then '1' else '0')
    let names := namesOf fs
    let results := names.map fun n =>
      let r := match resolveName allowMulti fs n with
        | none => "none"
        | some (.dup _ _) => "dup"
        | some (.chosen f) => if mask.getD f false then toString f else "undef"
      s!"{n}:{r}"
    let errs := (undefinedErrors allowMulti fs).map fun (i, n) => s!"{i}/{n}"
    some (s!"L={bits} E={",".intercalate errs} " ++ " ".intercalate results)
  | _ => none

end Driver
