import Driver.Util
import WildModel.Model.Malformed
/-! C22 ops (model side).
  mal-args <hex of ASCII bytes>     -> `ok <n> <hex>|<hex>...` / `err <class>`
  mal-archive <hex>                 -> `aixbig` / `open-err <class>` / `walked <class|-> <n> <t|r>:<namehex>:<off>:<len>,...`
-/
namespace Driver
open Wild.Malformed

private def hexOfChars (cs : List Char) : String :=
  if cs.isEmpty then "-" else hexBytes (cs.map (fun c => UInt8.ofNat c.toNat))

def argsErrName : Args.Err → String
  | .missingClosing => "missing-closing"
  | .expectedWhitespace => "expected-ws"
  | .missingOpening => "missing-opening"
  | .invalidEscape => "invalid-escape"

def arErrName : Ar.Err → String
  | .size => "size"
  | .ident => "ident"
  | .header => "header"
  | .terminator => "terminator"
  | .memberSize => "member-size"
  | .extNameOffset => "ext-name-offset"
  | .extNameLength => "ext-name-length"
  | .tooLarge => "too-large"

def entryStr (e : Ar.Entry) : String :=
  s!"{if e.thin then "t" else "r"}:{if e.name.isEmpty then "-" else hexBytes e.name}:{e.dataOffset}:{e.dataLen}"

def opsMalformed (t : List String) : Option String :=
  match t with
  | ["mal-args", h] => do
      let bs ← parseHexBytes? h
      let cs := bs.map (fun b => Char.ofNat b.toNat)
      some (match Args.argsFromString cs with
        | .ok l => s!"ok {l.length} {if l.isEmpty then "-" else "|".intercalate (l.map (fun a => hexOfChars a.toList))}"
        | .error e => s!"err {argsErrName e}")
  | ["mal-archive", h] => do
      let bs ← parseHexBytes? h
      some (match Ar.walk bs with
        | .aixbig => "aixbig"
        | .openError e => s!"open-err {arErrName e}"
        | .walked w =>
          let es := if w.entries.isEmpty then "-" else ",".intercalate (w.entries.map entryStr)
          let ex := if w.exhausted then " FUEL-EXHAUSTED" else ""
          s!"walked {match w.error with | some e => arErrName e | none => "-"} {w.entries.length} {es}{ex}")
  | _ => none

end Driver
