import Driver.Util
import WildModel.Model.Notes
import WildModel.Model.NotesSpec
/-!
C36 line protocol.

  notes-link <z> <isa> F <stack> <type>:<datasz>:<data> ... F <stack> ...
  notes-gnu  <z> <isa> F <stack> ...

`z` ∈ {`-`, `x` (-z execstack), `n` (-z noexecstack)}; `isa` ∈ {`-`, hex ISA_1_NEEDED bit of -z x86-64-vN};
each loaded relocatable input starts with `F`, then its stack note (`m` missing / `n` / `x`), then the entries
of its `.note.gnu.property` section in file order (all hex).

`notes-link` answers what the model of wild predicts, `notes-gnu` what the GNU ld spec predicts:
  `err:stack` | `err:unclassified:0x<type>` | `stack=<0x6|0x7|none> props=<t:v,...|->`
-/
namespace Driver
open Wild.Notes

structure NotesInput where
  stack : StackNote
  props : List RawProp

def parseRawProp (tok : String) : Option RawProp :=
  match tok.splitOn ":" with
  | [t, s, d] => do
    let t ← parseNat? t
    let s ← parseNat? s
    let d ← parseNat? d
    some ⟨t, s, BitVec.ofNat 32 d⟩
  | _ => none

def parseNotesInputs (toks : List String) : Option (List NotesInput) :=
  let step (acc : Option (List NotesInput)) (tok : String) : Option (List NotesInput) := do
    let fs ← acc
    if tok == "F" then some (⟨.missing, []⟩ :: fs) else
    match fs with
    | [] => none
    | f :: rest =>
      if tok == "m" then some ({ f with stack := .missing } :: rest)
      else if tok == "n" then some ({ f with stack := .noexec } :: rest)
      else if tok == "x" then some ({ f with stack := .exec } :: rest)
      else do
        let p ← parseRawProp tok
        some ({ f with props := f.props ++ [p] } :: rest)
  (toks.foldl step (some [])).map List.reverse

def parseZ (s : String) : Option (Option Bool) :=
  if s == "-" then some none else if s == "x" then some (some true) else if s == "n" then some (some false) else none

def parseIsa (s : String) : Option (Option (BitVec 32)) :=
  if s == "-" then some none else (parseNat? s).map fun n => some (BitVec.ofNat 32 n)

def showProps (ps : List GnuProperty) : String :=
  if ps.isEmpty then "-" else ",".intercalate (ps.map fun p => s!"{hexOfNat p.ptype}:{hex32 p.data}")

def opsNotes (t : List String) : Option String :=
  match t with
  | "notes-link" :: z :: isa :: rest => do
    let z ← parseZ z
    let isa ← parseIsa isa
    let fs ← parseNotesInputs rest
    match wildStack (fs.map (·.stack)) z with
    | .error _ => some "err:stack"
    | .ok flags =>
      match linkProps (fs.map (·.props)) isa with
      | .error ty => some s!"err:unclassified:{hexOfNat ty}"
      | .ok ps => some s!"stack={hexOfNat flags} props={showProps ps}"
  | "notes-gnu" :: z :: isa :: rest => do
    let z ← parseZ z
    let isa ← parseIsa isa
    let fs ← parseNotesInputs rest
    let st := match gnuStack (fs.map (·.stack)) z with
      | some f => hexOfNat f
      | none => "none"
    some s!"stack={st} props={showProps (gnuProps (fs.map (·.props)) isa)}"
  | _ => none

end Driver
