import Driver.Util
import WildModel.Model.Partial
/-! C27: model side of the whole-link correspondence `part`.

Request: `part <nx> <ny> O S:<name>:<alignExp>:<size> … D:<name>:<w|u|s|c>:<size>:<comdat> … O …`
(objects in command-line order; the group is objects `nx … nx+ny-1`; the identity of a definition is
the index of its object).  Answer: placement of every input section of the group inside the combined
object, the combined sections, which definition `-r` keeps per name, and the definition selected by
the final link with and without the partial link. -/
namespace Driver
open Wild.Link Wild.Partial

def parsePartObjs (toks : List String) : Option (List Obj) :=
  let step (acc : Option (List Obj × Nat)) (tok : String) : Option (List Obj × Nat) := do
    let (os, n) ← acc
    if tok == "O" then some ({ secs := [], defs := [], rels := [] } :: os, n + 1)
    else
      match os with
      | [] => none
      | o :: rest =>
        match tok.splitOn ":" with
        | ["S", nm, e, sz] => do
          let nm ← nm.toNat?; let e ← e.toNat?; let sz ← sz.toNat?
          let j := o.secs.length
          let piece : Piece := ⟨(n - 1) * 1000 + j, 0, sz⟩
          let sec : Sec := ⟨nm, 0, e, sz, [piece]⟩
          some ({ o with secs := o.secs ++ [sec] } :: rest, n)
        | ["D", nm, s, sz, c] => do
          let nm ← nm.toNat?; let sz ← sz.toNat?
          let st ← (match s with
            | "w" => some Strength.weak | "u" => some Strength.gnuUnique | "s" => some Strength.strong
            | "c" => some (Strength.common sz) | _ => none)
          let d : Def := ⟨nm, n - 1, st, c == "1", 0, 0⟩
          some ({ o with defs := o.defs ++ [d] } :: rest, n)
        | _ => none
  (toks.foldl step (some ([], 0))).map fun (os, _) => os.reverse

def strengthLetter : Strength → String
  | .weak => "w" | .gnuUnique => "u" | .strong => "s" | .common _ => "c" | .undefined => "-"

def defNames (objs : List Obj) : List Nat :=
  let all := objs.flatMap fun o => o.defs.map (·.name)
  (all.foldl (fun acc n => if acc.contains n then acc else acc ++ [n]) []).mergeSort (· ≤ ·)

def winnerStr (objs : List Obj) (n : Nat) : String :=
  if (defCands objs n).isEmpty then "-" else toString (winnerId objs n)

def opsPartial (t : List String) : Option String :=
  match t with
  | "part" :: nx :: ny :: rest => do
    let nx ← nx.toNat?; let ny ← ny.toNat?
    let objs ← parsePartObjs rest
    let xs := objs.take nx
    let ys := (objs.drop nx).take ny
    let zs := objs.drop (nx + ny)
    let c := combine ys
    let bases := (List.range ys.length).flatMap fun i =>
      match ys[i]? with
      | some o => (List.range o.secs.length).map fun j => s!"{nx + i}.{j}:{baseOf ys i j}"
      | none => []
    let secs := c.secs.map fun s => s!"{s.name}:{s.size}:{s.alignExp}"
    let kept := (defNames ys).map fun n =>
      match c.defs.find? (·.name == n) with
      | some d => s!"{n}:{d.id}:{strengthLetter d.strength}"
      | none => s!"{n}:-:-"
    let names := defNames objs
    let direct := names.map fun n => s!"{n}:{winnerStr (xs ++ ys ++ zs) n}"
    let via := names.map fun n => s!"{n}:{winnerStr (xs ++ [c] ++ zs) n}"
    some (s!"B={",".intercalate bases} S={",".intercalate secs} G={",".intercalate kept} " ++
          s!"F={",".intercalate direct} V={",".intercalate via}")
  | _ => none

end Driver
