import Driver.Util
import WildModel.Model.ProcSpec
import WildModel.Model.Jobserver
/-! Driver ops for C17 (`proc-exit`, `proc-exit-old`, `proc-status`) and C35 (`js-run`). -/
namespace Driver
open Wild

private def parseSetup? : String → Option Proc.Setup
  | "nofork" => some .noFork
  | "pipefail" => some .pipeFailed
  | "forkfail" => some .forkFailed
  | "fork" => some .forked
  | _ => none

/-- `none` (no fault) is `some none`. Signals: `kill9`, `segv`, `sig<N>`; suffix `+core` sets the core flag. -/
private def parseKind? (s : String) : Option (Option Proc.Kind) :=
  let (base, core) := if s.endsWith "+core" then ((s.dropEnd 5).toString, true) else (s, false)
  match base with
  | "none" => some none
  | "error" => some (some .error)
  | "panic" => some (some .panic)
  | "abort" => some (some (.abort core))
  | "oom" => some (some (.oom core))
  | "kill9" => some (some (.signal Proc.SIGKILL core))
  | "segv" => some (some (.signal Proc.SIGSEGV core))
  | _ =>
    if base.startsWith "sig" then
      (parseNat? (base.drop 3).toString).map (fun n => some (.signal (BitVec.ofNat 32 n) core))
    else none

private def parseLoc? : String → Option Proc.Loc
  | "unwritten" => some (.inRun false)
  | "written" => some (.inRun true)
  | "after-run" => some .afterRun
  | "after-inform" => some .afterInform
  | "-" => some (.inRun false)
  | _ => none

private def b (x : Bool) : String := if x then "1" else "0"

private def procExit (old : Bool) (setup kind loc : String) : Option String := do
  let setup ← parseSetup? setup
  let kind ← parseKind? kind
  let loc ← parseLoc? loc
  let sc : Proc.Scenario := ⟨setup, kind.map (fun k => ⟨k, loc⟩)⟩
  if !sc.wf then some "bad-signal" else
  let e := if old then Proc.topEndOld sc else Proc.topEnd sc
  some s!"rc={e.returncode} zero={b (Proc.exitZero e)} complete={b (Proc.outputComplete sc)} failed={b (Proc.failedBeforeDone sc)}"

/-- Observable part only (what the check can see of a real run). -/
private def procObs (setup kind loc : String) : Option String := do
  let setup ← parseSetup? setup
  let kind ← parseKind? kind
  let loc ← parseLoc? loc
  let sc : Proc.Scenario := ⟨setup, kind.map (fun k => ⟨k, loc⟩)⟩
  if !sc.wf then some "bad-signal" else
  let e := Proc.topEnd sc
  -- After a reported failure C17 says nothing about the file (it may be absent, partial, removed again
  -- by the failure path (C18), or even complete when the fault struck between the last byte and the
  -- chmod of a reused executable file): completeness is compared only where C17 constrains it.
  let c := if Proc.failedBeforeDone sc then "na" else b (Proc.outputComplete sc)
  some s!"rc={e.returncode} complete={c}"

private def jsRunEnd? : String → Option Jobserver.RunEnd
  | "ok" => some .ok
  | "error" => some .error
  | "panic" => some .panic
  | "exit-inside" => some .exitInside
  | "abort" => some .abort
  | "killed" => some .killed
  | _ => none

private def jsMode? : String → Option Jobserver.Mode
  | "fork" => some .fork
  | "forkfail" => some .forkFailed
  | "nofork" => some .noFork
  | _ => none

private def optNat? (s : String) : Option (Option Nat) :=
  if s == "-" then some none else (parseNat? s).map some

def opsProc (t : List String) : Option String :=
  match t with
  | ["proc-exit", setup, kind, loc] => some ((procExit false setup kind loc).getD "bad-args")
  | ["proc-exit-old", setup, kind, loc] => some ((procExit true setup kind loc).getD "bad-args")
  | ["proc-obs", setup, kind, loc] => some ((procObs setup kind loc).getD "bad-args")
  -- kernel encoding of a process end: validated against real `waitpid` statuses by the check
  | ["proc-end", "exited", code] => some (((parseNat? code).map fun n =>
      hex32 (Proc.End.exited (BitVec.ofNat 32 n)).status).getD "bad-args")
  | ["proc-end", "signaled", sig, core] => some ((do
      let n ← parseNat? sig
      some (hex32 (Proc.End.signaled (BitVec.ofNat 32 n) (core == "1")).status)).getD "bad-args")
  -- the libc macros on a raw status: validated against Python's os.W* (the C library) by the check
  | ["proc-status", st] => some ((do
      let n ← parseNat? st
      let s := BitVec.ofNat 32 n
      some s!"exited={b (Proc.WIFEXITED s)} signaled={b (Proc.WIFSIGNALED s)} stopped={b (Proc.WIFSTOPPED s)} exitstatus={(Proc.WEXITSTATUS s).toNat} termsig={(Proc.WTERMSIG s).toNat} core={b (Proc.WCOREDUMP s)} code={(Proc.waitCode s).toNat} oldcode={(Proc.waitCodeOld s).toNat}").getD "bad-args")
  | ["js-run", mode, threads, client, ioerr, runEnd, pool] => some ((do
      let m ← jsMode? mode
      let nt ← optNat? threads
      let cl ← parseNat? client
      let io ← optNat? ioerr
      let e ← jsRunEnd? runEnd
      let p ← parseNat? pool
      let c : Jobserver.Config := ⟨nt, cl != 0, 8, io⟩
      let r := Jobserver.system m c e p
      some s!"pool={r.1} threads={r.2} acquired={Jobserver.acquired c p}").getD "bad-args")
  | ["js-pool", mode, threads, client, ioerr, runEnd, pool] => some ((do
      let m ← jsMode? mode
      let nt ← optNat? threads
      let cl ← parseNat? client
      let io ← optNat? ioerr
      let e ← jsRunEnd? runEnd
      let p ← parseNat? pool
      let c : Jobserver.Config := ⟨nt, cl != 0, 8, io⟩
      some s!"pool={(Jobserver.system m c e p).1}").getD "bad-args")
  | _ => none

end Driver
