import Driver.Util
import WildModel.Model.ProtoLayout
/-!
Model side of the C39 trace replay. One request line carries one whole trace:

  pl-replay <numGroups> <numItems> <delayedGroup|-> <once> <roots> <gen> <events>

  once   : `-` or comma-separated item ids deduplicated by the sender (symbol requests)
  roots  : `-` or `g:to.item.d,to.item.d;g:...`   (d = 1: sent through the slot although to = own group)
  gen    : `-` or `i:to.item.d,...;i:...`
  events : `;`-separated, fields comma-separated
      a,g        activate            l,g,item     local push          s,from,to,item,took  slot send
      n,g        enter (check only)  p,g,item     pop                 k,g   park     w,g,n  swap
      x,g        error               d,g          delay               f,r   finish (r = remaining)
      r,g        resume (check only) e,nerr,nst   end of the rayon scope

Answer: `ok <n-events> terminal-ok` | `reject at <i>: <event>: <why>` | `invariant broken at <i>` |
`terminal-not-quiescent at <i>: <why>` | `bad-request <why>`.

  pl-explore <numGroups> <numItems> <delayedGroup|-> <once> <roots> <gen> <maxStates>
exhaustive exploration of all interleavings of the model from `init` (error events excluded):
`explored <states> <terminals> ok` | `explored ... bad <why>` | `explored ... limit`.
-/
namespace Driver
open Wild.ProtoLayout

private def splitNE (s : String) (sep : String) : List String :=
  (s.splitOn sep).filter (fun x => !x.isEmpty)

private def parseReq? (s : String) : Option Req :=
  match s.splitOn "." with
  | [a, b, c] => do
    let a ← a.toNat?; let b ← b.toNat?; let c ← c.toNat?
    some ⟨a, b, c != 0⟩
  | _ => none

/-- `k:req,req;k:...` into an association list -/
private def parseTable? (s : String) : Option (List (Nat × List Req)) :=
  if s == "-" then some [] else
  (splitNE s ";").mapM (fun ent =>
    match ent.splitOn ":" with
    | [k, rs] => do
      let k ← k.toNat?
      let rs ← (splitNE rs ",").mapM parseReq?
      some (k, rs)
    | _ => none)

private def lookupTab (t : Array (List Req)) (k : Nat) : List Req := t.getD k []

private def mkTab (n : Nat) (l : List (Nat × List Req)) : Array (List Req) :=
  l.foldl (fun a (k, rs) => if k < a.size then a.set! k (a[k]! ++ rs) else a) (Array.replicate n [])

def parseGraph? (ng ni dg once roots gen : String) : Option Graph := do
  let ng ← ng.toNat?
  let ni ← ni.toNat?
  let dg ← if dg == "-" then some none else (dg.toNat?).map some
  let onceL ← if once == "-" then some [] else (splitNE once ",").mapM (·.toNat?)
  let onceA := onceL.foldl (fun (a : Array Bool) k => if k < a.size then a.set! k true else a) (Array.replicate ni false)
  let rootsT := mkTab ng (← parseTable? roots)
  let genT := mkTab ni (← parseTable? gen)
  some { numGroups := ng, numItems := ni, gen := lookupTab genT, roots := lookupTab rootsT,
         once := fun i => onceA.getD i false, delayedGroup := dg }

private def findWorker (s : State) (g : Group) : Option Worker := s.workers.find? (·.g == g)

/-- Claim (if the head needs it) and then check that the head request of `g` is `(to, item)`. -/
private def claimAndHead (G : Graph) (s : State) (g : Group) : Except String (State × Req) := do
  let some w := findWorker s g | throw s!"no task owns group {g}"
  let some t := w.outbox.head? | throw "task has no request left to send (item generated more than the graph says)"
  let s ← if needsClaim G t then
      match step? G s (.claim g) with
      | some s' => pure s'
      | none => throw "claim not enabled"
    else pure s
  let some w := findWorker s g | throw s!"no task owns group {g}"
  match w.outbox.head? with
  | some (r, _) => if r == t.1 then pure (s, r) else throw "symbol requested twice (flag already set)"
  | none => throw "symbol requested twice (flag already set)"

private def stepOr (G : Graph) (s : State) (e : Event) (what : String) : Except String State :=
  match step? G s e with
  | some s' => pure s'
  | none => throw s!"{what} not enabled"

private def myPending (s : State) (g : Group) : Nat := (s.pending.filter (mine g)).length

/-- One trace event. Returns the new state; `Except.error` = the model rejects the event. -/
def replayEvent (G : Graph) (s : State) (f : List String) : Except String State := do
  let nat (x : String) : Except String Nat := match x.toNat? with | some n => pure n | none => throw "bad number"
  match f with
  | ["a", g] => stepOr G s (.activate (← nat g)) "activate"
  | ["l", g, i] =>
    let g ← nat g; let i ← nat i
    let (s, r) ← claimAndHead G s g
    if r.to != g || r.item != i || r.direct then throw s!"local push of {i} but the model's next request is to={r.to} item={r.item}"
    stepOr G s (.send g) "local push"
  | ["s", fr, to, i, took] =>
    let fr ← nat fr; let to ← nat to; let i ← nat i; let took ← nat took
    let (s, r) ← claimAndHead G s fr
    if r.to != to || r.item != i || (to == fr && !r.direct) then
      throw s!"send to={to} item={i} but the model's next request is to={r.to} item={r.item}"
    let parked := s.parked.contains to
    if parked != (took != 0) then throw s!"took_worker={took} but model slot {to} parked={parked}"
    stepOr G s (.send fr) "send"
  | ["n", g] =>
    let g ← nat g
    match findWorker s g with
    | some w => if w.outbox.isEmpty then pure s else throw "do_pending_work entered with unsent requests"
    | none => throw s!"do_pending_work entered for group {g} that no task owns"
  | ["p", g, i] => stepOr G s (.pop (← nat g) (← nat i)) "pop"
  | ["k", g] =>
    let g ← nat g
    if myPending s g != 0 then throw s!"park with {myPending s g} pending item(s) in the slot"
    stepOr G s (.parkOrSwap g) "park"
  | ["w", g, n] =>
    let g ← nat g; let n ← nat n
    if myPending s g != n || n == 0 then throw s!"swap of {n} item(s) but the model slot holds {myPending s g}"
    stepOr G s (.parkOrSwap g) "swap"
  | ["x", g] => stepOr G s (.error (← nat g)) "error"
  | ["d", g] => stepOr G s (.delay (← nat g)) "delay"
  | ["f", r] =>
    let r ← nat r
    if s.actRemaining != r + 1 then throw s!"fetch_sub returned remaining={r} but the model counter is {s.actRemaining}"
    stepOr G s .finish "finish"
  | ["r", g] =>
    let g ← nat g
    match findWorker s g with
    | some _ => pure s
    | none => throw s!"delayed group {g} resumed but the model has no task for it"
  | _ => throw "unknown event"

private def endCheck (G : Graph) (s : State) (nerr nst : Nat) : Option String :=
  if !isTerminal s then some "rayon scope ended but the model still has runnable tasks"
  else if nerr == 0 then
    if linkFails s then some "model failed but link reported no error"
    else if !quiescent G s then
      some s!"pending={s.pending.length} parked={s.parked.length}/{G.numGroups} delayed={s.delayed.isSome} (lost work)"
    else if nst != G.numGroups then some s!"unwrap_worker_states found {nst} of {G.numGroups} group states"
    else none
  else if !linkFails s then some "link reported an error the trace does not show" else none

partial def replayLoop (G : Graph) (s : State) (evs : List String) (i : Nat) (ended : Bool) : String :=
  match evs with
  | [] => if ended then s!"ok {i} terminal-ok" else s!"terminal-not-quiescent at {i}: trace has no end event"
  | e :: rest =>
    let f := e.splitOn ","
    match f with
    | ["e", nerr, nst] =>
      match endCheck G s (nerr.toNat?.getD 0) (nst.toNat?.getD 0) with
      | some why => s!"terminal-not-quiescent at {i}: {why}"
      | none => replayLoop G s rest (i + 1) true
    | _ =>
      match replayEvent G s f with
      | .error why => s!"reject at {i}: {e}: {why}"
      | .ok s' =>
        if invCheck G s' then replayLoop G s' rest (i + 1) ended
        else s!"invariant broken at {i}"

/-- Successors over all schedulable events (no error events). -/
private def succs (G : Graph) (s : State) : List State :=
  (candidates s).filterMap (fun e => match e with
    | .error _ => none
    | e => step? G s e)

/-- canonical key of a state (lists are kept in the order the model produces; good enough to
merge the vast majority of duplicates) -/
private def stKey (s : State) : String := reprStr s

partial def exploreLoop (G : Graph) (todo : List State) (seen : List String) (nStates nTerm limit : Nat) : String :=
  match todo with
  | [] => s!"explored {nStates} {nTerm} ok"
  | s :: rest =>
    if nStates ≥ limit then s!"explored {nStates} {nTerm} limit" else
    let k := stKey s
    if seen.contains k then exploreLoop G rest seen nStates nTerm limit else
    if !invCheck G s then s!"explored {nStates} {nTerm} bad invariant" else
    let nx := succs G s
    if nx.isEmpty then
      if isTerminal s && quiescent G s && !linkFails s then exploreLoop G rest (k :: seen) (nStates + 1) (nTerm + 1) limit
      else s!"explored {nStates} {nTerm} bad stuck-or-lost-work pending={s.pending.length} parked={s.parked.length}"
    else exploreLoop G (nx ++ rest) (k :: seen) (nStates + 1) nTerm limit

def opsProtoLayout (t : List String) : Option String :=
  match t with
  | ["pl-replay", ng, ni, dg, once, roots, gen, evs] =>
    match parseGraph? ng ni dg once roots gen with
    | none => some "bad-request graph"
    | some G => some (replayLoop G (init G) (splitNE evs ";") 0 false)
  | ["pl-explore", ng, ni, dg, once, roots, gen, limit] =>
    match parseGraph? ng ni dg once roots gen with
    | none => some "bad-request graph"
    | some G => some (exploreLoop G [init G] [] 0 0 (limit.toNat?.getD 10000))
  | _ => none

end Driver
