import Std.Data.HashSet
import Driver.Util
import WildModel.Model.ProtoMerge
/-! Model side of the C40 trace conformance: `pm-replay`, `pm-explore`. -/
namespace Driver
open Wild.ProtoMerge

def pmOwner? (s : String) : Option Owner :=
  if s == "m" then some .main else
  match s.splitOn "." with
  | [b, n] => do some (.bkt (← b.toNat?) (← n.toNat?))
  | _ => none

def pmSlot? (s : String) : Option Slot :=
  if s == "e" then some .empty
  else if s == "s" then some .strings
  else if s.startsWith "w" then
    match (s.drop 1).toString.splitOn "." with
    | [b, n] => do some (.waiting (← b.toNat?) (← n.toNat?))
    | _ => none
  else none

/-- `some none` = an event that is not a transition of the model (`ur,0`). -/
def pmEvent? (s : String) : Option (Option Event) :=
  match s.splitOn "," with
  | ["ld", o, a] => do some (some (.load (← pmOwner? o) (← a.toNat?)))
  | ["cs", o, seen, ok] => do
      let ok ← (if ok == "1" then some true else if ok == "0" then some false else none)
      some (some (.cas (← pmOwner? o) (← seen.toNat?) ok))
  | ["pp", g] => if g == "-" then some (some (.pop none)) else do some (some (.pop (some (← g.toNat?))))
  | ["sw", g, i, k] => do some (some (.swap (← g.toNat?) (← i.toNat?) (← pmSlot? k)))
  | ["ur", r] => do
      let r ← r.toNat?
      if r = 0 then some none else some (some (.unres r))
  | ["tk", b, n, k] => do some (some (.take (← b.toNat?) (← n.toNat?) (← pmSlot? k)))
  | ["rt", b, n] => do some (some (.ret (← b.toNat?) (← n.toNat?)))
  | ["fn", b, n] => do some (some (.finish (← b.toNat?) (← n.toNat?)))
  | _ => none

def pmParse (toks : List String) : Option (List Event) :=
  toks.foldr (fun t acc => do
    let acc ← acc
    match ← pmEvent? t with
    | none => some acc
    | some e => some (e :: acc)) (some [])

/-- Canonical, comparable image of a state (for exploration). -/
def pmKey (c : Cfg) (s : State) : String :=
  let slotS : Slot → String
    | .empty => "e" | .strings => "s" | .waiting b n => s!"w{b}.{n}"
  let spS : Sp → String
    | .load => "L" | .cas x => s!"C{x}"
  let bS : BktSt → String
    | .parked n => s!"p{n}" | .head n => s!"h{n}" | .proc n => s!"x{n}" | .spawning n sp => s!"s{n}{spS sp}" | .fin => "f"
  let gS : GrpSt → String
    | .queued => "q" | .inTask i => s!"t{i}" | .done => "d"
  let mS : MainSt → String
    | .run sp => spS sp | .done => "d"
  s!"{s.available}|{s.unprocessed}|{mS s.main}|{s.nPop}|{s.nUnres}|"
    ++ String.intercalate "," ((List.range c.B).map (fun b => bS (s.bkt b)))
    ++ "|" ++ String.intercalate "," ((List.range c.G).map (fun g => gS (s.grp g)))
    ++ "|" ++ String.intercalate "," ((List.range c.G).flatMap (fun g => (List.range c.B).map (fun b => slotS (s.slot g b))))
    ++ "|" ++ s!"{s.finished}"

instance : Inhabited State := ⟨init ⟨0, 0, 0⟩⟩

structure ExploreRes where
  states : Nat := 0
  terminals : Nat := 0
  badInv : Option String := none
  badTerminal : Option String := none
  cycle : Bool := false          -- a transition back to a state on the DFS stack (infinite run)
  truncated : Bool := false

/-- Depth-first exploration of all interleavings (explicit stack of (state, key, pending events));
checks `checkFull` in every state and `terminalGood` in every state without enabled event; reports
a back edge to a state on the current path (a reachable cycle). `noEmptyReserve` prunes successful
reservations taken while `unprocessed = []` (the only source of cycles). -/
partial def pmExplore (c : Cfg) (maxStates : Nat) (noEmptyReserve : Bool) : ExploreRes := Id.run do
  let mut res : ExploreRes := {}
  let mut seen : Std.HashSet String := {}
  let mut onPath : Std.HashSet String := {}
  let s0 := init c
  let k0 := pmKey c s0
  let evs (s : State) : List Event :=
    (enabled c s).filter (fun e => match e with
      | .cas _ _ true => !(noEmptyReserve && s.unprocessed.isEmpty)
      | _ => true)
  let mut stack : Array (State × String × List Event) := #[(s0, k0, evs s0)]
  seen := seen.insert k0
  onPath := onPath.insert k0
  res := { res with states := 1 }
  if !checkFull c s0 then res := { res with badInv := some k0 }
  if (enabled c s0).isEmpty then
    res := { res with terminals := 1 }
  while !stack.isEmpty do
    let (s, k, pend) := stack.back!
    match pend with
    | [] =>
      stack := stack.pop
      onPath := onPath.erase k
    | e :: rest =>
      stack := stack.pop.push (s, k, rest)
      match step? c s e with
      | none => res := { res with badInv := some s!"enabled event rejected by step? in {k}" }
      | some s' =>
        let k' := pmKey c s'
        if onPath.contains k' then res := { res with cycle := true }
        if !seen.contains k' then
          if res.states ≥ maxStates then
            res := { res with truncated := true }
          else
            seen := seen.insert k'
            res := { res with states := res.states + 1 }
            if !checkFull c s' && res.badInv.isNone then res := { res with badInv := some k' }
            if (enabled c s').isEmpty then
              res := { res with terminals := res.terminals + 1 }
              if !terminalGood c s' && res.badTerminal.isNone then res := { res with badTerminal := some k' }
            onPath := onPath.insert k'
            stack := stack.push (s', k', evs s')
  return res

def opsProtoMerge (t : List String) : Option String :=
  match t with
  | ["pm-replay", g, b, p, period, endAvail, endFinished, evs] => do
      let c : Cfg := { G := ← g.toNat?, B := ← b.toNat?, P := ← p.toNat? }
      let endAvail ← endAvail.toNat?
      let period ← period.toNat?
      let endFinished ← endFinished.toNat?
      let toks := (evs.splitOn ";").filter (fun s => !s.isEmpty && s != "-")
      match pmParse toks with
      | none => some "bad-trace"
      | some es =>
        match replay c period es with
        | (.reject i, _) => some s!"reject at {i} {toks.filter (fun s => s != "ur,0") |>.getD i "?"}"
        | (.broken i, _) => some s!"invariant broken at {i}"
        | (.ok n, s) =>
          if !checkFull c s then some s!"invariant broken at {n}"
          else if !terminalGood c s then some "terminal-bad model-state"
          else if endAvail != s.available ∨ endFinished != c.B then some "terminal-bad observed"
          else some s!"ok {n}"
  | ["pm-explore", g, b, p, maxStates, mode] => do
      let c : Cfg := { G := ← g.toNat?, B := ← b.toNat?, P := ← p.toNat? }
      let r := pmExplore c (← maxStates.toNat?) (mode == "no-empty-reserve")
      some s!"states={r.states} terminals={r.terminals} inv={r.badInv.getD "ok"} terminal={r.badTerminal.getD "ok"} cycle={r.cycle} truncated={r.truncated}"
  | _ => none

end Driver
