import Driver.Util
import WildModel.Model.RelocRange
/-! Model side of `reloc-write`, `range-from-bits`, `range-contains` (C12). The rows come from the
regenerated `Gen/RelocTables.lean`. -/
namespace Driver
open Wild.Reloc Wild.Gen

def arch? : String → Option Arch
  | "x86_64" => some .x86_64 | "aarch64" => some .aarch64 | "riscv64" => some .riscv64
  | "loongarch64" => some .loongarch64 | _ => none

def opsReloc (t : List String) : Option String :=
  match t with
  | ["reloc-write", a, rt, v, len] => do
      let a ← arch? a; let rt ← parseNat? rt; let v ← parseNat? v; let len ← parseNat? len
      match lookup a rt with
      | none => some "none"
      | some r =>
        let fill : UInt8 := match r.size with | .bits .. => 0 | .bytes _ => 0xa5
        let buf := List.replicate len fill
        match writeToBuffer r (BitVec.ofNat 64 v) buf with
        | (.ok, out) => some s!"ok {if out.isEmpty then "-" else hexBytes out}"
        | (.errAlign, _) => some "err:align"
        | (.errRange, _) => some "err:range"
        | (.errBounds, _) => some "err:bounds"
  | ["range-from-bits", n, s] => do
      let n ← parseNat? n
      match fromBitSize n (if s == "1" then .signed else .unsigned) with
      | some r => some s!"{r.min} {r.max}"
      | none => some "panic:other"
  | ["range-contains", mn, mx, v] => do
      let mn ← parseInt? mn; let mx ← parseInt? mx; let v ← parseInt? v
      some (if contains ⟨mn, mx⟩ v then "1" else "0")
  | _ => none

end Driver
