import Driver.Util
import WildModel.Model.RelocValue
import WildModel.Gen.RelocTables
import WildModel.Props.C01Bridge
/-! Driver ops of C01: `rv` (value + psABI formula of one relocation site), `rvabs`
(`write_absolute_relocation`), `rvgot` (`process_resolution`), `rvload` (loader on one word). -/
namespace Driver
open Wild.RelocValue Wild.Gen

def archRows (a : String) : Option (List RelocRow × (Nat → Option Wild.C01Spec.Formula)) :=
  match a with
  | "x86_64" => some (rows_x86_64, Wild.C01Spec.x86_64)
  | "aarch64" => some (rows_aarch64, Wild.C01Spec.aarch64)
  | "riscv64" => some (rows_riscv64, fun _ => none)
  | "loongarch64" => some (rows_loongarch64, fun _ => none)
  | _ => none

def bv (s : String) : Option (BitVec 64) := (parseNat? s).map (BitVec.ofNat 64)

def parseOk (s : String) : Option OutputKind :=
  match s with
  | "static" => some .staticExecutableNonRelocatable
  | "static-pie" => some .staticExecutableRelocatable
  | "dyn" => some .dynamicExecutableNonRelocatable
  | "pie" => some .dynamicExecutableRelocatable
  | "shared" => some .sharedObject
  | _ => none

/-- flag letters: d dynamic, a absolute, i ifunc, n interposable, x exportDynamic, g ifuncGotForAddress,
o gotTlsOffset, m gotTlsModule, t gotTlsDescriptor -/
def parseFlags (s : String) : Flags :=
  let h (c : Char) := s.toList.contains c
  { dynamic := h 'd', absolute := h 'a', ifunc := h 'i', interposable := h 'n', exportDynamic := h 'x',
    ifuncGotForAddress := h 'g', gotTlsOffset := h 'o', gotTlsModule := h 'm', gotTlsDescriptor := h 't' }

def dynKindName : DynKind → String
  | .copy => "copy" | .irelative => "irelative" | .dtpMod => "dtpmod" | .dtpOff => "dtpoff"
  | .tlsDesc => "tlsdesc" | .tpOff => "tpoff" | .relative => "relative" | .absolute => "abs"
  | .gotEntry => "globdat" | .jumpSlot => "jumpslot" | .relr => "relr"

def showDyn (d : List DynReloc) : String :=
  if d.isEmpty then "-" else
  ",".intercalate (d.map fun r => s!"{dynKindName r.kind}:{hex64 r.offset}:{r.sym}:{hex64 r.addend}")

def opsRelocValue (t : List String) : Option String :=
  match t with
  | ["rv", arch, rtype, s, a, p, g, l, got, tlsS, tlsE, tp, ldm, fl] => do
      let (rows, spec) ← archRows arch
      let rt ← parseNat? rtype
      let e : Env := {
        S := ← bv s, A := ← bv a, P := ← bv p, G := ← bv g, L := ← bv l, gotBase := ← bv got,
        tlsStart := ← bv tlsS, tlsEnd := ← bv tlsE, tpStart := ← bv tp, tlsldGot := ← bv ldm,
        isIfunc := fl.toList.contains 'i', ifuncGotForAddress := fl.toList.contains 'g',
        gotTlsOffset := fl.toList.contains 'o', gotTlsModule := fl.toList.contains 'm',
        sharedObject := fl.toList.contains 's' }
      match rows.find? (fun r => r.rtype == rt) with
      | none => some "norow"
      | some r =>
        match Kind.ofString r.kind, PageMask.ofString r.pageMask with
        | some k, some pm =>
          let v := match k with
            | .absolute => some (valueWithAddend e)
            | _ => relocValueCore k pm (BitVec.ofNat 64 r.bias) e
          let sp := (spec rt).map (Wild.C01Spec.eval (Wild.C01.toLetters e))
          let sh (o : Option (BitVec 64)) := match o with | some x => hex64 x | none => "none"
          some s!"kind={r.kind} v={sh v} spec={sh sp}"
        | _, _ => some "badrow"
  | ["rvabs", ok, relr, alloc, writable, fl, dynsym, s, a, p, l] => do
      let ok ← parseOk ok
      let f := parseFlags fl
      let e : Env := { S := ← bv s, A := ← bv a, P := ← bv p, G := 0, L := ← bv l, gotBase := 0, tlsStart := 0,
                       tlsEnd := 0, tpStart := 0, tlsldGot := 0, isIfunc := f.ifunc }
      let r := absoluteWrite ok (relr == "1") { alloc := alloc == "1", writable := writable == "1" } f (← parseNat? dynsym) e
      some s!"stored={hex64 r.stored} dyn={showDyn r.dyn}"
  | ["rvgot", ok, relr, fl, dynsym, tlsS, tp, raw, got, plt] => do
      let ok ← parseOk ok
      let f := parseFlags fl
      match processResolution ok (relr == "1") f (← parseNat? dynsym) { start := ← bv tlsS, tpStart := ← bv tp }
          (← bv raw) (← bv got) (← bv plt) with
      | none => some "error"
      | some r => some s!"words={",".intercalate (r.words.map hex64)} dyn={showDyn r.dyn}"
  | _ => none

end Driver
