import Driver.Util
import WildModel.Model.Relr
/-! C09 line protocol (model side).

Site tokens: `d:<align>:<secaddr>:<offset>:<value>` (data slot) / `g:<addr>:<value>` (GOT slot).

* `relr-site <relr 0|1> <avail 0|1> <site>`      → `L=<relr|rela> W=<relr|rela>`
* `relr-link <relr 0|1> <site>…`                 → `ok rela=<off>:<addend>,… relr=<word>,…`
                                                   (both sorted ascending) or `err:<kind>`
* `relr-linkold <relr 0|1> <site>…`              → the same for the code before the fix
* `relr-encode <place>…`                         → wild's `.relr.dyn` words for these places
* `relr-decode <word>…`                          → addresses glibc's decoder relocates, in order
* `relr-load <relr 0|1> <base> <site>…`          → `ok <value at each site's place after load>…`
-/
namespace Driver
open Wild.Relr

def parseSite? (tok : String) : Option Site :=
  match tok.splitOn ":" with
  | ["d", al, sa, off, v] => do
    let al ← parseNat? al; let sa ← parseNat? sa; let off ← parseNat? off; let v ← parseNat? v
    some ⟨.data al sa off, BitVec.ofNat 64 v⟩
  | ["g", a, v] => do
    let a ← parseNat? a; let v ← parseNat? v
    some ⟨.got a, BitVec.ofNat 64 v⟩
  | _ => none

def parseSites? (toks : List String) : Option (List Site) := toks.mapM parseSite?

def rr (b : Bool) : String := if b then "relr" else "rela"

def errName : WriteError → String
  | .insufficientRelr => "err:insufficient-relr"
  | .insufficientRela => "err:insufficient-rela"
  | .excessRela => "err:excess-rela"
  | .excessRelr => "err:excess-relr"

def showOut (o : Out) : String :=
  let rela := (o.rela.map fun r => (r.1, r.2.toNat)).mergeSort (fun a b => a.1 ≤ b.1)
  let relr := o.relr.mergeSort (· ≤ ·)
  "ok rela=" ++ ",".intercalate (rela.map fun r => hexOfNat r.1 ++ ":" ++ hexOfNat r.2)
    ++ " relr=" ++ ",".intercalate (relr.map hexOfNat)

def opsRelr (t : List String) : Option String :=
  match t with
  | ["relr-site", relr, avail, site] => do
    let s ← parseSite? site
    some s!"L={rr (layoutChoosesRelr (relr == "1") s.kind)} W={rr (writeChoosesRelr (avail == "1") s.kind)}"
  | "relr-link" :: relr :: sites => do
    let ss ← parseSites? sites
    some (match link (relr == "1") (fun _ => 0) ss with
      | .ok o => showOut { o with relr := encodeRelr o.relr }
      | .error e => errName e)
  | "relr-linkold" :: relr :: sites => do
    let ss ← parseSites? sites
    some (match linkOld (relr == "1") (fun _ => 0) ss with
      | .ok o => showOut { o with relr := encodeRelr o.relr }
      | .error e => errName e)
  | "relr-encode" :: places => do
    let ps ← places.mapM parseNat?
    some (" ".intercalate ((encodeRelr ps).map hexOfNat))
  | "relr-decode" :: words => do
    let ws ← words.mapM parseNat?
    some (" ".intercalate ((decodeRelr ws).map hexOfNat))
  | "relr-load" :: relr :: base :: sites => do
    let ss ← parseSites? sites
    let b ← parseNat? base
    some (match link (relr == "1") (fun _ => 0) ss with
      | .ok o =>
        let im := load (BitVec.ofNat 64 b) { o with relr := encodeRelr o.relr }
        "ok " ++ " ".intercalate (ss.map fun s => hex64 (im s.place))
      | .error e => errName e)
  | _ => none

end Driver
