import Driver.Util
import WildModel.Model.ShSplit
import WildModel.Model.ShQuote
import WildModel.Model.DepFile
/-! Model side of the `c24-*` (save-dir argument rendering, shell splitting) and `c25-*`
(dependency file) line protocol. Strings travel as hex of their UTF-8 bytes (`-` = empty). -/
namespace Driver
open Wild

def hexToChars? (s : String) : Option (List Char) := do
  let bs ← parseHexBytes? s
  let str ← String.fromUTF8? (ByteArray.mk bs.toArray)
  some str.toList

def charsToHex (cs : List Char) : String :=
  let bs := (String.ofList cs).toUTF8.toList
  if bs.isEmpty then "-" else hexBytes bs

def wordsToHex (ws : List (List Char)) : String :=
  if ws.isEmpty then "none" else ",".intercalate (ws.map charsToHex)

def parseArgIn? (tok : String) : Option ShQuote.ArgIn :=
  match tok.splitOn ":" with
  | [h, flags] => do
    let t ← hexToChars? h
    let f := flags.toList
    some { text := t, eqExists := f.contains 'e', copiedSuffix := f.contains 's', copiedWhole := f.contains 'w',
           rspOk := f.contains 'r' }
  | _ => none

def parseEnv? (toks : List String) : Option (List (List Char × List Char)) :=
  toks.mapM (fun t => match t.splitOn "=" with
    | [n, v] => do let v ← hexToChars? v; some (n.toList, v)
    | _ => none)

def envOf (kv : List (List Char × List Char)) : ShSplit.Env :=
  fun n => ((kv.find? (fun p => p.1 == n)).map (·.2)).getD []

def parseDepFile? (tok : String) : Option (List Char × Bool) :=
  match tok.splitOn ":" with
  | [h, f] => do let t ← hexToChars? h; some (t, f == "t")
  | _ => none

def opsShQuote (t : List String) : Option String :=
  match t with
  | "c24-emit" :: cwd :: _savedir :: args => do
      let cwd ← hexToChars? cwd
      let args ← args.mapM parseArgIn?
      some (match ShQuote.emitRunWith cwd args with
        | some text => "ok " ++ charsToHex text
        | none => "err")
  | "c24-emit-old" :: cwd :: _savedir :: args => do
      let cwd ← hexToChars? cwd
      let args ← args.mapM parseArgIn?
      some (match ShQuote.classify cwd args .none 0 with
        | some items => "ok " ++ charsToHex (ShQuote.renderItemsOld items)
        | none => "err")
  | "c24-rsp" :: cwd :: _savedir :: args => do
      let cwd ← hexToChars? cwd
      let args ← args.mapM parseArgIn?
      some (match ShQuote.classify cwd args .none 0 with
        | some items => "ok " ++ charsToHex (ShQuote.renderRspItems items)
        | none => "err")
  | ["c24-tok", text] => do
      let text ← hexToChars? text
      some (match ShQuote.argsFromString text with
        | some ws => "ok " ++ wordsToHex ws
        | none => "err")
  | "c24-split" :: text :: env => do
      let text ← hexToChars? text
      let env ← parseEnv? env
      some (match ShSplit.shSplit (envOf env) text with
        | some ws => "ok " ++ wordsToHex ws
        | none => "none")
  | ["c24-subst", d, out, text] => do
      let d ← hexToChars? d; let out ← hexToChars? out; let text ← hexToChars? text
      some ("ok " ++ charsToHex (ShQuote.substRsp d out text))
  | "c25-write" :: out :: files => do
      let out ← hexToChars? out
      let files ← files.mapM parseDepFile?
      some ("ok " ++ charsToHex (DepFile.writeDep out files))
  | ["c25-parse", text] => do
      let text ← hexToChars? text
      some (match DepFile.parseMake text with
        | some (tgt, deps) => "ok " ++ charsToHex tgt ++ " " ++ wordsToHex deps
        | none => "err")
  | _ => none

end Driver
