import Driver.Util
import WildModel.Model.StrMerge
/-! C07 ops (model side): `sm-split`, `sm-merge`; see harness/src/ops_c07.rs for the request format. -/
namespace Driver
open Wild.StrMerge

def hexRaw (n : Nat) : String := String.ofList (Nat.toDigits 16 n)

def smParseSecs (s : String) : Option (List Sec) :=
  if s == "-" then some [] else
  (s.splitOn ",").mapM (fun p =>
    match p.splitOn ":" with
    | [k, hx] => do
        let d ← parseHexBytes? (if hx.isEmpty then "-" else hx)
        some ⟨d, k == "S"⟩
    | _ => none)

def smParseTable (s : String) : Option (List (List UInt8 × Nat)) :=
  if s == "-" then some [] else
  (s.splitOn ",").mapM (fun p =>
    match p.splitOn "=" with
    | [hx, b] => do
        let d ← parseHexBytes? hx
        let b ← parseNat? b
        some (d, b)
    | _ => none)

def smParseQueries (s : String) : Option (List (Nat × Nat × Int × Bool)) :=
  if s == "-" then some [] else
  (s.splitOn ",").mapM (fun p =>
    match p.splitOn ":" with
    | [si, v, a, k] => do
        let si ← parseNat? si
        let v ← parseNat? v
        let a ← parseInt? a
        some (si, v, a, k == "n")
    | _ => none)

def smErr : Err → String
  | .unterminated => "unterminated"
  | .tooLarge => "toolarge"
  | .notFound => "notfound"
  | .panic => "panic"

def smJoin (xs : List String) (sep : String) : String :=
  if xs.isEmpty then "-" else sep.intercalate xs

def opsStrMerge (t : List String) : Option String :=
  match t with
  | ["sm-split", gb, secs] => do
      let gb ← parseNat? gb
      let secs ← smParseSecs secs
      let ss := withStarts 0 secs
      let gs := splitSections (padLen gb) ss
      let idxOf (st : Nat) : Nat := (ss.map (·.1)).findIdx (· == st)
      some (smJoin (gs.map (fun g =>
        let first := match g.secs with | [] => 0 | (st, _) :: _ => idxOf st
        s!"{first}:{g.secs.length}:{g.lo}:{g.hi}")) ";")
  | ["sm-merge", gb, _par, _threads, secs, table, queries] => do
      let gb ← parseNat? gb
      let secs ← smParseSecs secs
      let table ← smParseTable table
      let queries ← smParseQueries queries
      let h : List UInt8 → Nat := fun s => (table.lookup s).getD 0
      match merge (padLen gb) 16 h secs with
      | .error e => some s!"err {smErr e}"
      | .ok m =>
        let off := ",".intercalate ((List.range 16).map (fun b => hexRaw (baseOf m.buckets b)))
        let bytes := ",".intercalate (m.buckets.map (fun ss => let b := ss.flatten; if b.isEmpty then "-" else hexBytes b))
        let mp := smJoin (m.map.map (fun kv => s!"{hexRaw kv.1}:{hexRaw (baseOf m.buckets kv.2.1 + kv.2.2)}")) ","
        let starts := m.starts.map (·.1)
        let q := smJoin (queries.map (fun (si, v, a, named) =>
          match refAddr m (starts.getD si 0) v a named with
          | .ok x => hexRaw x
          | .error e => s!"e:{smErr e}")) ","
        some s!"ok off={off} bytes={bytes} map={mp} q={q}"
  | _ => none

end Driver
