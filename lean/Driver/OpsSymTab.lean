import Driver.Util
import WildModel.Model.SymTab
namespace Driver
open Wild.SymTab

/-- `X<dyn><opt><excl>` starts a file; `S:<name>:<defined>:<local>:<weak>:<vis d|p|h|i>:<type>:<size>` adds a symbol. -/
def parseXFiles (toks : List String) : Option (List XFile) :=
  let step (acc : Option (List XFile)) (tok : String) : Option (List XFile) := do
    let fs ← acc
    if tok.startsWith "X" then
      match tok.toList with
      | ['X', d, o, x] => some ({ dynamic := d == '1', optional := o == '1', excluded := x == '1', syms := [] } :: fs)
      | _ => none
    else
      match fs with
      | [] => none
      | f :: rest =>
        match tok.splitOn ":" with
        | ["S", n, d, l, w, v, t, sz] => do
          let n ← n.toNat?
          let t ← t.toNat?
          let sz ← sz.toNat?
          let v ← (match v with
            | "d" => some Vis.dflt | "p" => some Vis.prot | "h" => some Vis.hid | "i" => some Vis.intern
            | _ => none)
          some ({ f with syms := f.syms ++ [{ name := n, defined := d == "1", isLocal := l == "1", weak := w == "1",
                                              vis := v, type := t, size := sz }] } :: rest)
        | _ => none
  (toks.foldl step (some [])).map List.reverse

def natList (s : String) : List Nat := (s.splitOn ",").filterMap (·.toNat?)

def sortDedup (l : List Nat) : List Nat :=
  (l.foldl (fun acc n => if acc.contains n then acc else acc ++ [n]) []).mergeSort (· ≤ ·)

def joinNats (l : List Nat) : String := ",".intercalate (l.map toString)

def visChar : Vis → String
  | .dflt => "d" | .prot => "p" | .hid => "h" | .intern => "i"

/-- `st <s|e> <exportAll 0|1> <list: - or n,n,..> <vslocal: - or n,n,..> files...`
answers `X=<exported names> I=<imported names> N=<sh_info> T=<symtab entries name/file/bind/vis/type/size ...>`. -/
def opsSymTab (t : List String) : Option String :=
  match t with
  | "st" :: out :: ea :: lst :: vs :: rest => do
    let fs ← parseXFiles rest
    let cfg : Config := {
      out := if out == "s" then .shared else .exe,
      exportAll := ea == "1",
      exportList := if lst == "-" then none else some (natList lst),
      vsLocal := if vs == "-" then [] else natList vs }
    let names := sortDedup (fs.flatMap fun f => f.syms.map (·.name))
    let exports := sortDedup (dynExports cfg fs)
    let imports := names.filter (isImport cfg fs)
    let tab := (symtab cfg fs).map fun y =>
      s!"{y.name}/{y.file}/{if y.bindLocal then "L" else if y.weak then "W" else "G"}/{visChar y.vis}/{y.type}/{y.size}"
    some (s!"X={joinNats exports} I={joinNats imports} N={shInfo cfg fs} T=" ++ ",".intercalate tab)
  | _ => none

end Driver
