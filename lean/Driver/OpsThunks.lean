import Driver.Util
import WildModel.Model.Thunks
namespace Driver
open Wild.Thunks

private def parseRange? (s : String) : Option Obj :=
  match s.splitOn ":" with
  | [a, b] => do
      let a ← parseNat? a; let b ← parseNat? b
      some ⟨a, b⟩
  | _ => none

private def showAsg (xs : List (Obj × Asg)) : String :=
  String.join (xs.map (fun (p : Obj × Asg) => s!" {p.2.block}:{if p.2.owner then "o" else "-"}"))

private def word32LE (w : BitVec 32) : List UInt8 :=
  [0, 8, 16, 24].map (fun s => UInt8.ofNat ((w.toNat >>> s) % 256))

def opsThunks (t : List String) : Option String :=
  match t with
  | "thunk-assign" :: r :: ranges => do
      let r ← parseNat? r
      let os ← ranges.mapM parseRange?
      let res := assignThunkBlocks r os
      some (s!"n={res.2}" ++ showAsg res.1)
  | "thunk-assign-proposed" :: r :: ranges => do
      let r ← parseNat? r
      let os ← ranges.mapM parseRange?
      let res := assignThunkBlocksProposed r os
      some (s!"n={res.2}" ++ showAsg res.1)
  | ["thunk-write", th, tg] => do
      let th ← parseNat? th; let tg ← parseNat? tg
      let (a, b, c) := writeThunk (BitVec.ofNat 64 th) (BitVec.ofNat 64 tg)
      some (hexBytes (word32LE a ++ word32LE b ++ word32LE c))
  | ["thunk-consts"] =>
      some s!"min_branch_range={hexOfNat MIN_BRANCH_RANGE} thunk_size={hexOfNat THUNK_SIZE} max_thunk_bytes={hexOfNat MAXIMUM_THUNK_BYTES_PER_BLOCK}"
  -- thunk-pir <R> <srcStart> <srcStop> dyn | other | prim <ds> <de>
  | ["thunk-pir", r, a, b, "dyn"] => do
      let r ← parseNat? r; let a ← parseNat? a; let b ← parseNat? b
      some (toString (provablyInRange r a b .dynamic))
  | ["thunk-pir", r, a, b, "other"] => do
      let r ← parseNat? r; let a ← parseNat? a; let b ← parseNat? b
      some (toString (provablyInRange r a b .other))
  | ["thunk-pir", r, a, b, "prim", ds, de] => do
      let r ← parseNat? r; let a ← parseNat? a; let b ← parseNat? b
      let ds ← parseNat? ds; let de ← parseNat? de
      some (toString (provablyInRange r a b (.primary ds de)))
  | _ => none

end Driver
