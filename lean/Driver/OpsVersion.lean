import Driver.Util
import WildModel.Model.VersionScript
import WildModel.Props.C32Spec
import WildModel.Props.C15Spec
/-! Model side of the C32 ops (see harness/src/ops_c32.rs for the protocol). The script TEXT argument
is ignored here; the structure that follows it is what the model evaluates. -/
namespace Driver
open Wild.VersionScript

def parseEntry? (s : String) : Option Entry :=
  match s.toList with
  | sec :: lang :: q :: tok => do
    let tok ← parseHexBytes? (String.ofList tok)
    some { isLocal := sec == 'l', isCxx := lang == 'x', quoted := q == 'q', token := tok }
  | _ => none

def parseNode? (s : String) : Option Node :=
  match s.splitOn ";" with
  | [name, parent, entries] => do
    let name ← parseHexBytes? name
    let parent ← if parent == "_" then some none else (parseNat? parent).map some
    let es ← if entries == "-" then some [] else (entries.splitOn ",").mapM parseEntry?
    some { name := name, parent := parent, entries := es }
  | _ => none

def natOpt (o : Option Nat) : String := match o with | none => "none" | some n => toString n

def opsVersion (t : List String) : Option String :=
  match t with
  | "vs-find" :: name :: _text :: mode :: nodes => do
      let name ← parseHexBytes? name
      let nodes ← nodes.mapM parseNode?
      some (match build (mode == "A") nodes with
        | .error _ => "parse-err"
        | .ok (.rust globals) => s!"rust local:{if globals.contains name then 0 else 1}"
        | .ok (.regular vs) =>
          let fm := match findMatch id vs name with
            | none => "none"
            | some (i, .loc) => s!"{i}L"
            | some (i, .global) => s!"{i}G"
          s!"fm:{fm} ver:{natOpt (versionForSymbol id vs name)} local:{if isLocal id vs name then 1 else 0}")
  | "vs-nodes" :: _text :: mode :: nodes => do
      let nodes ← nodes.mapM parseNode?
      some (match build (mode == "A") nodes with
        | .error _ => "parse-err"
        | .ok (.rust _) => "rust"
        | .ok (.regular vs) =>
          let ns := vs.map (fun v => (if v.name.isEmpty then "-" else hexBytes v.name) ++ ":" ++
            (match v.parentIndex with | none => "_" | some p => toString p))
          s!"count:{versionCount vs} parents:{parentCount vs} {" ".intercalate ns}")
  -- spec-gnu-find <name> <text> <A|N> <node>... : GNU ld's rule (Props/C32Spec.lean) with POSIX fnmatch
  | "spec-gnu-find" :: name :: _text :: _mode :: nodes => do
      let name ← parseHexBytes? name
      let nodes ← nodes.mapM parseNode?
      let toPat (e : Entry) : Wild.GnuVersionSpec.Pat := { cxx := e.isCxx, quoted := e.quoted, text := e.token }
      let gn : List Wild.GnuVersionSpec.Node := nodes.map (fun n =>
        { globals := (n.entries.filter (fun e => !e.isLocal)).map toPat, locals := (n.entries.filter (fun e => e.isLocal)).map toPat })
      let chars (b : List UInt8) : List Char := b.map (fun x => Char.ofNat x.toNat)
      let wm (p s : List UInt8) : Bool := (Wild.FnmatchSpec.fnmatch (chars p) (chars s)).getD false
      some (match Wild.GnuVersionSpec.gnuFind wm id gn name with
        | none => "none"
        | some (i, l) => s!"{i}{if l then "L" else "G"}")
  | _ => none

end Driver
