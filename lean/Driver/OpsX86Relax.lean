import Driver.Util
import WildModel.Model.X86Relax
namespace Driver
open Wild.X86Relax

def kindName : Kind → String
  | .movIndirectToLea => "MovIndirectToLea"
  | .movIndirectToAbsolute => "MovIndirectToAbsolute"
  | .rexMovIndirectToAbsolute n => s!"RexMovIndirectToAbsolute({n})"
  | .rexAddIndirectToAbsolute n => s!"RexAddIndirectToAbsolute({n})"
  | .rexSubIndirectToAbsolute n => s!"RexSubIndirectToAbsolute({n})"
  | .rexCmpIndirectToAbsolute n => s!"RexCmpIndirectToAbsolute({n})"
  | .callIndirectToRelative => "CallIndirectToRelative"
  | .jmpIndirectToRelative => "JmpIndirectToRelative"
  | .noOp => "NoOp"
  | .tlsGdToLocalExec => "TlsGdToLocalExec"
  | .tlsGdToLocalExecLarge => "TlsGdToLocalExecLarge"
  | .tlsLdToLocalExec => "TlsLdToLocalExec"
  | .tlsLdToLocalExecNoPlt => "TlsLdToLocalExecNoPlt"
  | .tlsLdToLocalExec64 => "TlsLdToLocalExec64"
  | .tlsGdToInitialExec => "TlsGdToInitialExec"
  | .tlsDescToLocalExec n => s!"TlsDescToLocalExec({n})"
  | .tlsDescToInitialExec => "TlsDescToInitialExec"
  | .skipTlsDescCall => "SkipTlsDescCall"

def b2n (b : Bool) : Nat := if b then 1 else 0

def relaxLine (rt : Nat) (vf : Nat) (ok : Nat) (sf : Nat) (off : Nat) (add : Int) (bs : List UInt8) : String :=
  match relax rt bs off vf (OutKind.ofIndex ok) sf add with
  | .error .overflow => "panic:overflow"
  | .error .bounds => "panic:bounds"
  | .ok none => "none"
  | .ok (some (r, a)) =>
    s!"{kindName r.kind} rt={r.rtype} m={b2n r.mandatory} skip={b2n (skipNext r.kind)} off={a.off} add={a.addend} {if a.bytes.isEmpty then "-" else hexBytes a.bytes}"

def hex2 (n : Nat) : String := hexByte (UInt8.ofNat n)

def opsX86Relax (t : List String) : Option String :=
  match t with
  | ["x86relax", rt, vf, ok, sf, off, add, bs] => do
      let rt ← parseNat? rt; let vf ← parseNat? vf; let ok ← parseNat? ok; let sf ← parseNat? sf
      let off ← parseNat? off; let add ← parseInt? add; let bs ← parseHexBytes? bs
      some (relaxLine rt vf ok sf off add bs)
  | ["x86relax-sweep", rt, vf, ok, sf, off, add, i, j, bs] => do
      let rt ← parseNat? rt; let vf ← parseNat? vf; let ok ← parseNat? ok; let sf ← parseNat? sf
      let off ← parseNat? off; let add ← parseInt? add; let bs ← parseHexBytes? bs
      let i ← parseNat? i; let j ← parseNat? j
      let outs := Id.run do
        let mut acc : Array String := #[]
        for a in [0:256] do
          for b in [0:256] do
            let w := (bs.set i (UInt8.ofNat a)).set j (UInt8.ofNat b)
            let r := relaxLine rt vf ok sf off add w
            if r != "none" then
              acc := acc.push (hex2 a ++ hex2 b ++ "=" ++ r.replace " " ",")
        return acc
      some s!"n=65536 some={outs.size} {if outs.isEmpty then "-" else "|".intercalate outs.toList}"
  | _ => none

end Driver
