/- Line-protocol helpers shared by all driver ops. Core-only imports. -/
namespace Driver

def hexDigit? (c : Char) : Option Nat :=
  if '0' ≤ c ∧ c ≤ '9' then some (c.toNat - '0'.toNat)
  else if 'a' ≤ c ∧ c ≤ 'f' then some (c.toNat - 'a'.toNat + 10)
  else if 'A' ≤ c ∧ c ≤ 'F' then some (c.toNat - 'A'.toNat + 10)
  else none

def parseHex? (s : String) : Option Nat :=
  if s.isEmpty then none else
  s.toList.foldl (fun acc c => match acc, hexDigit? c with
    | some a, some d => some (a * 16 + d)
    | _, _ => none) (some 0)

/-- Decimal or `0x` hex natural number. -/
def parseNat? (s : String) : Option Nat :=
  if s.startsWith "0x" then parseHex? (s.drop 2).toString else s.toNat?

/-- Signed: optional leading `-`. -/
def parseInt? (s : String) : Option Int :=
  if s.startsWith "-" then (parseNat? (s.drop 1).toString).map (fun n => - (n : Int))
  else (parseNat? s).map (fun n => (n : Int))

def hexOfNat (n : Nat) : String :=
  "0x" ++ String.ofList (Nat.toDigits 16 n)

def hex64 (b : BitVec 64) : String := hexOfNat b.toNat
def hex32 (b : BitVec 32) : String := hexOfNat b.toNat

/-- Bytes as lowercase hex pairs. -/
def hexByte (b : UInt8) : String :=
  let d := Nat.toDigits 16 b.toNat
  String.ofList (if d.length < 2 then '0' :: d else d)

def hexBytes (bs : List UInt8) : String := String.join (bs.map hexByte)

def parseHexBytes? (s : String) : Option (List UInt8) :=
  let rec go : List Char → List UInt8 → Option (List UInt8)
    | [], acc => some acc.reverse
    | [_], _ => none
    | a :: b :: rest, acc =>
      match hexDigit? a, hexDigit? b with
      | some x, some y => go rest (UInt8.ofNat (x * 16 + y) :: acc)
      | _, _ => none
  if s == "-" then some [] else go s.toList []

def words (line : String) : List String :=
  (line.trimAscii.toString.splitOn " ").filter (fun s => !s.isEmpty)

end Driver
