import WildModel.Model.Align
import WildModel.Props.C29
