import WildModel.Model.X86Relax
/-!
C14 - index safety of `RelaxationKind::apply` after `ElfX86_64::new_relaxation` said `some`.
-/
set_option linter.unusedSimpArgs false
namespace Wild.C14
open Wild.X86Relax

/-- Number of bytes at and after `offset` that `apply` overwrites. -/
def applyNeed : Kind → Nat
  | .jmpIndirectToRelative => 4
  | .tlsGdToLocalExec | .tlsGdToInitialExec => 8
  | .tlsGdToLocalExecLarge => 19
  | .tlsLdToLocalExec => 9
  | .tlsLdToLocalExecNoPlt => 10
  | .tlsLdToLocalExec64 => 19
  | .tlsDescToLocalExec _ | .tlsDescToInitialExec => 4
  | .skipTlsDescCall => 2
  | _ => 0

/-- Number of bytes in front of `offset` that `apply` touches. -/
def applyBehind : Kind → Nat
  | .movIndirectToLea | .movIndirectToAbsolute | .callIndirectToRelative | .jmpIndirectToRelative => 2
  | .rexMovIndirectToAbsolute _ | .rexSubIndirectToAbsolute _ | .rexCmpIndirectToAbsolute _ => 3
  | .rexAddIndirectToAbsolute n => if n = 6 then 5 else 3
  | .tlsGdToLocalExec | .tlsGdToInitialExec => 4
  | .tlsGdToLocalExecLarge | .tlsLdToLocalExec | .tlsLdToLocalExecNoPlt | .tlsLdToLocalExec64 => 3
  | .tlsDescToLocalExec _ | .tlsDescToInitialExec => 3
  | .skipTlsDescCall | .noOp => 0

/-- Bytes at and after `offset` that the decision itself has already seen for the TLSGD kinds. -/
def gdNeed : Kind → Nat
  | .tlsGdToLocalExec | .tlsGdToInitialExec => 8
  | .tlsGdToLocalExecLarge => 19
  | _ => 0

theorem idx_ok (bs : List UInt8) (i : Nat) (h : i < bs.length) : idx bs i = .ok bs[i] := by
  simp [idx, List.getElem?_eq_getElem h]

theorem setIdx_ok (bs : List UInt8) (i : Nat) (v : UInt8) (h : i < bs.length) : setIdx bs i v = .ok (bs.set i v) := by
  simp [setIdx, h]

theorem splice_ok (bs : List UInt8) (a : Nat) (new : List UInt8) (h : a + new.length ≤ bs.length) :
    ∃ r, splice bs a new = .ok r := by
  simp [splice, h]

theorem usub_ok (a n : Nat) (h : n ≤ a) : usub a n = .ok (a - n) := by
  simp [usub]; omega

theorem rexToAbs_ok (bs : List UInt8) (off n : Nat) (opc ext : UInt8) (first : Bool)
    (hb : (if n = 6 ∧ first = false then 5 else 3) ≤ off) (hlen : off ≤ bs.length) :
    ∃ r, rexToAbs bs off n opc ext first = .ok r := by
  have h3 : 3 ≤ off := by split at hb <;> omega
  have i1 : off - 1 < bs.length := by omega
  have i2 : off - 2 < bs.length := by omega
  have i3 : off - 3 < bs.length := by omega
  have i5 : off - 5 < bs.length := by omega
  have u1 := usub_ok off 1 (by omega)
  have u2 := usub_ok off 2 (by omega)
  have u3 := usub_ok off 3 h3
  by_cases h6 : n = 6
  · subst h6
    cases first
    · have u5 := usub_ok off 5 (by simp at hb; omega)
      simp [rexToAbs, u1, u2, u3, u5, idx_ok, setIdx_ok, i1, i2, i3, i5, bind, Except.bind, pure, Except.pure, List.length_set]
    · simp [rexToAbs, u1, u2, u3, idx_ok, setIdx_ok, i1, i2, i3, i5, bind, Except.bind, pure, Except.pure, List.length_set]
  · by_cases h3' : n = 3
    · subst h3'
      cases first <;>
        simp [rexToAbs, u1, u2, u3, idx_ok, setIdx_ok, i1, i2, i3, bind, Except.bind, pure, Except.pure, List.length_set]
    · by_cases h4 : n = 4
      · subst h4
        cases first <;>
          simp [rexToAbs, u1, u2, u3, idx_ok, setIdx_ok, i1, i2, i3, bind, Except.bind, pure, Except.pure, List.length_set]
      · cases first <;>
          simp [rexToAbs, h6, h3', h4, u1, u2, u3, idx_ok, setIdx_ok, i1, i2, i3, bind, Except.bind, pure, Except.pure, List.length_set]

/-- `apply` does not panic when the bytes it touches are inside the section. -/
theorem apply_in_bounds (k : Kind) (bs : List UInt8) (off : Nat) (ad : Int)
    (hb : applyBehind k ≤ off) (hlen : off + applyNeed k ≤ bs.length) :
    ∃ a, apply k bs off ad = .ok a := by
  cases k
  case noOp => exact ⟨_, rfl⟩
  case rexMovIndirectToAbsolute n =>
    obtain ⟨r, hr⟩ := rexToAbs_ok bs off n 0xc7 0xc0 true (by simp [applyBehind] at hb; simpa using hb) (by have : ∀ n, applyNeed (.rexMovIndirectToAbsolute n) = 0 ∧ applyNeed (.rexAddIndirectToAbsolute n) = 0 ∧ applyNeed (.rexSubIndirectToAbsolute n) = 0 ∧ applyNeed (.rexCmpIndirectToAbsolute n) = 0 := fun _ => ⟨rfl, rfl, rfl, rfl⟩; have := this n; omega)
    exact ⟨_, by simp [apply, hr, bind, Except.bind, pure, Except.pure]; rfl⟩
  case rexAddIndirectToAbsolute n =>
    obtain ⟨r, hr⟩ := rexToAbs_ok bs off n 0x81 0xc0 false (by simpa [applyBehind] using hb) (by have : ∀ n, applyNeed (.rexMovIndirectToAbsolute n) = 0 ∧ applyNeed (.rexAddIndirectToAbsolute n) = 0 ∧ applyNeed (.rexSubIndirectToAbsolute n) = 0 ∧ applyNeed (.rexCmpIndirectToAbsolute n) = 0 := fun _ => ⟨rfl, rfl, rfl, rfl⟩; have := this n; omega)
    exact ⟨_, by simp [apply, hr, bind, Except.bind, pure, Except.pure]; rfl⟩
  case rexSubIndirectToAbsolute n =>
    obtain ⟨r, hr⟩ := rexToAbs_ok bs off n 0x81 0xe8 true (by simp [applyBehind] at hb; simpa using hb) (by have : ∀ n, applyNeed (.rexMovIndirectToAbsolute n) = 0 ∧ applyNeed (.rexAddIndirectToAbsolute n) = 0 ∧ applyNeed (.rexSubIndirectToAbsolute n) = 0 ∧ applyNeed (.rexCmpIndirectToAbsolute n) = 0 := fun _ => ⟨rfl, rfl, rfl, rfl⟩; have := this n; omega)
    exact ⟨_, by simp [apply, hr, bind, Except.bind, pure, Except.pure]; rfl⟩
  case rexCmpIndirectToAbsolute n =>
    obtain ⟨r, hr⟩ := rexToAbs_ok bs off n 0x81 0xf8 true (by simp [applyBehind] at hb; simpa using hb) (by have : ∀ n, applyNeed (.rexMovIndirectToAbsolute n) = 0 ∧ applyNeed (.rexAddIndirectToAbsolute n) = 0 ∧ applyNeed (.rexSubIndirectToAbsolute n) = 0 ∧ applyNeed (.rexCmpIndirectToAbsolute n) = 0 := fun _ => ⟨rfl, rfl, rfl, rfl⟩; have := this n; omega)
    exact ⟨_, by simp [apply, hr, bind, Except.bind, pure, Except.pure]; rfl⟩
  case tlsDescToLocalExec n =>
    simp only [applyBehind, applyNeed] at hb hlen
    have u1 := usub_ok off 1 (by omega)
    have u3 := usub_ok off 3 (by omega)
    have i1 : off - 1 < bs.length := by omega
    have i3 : off - 3 < bs.length := by omega
    have hs : off - 3 + 7 ≤ bs.length := by omega
    by_cases hn : n = 3 ∨ n = 4
    · simp [apply, splice, u1, u3, idx_ok, i1, i3, hn, hs, bind, Except.bind, pure, Except.pure]
    · simp [apply, splice, u1, u3, idx_ok, i1, i3, hn, hs, bind, Except.bind, pure, Except.pure]
  all_goals
    simp only [applyBehind, applyNeed] at hb hlen
    try have u1 := usub_ok off 1 (by omega)
    try have u2 := usub_ok off 2 (by omega)
    try have u3 := usub_ok off 3 (by omega)
    try have u4 := usub_ok off 4 (by omega)
    try have i1 : off - 1 < bs.length := by omega
    try have i2 : off - 2 < bs.length := by omega
    try have i3 : off - 3 < bs.length := by omega
    simp [apply, splice, *, idx_ok, setIdx_ok, bind, Except.bind, pure, Except.pure, List.length_set]
  all_goals (rw [if_pos (by omega)]; exact ⟨_, rfl⟩)

/-! #### what the decision guarantees in front of `offset` -/

theorem code4Guard_true (c4 : Bool) (bs : List UInt8) (off : Nat) (h : code4Guard c4 bs off = .ok true) : 3 ≤ off := by
  simp [code4Guard, idx, bind, Except.bind, pure, Except.pure] at h
  repeat' (split at h)
  all_goals (simp_all)
  all_goals omega

theorem behind_rexGotpcrelx (c : Cfg) (c4 : Bool) (bs : List UInt8) (off : Nat) (r : Relaxation)
    (h : armRexGotpcrelx c c4 bs off = .ok (some r)) : applyBehind r.kind ≤ off ∧ (gdNeed r.kind ≠ 0 → off + gdNeed r.kind ≤ bs.length) := by
  unfold armRexGotpcrelx at h
  cases hg : code4Guard c4 bs off with
  | error e => simp [hg, bind, Except.bind] at h
  | ok g =>
    cases g
    · simp [hg, bind, Except.bind, pure, Except.pure] at h
    · have := code4Guard_true _ _ _ hg
      simp [hg, idx, bind, Except.bind, pure, Except.pure] at h
      repeat' (split at h)
      all_goals (simp_all)
      all_goals (subst h; simp [applyBehind, gdNeed]; omega)

theorem behind_gotpcrelx (c : Cfg) (bs : List UInt8) (off : Nat) (r : Relaxation)
    (h : armGotpcrelx c bs off = .ok (some r)) : applyBehind r.kind ≤ off ∧ (gdNeed r.kind ≠ 0 → off + gdNeed r.kind ≤ bs.length) := by
  simp [armGotpcrelx, getRange, pure, Except.pure] at h
  repeat' (split at h)
  all_goals (simp_all)
  all_goals (try (subst h; simp [applyBehind, gdNeed]; omega))

theorem behind_gotpcrel (c : Cfg) (bs : List UInt8) (off : Nat) (r : Relaxation)
    (h : armGotpcrel c bs off = .ok (some r)) : applyBehind r.kind ≤ off ∧ (gdNeed r.kind ≠ 0 → off + gdNeed r.kind ≤ bs.length) := by
  simp [armGotpcrel, pure, Except.pure] at h
  repeat' (split at h)
  all_goals (simp_all)
  all_goals (try (subst h; simp [applyBehind, gdNeed]; omega))

theorem behind_gottpoff (c : Cfg) (c4 : Bool) (bs : List UInt8) (off : Nat) (r : Relaxation)
    (h : armGottpoff c c4 bs off = .ok (some r)) : applyBehind r.kind ≤ off ∧ (gdNeed r.kind ≠ 0 → off + gdNeed r.kind ≤ bs.length) := by
  unfold armGottpoff at h
  by_cases hc : (c.exe && !c.interposable) = false
  · simp [hc, pure, Except.pure] at h
  replace hc : (c.exe && !c.interposable) = true := by simpa using hc
  cases hg : code4Guard c4 bs off with
  | error e => simp [hc, hg, bind, Except.bind, pure, Except.pure] at h
  | ok g =>
    cases g
    · simp [hc, hg, bind, Except.bind, pure, Except.pure] at h
    · have := code4Guard_true _ _ _ hg
      simp [hc, hg, bind, Except.bind, pure, Except.pure] at h
      repeat' (split at h)
      all_goals (simp_all)
      all_goals (try (subst h; cases c4 <;> simp [applyBehind, gdNeed] <;> omega))

theorem behind_code6 (c : Cfg) (bs : List UInt8) (off : Nat) (r : Relaxation)
    (h : armCode6Gottpoff c bs off = .ok (some r)) : applyBehind r.kind ≤ off ∧ (gdNeed r.kind ≠ 0 → off + gdNeed r.kind ≤ bs.length) := by
  simp [armCode6Gottpoff, pure, Except.pure] at h
  repeat' (split at h)
  all_goals (simp_all)
  all_goals (try (subst h; simp [applyBehind, gdNeed]; omega))

theorem getRange_some_len (bs : List UInt8) (a b : Nat) (w : List UInt8) (h : getRange bs a b = some w) : b ≤ bs.length := by
  unfold getRange at h
  split at h
  · omega
  · simp at h

theorem identifyTlsGd_some (bs : List UInt8) (off : Nat) (f : TlsGdForm)
    (h : identifyTlsGd bs off = .ok (some f)) :
    4 ≤ off ∧ (f = .regular → off + 8 ≤ bs.length) ∧ (f = .large → off + 19 ≤ bs.length) := by
  unfold identifyTlsGd at h
  by_cases h4 : off < 4
  · simp [h4, pure, Except.pure] at h
  simp only [h4, if_false, pure, Except.pure, bind, Except.bind] at h
  split at h
  · rename_i hc
    have := getRange_some_len _ _ _ _ hc.2
    simp at h; subst h; simp; omega
  · split at h
    · rename_i hc
      have := getRange_some_len _ _ _ _ hc.2.2
      simp at h; subst h; simp; omega
    · simp at h

theorem behind_tlsGd (c : Cfg) (bs : List UInt8) (off : Nat) (r : Relaxation)
    (h : armTlsGd c bs off = .ok (some r)) : applyBehind r.kind ≤ off ∧ (gdNeed r.kind ≠ 0 → off + gdNeed r.kind ≤ bs.length) := by
  unfold armTlsGd at h
  cases hi : identifyTlsGd bs off with
  | error e => simp [hi, bind, Except.bind, pure, Except.pure] at h; repeat' (split at h) <;> simp_all
  | ok o =>
    cases o with
    | none => simp [hi, bind, Except.bind, pure, Except.pure] at h; repeat' (split at h) <;> simp_all
    | some f =>
      have := identifyTlsGd_some _ _ _ hi
      simp [hi, bind, Except.bind, pure, Except.pure] at h
      repeat' (split at h)
      all_goals (simp_all)
      all_goals (try (subst h; simp [applyBehind, gdNeed]; omega))

theorem behind_tlsLd (c : Cfg) (bs : List UInt8) (off : Nat) (r : Relaxation)
    (h : armTlsLd c bs off = .ok (some r)) : applyBehind r.kind ≤ off ∧ (gdNeed r.kind ≠ 0 → off + gdNeed r.kind ≤ bs.length) := by
  simp [armTlsLd, pure, Except.pure] at h
  repeat' (split at h)
  all_goals (simp_all)
  all_goals (try (subst h; simp [applyBehind, gdNeed]; omega))

theorem behind_tlsDesc (c : Cfg) (c4 : Bool) (bs : List UInt8) (off : Nat) (r : Relaxation)
    (h : armTlsDesc c c4 bs off = .ok (some r)) : applyBehind r.kind ≤ off ∧ (gdNeed r.kind ≠ 0 → off + gdNeed r.kind ≤ bs.length) := by
  unfold armTlsDesc at h
  by_cases hc : (!c.interposable && c.exe) = true
  · cases hg : code4Guard c4 bs off with
    | error e => simp [hc, hg, bind, Except.bind, pure, Except.pure] at h
    | ok g =>
      cases g
      · simp [hc, hg, bind, Except.bind, pure, Except.pure] at h
        repeat' (split at h)
        all_goals (simp_all)
        all_goals (try (subst h; simp [applyBehind, gdNeed]; omega))
      · have := code4Guard_true _ _ _ hg
        simp [hc, hg, bind, Except.bind, pure, Except.pure] at h
        repeat' (split at h)
        all_goals (simp_all)
        all_goals (try (subst h; simp [applyBehind, gdNeed]; omega))
  · simp [hc, bind, Except.bind, pure, Except.pure] at h
    repeat' (split at h)
    all_goals (simp_all)
    all_goals (try (subst h; simp [applyBehind, gdNeed]; omega))

/-- Whatever the decision returns, the look-behind of `apply` stays inside the section start. -/
theorem decision_behind (rt : Nat) (bs : List UInt8) (off vf : Nat) (ok : OutKind) (sf : Nat) (r : Relaxation)
    (h : newRelaxation rt bs off vf ok sf = .ok (some r)) : applyBehind r.kind ≤ off ∧ (gdNeed r.kind ≠ 0 → off + gdNeed r.kind ≤ bs.length) := by
  unfold newRelaxation at h
  dsimp only at h
  by_cases c0 : vfIfunc vf = true
  · rw [if_pos c0] at h; (split at h <;> simp at h; subst h; simp [applyBehind, gdNeed])
  rw [if_neg c0] at h
  by_cases c1 : (!sfExec sf) = true
  · rw [if_pos c1] at h; simp at h
  rw [if_neg c1] at h
  by_cases c2 : off > bs.length
  · rw [if_pos c2] at h; simp at h
  rw [if_neg c2] at h
  by_cases c3 : rt = R_REX_GOTPCRELX
  · rw [if_pos c3] at h; exact behind_rexGotpcrelx _ _ _ _ _ h
  rw [if_neg c3] at h
  by_cases c4 : rt = R_CODE_4_GOTPCRELX
  · rw [if_pos c4] at h; exact behind_rexGotpcrelx _ _ _ _ _ h
  rw [if_neg c4] at h
  by_cases c5 : rt = R_GOTPCRELX
  · rw [if_pos c5] at h; exact behind_gotpcrelx _ _ _ _ h
  rw [if_neg c5] at h
  by_cases c6 : rt = R_GOTPCREL
  · rw [if_pos c6] at h; exact behind_gotpcrel _ _ _ _ h
  rw [if_neg c6] at h
  by_cases c7 : rt = R_GOTTPOFF
  · rw [if_pos c7] at h; exact behind_gottpoff _ _ _ _ _ h
  rw [if_neg c7] at h
  by_cases c8 : rt = R_CODE_4_GOTTPOFF
  · rw [if_pos c8] at h; exact behind_gottpoff _ _ _ _ _ h
  rw [if_neg c8] at h
  by_cases c9 : rt = R_CODE_6_GOTTPOFF
  · rw [if_pos c9] at h; exact behind_code6 _ _ _ _ h
  rw [if_neg c9] at h
  by_cases c10 : rt = R_PLT32
  · rw [if_pos c10] at h; (split at h <;> simp at h; subst h; simp [applyBehind, gdNeed])
  rw [if_neg c10] at h
  by_cases c11 : rt = R_PLTOFF64
  · rw [if_pos c11] at h; (split at h <;> simp at h; subst h; simp [applyBehind, gdNeed])
  rw [if_neg c11] at h
  by_cases c12 : rt = R_TLSGD
  · rw [if_pos c12] at h; exact behind_tlsGd _ _ _ _ h
  rw [if_neg c12] at h
  by_cases c13 : rt = R_TLSLD
  · rw [if_pos c13] at h; exact behind_tlsLd _ _ _ _ h
  rw [if_neg c13] at h
  by_cases c14 : rt = R_GOTPC32_TLSDESC
  · rw [if_pos c14] at h; exact behind_tlsDesc _ _ _ _ _ h
  rw [if_neg c14] at h
  by_cases c15 : rt = R_CODE_4_GOTPC32_TLSDESC
  · rw [if_pos c15] at h; exact behind_tlsDesc _ _ _ _ _ h
  rw [if_neg c15] at h
  by_cases c16 : rt = R_TLSDESC_CALL
  · rw [if_pos c16] at h; (split at h <;> simp at h; subst h; simp [applyBehind, gdNeed])
  rw [if_neg c16] at h
  simp at h

/-- Index safety of the relaxation pipeline: if the decision answers `some r` and the section contains
the `applyNeed r.kind` bytes that `apply` writes at and after `offset`, `apply` does not panic. -/
theorem relax_window_in_bounds (rt : Nat) (bs : List UInt8) (off vf : Nat) (ok : OutKind) (sf : Nat) (r : Relaxation) (ad : Int)
    (hdec : newRelaxation rt bs off vf ok sf = .ok (some r))
    (hlen : off + applyNeed r.kind ≤ bs.length) :
    ∃ a, apply r.kind bs off ad = .ok a :=
  apply_in_bounds _ _ _ _ (decision_behind _ _ _ _ _ _ _ hdec).1 hlen

/-- Consequence: with a complete 4-byte relocation field at `offset`, only the three TLSLD kinds can
still index out of bounds. -/
theorem relax_field_in_bounds (rt : Nat) (bs : List UInt8) (off vf : Nat) (ok : OutKind) (sf : Nat) (r : Relaxation) (ad : Int)
    (hdec : newRelaxation rt bs off vf ok sf = .ok (some r))
    (hfield : off + 4 ≤ bs.length)
    (hk : r.kind ≠ .tlsLdToLocalExec ∧ r.kind ≠ .tlsLdToLocalExecNoPlt ∧ r.kind ≠ .tlsLdToLocalExec64) :
    ∃ a, apply r.kind bs off ad = .ok a := by
  refine relax_window_in_bounds rt bs off vf ok sf r ad hdec ?_
  obtain ⟨h1, h2, h3⟩ := hk
  have hg := (decision_behind _ _ _ _ _ _ _ hdec).2
  cases hkk : r.kind <;> simp_all [applyNeed, gdNeed] <;> omega

/-! #### witnesses: the length hypothesis is needed (sections truncated right after the inspected bytes) -/

/-- `lea x@tlsld(%rip),%rdi; call` with the section ending one byte after the `e8` the decision looks at. -/
theorem tlsld_truncated_panics :
    relax R_TLSLD [0x48, 0x8d, 0x3d, 0, 0, 0, 0, 0xe8, 0] 3 8 .dynPie 6 (-4) = .error .bounds := by rfl
theorem tlsld_noplt_truncated_panics :
    relax R_TLSLD [0x48, 0x8d, 0x3d, 0, 0, 0, 0, 0xff, 0x15, 0, 0, 0] 3 8 .dynPie 6 (-4) = .error .bounds := by rfl
theorem tlsld64_truncated_panics :
    relax R_TLSLD [0x48, 0x8d, 0x3d, 0, 0, 0, 0, 0x48, 0xb8, 0, 0, 0, 0, 0, 0, 0, 0] 3 8 .dynPie 6 (-4) = .error .bounds := by rfl
/-- R_X86_64_TLSDESC_CALL at the last byte of (or right behind) the section: the decision inspects nothing. -/
theorem tlsdesc_call_truncated_panics :
    relax R_TLSDESC_CALL [0xff] 0 8 .dynPie 6 0 = .error .bounds ∧ relax R_TLSDESC_CALL [] 0 8 .dynPie 6 0 = .error .bounds := by
  exact ⟨rfl, rfl⟩
/-- `jmp *x@GOTPCREL(%rip)` whose 4-byte field is cut short. -/
theorem jmp_truncated_panics :
    relax R_GOTPCRELX [0xff, 0x25] 2 8 .dynPie 6 (-4) = .error .bounds ∧
    relax R_GOTPCRELX [0xff, 0x25, 0, 0, 0] 2 8 .dynPie 6 (-4) = .error .bounds := by
  exact ⟨rfl, rfl⟩
/-- `lea x@tlsdesc(%rip),%rax` whose field is missing. -/
theorem tlsdesc_truncated_panics :
    relax R_GOTPC32_TLSDESC [0x48, 0x8d, 0x05] 3 8 .dynPie 6 (-4) = .error .bounds ∧
    relax R_GOTPC32_TLSDESC [0x48, 0x8d, 0x05] 3 0 .dynPie 6 (-4) = .error .bounds := by
  exact ⟨rfl, rfl⟩

/-- Without the length hypothesis the index-safety statement is false. -/
theorem relax_window_needs_length_witness :
    ¬ (∀ (rt : Nat) (bs : List UInt8) (off vf : Nat) (ok : OutKind) (sf : Nat) (r : Relaxation) (ad : Int),
        newRelaxation rt bs off vf ok sf = .ok (some r) → ∃ a, apply r.kind bs off ad = .ok a) := by
  intro h
  obtain ⟨a, ha⟩ := h R_TLSLD [0x48, 0x8d, 0x3d, 0, 0, 0, 0, 0xe8, 0] 3 8 .dynPie 6 ⟨.tlsLdToLocalExec, R_NONE, false⟩ (-4) rfl
  have : apply Kind.tlsLdToLocalExec [0x48, 0x8d, 0x3d, 0, 0, 0, 0, 0xe8, 0] 3 (-4) = .error .bounds := rfl
  rw [this] at ha
  cases ha

/-- ... and with it the same inputs are fine once the section holds the whole sequence (non-vacuity). -/
example : ∃ a, relax R_TLSLD [0x48, 0x8d, 0x3d, 0, 0, 0, 0, 0xe8, 0, 0, 0, 0] 3 8 .dynPie 6 (-4) = .ok (some a) := ⟨_, rfl⟩

end Wild.C14
