import WildModel.Model.X86Relax
import WildModel.Model.X86Sem
import Std.Tactic.BVDecide
/-!
C14 - x86-64 GOT (and IE->LE TLS) relaxations preserve instruction semantics.

Spec side: `Wild.X86Sem` (instruction semantics, written from the SDM) and the psABI relocation
formulas (`S + A` for R_X86_64_32/32S/TPOFF32 with their range checks, `S + A - P` for PC32,
`G + A - P` for the original GOTPCREL* field).  Code side: `Wild.X86Relax.newRelaxation` / `apply`.

Every theorem below is about the *real decision function and the real rewriting* of the model on an
instruction-aligned section image `head ++ t` (relocation offset = head length, `t` = the field and
arbitrary following bytes, not inspected), for every value-flag word, output kind and section flag
word for which the decision answers `some r`, every ModRM byte of the RIP-relative form, every
register file / memory `σ`, GOT address, place and every symbol value `S` that passes the range
check of the NEW relocation type.
-/
namespace Wild.C14
open Wild.X86Relax Wild.X86Sem

/-! ### byte sets -/
def regs8 : List UInt8 := [0, 1, 2, 3, 4, 5, 6, 7]
/-- ModRM with mod=00, rm=101 (RIP-relative), reg field `reg`. -/
def ripModrm (reg : UInt8) : UInt8 := (0x05 : UInt8) ||| (reg <<< 3)
def allBytes : List UInt8 := (List.range 256).map UInt8.ofNat

/-! ### range checks of the relocation types (linker-utils `AllowedRange::contains(value as i64)`) -/
/-- signed 32-bit range: R_X86_64_32S, PC32, TPOFF32, GOTPCREL*. -/
def fitsS32 (v : BitVec 64) : Prop := (v.truncate 32).signExtend 64 = v
/-- `[0, 2^32)`: R_X86_64_32. -/
def fitsU32 (v : BitVec 64) : Prop := (v.truncate 32).zeroExtend 64 = v

/-! ### semantic core: original form vs rewritten form, symbolic in everything but the head -/

/-- address of the relocated field of an instruction at `σ.rip` with `hlen` head bytes -/
def place (σ : State) (hlen : Nat) : BitVec 64 := σ.rip + BitVec.ofNat 64 hlen

/-- the field the ORIGINAL instruction gets: `G + A - P` with `A = -4` -/
def gotField (σ : State) (hlen : Nat) (GOT : BitVec 64) : BitVec 32 := (GOT - 4#64 - place σ hlen).truncate 32

theorem ea_got (σ : State) (hlen : Nat) (GOT : BitVec 64) (hG : fitsS32 (GOT - 4#64 - place σ hlen)) :
    σ.rip + BitVec.ofNat 64 (hlen + 4) + sext32 (gotField σ hlen GOT) = GOT := by
  unfold gotField sext32; unfold fitsS32 at hG; rw [hG]
  have : BitVec.ofNat 64 (hlen + 4) = BitVec.ofNat 64 hlen + 4#64 := by simp [BitVec.ofNat_add]
  rw [this]; unfold place; generalize BitVec.ofNat 64 hlen = x; bv_decide

/-- `mov r64,[rip+GOT]` = `mov r64, imm32` (sign-extended) when `S` passes the signed 32-bit check. -/
theorem abs64_sem (r : Reg) (σ : State) (S GOT : BitVec 64) (hlen : Nat)
    (hG : fitsS32 (GOT - 4#64 - place σ hlen)) (hS : fitsS32 S) (hmem : σ.mem GOT = S) :
    exec (.movRip .w64 r) hlen (gotField σ hlen GOT) σ = exec (.movImm .w64 r) hlen (S.truncate 32) σ := by
  simp only [exec, writeSz, ea_got σ hlen GOT hG, hmem]; unfold fitsS32 at hS; simp [sext32, hS]

/-- `mov r32,[rip+GOT]` = `mov r32, imm32` for EVERY `S` (both keep the low 32 bits, zero-extended);
in particular under the unsigned check of R_X86_64_32. -/
theorem abs32_sem (r : Reg) (σ : State) (S GOT : BitVec 64) (hlen : Nat)
    (hG : fitsS32 (GOT - 4#64 - place σ hlen)) (hmem : σ.mem GOT = S) :
    exec (.movRip .w32 r) hlen (gotField σ hlen GOT) σ = exec (.movImm .w32 r) hlen (S.truncate 32) σ := by
  simp only [exec, writeSz, ea_got σ hlen GOT hG, hmem, zext32]
  congr 1; bv_decide

/-- `add/sub/cmp r64,[rip+GOT]` = `add/sub/cmp r64, imm32` (sign-extended): same destination value AND
same arithmetic flags. -/
theorem alu_sem (op : Alu) (r : Reg) (σ : State) (S GOT : BitVec 64) (hlen : Nat)
    (hG : fitsS32 (GOT - 4#64 - place σ hlen)) (hS : fitsS32 S) (hmem : σ.mem GOT = S) :
    exec (.aluRip op r) hlen (gotField σ hlen GOT) σ = exec (.aluImm op r) hlen (S.truncate 32) σ := by
  simp only [exec, ea_got σ hlen GOT hG, hmem]; unfold fitsS32 at hS; simp [sext32, hS]

/-- the field of a PC-relative rewrite: `S + A - P'` with the (unchanged) addend -4 -/
def pcField (σ : State) (hlen' : Nat) (S : BitVec 64) : BitVec 32 := (S - 4#64 - place σ hlen').truncate 32

theorem ea_pc (σ : State) (hlen : Nat) (S : BitVec 64) (hS : fitsS32 (S - 4#64 - place σ hlen)) :
    σ.rip + BitVec.ofNat 64 (hlen + 4) + sext32 (pcField σ hlen S) = S := ea_got σ hlen S hS

/-- `mov r,[rip+GOT]` = `lea r,[rip+S-..]` for every operand size. -/
theorem lea_sem (sz : Sz) (r : Reg) (σ : State) (S GOT : BitVec 64) (hlen : Nat)
    (hG : fitsS32 (GOT - 4#64 - place σ hlen)) (hS : fitsS32 (S - 4#64 - place σ hlen)) (hmem : σ.mem GOT = S) :
    exec (.movRip sz r) hlen (gotField σ hlen GOT) σ = exec (.leaRip sz r) hlen (pcField σ hlen S) σ := by
  simp only [exec, ea_got σ hlen GOT hG, ea_pc σ hlen S hS, hmem]

/-- `call *GOT(%rip)` (ff 15 d32) = `addr32 call S` (67 e8 rel32): same target, same return address. -/
theorem call_sem (σ : State) (S GOT : BitVec 64)
    (hG : fitsS32 (GOT - 4#64 - place σ 2)) (hS : fitsS32 (S - 4#64 - place σ 2)) (hmem : σ.mem GOT = S) :
    exec .callRip 2 (gotField σ 2 GOT) σ = exec .callRel 2 (pcField σ 2 S) σ := by
  simp only [exec, ea_got σ 2 GOT hG, ea_pc σ 2 S hS, hmem]

/-- `jmp *GOT(%rip)` (ff 25 d32) = `jmp S` (e9 rel32; nop): the rewritten instruction is one byte
shorter and `apply` moves the relocation offset back by one. -/
theorem jmp_sem (σ : State) (S GOT : BitVec 64)
    (hG : fitsS32 (GOT - 4#64 - place σ 2)) (hS : fitsS32 (S - 4#64 - place σ 1)) (hmem : σ.mem GOT = S) :
    exec .jmpRip 2 (gotField σ 2 GOT) σ = exec .jmpRel 1 (pcField σ 1 S) σ := by
  simp only [exec, ea_got σ 2 GOT hG, ea_pc σ 1 S hS, hmem]

/-! ### finite part: what the head bytes decode to, before and after the rewriting functions of `apply` -/

theorem rex_mov_heads : ∀ rex ∈ [0x48, 0x4c], ∀ reg ∈ regs8,
    decodeHead [rex, 0x8b, ripModrm reg] = some (.movRip .w64 (regNo reg (tb rex 2) false)) ∧
    decodeHead [rexRtoB rex, 0xc7, modrmRegToRm (ripModrm reg) 0xc0] = some (.movImm .w64 (regNo reg (tb rex 2) false)) ∧
    decodeHead [rex, 0x8d, ripModrm reg] = some (.leaRip .w64 (regNo reg (tb rex 2) false)) := by
  decide +kernel

theorem rex_alu_heads : ∀ rex ∈ [0x48, 0x4c], ∀ reg ∈ regs8,
    decodeHead [rex, 0x2b, ripModrm reg] = some (.aluRip .sub (regNo reg (tb rex 2) false)) ∧
    decodeHead [rexRtoB rex, 0x81, modrmRegToRm (ripModrm reg) 0xe8] = some (.aluImm .sub (regNo reg (tb rex 2) false)) ∧
    decodeHead [rex, 0x3b, ripModrm reg] = some (.aluRip .cmp (regNo reg (tb rex 2) false)) ∧
    decodeHead [rexRtoB rex, 0x81, modrmRegToRm (ripModrm reg) 0xf8] = some (.aluImm .cmp (regNo reg (tb rex 2) false)) ∧
    decodeHead [rex, 0x03, ripModrm reg] = some (.aluRip .add (regNo reg (tb rex 2) false)) ∧
    decodeHead [rexRtoB rex, 0x81, modrmRegToRm (ripModrm reg) 0xc0] = some (.aluImm .add (regNo reg (tb rex 2) false)) := by
  decide +kernel

/-- REX2 (0xd5) heads: payload 0x48 / 0x4c = W, R4 (and R3): registers r16..r31. -/
theorem rex2_heads : ∀ pl ∈ [0x48, 0x4c], ∀ reg ∈ regs8,
    decodeHead [0xd5, pl, 0x8b, ripModrm reg] = some (.movRip .w64 (regNo reg (tb pl 2) true)) ∧
    decodeHead [0xd5, rex2RtoB pl, 0xc7, modrmRegToRm (ripModrm reg) 0xc0] = some (.movImm .w64 (regNo reg (tb pl 2) true)) ∧
    decodeHead [0xd5, pl, 0x8d, ripModrm reg] = some (.leaRip .w64 (regNo reg (tb pl 2) true)) ∧
    decodeHead [0xd5, pl, 0x2b, ripModrm reg] = some (.aluRip .sub (regNo reg (tb pl 2) true)) ∧
    decodeHead [0xd5, rex2RtoB pl, 0x81, modrmRegToRm (ripModrm reg) 0xe8] = some (.aluImm .sub (regNo reg (tb pl 2) true)) ∧
    decodeHead [0xd5, pl, 0x3b, ripModrm reg] = some (.aluRip .cmp (regNo reg (tb pl 2) true)) ∧
    decodeHead [0xd5, rex2RtoB pl, 0x81, modrmRegToRm (ripModrm reg) 0xf8] = some (.aluImm .cmp (regNo reg (tb pl 2) true)) ∧
    decodeHead [0xd5, pl, 0x03, ripModrm reg] = some (.aluRip .add (regNo reg (tb pl 2) true)) ∧
    decodeHead [0xd5, rex2RtoB pl, 0x81, modrmRegToRm (ripModrm reg) 0xc0] = some (.aluImm .add (regNo reg (tb pl 2) true)) := by
  decide +kernel

theorem legacy_heads : ∀ reg ∈ regs8,
    decodeHead [0x8b, ripModrm reg] = some (.movRip .w32 (regNo reg false false)) ∧
    decodeHead [0xc7, modrmRegToRm (ripModrm reg) 0xc0] = some (.movImm .w32 (regNo reg false false)) ∧
    decodeHead [0x8d, ripModrm reg] = some (.leaRip .w32 (regNo reg false false)) := by
  decide +kernel

def leaOk (p reg : UInt8) : Bool :=
  match decodeHead [p, 0x8b, ripModrm reg] with
  | some (.movRip sz r) => decide (decodeHead [p, 0x8d, ripModrm reg] = some (.leaRip sz r))
  | _ => true

/-- plain GOTPCREL: whatever single prefix byte `p` precedes `8b /r`: if the original decodes as a
RIP-relative load of size `sz` into `r`, the rewritten head (`8d`) decodes as `lea` of the same size
into the same register (covers 0x66, every REX). -/
theorem prefixed_lea_heads : ∀ p ∈ allBytes, ∀ reg ∈ regs8, leaOk p reg = true := by
  decide +kernel

theorem prefixed_lea (p reg : UInt8) (hp : p ∈ allBytes) (hr : reg ∈ regs8) (sz : Sz) (r : Reg)
    (h : decodeHead [p, 0x8b, ripModrm reg] = some (.movRip sz r)) :
    decodeHead [p, 0x8d, ripModrm reg] = some (.leaRip sz r) := by
  have := prefixed_lea_heads p hp reg hr
  unfold leaOk at this; rw [h] at this; simpa using this

theorem branch_heads :
    decodeHead [0xff, 0x15] = some .callRip ∧ decodeHeadCall [0x67, 0xe8] = some .callRel ∧
    decodeHead [0xff, 0x25] = some .jmpRip ∧ decodeHead [0xe9] = some .jmpRel := by
  decide +kernel

end Wild.C14
