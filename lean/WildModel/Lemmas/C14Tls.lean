import WildModel.Lemmas.C14Sem
/-!
C14 - TLS code sequences: decoding lemmas for the instructions of the sequences (symbolic in the
relocated 32-bit fields) and the semantic cores GD -> LE on fully relocated code.
Sequence semantics: `Wild.X86Sem.decodeIns` / `stepIns` / `runSeq` (Model/X86Sem.lean).
-/
set_option linter.unusedSimpArgs false
namespace Wild.C14
open Wild.X86Relax Wild.X86Sem

theorem le32_bytes32 (v : BitVec 32) :
    le32 (UInt8.ofBitVec (v.extractLsb' 0 8)) (UInt8.ofBitVec (v.extractLsb' 8 8))
      (UInt8.ofBitVec (v.extractLsb' 16 8)) (UInt8.ofBitVec (v.extractLsb' 24 8)) = v := by
  simp only [le32, UInt8.toBitVec_ofBitVec]; bv_decide

theorem take32_bytes32 (v : BitVec 32) (t : List UInt8) : take32 (bytes32 v ++ t) = some v := by
  simp [bytes32, take32, le32_bytes32]

theorem drop_bytes32 (v : BitVec 32) (t : List UInt8) : (bytes32 v ++ t).drop 4 = t := by
  simp [bytes32]

/-! #### decoding of the instructions of the TLS sequences, symbolic in the relocated field -/

theorem dec_lea_rdi (v : BitVec 32) (t : List UInt8) :
    decodeIns (0x66 :: 0x48 :: 0x8d :: 0x3d :: (bytes32 v ++ t)) = some (.leaRip 7 v, 8) := by
  simp +decide [decodeIns, legacyPfx, decodeOpc, tb, take32_bytes32]

theorem dec_call66 (v : BitVec 32) (t : List UInt8) :
    decodeIns (0x66 :: 0x66 :: 0x48 :: 0xe8 :: (bytes32 v ++ t)) = some (.callRel v, 8) := by
  simp +decide [decodeIns, legacyPfx, decodeOpc, tb, take32_bytes32]

theorem dec_mov_fs0 (t : List UInt8) :
    decodeIns (0x64 :: 0x48 :: 0x8b :: 0x04 :: 0x25 :: 0 :: 0 :: 0 :: 0 :: t) = some (.movFs 0 0#32, 9) := by
  simp +decide [decodeIns, legacyPfx, decodeOpc, tb, take32, le32]

theorem dec_lea_rax (v : BitVec 32) (t : List UInt8) :
    decodeIns (0x48 :: 0x8d :: 0x80 :: (bytes32 v ++ t)) = some (.leaBase 0 0 v, 7) := by
  simp +decide [decodeIns, legacyPfx, decodeOpc, tb, take32_bytes32]

/-- effective address of a PC-relative field holding `X - 4 - P` (P = address of the field) -/
theorem rel_ea (p X : BitVec 64) (h : fitsS32 (X - 4#64 - p)) :
    p + 4#64 + sext32 ((X - 4#64 - p).truncate 32) = X := by
  unfold fitsS32 at h; unfold sext32; rw [h]; bv_decide

theorem volatile_false_ne (r : Reg) (h : volatile r = false) : r ≠ 0 ∧ r ≠ 7 := by
  revert r; decide

/-- GD -> LE, semantic core on the two fully relocated code sequences. -/
theorem gd_le_sem (e : TlsEnv) (σ : State) (t : List UInt8) (G S tlsStart tpStart : BitVec 64)
    (hfs : σ.mem σ.fsBase = σ.fsBase)
    (hoff : σ.mem (G + 8#64) = S - tlsStart)
    (hII : e.tlsBase (σ.mem G) = σ.fsBase - (tpStart - tlsStart))
    (hG : fitsS32 (G - 4#64 - (σ.rip + 4#64)))
    (hcall : fitsS32 (e.getAddr - 4#64 - (σ.rip + 12#64)))
    (hS : fitsS32 (S - tpStart)) :
    ∃ σ₁ σ₂,
      runSeq e 2 (0x66 :: 0x48 :: 0x8d :: 0x3d :: (bytes32 ((G - 4#64 - (σ.rip + 4#64)).truncate 32) ++
                  0x66 :: 0x66 :: 0x48 :: 0xe8 :: (bytes32 ((e.getAddr - 4#64 - (σ.rip + 12#64)).truncate 32) ++ t))) σ = some σ₁ ∧
      runSeq e 2 (0x64 :: 0x48 :: 0x8b :: 0x04 :: 0x25 :: 0 :: 0 :: 0 :: 0 :: 0x48 :: 0x8d :: 0x80 ::
                  (bytes32 ((S - tpStart).truncate 32) ++ t)) σ = some σ₂ ∧
      ObsEq σ₁ σ₂ := by
  have h1 : σ.rip + 8#64 + sext32 ((G - 4#64 - (σ.rip + 4#64)).truncate 32) = G := by
    have := rel_ea _ _ hG; unfold sext32 at *; bv_decide
  have h2 : σ.rip + 8#64 + 8#64 + sext32 ((e.getAddr - 4#64 - (σ.rip + 12#64)).truncate 32) = e.getAddr := by
    have := rel_ea _ _ hcall; unfold sext32 at *; bv_decide
  simp [runSeq, dec_lea_rdi, dec_call66, dec_mov_fs0, dec_lea_rax, stepIns, drop_bytes32, setReg, h1, h2, tlsGetAddr]
  have hz : sext32 0#32 = 0#64 := by decide
  refine ⟨by bv_decide, rfl, rfl, ?_, ?_⟩
  · simp only [if_true, hz, BitVec.add_zero, hfs, hII, hoff]
    unfold fitsS32 at hS; unfold sext32; rw [hS]; bv_omega
  · intro r hr
    obtain ⟨h0, h7⟩ := volatile_false_ne r hr
    simp [h0, h7, hr]

/-! #### large code model sequences -/

theorem take64_bytes64 (v : BitVec 64) (t : List UInt8) : take64 (bytes64 v ++ t) = some v := by
  simp only [bytes64, bytes32, take64, le64, List.cons_append, List.nil_append, le32_bytes32, Option.some.injEq]
  bv_decide

theorem dec_movabs_rax (v : BitVec 64) (t : List UInt8) :
    decodeIns (0x48 :: 0xb8 :: (bytes64 v ++ t)) = some (.movAbs 0 v, 10) := by
  simp +decide [decodeIns, legacyPfx, decodeOpc, take64_bytes64]

theorem drop_bytes64 (v : BitVec 64) (t : List UInt8) : (bytes64 v ++ t).drop 8 = t := by
  simp [bytes64, bytes32]

theorem dec_add_rbx_rax (t : List UInt8) : decodeIns (0x48 :: 0x01 :: 0xd8 :: t) = some (.addRR 0 3, 3) := by
  simp +decide [decodeIns, legacyPfx, decodeOpc]

theorem dec_call_rax (t : List UInt8) : decodeIns (0xff :: 0xd0 :: t) = some (.callReg 0, 2) := by
  simp +decide [decodeIns, legacyPfx, decodeOpc]

theorem dec_nop13 (t : List UInt8) :
    decodeIns (0x66 :: 0x66 :: 0x66 :: 0x66 :: 0x2e :: 0x0f :: 0x1f :: 0x84 :: 0 :: 0 :: 0 :: 0 :: 0 :: t) = some (.nop, 13) := by
  simp +decide [decodeIns, legacyPfx, decodeOpc, memOperandExtra]

theorem dec_nop6 (t : List UInt8) :
    decodeIns (0x66 :: 0x0f :: 0x1f :: 0x44 :: 0 :: 0 :: t) = some (.nop, 6) := by
  simp +decide [decodeIns, legacyPfx, decodeOpc, memOperandExtra]

end Wild.C14
