import WildModel.Model.Hash
import Std.Tactic.BVDecide
/-!
# C08 - Dynamic symbol hash tables find every exported symbol
(placeholder header, replaced below)
-/
namespace Wild.Hash

/-! ## (a)+(b) GNU: abstract well-formedness and glibc lookup -/


/-- Abstract well-formedness of a GNU hash table for the defined-symbol names `syms`. -/
structure GnuWF (t : GnuTable) (syms : List (List UInt8)) : Prop where
  base_pos : 1 ≤ t.symoffset
  nb_pos : 0 < t.nbuckets
  chain_len : t.chain.length = syms.length
  /-- the bloom word glibc reads exists and has both bits of every defined name set -/
  bloom_ok : ∀ n ∈ syms, ∃ w, t.bloom[((dlNewHash n).toNat / 64) &&& (t.bloomSize - 1)]? = some w ∧
      bloomTest t.bloomShift w (dlNewHash n) = true
  /-- stored hash = hash(name) up to the end-of-chain bit -/
  stored : ∀ i (hi : i < syms.length), ∃ w, t.chain[i]? = some w ∧ hashMatch w (dlNewHash syms[i]) = true
  /-- the bucket of symbol `i` points at a symbol `s ≤ i` and the chain does not end before `i` -/
  bucket_ok : ∀ i (hi : i < syms.length), ∃ s, s ≤ i ∧
      t.buckets[(dlNewHash syms[i]).toNat % t.nbuckets]? = some (t.symoffset + s) ∧
      ∀ j, s ≤ j → j < i → ∃ w, t.chain[j]? = some w ∧ isEnd w = false

theorem gnuWalk_sound (chain : List UInt32) (syms : List (List UInt8)) (so : Nat) (h : UInt32) (n : List UInt8) :
    ∀ fuel j i, gnuWalk chain syms so h n fuel j = .found i → ∃ k, i = k + so ∧ syms[k]? = some n := by
  intro fuel
  induction fuel with
  | zero => intro j i hw; simp [gnuWalk] at hw
  | succ f ih =>
    intro j i hw
    unfold gnuWalk at hw
    split at hw
    · cases hw
    · rename_i w hc
      split at hw
      · rename_i hm
        simp only [Bool.and_eq_true, beq_iff_eq] at hm
        cases hw
        exact ⟨j, rfl, hm.2⟩
      · split at hw
        · cases hw
        · exact ih _ _ hw

/-- Soundness for ANY table: a found index names the queried symbol. -/
theorem gnu_lookup_sound (t : GnuTable) (syms : List (List UInt8)) (n : List UInt8) (i : Nat)
    (h : lookupGnu t syms n = .found i) : t.symoffset ≤ i ∧ syms[i - t.symoffset]? = some n := by
  unfold lookupGnu lookupGnuFuel at h
  simp only at h
  split at h
  · cases h
  · split at h
    · split at h
      · cases h
      · split at h
        · cases h
        · split at h
          · cases h
          · split at h
            · cases h
            · obtain ⟨k, rfl, hk⟩ := gnuWalk_sound _ _ _ _ _ _ _ _ h
              exact ⟨Nat.le_add_left _ _, by simpa using hk⟩
    · cases h

theorem gnuWalk_complete (chain : List UInt32) (syms : List (List UInt8)) (so : Nat) (n : List UInt8) (i : Nat)
    (hi : i < syms.length) (hn : syms[i] = n)
    (hst : ∃ w, chain[i]? = some w ∧ hashMatch w (dlNewHash n) = true) :
    ∀ fuel j, j ≤ i → i - j < fuel → (∀ k, j ≤ k → k < i → ∃ w, chain[k]? = some w ∧ isEnd w = false) →
      ∃ k, j ≤ k ∧ k ≤ i ∧ gnuWalk chain syms so (dlNewHash n) n fuel j = .found (k + so) ∧ syms[k]? = some n := by
  intro fuel
  induction fuel with
  | zero => intro j _ hf; omega
  | succ f ih =>
    intro j hj hf hmid
    unfold gnuWalk
    by_cases hji : j = i
    · subst hji
      obtain ⟨w, hw, hm⟩ := hst
      refine ⟨j, Nat.le_refl _, Nat.le_refl _, ?_, ?_⟩
      · simp [hw, hm, hn, hi]
      · simp [hn, hi]
    · have hlt : j < i := by omega
      obtain ⟨w, hw, he⟩ := hmid j (Nat.le_refl _) hlt
      simp only [hw]
      by_cases hm : (hashMatch w (dlNewHash n) && syms[j]? == some n) = true
      · refine ⟨j, Nat.le_refl _, hj, ?_, ?_⟩
        · simp [hm]
        · simp only [Bool.and_eq_true, beq_iff_eq] at hm; exact hm.2
      · obtain ⟨k, hk1, hk2, hk3, hk4⟩ := ih (j + 1) (by omega) (by omega) (fun k h1 h2 => hmid k (by omega) h2)
        refine ⟨k, by omega, hk2, ?_, hk4⟩
        simp [hm, he, hk3]

/-- Completeness for well-formed tables. -/
theorem gnu_lookup_complete_of_wf (t : GnuTable) (syms : List (List UInt8)) (wf : GnuWF t syms)
    (n : List UInt8) (hn : n ∈ syms) :
    ∃ i, lookupGnu t syms n = .found i ∧ t.symoffset ≤ i ∧ syms[i - t.symoffset]? = some n := by
  obtain ⟨i, hi, hin⟩ := List.getElem_of_mem hn
  obtain ⟨w, hw, hbt⟩ := wf.bloom_ok n hn
  obtain ⟨s, hs, hb, hmid⟩ := wf.bucket_ok i hi
  have hst := wf.stored i hi
  rw [hin] at hst hb
  have hnb := wf.nb_pos
  have hbase := wf.base_pos
  obtain ⟨k, hk1, hk2, hk3, hk4⟩ := gnuWalk_complete t.chain syms t.symoffset n i hi hin hst (t.chain.length + 1) s hs
    (by have := wf.chain_len; omega) hmid
  refine ⟨k + t.symoffset, ?_, Nat.le_add_left _ _, by simpa using hk4⟩
  unfold lookupGnu lookupGnuFuel
  simp only [hw, hbt, if_true, hb]
  have h1 : ¬ t.nbuckets = 0 := by omega
  have h2 : ¬ t.symoffset + s = 0 := by omega
  have h3 : ¬ t.symoffset + s < t.symoffset := by omega
  simp only [h1, h2, h3, if_false, Nat.add_sub_cancel_left]
  exact hk3

/-- For ANY table the chain walk terminates within `chain.length + 1` steps. -/
theorem gnuWalk_fuel (chain : List UInt32) (syms : List (List UInt8)) (so : Nat) (h : UInt32) (n : List UInt8) :
    ∀ fuel j, 1 ≤ fuel → chain.length + 1 ≤ fuel + j → gnuWalk chain syms so h n fuel j ≠ .outOfFuel := by
  intro fuel
  induction fuel with
  | zero => intro j h1; omega
  | succ f ih =>
    intro j _ h2
    unfold gnuWalk
    split
    · simp
    · rename_i w hc
      have hj : j < chain.length := by
        have := List.getElem?_eq_some_iff.mp hc
        exact this.1
      split
      · simp
      · split
        · simp
        · exact ih (j + 1) (by omega) (by omega)

theorem gnu_chain_terminates (t : GnuTable) (syms : List (List UInt8)) (n : List UInt8) :
    lookupGnu t syms n ≠ .outOfFuel := by
  unfold lookupGnu lookupGnuFuel
  simp only
  split
  · simp
  · split
    · split
      · simp
      · split
        · simp
        · split
          · simp
          · split
            · simp
            · exact gnuWalk_fuel _ _ _ _ _ _ _ (by omega) (by omega)
    · simp


/-! ## (a)+(b) SysV -/


/-- `SysvPath chain a t`: following non-zero, strictly increasing chain links from `a` reaches `t`. -/
inductive SysvPath (chain : List Nat) : Nat → Nat → Prop
  | refl (a : Nat) : SysvPath chain a a
  | step (a c t : Nat) : chain[a]? = some c → c ≠ 0 → a < c → SysvPath chain c t → SysvPath chain a t

theorem SysvPath.le {chain : List Nat} {a t : Nat} (p : SysvPath chain a t) : a ≤ t := by
  induction p with
  | refl a => exact Nat.le_refl _
  | step a c t _ _ h _ ih => omega

theorem SysvPath.trans {chain : List Nat} {a b c : Nat} (p : SysvPath chain a b) (q : SysvPath chain b c) :
    SysvPath chain a c := by
  induction p with
  | refl a => exact q
  | step a x t h1 h2 h3 _ ih => exact .step a x c h1 h2 h3 (ih q)

/-- Abstract well-formedness of a SysV hash table. -/
structure SysvWF (t : SysvTable) (base : Nat) (syms : List (List UInt8)) : Prop where
  base_pos : 1 ≤ base
  nb_pos : 0 < t.nbucket
  chain_len : base + syms.length ≤ t.chain.length
  /-- the bucket of every symbol is non-empty and its chain reaches the symbol -/
  reach : ∀ i (hi : i < syms.length), ∃ s, s ≠ 0 ∧
      t.buckets[(elfHash syms[i]).toNat % t.nbucket]? = some s ∧ SysvPath t.chain s (base + i)
  /-- links go strictly upwards (so chains are acyclic) -/
  incr : ∀ a c, t.chain[a]? = some c → c = 0 ∨ a < c

theorem sysvWalk_sound (chain : List Nat) (base : Nat) (syms : List (List UInt8)) (n : List UInt8) :
    ∀ fuel idx i, sysvWalk chain base syms n fuel idx = .found i → symName base syms i = some n := by
  intro fuel
  induction fuel with
  | zero => intro idx i h; simp [sysvWalk] at h
  | succ f ih =>
    intro idx i h
    unfold sysvWalk at h
    split at h
    · cases h
    · split at h
      · rename_i hm
        cases h
        simpa using hm
      · split at h
        · cases h
        · exact ih _ _ h

/-- Soundness for ANY table. -/
theorem sysv_lookup_sound (t : SysvTable) (base : Nat) (syms : List (List UInt8)) (n : List UInt8) (i : Nat)
    (h : lookupSysv t base syms n = .found i) : symName base syms i = some n := by
  unfold lookupSysv lookupSysvFuel at h
  split at h
  · cases h
  · split at h
    · cases h
    · exact sysvWalk_sound _ _ _ _ _ _ _ h

theorem sysvWalk_complete (chain : List Nat) (base : Nat) (syms : List (List UInt8)) (n : List UInt8)
    {a t : Nat} (p : SysvPath chain a t) :
    ∀ fuel, a ≠ 0 → t - a < fuel → symName base syms t = some n →
      ∃ k, sysvWalk chain base syms n fuel a = .found k ∧ symName base syms k = some n := by
  induction p with
  | refl a =>
    intro fuel ha hf hn
    cases fuel with
    | zero => omega
    | succ f =>
      refine ⟨a, ?_, hn⟩
      unfold sysvWalk
      simp [ha, hn]
  | step a c t h1 h2 h3 p ih =>
    intro fuel ha hf hn
    cases fuel with
    | zero => omega
    | succ f =>
      unfold sysvWalk
      simp only [ha, if_false]
      by_cases hm : (symName base syms a == some n) = true
      · exact ⟨a, by simp [hm], by simpa using hm⟩
      · have hle := p.le
        obtain ⟨k, hk1, hk2⟩ := ih f h2 (by omega) hn
        exact ⟨k, by simp [hm, h1, hk1], hk2⟩

theorem symName_def (base : Nat) (syms : List (List UInt8)) (i : Nat) (hi : i < syms.length) :
    symName base syms (base + i) = some syms[i] := by
  unfold symName
  have : ¬ base + i < base := by omega
  simp [this, hi]

/-- Completeness for well-formed tables. -/
theorem sysv_lookup_complete_of_wf (t : SysvTable) (base : Nat) (syms : List (List UInt8)) (wf : SysvWF t base syms)
    (n : List UInt8) (hn : n ∈ syms) :
    ∃ i, lookupSysv t base syms n = .found i ∧ symName base syms i = some n := by
  obtain ⟨i, hi, hin⟩ := List.getElem_of_mem hn
  obtain ⟨s, hs0, hb, hp⟩ := wf.reach i hi
  rw [hin] at hb
  have hnb := wf.nb_pos
  have hlen := wf.chain_len
  have hsn : symName base syms (base + i) = some n := by rw [symName_def _ _ _ hi, hin]
  obtain ⟨k, hk1, hk2⟩ := sysvWalk_complete t.chain base syms n hp (t.chain.length + 1) hs0 (by omega) hsn
  refine ⟨k, ?_, hk2⟩
  unfold lookupSysv lookupSysvFuel
  have h1 : ¬ t.nbucket = 0 := by omega
  simp only [h1, if_false, hb]
  exact hk1

theorem sysvWalk_fuel (chain : List Nat) (base : Nat) (syms : List (List UInt8)) (n : List UInt8)
    (incr : ∀ a c, chain[a]? = some c → c = 0 ∨ a < c) :
    ∀ fuel idx, 1 ≤ fuel → chain.length + 1 ≤ fuel + idx → sysvWalk chain base syms n fuel idx ≠ .outOfFuel := by
  intro fuel
  induction fuel with
  | zero => intro idx h; omega
  | succ f ih =>
    intro idx _ h2
    unfold sysvWalk
    split
    · simp
    · split
      · simp
      · split
        · simp
        · rename_i nx hc
          have hlt : idx < chain.length := (List.getElem?_eq_some_iff.mp hc).1
          rcases incr _ _ hc with h0 | hlt2
          · subst h0
            cases f with
            | zero => omega
            | succ f' => unfold sysvWalk; simp
          · exact ih nx (by omega) (by omega)

/-- On well-formed tables the SysV walk terminates within `nchain + 1` steps. -/
theorem sysv_terminates_of_wf (t : SysvTable) (base : Nat) (syms : List (List UInt8)) (wf : SysvWF t base syms)
    (n : List UInt8) : lookupSysv t base syms n ≠ .outOfFuel := by
  unfold lookupSysv lookupSysvFuel
  split
  · simp
  · split
    · simp
    · exact sysvWalk_fuel _ _ _ _ wf.incr _ _ (by omega) (by omega)


/-! ## (c) the GNU builder is well-formed -/


/-! ### bucket counts -/
theorem nextPowerOfTwoGo_pos (n : Nat) : ∀ fuel p, 0 < p → 0 < nextPowerOfTwoGo n fuel p := by
  intro fuel
  induction fuel with
  | zero => intro p hp; simpa [nextPowerOfTwoGo] using hp
  | succ f ih =>
    intro p hp
    unfold nextPowerOfTwoGo
    split
    · exact hp
    · exact ih _ (by omega)

theorem nextPowerOfTwo_pos (n : Nat) : 0 < nextPowerOfTwo n := nextPowerOfTwoGo_pos n n 1 (by omega)

/-! ### the sort -/
def bk (nb : Nat) (n : List UInt8) : Nat := bucketOf nb (dlNewHash n)

theorem symLe_true {nb : Nat} {a b : List UInt8} (h : symLe nb a b = true) : bk nb a ≤ bk nb b := by
  simp only [symLe] at h
  simp only [bk]
  split at h
  · omega
  · split at h
    · cases h
    · omega

theorem symLe_false {nb : Nat} {a b : List UInt8} (h : ¬ symLe nb a b = true) : bk nb b ≤ bk nb a := by
  simp only [symLe] at h
  simp only [bk]
  split at h
  · simp at h
  · omega

theorem insertSym_perm (nb : Nat) (x : List UInt8) : ∀ l, (insertSym nb x l).Perm (x :: l) := by
  intro l
  induction l with
  | nil => exact List.Perm.refl _
  | cons y ys ih =>
    unfold insertSym
    split
    · exact List.Perm.refl _
    · exact (List.Perm.cons y ih).trans (List.Perm.swap x y ys)

/-- the sort only permutes the definitions -/
theorem sortSyms_perm (nb : Nat) (l : List (List UInt8)) : (sortSyms nb l).Perm l := by
  induction l with
  | nil => exact List.Perm.refl _
  | cons x xs ih =>
    show (insertSym nb x (sortSyms nb xs)).Perm (x :: xs)
    exact (insertSym_perm nb x _).trans (List.Perm.cons x ih)

theorem insertSym_sorted (nb : Nat) (x : List UInt8) : ∀ l,
    List.Pairwise (fun a b => bk nb a ≤ bk nb b) l → List.Pairwise (fun a b => bk nb a ≤ bk nb b) (insertSym nb x l) := by
  intro l
  induction l with
  | nil => intro _; simp [insertSym]
  | cons y ys ih =>
    intro hp
    rw [List.pairwise_cons] at hp
    unfold insertSym
    split
    · rename_i hle
      have hxy := symLe_true hle
      rw [List.pairwise_cons]
      refine ⟨?_, List.pairwise_cons.mpr hp⟩
      intro z hz
      rcases List.mem_cons.mp hz with rfl | hz
      · exact hxy
      · exact Nat.le_trans hxy (hp.1 z hz)
    · rename_i hle
      have hyx := symLe_false hle
      rw [List.pairwise_cons]
      refine ⟨?_, ih hp.2⟩
      intro z hz
      have := (insertSym_perm nb x ys).mem_iff.mp hz
      rcases List.mem_cons.mp this with rfl | hz
      · exact hyx
      · exact hp.1 z hz

/-- after the sort the definitions are ordered by bucket (what `.gnu.hash` requires) -/
theorem sorted_by_bucket_of_sort (nb : Nat) (l : List (List UInt8)) :
    List.Pairwise (fun a b => bk nb a ≤ bk nb b) (sortSyms nb l) := by
  induction l with
  | nil => simp [sortSyms]
  | cons x xs ih => exact insertSym_sorted nb x _ ih

/-! ### chain words -/
theorem chainWord_match (h : UInt32) (b : Bool) : hashMatch (chainWord h b) h = true := by
  cases b <;> simp [hashMatch, chainWord] <;> bv_decide

theorem chainWord_isEnd (h : UInt32) (b : Bool) : isEnd (chainWord h b) = b := by
  cases b <;> simp [isEnd, chainWord] <;> bv_decide

theorem gnuChain_length (nb : Nat) : ∀ hs, (gnuChain nb hs).length = hs.length := by
  intro hs; induction hs with
  | nil => rfl
  | cons h t ih => simp [gnuChain, ih]

theorem gnuChain_getElem? (nb : Nat) : ∀ hs j (hj : j < hs.length),
    (gnuChain nb hs)[j]? = some (chainWord hs[j] (lastInChain nb hs[j] (hs.drop (j + 1)))) := by
  intro hs
  induction hs with
  | nil => intro j hj; simp at hj
  | cons h t ih =>
    intro j hj
    cases j with
    | zero => simp [gnuChain]
    | succ j =>
      simp only [gnuChain, List.getElem?_cons_succ, List.getElem_cons_succ, List.drop_succ_cons]
      exact ih j (by simpa using hj)

/-! ### buckets -/
theorem gnuBucketsGo_length (nb base : Nat) : ∀ l i start B, (gnuBucketsGo nb base i start l B).length = B.length := by
  intro l
  induction l with
  | nil => intro i s B; rfl
  | cons h t ih =>
    intro i s B
    unfold gnuBucketsGo
    simp only [ih]
    split <;> simp

theorem lastInChain_false_of_mem (nb : Nat) (h : UInt32) (t : List UInt32) (x : Nat)
    (hp : List.Pairwise (fun a b => bucketOf nb a ≤ bucketOf nb b) (h :: t)) (hx : bucketOf nb h = x)
    (h' : UInt32) (hm : h' ∈ t) (hx' : bucketOf nb h' = x) :
    lastInChain nb h t = false ∧ ∃ h0 t0, t = h0 :: t0 ∧ bucketOf nb h0 = x := by
  cases t with
  | nil => simp at hm
  | cons h0 t0 =>
    rw [List.pairwise_cons, List.pairwise_cons] at hp
    have h1 := hp.1 h0 (by simp)
    have h2 : bucketOf nb h0 ≤ bucketOf nb h' := by
      rcases List.mem_cons.mp hm with rfl | hm
      · exact Nat.le_refl _
      · exact hp.2.1 h' hm
    have : bucketOf nb h0 = x := by omega
    exact ⟨by simp [lastInChain, this, hx], h0, t0, rfl, this⟩

/-- Frame: a bucket that only occurs as the continuation of the current run is not written. -/
theorem gnuBucketsGo_frame (nb base : Nat) : ∀ l, List.Pairwise (fun a b => bucketOf nb a ≤ bucketOf nb b) l →
    ∀ i start B x, (∀ h ∈ l, bucketOf nb h = x → start = false ∧ ∃ h0 t0, l = h0 :: t0 ∧ bucketOf nb h0 = x) →
      (gnuBucketsGo nb base i start l B)[x]? = B[x]? := by
  intro l
  induction l with
  | nil => intro _ i s B x _; rfl
  | cons h t ih =>
    intro hp i start B x hyp
    unfold gnuBucketsGo
    have hpt : List.Pairwise (fun a b => bucketOf nb a ≤ bucketOf nb b) t := (List.pairwise_cons.mp hp).2
    by_cases hx : bucketOf nb h = x
    · have hs := (hyp h (by simp) hx).1
      subst hs
      simp only [Bool.false_eq_true, if_false]
      apply ih hpt
      intro h' hm hx'
      exact lastInChain_false_of_mem nb h t x hp hx h' hm hx'
    · have hB : (if start = true then B.set (bucketOf nb h) (i + base) else B)[x]? = B[x]? := by
        split
        · rw [List.getElem?_set_ne hx]
        · rfl
      rw [← hB]
      apply ih hpt
      intro h' hm hx'
      obtain ⟨_, h0, t0, hl, hb⟩ := hyp h' (List.mem_cons_of_mem _ hm) hx'
      cases hl
      exact absurd hb hx

/-- Main: a bucket that starts a run inside `l` receives the index of the first symbol of that run. -/
theorem gnuBucketsGo_main (nb base : Nat) : ∀ l, List.Pairwise (fun a b => bucketOf nb a ≤ bucketOf nb b) l →
    ∀ i start B x, x < B.length → (∃ h ∈ l, bucketOf nb h = x) →
      (start = true ∨ ∀ h0 t0, l = h0 :: t0 → bucketOf nb h0 ≠ x) →
      ∃ s, ∃ hs : s < l.length, bucketOf nb l[s] = x ∧ (∀ j (hj : j < s), bucketOf nb (l[j]'(by omega)) ≠ x) ∧
        (gnuBucketsGo nb base i start l B)[x]? = some (i + s + base) := by
  intro l
  induction l with
  | nil => intro _ i s B x _ hex; simp at hex
  | cons h t ih =>
    intro hp i start B x hxB hex hstart
    have hpt : List.Pairwise (fun a b => bucketOf nb a ≤ bucketOf nb b) t := (List.pairwise_cons.mp hp).2
    unfold gnuBucketsGo
    by_cases hx : bucketOf nb h = x
    · have hs : start = true := by
        rcases hstart with h1 | h1
        · exact h1
        · exact absurd hx (h1 h t rfl)
      subst hs
      refine ⟨0, by simp, by simpa using hx, by intro j hj; omega, ?_⟩
      simp only [if_true]
      rw [gnuBucketsGo_frame nb base t hpt]
      · rw [hx, List.getElem?_set_self (by simpa using hxB)]; simp
      · intro h' hm hx'
        exact lastInChain_false_of_mem nb h t x hp hx h' hm hx'
    · obtain ⟨h', hm, hx'⟩ := hex
      have hm' : h' ∈ t := by
        rcases List.mem_cons.mp hm with rfl | hm
        · exact absurd hx' hx
        · exact hm
      have hlen : x < (if start = true then B.set (bucketOf nb h) (i + base) else B).length := by
        split <;> simpa using hxB
      obtain ⟨s, hs, h1, h2, h3⟩ := ih hpt (i + 1) (lastInChain nb h t) _ x hlen ⟨h', hm', hx'⟩ (by
        cases t with
        | nil => simp at hm'
        | cons h0 t0 =>
          by_cases hb : bucketOf nb h0 = x
          · left; simp [lastInChain, hb]; omega
          · right; intro a b hab; cases hab; exact hb)
      refine ⟨s + 1, by simpa using hs, by simpa using h1, ?_, ?_⟩
      · intro j hj
        cases j with
        | zero => simpa using hx
        | succ j => simpa using h2 j (by omega)
      · rw [h3]; congr 1; omega

/-! ### bloom filter (wild: one word) -/
theorem bloomTest_set (shift : Nat) (w : UInt64) (h : UInt32) : bloomTest shift (w ||| bloomBits shift h) h = true := by
  simp only [bloomTest, bloomBits, bne_iff_ne, ne_eq]
  generalize shift.toUInt32 = s
  bv_decide

theorem bloomTest_mono (shift : Nat) (w x : UInt64) (h : UInt32) (hw : bloomTest shift w h = true) :
    bloomTest shift (w ||| x) h = true := by
  simp only [bloomTest, bne_iff_ne, ne_eq] at *
  generalize shift.toUInt32 = s at *
  bv_decide

theorem gnuBloom_one_aux (shift : Nat) : ∀ (hs : List UInt32) w0, ∃ w', hs.foldl (bloomAdd shift 1) [w0] = [w'] ∧
    (∀ h, bloomTest shift w0 h = true → bloomTest shift w' h = true) ∧
    (∀ h ∈ hs, bloomTest shift w' h = true) := by
  intro hs
  induction hs with
  | nil => intro w0; exact ⟨w0, rfl, fun _ h => h, by simp⟩
  | cons h t ih =>
    intro w0
    have hstep : bloomAdd shift 1 [w0] h = [w0 ||| bloomBits shift h] := by
      simp [bloomAdd, Nat.mod_one]
    obtain ⟨w', h1, h2, h3⟩ := ih (w0 ||| bloomBits shift h)
    refine ⟨w', by simp [List.foldl_cons, hstep, h1], ?_, ?_⟩
    · intro g hg; exact h2 g (bloomTest_mono shift w0 _ g hg)
    · intro g hg
      rcases List.mem_cons.mp hg with rfl | hg
      · exact h2 g (bloomTest_set shift w0 g)
      · exact h3 g hg


end Wild.Hash
