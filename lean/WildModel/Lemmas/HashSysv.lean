import WildModel.Lemmas.Hash
namespace Wild.Hash

theorem SysvPath.set_of_zero {chain : List Nat} {a t : Nat} (p : SysvPath chain a t) (l v : Nat)
    (hl : chain[l]? = some 0) : SysvPath (chain.set l v) a t := by
  induction p with
  | refl a => exact .refl a
  | step a c t h1 h2 h3 _ ih =>
    have hne : l ≠ a := by
      intro h; subst h; rw [hl] at h1; cases h1; exact h2 rfl
    exact .step a c t (by rw [List.getElem?_set_ne hne]; exact h1) h2 h3 ih

/-- Loop invariant of `write_sysv_hash_table` after the definitions with hashes `pre` have been processed. -/
structure SysvInv (nb base nchain : Nat) (pre : List UInt32) (st : SysvState) : Prop where
  lenB : st.buckets.length = nb
  lenC : st.chains.length = nchain
  lenL : st.last.length = nb
  reach : ∀ i (hi : i < pre.length), ∃ s, s ≠ 0 ∧ st.buckets[pre[i].toNat % nb]? = some s ∧
    SysvPath st.chains s (base + i)
  empty : ∀ b, st.buckets[b]? = some 0 → ∀ i (hi : i < pre.length), pre[i].toNat % nb ≠ b
  lastOk : ∀ b v, st.buckets[b]? = some v → v ≠ 0 → ∃ i, ∃ hi : i < pre.length, pre[i].toNat % nb = b ∧
    st.last[b]? = some (some (base + i)) ∧ st.chains[base + i]? = some 0
  incr : ∀ a c, st.chains[a]? = some c → c = 0 ∨ a < c
  fresh : ∀ a c, st.chains[a]? = some c → c ≠ 0 → a < base + pre.length
  bndB : ∀ (b v : Nat), st.buckets[b]? = some v → v < nchain
  bndC : ∀ (a c : Nat), st.chains[a]? = some c → c < nchain

theorem getElem_snoc_lt {α} (pre : List α) (h : α) (i : Nat) (hi : i < pre.length) :
    (pre ++ [h])[i]'(by simp; omega) = pre[i] := List.getElem_append_left hi

theorem getElem_snoc_eq {α} (pre : List α) (h : α) :
    (pre ++ [h])[pre.length]'(by simp) = h := by simp

theorem sysvStep_inv (nb base nchain : Nat) (hb : 1 ≤ base) (hnb : 0 < nb) (pre : List UInt32) (st : SysvState)
    (inv : SysvInv nb base nchain pre st) (h : UInt32) (hroom : base + pre.length < nchain) :
    SysvInv nb base nchain (pre ++ [h]) (sysvStep nb base st (pre.length, h)) := by
  have hbl : h.toNat % nb < st.buckets.length := by rw [inv.lenB]; exact Nat.mod_lt _ hnb
  have hll : h.toNat % nb < st.last.length := by rw [inv.lenL]; exact Nat.mod_lt _ hnb
  have hkc : base + pre.length < st.chains.length := by rw [inv.lenC]; exact hroom
  obtain ⟨v, hv⟩ : ∃ v, st.buckets[h.toNat % nb]? = some v := ⟨_, List.getElem?_eq_getElem hbl⟩
  have hgetD : st.buckets.getD (h.toNat % nb) 0 = v := by simp [List.getD_eq_getElem?_getD, hv]
  -- the slot of the new symbol is still zero
  have hnew0 : st.chains[base + pre.length]? = some 0 := by
    obtain ⟨c, hc⟩ : ∃ c, st.chains[base + pre.length]? = some c := ⟨_, List.getElem?_eq_getElem hkc⟩
    by_cases hc0 : c = 0
    · rw [hc, hc0]
    · have := inv.fresh _ _ hc hc0; omega
  -- case split on an index of `pre ++ [h]`
  have hidx : ∀ i, i < (pre ++ [h]).length → i < pre.length ∨ i = pre.length := by
    intro i hi; simp at hi; omega
  by_cases hv0 : v = 0
  · -- empty bucket: the new symbol becomes the head
    subst hv0
    have hst : sysvStep nb base st (pre.length, h) =
        { buckets := st.buckets.set (h.toNat % nb) (base + pre.length), chains := st.chains,
          last := st.last.set (h.toNat % nb) (some (base + pre.length)) } := by
      simp [sysvStep, hv]
    rw [hst]
    have hnone := inv.empty _ hv
    refine ⟨by simp [inv.lenB], inv.lenC, by simp [inv.lenL], ?_, ?_, ?_, inv.incr, ?_, ?_, inv.bndC⟩
    · intro i hi
      rcases hidx i hi with hlt | heq
      · obtain ⟨s, hs0, hs1, hs2⟩ := inv.reach i hlt
        refine ⟨s, hs0, ?_, ?_⟩
        · simp only [getElem_snoc_lt pre h i hlt]
          rw [List.getElem?_set_ne (Ne.symm (hnone i hlt))]; exact hs1
        · exact hs2
      · subst heq
        refine ⟨base + pre.length, by omega, ?_, .refl _⟩
        simp only [getElem_snoc_eq]
        rw [List.getElem?_set_self hbl]
    · intro b hb0 i hi
      have hbne : h.toNat % nb ≠ b := by
        intro he; subst he
        rw [List.getElem?_set_self hbl] at hb0
        have := Option.some.inj hb0; omega
      rw [List.getElem?_set_ne hbne] at hb0
      rcases hidx i hi with hlt | heq
      · simp only [getElem_snoc_lt pre h i hlt]; exact inv.empty b hb0 i hlt
      · subst heq; simp only [getElem_snoc_eq]; exact hbne
    · intro b w hbw hw0
      by_cases hbe : h.toNat % nb = b
      · subst hbe
        refine ⟨pre.length, by simp, by simp, ?_, hnew0⟩
        rw [List.getElem?_set_self hll]
      · rw [List.getElem?_set_ne hbe] at hbw
        obtain ⟨i, hi, h1, h2, h3⟩ := inv.lastOk b w hbw hw0
        refine ⟨i, by simp; omega, ?_, ?_, h3⟩
        · simp only [getElem_snoc_lt pre h i hi]; exact h1
        · rw [List.getElem?_set_ne hbe]; exact h2
    · intro a c hac hc0
      have := inv.fresh a c hac hc0
      simp; omega
    · intro b w hbw
      by_cases hbe : h.toNat % nb = b
      · subst hbe
        rw [List.getElem?_set_self hbl] at hbw
        have := Option.some.inj hbw; omega
      · rw [List.getElem?_set_ne hbe] at hbw
        exact inv.bndB b w hbw
  · -- non-empty bucket: link after the last symbol of the bucket
    obtain ⟨i0, hi0, hb0, hl0, hc0⟩ := inv.lastOk _ v hv hv0
    have hlast : st.last.getD (h.toNat % nb) none = some (base + i0) := by
      simp [List.getD_eq_getElem?_getD, hl0]
    have hst : sysvStep nb base st (pre.length, h) =
        { buckets := st.buckets, chains := st.chains.set (base + i0) (base + pre.length),
          last := st.last.set (h.toNat % nb) (some (base + pre.length)) } := by
      simp [sysvStep, hv, hv0, hl0]
    rw [hst]
    have hlc : base + i0 < st.chains.length := (List.getElem?_eq_some_iff.mp hc0).1
    refine ⟨inv.lenB, by simp [inv.lenC], by simp [inv.lenL], ?_, ?_, ?_, ?_, ?_, inv.bndB, ?_⟩
    · intro i hi
      rcases hidx i hi with hlt | heq
      · obtain ⟨s, hs0, hs1, hs2⟩ := inv.reach i hlt
        refine ⟨s, hs0, ?_, hs2.set_of_zero _ _ hc0⟩
        simp only [getElem_snoc_lt pre h i hlt]; exact hs1
      · subst heq
        obtain ⟨s, hs0, hs1, hs2⟩ := inv.reach i0 hi0
        rw [hb0] at hs1
        refine ⟨s, hs0, ?_, ?_⟩
        · simp only [getElem_snoc_eq]; exact hs1
        · refine (hs2.set_of_zero _ _ hc0).trans ?_
          exact .step _ _ _ (List.getElem?_set_self hlc) (by omega) (by omega) (.refl _)
    · intro b hb0' i hi
      rcases hidx i hi with hlt | heq
      · simp only [getElem_snoc_lt pre h i hlt]; exact inv.empty b hb0' i hlt
      · subst heq
        simp only [getElem_snoc_eq]
        intro he; subst he
        rw [hv] at hb0'; cases hb0'; exact hv0 rfl
    · intro b w hbw hw0
      by_cases hbe : h.toNat % nb = b
      · subst hbe
        refine ⟨pre.length, by simp, by simp, ?_, ?_⟩
        · rw [List.getElem?_set_self hll]
        · rw [List.getElem?_set_ne (by omega)]; exact hnew0
      · obtain ⟨i, hi, h1, h2, h3⟩ := inv.lastOk b w hbw hw0
        refine ⟨i, by simp; omega, ?_, ?_, ?_⟩
        · simp only [getElem_snoc_lt pre h i hi]; exact h1
        · rw [List.getElem?_set_ne hbe]; exact h2
        · have : i0 ≠ i := by
            intro he; subst he; exact hbe (hb0.symm.trans h1 |>.symm ▸ rfl)
          rw [List.getElem?_set_ne (by omega)]; exact h3
    · intro a c hac
      by_cases hal : base + i0 = a
      · subst hal
        rw [List.getElem?_set_self hlc] at hac
        cases hac; right; omega
      · rw [List.getElem?_set_ne hal] at hac
        exact inv.incr a c hac
    · intro a c hac hcn
      by_cases hal : base + i0 = a
      · subst hal; simp; omega
      · rw [List.getElem?_set_ne hal] at hac
        have := inv.fresh a c hac hcn
        simp; omega
    · intro a c hac
      by_cases hal : base + i0 = a
      · subst hal
        rw [List.getElem?_set_self hlc] at hac
        have := Option.some.inj hac; omega
      · rw [List.getElem?_set_ne hal] at hac
        exact inv.bndC a c hac

end Wild.Hash
