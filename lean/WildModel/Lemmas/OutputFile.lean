import WildModel.Model.OutputFile
/-! Helper lemmas about `Model/Fs` and `Model/OutputFile` shared by Props C18, C19, C21. -/
namespace Wild.OutputFile
open Wild.Fs

/-! ## primitive operations: pointwise effect -/

theorem touch_names (s : State) (i n) : (s.touchContent i n).names = s.names := rfl
theorem touch_dw (s : State) (i n) : (s.touchContent i n).dirWritable = s.dirWritable := rfl
theorem touch_holders (s : State) (i n) : (s.touchContent i n).holders = s.holders := rfl
theorem touch_next (s : State) (i n) : (s.touchContent i n).nextIno = s.nextIno := rfl
theorem touch_inode_other (s : State) (i n j) (h : j ≠ i) : (s.touchContent i n).inode j = s.inode j := by
  simp [State.touchContent, h]

theorem chmod_names (s : State) (i) : (s.chmodExec i).names = s.names := rfl
theorem chmod_dw (s : State) (i) : (s.chmodExec i).dirWritable = s.dirWritable := rfl
theorem chmod_holders (s : State) (i) : (s.chmodExec i).holders = s.holders := rfl
theorem chmod_next (s : State) (i) : (s.chmodExec i).nextIno = s.nextIno := rfl
theorem chmod_inode_other (s : State) (i j) (h : j ≠ i) : (s.chmodExec i).inode j = s.inode j := by
  simp [State.chmodExec, h]

theorem unlink_dw (s : State) (p : Path) : (s.unlink p).1.dirWritable = s.dirWritable := by
  unfold State.unlink; split <;> (try split) <;> rfl
theorem unlink_holders (s : State) (p : Path) : (s.unlink p).1.holders = s.holders := by
  unfold State.unlink; split <;> (try split) <;> rfl
theorem unlink_next (s : State) (p : Path) : (s.unlink p).1.nextIno = s.nextIno := by
  unfold State.unlink; split <;> (try split) <;> rfl
theorem unlink_inode (s : State) (p : Path) : (s.unlink p).1.inode = s.inode := by
  unfold State.unlink; split <;> (try split) <;> rfl
theorem unlink_names_other (s : State) (p q : Path) (h : q ≠ p) : (s.unlink p).1.names q = s.names q := by
  unfold State.unlink; split <;> (try split) <;> simp [h]
theorem unlink_names_self (s : State) (p : Path) (h : s.dirWritable = true) : (s.unlink p).1.names p = none := by
  unfold State.unlink; split <;> simp_all
theorem unlink_keeps_none (s : State) (p q : Path) (h : s.names q = none) : (s.unlink p).1.names q = none := by
  unfold State.unlink; split <;> (try split) <;> simp_all [upd]
/-- the name either stays or disappears -/
theorem unlink_names_cases (s : State) (p q : Path) : (s.unlink p).1.names q = s.names q ∨ (s.unlink p).1.names q = none := by
  unfold State.unlink; split <;> (try split) <;> simp [upd]
  by_cases hq : q = p <;> simp [hq]

theorem unlink_error_same (s : State) (p : Path) (e : Errno) (h : (s.unlink p).2 = .error e) : (s.unlink p).1 = s := by
  unfold State.unlink at *; split <;> (try split) <;> simp_all
theorem unlink_ok_none (s : State) (p : Path) (u : Unit) (h : (s.unlink p).2 = .ok u) : (s.unlink p).1.names p = none := by
  unfold State.unlink at *; split <;> (try split) <;> simp_all

theorem link_dw (s : State) (a b : Path) : (s.link a b).1.dirWritable = s.dirWritable := by
  unfold State.link; split <;> (try split) <;> (try split) <;> rfl
theorem link_holders (s : State) (a b : Path) : (s.link a b).1.holders = s.holders := by
  unfold State.link; split <;> (try split) <;> (try split) <;> rfl
theorem link_next (s : State) (a b : Path) : (s.link a b).1.nextIno = s.nextIno := by
  unfold State.link; split <;> (try split) <;> (try split) <;> rfl
theorem link_inode (s : State) (a b : Path) : (s.link a b).1.inode = s.inode := by
  unfold State.link; split <;> (try split) <;> (try split) <;> rfl
theorem link_names_other (s : State) (a b q : Path) (h : q ≠ b) : (s.link a b).1.names q = s.names q := by
  unfold State.link; split <;> (try split) <;> (try split) <;> simp [h]
/-- `link` never replaces: an existing name keeps its inode -/
theorem link_names_some (s : State) (a b q : Path) (i : Ino) (h : s.names q = some i) : (s.link a b).1.names q = some i := by
  unfold State.link; split <;> (try split) <;> (try split) <;> simp_all [upd]
  intro hq; subst hq; simp_all
/-- after `link a b` the new name is absent (as before) or names `a`'s inode -/
theorem link_names_tmp (s : State) (a b : Path) (h : s.names b = none) :
    (s.link a b).1.names b = none ∨ (isOk (s.link a b).2 = true ∧ (s.link a b).1.names b = s.names a) := by
  unfold State.link; split <;> (try split) <;> (try split) <;> simp_all [isOk]
theorem link_fail_names (s : State) (a b : Path) (h : isOk (s.link a b).2 = false) : (s.link a b).1 = s := by
  unfold State.link at *; split <;> (try split) <;> (try split) <;> simp_all [isOk]

theorem open_dw (s : State) (p : Path) (t : Bool) : (s.openCreate p t).1.dirWritable = s.dirWritable := by
  unfold State.openCreate; split <;> (repeat' split) <;> rfl
theorem open_holders (s : State) (p : Path) (t : Bool) : (s.openCreate p t).1.holders = s.holders := by
  unfold State.openCreate; split <;> (repeat' split) <;> rfl
theorem open_next (s : State) (p : Path) (t : Bool) : s.nextIno ≤ (s.openCreate p t).1.nextIno := by
  unfold State.openCreate; split <;> (repeat' split) <;> simp [State.touchContent]
theorem open_names_other (s : State) (p q : Path) (t : Bool) (h : q ≠ p) : (s.openCreate p t).1.names q = s.names q := by
  unfold State.openCreate; split <;> (repeat' split) <;> simp [State.touchContent, h]
theorem open_error_same (s : State) (p : Path) (t : Bool) (e : Errno) (h : (s.openCreate p t).2 = .error e) :
    (s.openCreate p t).1 = s := by
  unfold State.openCreate at *; split <;> (repeat' split) <;> simp_all

/-- Successful open: either the existing, non-executing inode was opened in place, or a fresh inode
was created. All other inodes are unchanged. -/
theorem open_ok (s : State) (p : Path) (t : Bool) (i : Ino) (h : (s.openCreate p t).2 = .ok i) :
    ((s.names p = some i ∧ s.executing i = false) ∨ (s.names p = none ∧ i = s.nextIno ∧ s.dirWritable = true)) ∧
    (s.openCreate p t).1.names p = some i ∧
    (∀ j, j ≠ i → (s.openCreate p t).1.inode j = s.inode j) := by
  unfold State.openCreate at *
  split at h
  · rename_i i0 hi0
    simp only [hi0]
    split at h
    · simp at h
    · split at h
      · simp at h
      · split at h <;> (simp at h; subst h; rename_i hex _ _; simp_all [State.touchContent])
  · rename_i hn
    simp only [hn]
    split at h
    · simp at h
    · simp at h; subst h
      rename_i hdw
      simp_all

theorem open_etxtbsy (s : State) (p : Path) (t : Bool) (i : Ino) (hn : s.names p = some i) (hx : s.executing i = true) :
    s.openCreate p t = (s, .error .etxtbsy) := by
  simp [State.openCreate, hn, hx]

theorem open_absent (s : State) (p : Path) (t : Bool) (hn : s.names p = none) (hd : s.dirWritable = true) :
    (s.openCreate p t).2 = .ok s.nextIno := by
  simp [State.openCreate, hn, hd]

end Wild.OutputFile

namespace Wild.OutputFile
open Wild.Fs

/-! ## `sizedOutputNew` -/

/-- What `SizedOutput::new` does to the file system. -/
structure SonSpec (c : Cfg) (a : State) (b : State) (r : Option Ino) : Prop where
  dw : b.dirWritable = a.dirWritable
  holders : b.holders = a.holders
  next : a.nextIno ≤ b.nextIno
  names : ∀ p, p ≠ c.out → b.names p = a.names p
  fail : r = none → (b.names c.out = none ∨ b.names c.out = a.names c.out) ∧ b.inode = a.inode
  ok : ∀ i, r = some i → b.names c.out = some i ∧ (∀ j, j ≠ i → b.inode j = a.inode j) ∧
        ((a.names c.out = some i ∧ a.executing i = false) ∨ i = a.nextIno)
  absent : a.names c.out = none → a.dirWritable = true → r = some a.nextIno

theorem son_spec (c : Cfg) (m : WriteMode) (st : St) :
    SonSpec c st.fs (sizedOutputNew c m st).1.fs (sizedOutputNew c m st).2 := by
  unfold sizedOutputNew
  dsimp only
  generalize hr : st.fs.openCreate c.out (decide (m = .unlinkAndReplace)) = r
  obtain ⟨fs1, res⟩ := r
  have hfs1 : fs1 = (st.fs.openCreate c.out (decide (m = .unlinkAndReplace))).1 := by rw [hr]
  have hres : res = (st.fs.openCreate c.out (decide (m = .unlinkAndReplace))).2 := by rw [hr]
  cases res with
  | ok i =>
    have ho := open_ok st.fs c.out _ i hres.symm
    simp only
    refine ⟨?_, ?_, ?_, ?_, ?_, ?_, ?_⟩
    · simp [State.ftruncate, touch_dw, hfs1, open_dw]
    · simp [State.ftruncate, touch_holders, hfs1, open_holders]
    · simp [State.ftruncate, touch_next, hfs1, open_next]
    · intro p hp; simp [State.ftruncate, touch_names, hfs1, open_names_other _ _ _ _ hp]
    · intro h; simp at h
    · intro i' hi'; simp at hi'; subst hi'
      refine ⟨by simp [State.ftruncate, touch_names, hfs1, ho.2.1], ?_, ?_⟩
      · intro j hj; rw [State.ftruncate, touch_inode_other _ _ _ _ hj, hfs1]; exact ho.2.2 j hj
      · rcases ho.1 with h | h
        · exact Or.inl h
        · exact Or.inr h.2.1
    · intro hn hd
      have := open_absent st.fs c.out (decide (m = .unlinkAndReplace)) hn hd
      rw [← hres] at this; simp at this; simp [this]
  | error e =>
    have hsame : fs1 = st.fs := by rw [hfs1]; exact open_error_same _ _ _ e hres.symm
    subst hsame
    simp only
    split
    · -- ETXTBSY fallback
      generalize hu : st.fs.unlink c.out = u
      obtain ⟨fs2, ures⟩ := u
      have hfs2 : fs2 = (st.fs.unlink c.out).1 := by rw [hu]
      cases ures with
      | error e2 =>
        simp only
        refine ⟨by simp [hfs2, unlink_dw], by simp [hfs2, unlink_holders], by simp [hfs2, unlink_next],
          fun p hp => by simp [hfs2, unlink_names_other _ _ _ hp], ?_, by intro i h; simp at h, ?_⟩
        · intro _
          refine ⟨?_, by simp [hfs2, unlink_inode]⟩
          right
          have : (st.fs.unlink c.out).2 = .error e2 := by rw [hu]
          rw [hfs2, unlink_error_same _ _ _ this]
        · intro hn hd
          have := open_absent st.fs c.out (decide (m = .unlinkAndReplace)) hn hd
          rw [← hres] at this; simp at this
      | ok _ =>
        simp only
        generalize hr3 : fs2.openCreate c.out false = r3
        obtain ⟨fs3, res3⟩ := r3
        have hfs3 : fs3 = (fs2.openCreate c.out false).1 := by rw [hr3]
        have hres3 : res3 = (fs2.openCreate c.out false).2 := by rw [hr3]
        have hn2 : fs2.names c.out = none := by
          have : (st.fs.unlink c.out).2 = .ok () := by rw [hu]
          rw [hfs2]; exact unlink_ok_none _ _ _ this
        cases res3 with
        | ok i =>
          have ho := open_ok fs2 c.out false i hres3.symm
          simp only
          refine ⟨by simp [State.ftruncate, touch_dw, hfs3, open_dw, hfs2, unlink_dw],
            by simp [State.ftruncate, touch_holders, hfs3, open_holders, hfs2, unlink_holders],
            ?_, ?_, by intro h; simp at h, ?_, ?_⟩
          · have := open_next fs2 c.out false
            simp only [State.ftruncate, touch_next, hfs3]; rw [hfs2, unlink_next] at this; rw [hfs2]; exact this
          · intro p hp; simp [State.ftruncate, touch_names, hfs3, open_names_other _ _ _ _ hp, hfs2, unlink_names_other _ _ _ hp]
          · intro i' hi'; simp at hi'; subst hi'
            refine ⟨by simp [State.ftruncate, touch_names, hfs3, ho.2.1], ?_, ?_⟩
            · intro j hj; rw [State.ftruncate, touch_inode_other _ _ _ _ hj, hfs3, ho.2.2 j hj, hfs2, unlink_inode]
            · rcases ho.1 with h | h
              · rw [hn2] at h; simp at h
              · right; rw [h.2.1, hfs2, unlink_next]
          · intro hn hd
            have := open_absent st.fs c.out (decide (m = .unlinkAndReplace)) hn hd
            rw [← hres] at this; simp at this
        | error e3 =>
          have hsame3 : fs3 = fs2 := by rw [hfs3]; exact open_error_same _ _ _ e3 hres3.symm
          subst hsame3
          simp only
          refine ⟨by simp [hfs2, unlink_dw], by simp [hfs2, unlink_holders], by simp [hfs2, unlink_next],
            fun p hp => by simp [hfs2, unlink_names_other _ _ _ hp], ?_, by intro i h; simp at h, ?_⟩
          · intro _; exact ⟨Or.inl hn2, by simp [hfs2, unlink_inode]⟩
          · intro hn hd
            have := open_absent st.fs c.out (decide (m = .unlinkAndReplace)) hn hd
            rw [← hres] at this; simp at this
    · simp only
      refine ⟨rfl, rfl, Nat.le_refl _, fun _ _ => rfl, fun _ => ⟨Or.inr rfl, rfl⟩, by intro i h; simp at h, ?_⟩
      intro hn hd
      have := open_absent st.fs c.out (decide (m = .unlinkAndReplace)) hn hd
      rw [← hres] at this; simp at this

end Wild.OutputFile

namespace Wild.OutputFile
open Wild.Fs

/-! ## moving the old output aside (v1: `hard_link` + `remove_file`) -/

structure MoveSpec (c : Cfg) (a b : State) (spawned : Bool) : Prop where
  dw : b.dirWritable = a.dirWritable
  holders : b.holders = a.holders
  next : b.nextIno = a.nextIno
  inode : b.inode = a.inode
  names : ∀ p, p ≠ c.out → p ≠ c.tmp → b.names p = a.names p
  out_absent : a.dirWritable = true → b.names c.out = none
  out_cases : b.names c.out = a.names c.out ∨ b.names c.out = none
  tmp_keep : spawned = false → c.tmp ≠ c.out → b.names c.tmp = a.names c.tmp
  tmp_new : spawned = true → a.names c.tmp = none ∧ a.dirWritable = true ∧ c.tmp ≠ c.out

theorem move_spec_v1 (c : Cfg) (st : St) (hv : c.ver = .v1) :
    MoveSpec c st.fs (moveOldAside c st).1.fs (moveOldAside c st).2 := by
  unfold moveOldAside
  simp only [hv]
  refine ⟨by simp [unlink_dw, link_dw], by simp [unlink_holders, link_holders], by simp [unlink_next, link_next],
    by simp [unlink_inode, link_inode], ?_, ?_, ?_, ?_, ?_⟩
  · intro p h1 h2; simp [unlink_names_other _ _ _ h1, link_names_other _ _ _ _ h2]
  · intro hd; exact unlink_names_self _ _ (by simp [link_dw, hd])
  · rcases unlink_names_cases (st.fs.link c.out c.tmp).1 c.out c.out with h | h
    · left; (try simp only); rw [h]
      cases hn : st.fs.names c.out with
      | none =>
        have : isOk (st.fs.link c.out c.tmp).2 = false := by simp [State.link, hn, isOk]
        rw [link_fail_names _ _ _ this, hn]
      | some i => exact link_names_some _ _ _ _ _ hn
    · right; exact h
  · intro hsp hne
    (try simp only at hsp ⊢)
    rw [unlink_names_other _ _ _ hne, link_fail_names _ _ _ hsp]
  · intro hsp
    (try simp only at hsp)
    unfold State.link at hsp
    split at hsp
    · simp [isOk] at hsp
    · rename_i i hi
      split at hsp
      · simp [isOk] at hsp
      · rename_i hn
        split at hsp
        · simp [isOk] at hsp
        · refine ⟨hn, by simp_all, ?_⟩
          intro he; rw [he] at hn; rw [hn] at hi; simp at hi

theorem unlinkTmp_dw (c : Cfg) (st : St) : (unlinkTmp c st).fs.dirWritable = st.fs.dirWritable := by
  simp [unlinkTmp, unlink_dw]
theorem unlinkTmp_holders (c : Cfg) (st : St) : (unlinkTmp c st).fs.holders = st.fs.holders := by
  simp [unlinkTmp, unlink_holders]
theorem unlinkTmp_next (c : Cfg) (st : St) : (unlinkTmp c st).fs.nextIno = st.fs.nextIno := by
  simp [unlinkTmp, unlink_next]
theorem unlinkTmp_inode (c : Cfg) (st : St) : (unlinkTmp c st).fs.inode = st.fs.inode := by
  simp [unlinkTmp, unlink_inode]
theorem unlinkTmp_names_other (c : Cfg) (st : St) (p : Path) (h : p ≠ c.tmp) :
    (unlinkTmp c st).fs.names p = st.fs.names p := by
  simp [unlinkTmp, unlink_names_other _ _ _ h]
theorem unlinkTmp_names_tmp (c : Cfg) (st : St) (h : st.fs.dirWritable = true) :
    (unlinkTmp c st).fs.names c.tmp = none := by
  simp [unlinkTmp, unlink_names_self _ _ h]

/-! ## the two creators -/

/-- Effect of creating the output (`bgCreate` / `fgCreate`), code version v1. `inPlaceOk` says when
an existing inode may be opened in place. -/
structure CreateSpec (c : Cfg) (inPlaceOk : Prop) (tmpClean : Prop) (a b : State) (r : Option Ino) : Prop where
  dw : b.dirWritable = a.dirWritable
  holders : b.holders = a.holders
  next : a.nextIno ≤ b.nextIno
  names : ∀ p, p ≠ c.out → p ≠ c.tmp → b.names p = a.names p
  tmp : tmpClean → c.tmp ≠ c.out → b.names c.tmp = a.names c.tmp
  fail : r = none → (b.names c.out = none ∨ b.names c.out = a.names c.out) ∧ b.inode = a.inode
  ok : ∀ i, r = some i → b.names c.out = some i ∧ (∀ j, j ≠ i → b.inode j = a.inode j) ∧
        ((a.names c.out = some i ∧ a.executing i = false ∧ inPlaceOk) ∨ i = a.nextIno)

theorem fgCreate_spec (c : Cfg) (m : WriteMode) (st : St) :
    CreateSpec c (st.fs.dirWritable = false) True st.fs (fgCreate c m st).1.fs (fgCreate c m st).2 := by
  unfold fgCreate
  have h := son_spec c m ⟨(st.fs.unlink c.out).1, st.tr ++ [.unlinkOut (isOk (st.fs.unlink c.out).2)]⟩
  simp only at h ⊢
  refine ⟨by rw [h.dw, unlink_dw], by rw [h.holders, unlink_holders], by have := h.next; rwa [unlink_next] at this,
    ?_, ?_, ?_, ?_⟩
  · intro p h1 _; rw [h.names p h1, unlink_names_other _ _ _ h1]
  · intro _ hne; rw [h.names c.tmp hne, unlink_names_other _ _ _ hne]
  · intro hr
    have := h.fail hr
    rw [unlink_inode] at this
    refine ⟨?_, this.2⟩
    rcases this.1 with h1 | h1
    · exact Or.inl h1
    · rw [h1]
      rcases unlink_names_cases st.fs c.out c.out with h3 | h3
      · exact Or.inr h3
      · exact Or.inl h3
  · intro i hr
    have := h.ok i hr
    rw [unlink_inode, unlink_next] at this
    refine ⟨this.1, this.2.1, ?_⟩
    rcases this.2.2 with ⟨h1, h2⟩ | h1
    · left
      rw [State.executing, unlink_holders] at h2
      cases hd : st.fs.dirWritable with
      | true => rw [unlink_names_self _ _ hd] at h1; simp at h1
      | false =>
        rcases unlink_names_cases st.fs c.out c.out with h3 | h3
        · rw [h3] at h1; exact ⟨h1, h2, rfl⟩
        · rw [h3] at h1; simp at h1
    · exact Or.inr h1

theorem bgCreate_spec (c : Cfg) (m : WriteMode) (sch : Sched) (st : St) (hv : c.ver = .v1) :
    CreateSpec c (m ≠ .unlinkAndReplace ∨ st.fs.dirWritable = false) (sch.tmpUnlinkRan = true) st.fs
      (bgCreate c m sch st).1.fs (bgCreate c m sch st).2 := by
  unfold bgCreate
  by_cases hm : m = .unlinkAndReplace
  · simp only [hm, if_true]
    have hmv := move_spec_v1 c st hv
    generalize moveOldAside c st = a at hmv ⊢
    obtain ⟨st1, sp⟩ := a
    simp only at hmv ⊢
    -- common tail: `sizedOutputNew` on a state `x` reached from `st.fs` by steps that only touch `tmp`
    by_cases hsp : sp = true ∧ sch.tmpUnlinkRan = true
    · simp only [hsp, and_self, if_true]
      obtain ⟨htn, hdw, hne⟩ := hmv.tmp_new hsp.1
      by_cases hl : sch.tmpUnlinkLate = true
      · simp only [hl, if_true]
        have h := son_spec c .unlinkAndReplace st1
        have habs := h.absent (hmv.out_absent hdw) (by rw [hmv.dw, hdw])
        refine ⟨by rw [unlinkTmp_dw, h.dw, hmv.dw], by rw [unlinkTmp_holders, h.holders, hmv.holders],
          by rw [unlinkTmp_next]; have := h.next; rwa [hmv.next] at this, ?_, ?_, ?_, ?_⟩
        · intro p h1 h2; rw [unlinkTmp_names_other _ _ _ h2, h.names p h1, hmv.names p h1 h2]
        · intro _ _; rw [unlinkTmp_names_tmp _ _ (by rw [h.dw, hmv.dw, hdw]), htn]
        · intro hr; rw [habs] at hr; simp at hr
        · intro i hr
          have := h.ok i hr
          rw [unlinkTmp_inode, hmv.inode, hmv.next] at *
          refine ⟨by rw [unlinkTmp_names_other _ _ _ (Ne.symm hne)]; exact this.1, this.2.1, ?_⟩
          rw [habs] at hr; simp at hr; right; exact hr.symm
      · simp only [hl, Bool.false_eq_true, ↓reduceIte]
        have h := son_spec c .unlinkAndReplace (unlinkTmp c st1)
        have hon : (unlinkTmp c st1).fs.names c.out = none := by
          rw [unlinkTmp_names_other _ _ _ (Ne.symm hne)]; exact hmv.out_absent hdw
        have habs := h.absent hon (by rw [unlinkTmp_dw, hmv.dw, hdw])
        refine ⟨by rw [h.dw, unlinkTmp_dw, hmv.dw], by rw [h.holders, unlinkTmp_holders, hmv.holders],
          by have := h.next; rwa [unlinkTmp_next, hmv.next] at this, ?_, ?_, ?_, ?_⟩
        · intro p h1 h2; rw [h.names p h1, unlinkTmp_names_other _ _ _ h2, hmv.names p h1 h2]
        · intro _ _; rw [h.names c.tmp hne, unlinkTmp_names_tmp _ _ (by rw [hmv.dw, hdw]), htn]
        · intro hr; rw [habs] at hr; simp at hr
        · intro i hr
          have := h.ok i hr
          rw [unlinkTmp_inode, hmv.inode, unlinkTmp_next, hmv.next] at this
          refine ⟨this.1, this.2.1, ?_⟩
          rw [habs] at hr; simp at hr; right; rw [← hr, unlinkTmp_next, hmv.next]
    · have hif : ¬ (sp = true ∧ sch.tmpUnlinkRan = true) := hsp
      simp only [hif, if_false]
      have h := son_spec c .unlinkAndReplace st1
      refine ⟨by rw [h.dw, hmv.dw], by rw [h.holders, hmv.holders], by have := h.next; rwa [hmv.next] at this, ?_, ?_, ?_, ?_⟩
      · intro p h1 h2; rw [h.names p h1, hmv.names p h1 h2]
      · intro hrun hne
        have hspf : sp = false := by
          cases sp with
          | false => rfl
          | true => exact absurd ⟨rfl, hrun⟩ hsp
        rw [h.names c.tmp hne, hmv.tmp_keep hspf hne]
      · intro hr
        have := h.fail hr
        rw [hmv.inode] at this
        refine ⟨?_, this.2⟩
        rcases this.1 with h1 | h1
        · exact Or.inl h1
        · rw [h1]
          rcases hmv.out_cases with h2 | h2
          · exact Or.inr h2
          · exact Or.inl h2
      · intro i hr
        have := h.ok i hr
        rw [hmv.inode, hmv.next] at this
        refine ⟨this.1, this.2.1, ?_⟩
        rcases this.2.2 with ⟨h1, h2⟩ | h1
        · left
          rw [State.executing, hmv.holders] at h2
          cases hd : st.fs.dirWritable with
          | true => rw [hmv.out_absent hd] at h1; simp at h1
          | false =>
            rcases hmv.out_cases with h3 | h3
            · rw [h3] at h1; exact ⟨h1, h2, Or.inr rfl⟩
            · rw [h3] at h1; simp at h1
        · exact Or.inr h1
  · simp only [hm, if_false]
    have h := son_spec c m st
    refine ⟨h.dw, h.holders, h.next, fun p h1 _ => h.names p h1, fun _ hne => h.names c.tmp hne, h.fail, ?_⟩
    intro i hr
    have := h.ok i hr
    refine ⟨this.1, this.2.1, ?_⟩
    rcases this.2.2 with ⟨h1, h2⟩ | h1
    · exact Or.inl ⟨h1, h2, Or.inl hm⟩
    · exact Or.inr h1

end Wild.OutputFile

namespace Wild.OutputFile
open Wild.Fs

/-! ## after the file was created -/

/-- Steps that can only remove the name `out` and only modify inode `i`. -/
structure TailSpec (c : Cfg) (i : Ino) (a : State) (r : Result) : Prop where
  dw : r.fs.dirWritable = a.dirWritable
  holders : r.fs.holders = a.holders
  next : r.fs.nextIno = a.nextIno
  names : ∀ p, p ≠ c.out → r.fs.names p = a.names p
  out_cases : r.fs.names c.out = a.names c.out ∨ r.fs.names c.out = none
  inode : ∀ j, j ≠ i → r.fs.inode j = a.inode j
  failed : r.ok = false → c.ver = .v1 → a.dirWritable = true → r.fs.names c.out = none

theorem removeFailed_spec (c : Cfg) (st : St) :
    (removeFailed c st).fs.dirWritable = st.fs.dirWritable ∧ (removeFailed c st).fs.holders = st.fs.holders ∧
    (removeFailed c st).fs.nextIno = st.fs.nextIno ∧ (removeFailed c st).fs.inode = st.fs.inode ∧
    (∀ p, p ≠ c.out → (removeFailed c st).fs.names p = st.fs.names p) ∧
    ((removeFailed c st).fs.names c.out = st.fs.names c.out ∨ (removeFailed c st).fs.names c.out = none) ∧
    (st.fs.dirWritable = true → (removeFailed c st).fs.names c.out = none) := by
  unfold removeFailed
  split
  · rename_i h; exact ⟨rfl, rfl, rfl, rfl, fun _ _ => rfl, Or.inl rfl, fun _ => h⟩
  · exact ⟨unlink_dw _ _, unlink_holders _ _, unlink_next _ _, unlink_inode _ _, fun p hp => unlink_names_other _ _ _ hp,
      unlink_names_cases _ _ _, fun hd => unlink_names_self _ _ hd⟩

theorem failOpened_spec (c : Cfg) (i : Ino) (st : St) : TailSpec c i st.fs (failOpened c st) := by
  unfold failOpened
  cases hv : c.ver with
  | v0 => exact ⟨rfl, rfl, rfl, fun _ _ => rfl, Or.inl rfl, fun _ _ => rfl, fun _ h => by simp_all⟩
  | v1 =>
    have h := removeFailed_spec c st
    exact ⟨h.1, h.2.1, h.2.2.1, h.2.2.2.2.1, h.2.2.2.2.2.1, fun j _ => by simp only; rw [h.2.2.2.1], fun _ _ hd => h.2.2.2.2.2.2 hd⟩

theorem failOpened_ok (c : Cfg) (st : St) : (failOpened c st).ok = false := by
  unfold failOpened; split <;> rfl

/-- transport a `TailSpec` along a content change of inode `i` -/
theorem TailSpec.of_touch {c : Cfg} {i : Ino} {a b : State} {r : Result}
    (h : TailSpec c i b r) (hdw : b.dirWritable = a.dirWritable) (hh : b.holders = a.holders)
    (hn : b.nextIno = a.nextIno) (hnm : b.names = a.names) (hi : ∀ j, j ≠ i → b.inode j = a.inode j) :
    TailSpec c i a r :=
  ⟨by rw [h.dw, hdw], by rw [h.holders, hh], by rw [h.next, hn], fun p hp => by rw [h.names p hp, hnm],
   by rw [← hnm]; exact h.out_cases, fun j hj => by rw [h.inode j hj, hi j hj], fun h1 h2 h3 => h.failed h1 h2 (by rw [hdw, h3])⟩

theorem finish_spec (c : Cfg) (f : FailPoint) (st : St) (i : Ino) : TailSpec c i st.fs (finish c f st i) := by
  have hw : ∀ tr, TailSpec c i st.fs (failOpened c ⟨st.fs.writeData i c.size, tr⟩) := fun tr =>
    (failOpened_spec c i ⟨st.fs.writeData i c.size, tr⟩).of_touch rfl rfl rfl rfl
      (fun j hj => by simp only [State.writeData]; exact touch_inode_other _ _ _ _ hj)
  have hc : ∀ tr, TailSpec c i st.fs (failOpened c ⟨(st.fs.writeData i c.size).chmodExec i, tr⟩) := fun tr =>
    (failOpened_spec c i ⟨(st.fs.writeData i c.size).chmodExec i, tr⟩).of_touch rfl rfl rfl rfl
      (fun j hj => by
        simp only [State.writeData]; rw [chmod_inode_other _ _ _ hj]; exact touch_inode_other _ _ _ _ hj)
  unfold finish
  split
  · exact failOpened_spec c i st
  · simp only
    split
    · exact hw _
    · split
      · exact hw _
      · split
        · exact hc _
        · split
          · exact hc _
          · refine ⟨rfl, rfl, rfl, fun _ _ => rfl, Or.inl rfl, ?_, fun h => by simp at h⟩
            intro j hj
            simp only [State.writeData]; rw [chmod_inode_other _ _ _ hj]; exact touch_inode_other _ _ _ _ hj

theorem finish_ok (c : Cfg) (st : St) (i : Ino) : (finish c .none st i).ok = true := by
  simp [finish]

end Wild.OutputFile
