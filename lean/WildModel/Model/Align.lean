/-
Model of libwild/src/alignment.rs (`Alignment`): 64-bit kernels over `BitVec 64`.
Hand-written; tied to the code by the differential correspondence `align-*` (wvh vs wmdriver).
-/
namespace Wild.Align

/-- `MAX_ALIGNMENT_EXPONENT` -/
def maxExponent : Nat := 16

/-- `Alignment::value`: `1 << exponent` -/
def value (e : Nat) : BitVec 64 := 1#64 <<< e

/-- `Alignment::mask`: `value - 1` -/
def mask (e : Nat) : BitVec 64 := value e - 1#64

/-- `u64::next_multiple_of` (core): `match self % rhs { 0 => self, r => self + (rhs - r) }`.
In release builds the addition wraps; in debug builds it panics on overflow (see `overflows`). -/
def nextMultipleOf (v a : BitVec 64) : BitVec 64 :=
  if v % a = 0#64 then v else v + (a - v % a)

/-- The inputs on which `next_multiple_of` overflows (debug: panic; release: wraps). -/
def overflows (v a : BitVec 64) : Bool :=
  !(v % a == 0#64) && decide (2 ^ 64 ≤ v.toNat + (a - v % a).toNat)

def alignUp (e : Nat) (v : BitVec 64) : BitVec 64 := nextMultipleOf v (value e)

def alignDown (e : Nat) (v : BitVec 64) : BitVec 64 := v &&& ~~~(mask e)

/-- `Alignment::align_modulo` -/
def alignModulo (e : Nat) (r o : BitVec 64) : BitVec 64 :=
  let m := mask e
  let o := alignUp e o
  if o &&& m = r &&& m then o
  else
    let adj := (r &&& m) + value e - (o &&& m)
    let adj := if adj > value e then adj - value e else adj
    o + adj

/-- `u64::trailing_zeros` for a non-zero argument, by structural recursion on a fuel. -/
def trailingZerosAux : Nat → Nat → Nat → Nat
  | 0, _, acc => acc
  | fuel + 1, n, acc => if n % 2 = 1 then acc else trailingZerosAux fuel (n / 2) (acc + 1)

def trailingZeros (raw : BitVec 64) : Nat :=
  if raw = 0#64 then 64 else trailingZerosAux 64 raw.toNat 0

/-- `u64::is_power_of_two`: exactly one bit set. -/
def isPowerOfTwo (raw : BitVec 64) : Bool :=
  raw != 0#64 && (raw &&& (raw - 1#64)) == 0#64

/-- `Alignment::new`: `some exponent` or `none` (the two `bail!`s). -/
def new (raw : BitVec 64) : Option Nat :=
  if !isPowerOfTwo raw then none
  else
    let e := trailingZeros raw
    if e > maxExponent then none else some e

end Wild.Align
