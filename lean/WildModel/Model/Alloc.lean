/-
Model of wild's per-symbol size accounting (C23): how many GOT / .plt.got / .rela.plt /
.rela.dyn (general) / .rela.dyn (relative) / .relr.dyn entries layout reserves for one symbol
resolution and how many the writer takes.

Mirrors
* allocation side:  `libwild/src/elf.rs` `Elf::allocate_resolution` (what `layout::compute_allocations`
  wraps; called from `finalise_symbol_sizes` for every canonical symbol), `create_resolution`
  (which addresses a resolution gets), `libwild/src/output_kind.rs`;
* consumption side: `libwild/src/elf_writer.rs` `TableWriter::process_resolution`,
  `process_got_tls_offset`, `process_got_tls_mod_and_offset`, `process_got_tls_descriptor`,
  `write_address_relocation`, `write_plt_entry`, `write_ifunc_relocation`,
  `write_dynamic_symbol_relocation`, `write_rela_dyn_general`, including the `debug_assert_bail!`s and
  the `?`s that make the writer refuse a resolution.

The two sides are written as two independent functions over the same finite domain.
Hand-written; tied to the code by the exhaustive correspondence `alloc-row` (wvh runs the real
functions through `libwild::verif_api::alloc`) and by the regenerated table `Gen/AllocTable.lean`.
Core-only imports.
-/
namespace Wild.Alloc

/-- `OutputKind` (without `Relocatable` = `-r`, which has no dynamic tables). -/
inductive Kind where
  | staticExe | staticPie | dynExe | dynPie | shared
  deriving DecidableEq, Repr

def Kind.isExecutable : Kind → Bool
  | .shared => false
  | _ => true
def Kind.isSharedObject : Kind → Bool
  | .shared => true
  | _ => false
def Kind.isStaticExecutable : Kind → Bool
  | .staticExe | .staticPie => true
  | _ => false
def Kind.isRelocatable : Kind → Bool
  | .staticPie | .dynPie | .shared => true
  | _ => false
def Kind.needsDynsym : Kind → Bool
  | .staticExe => false
  | _ => true

/-- The `ValueFlags` bits that either side reads. -/
structure Flags where
  abs : Bool          -- ABSOLUTE            1 << 0
  dyn : Bool          -- DYNAMIC             1 << 1
  ifunc : Bool        -- IFUNC               1 << 2
  nonInterp : Bool    -- NON_INTERPOSABLE    1 << 3
  got : Bool          -- GOT                 1 << 7
  plt : Bool          -- PLT                 1 << 8
  tlsMod : Bool       -- GOT_TLS_MODULE      1 << 9
  tlsOff : Bool       -- GOT_TLS_OFFSET      1 << 10
  tlsDesc : Bool      -- GOT_TLS_DESCRIPTOR  1 << 11
  exportDyn : Bool    -- EXPORT_DYNAMIC      1 << 12
  ifuncGot : Bool     -- IFUNC_GOT_FOR_ADDRESS 1 << 14
  deriving DecidableEq, Repr

def Flags.isInterposable (f : Flags) : Bool := !f.nonInterp
def Flags.isAddress (f : Flags) : Bool := !f.ifunc && !f.dyn && !f.abs
def Flags.isTls (f : Flags) : Bool := f.tlsOff || f.tlsMod || f.tlsDesc
/-- `has_dynamic_symbol` of `allocate_resolution`. -/
def Flags.hasDynamicSymbol (f : Flags) : Bool := f.dyn || (f.exportDyn && f.isInterposable)

structure Res where
  f : Flags
  kind : Kind
  /-- `args.is_relr_enabled()` -/
  relr : Bool
  /-- `resolution.dynamic_symbol_index.is_some()` -/
  dynIdx : Bool
  /-- `resolution.raw_value == 0` -/
  rawZero : Bool
  deriving DecidableEq, Repr

/-- Entry counts per table. -/
structure Counts where
  got : Nat := 0
  plt : Nat := 0
  relaPlt : Nat := 0
  general : Nat := 0
  relative : Nat := 0
  relr : Nat := 0
  deriving DecidableEq, Repr

def Counts.add (a b : Counts) : Counts :=
  ⟨a.got + b.got, a.plt + b.plt, a.relaPlt + b.relaPlt, a.general + b.general, a.relative + b.relative, a.relr + b.relr⟩

instance : Add Counts := ⟨Counts.add⟩

/-! ## Allocation side: `Elf::allocate_resolution` -/

def relativeEntry (relr : Bool) : Counts := if relr then { relr := 1 } else { relative := 1 }

/-- `if flags.is_interposable() || (output_kind.is_shared_object() && !flags.is_absolute())`:
does a GOT_TLS_OFFSET entry get a TPOFF relocation? -/
def tlsOffReloc (r : Res) : Bool := r.f.isInterposable || (r.kind.isSharedObject && !r.f.abs)

/-- The condition before `scratch/fixes/c23-tls-ie-undef-weak.diff`. -/
def tlsOffRelocOld (r : Res) : Bool := r.f.isInterposable || r.kind.isSharedObject

def allocWith (tlsOffReloc : Res → Bool) (r : Res) : Counts :=
  let f := r.f
  let c1 : Counts :=
    if f.got && !f.isTls then
      ({ got := 1 } : Counts)
      + (if f.plt then { plt := 1 } else {})
      + (if f.ifunc then { relaPlt := 1 }
         else if f.hasDynamicSymbol then { general := 1 }
         else if f.isAddress && r.kind.isRelocatable then relativeEntry r.relr
         else {})
    else {}
  let c2 : Counts :=
    if f.ifuncGot then
      ({ got := 1 } : Counts) + (if r.kind.isRelocatable then relativeEntry r.relr else {})
    else {}
  let c3 : Counts :=
    if f.tlsOff then
      ({ got := 1 } : Counts) + (if tlsOffReloc r then { general := 1 } else {})
    else {}
  let c4 : Counts :=
    if f.tlsMod then
      ({ got := 2 } : Counts)
      + (if !r.kind.isExecutable || f.dyn then { general := 1 } else {})
      + (if f.hasDynamicSymbol then { general := 1 } else {})
    else {}
  let c5 : Counts := if f.tlsDesc then { got := 2, general := 1 } else {}
  c1 + c2 + c3 + c4 + c5

/-- The current `allocate_resolution`. -/
def alloc := allocWith tlsOffReloc
/-- `allocate_resolution` before the fix. -/
def allocOld := allocWith tlsOffRelocOld

/-! ## `create_resolution`: which addresses the resolution carries -/

def hasGotAddress (f : Flags) : Bool := f.plt || f.isTls || f.got
def hasPltAddress (f : Flags) : Bool := f.plt

/-! ## Consumption side: `TableWriter::process_resolution` -/

inductive Refusal where
  /-- `debug_assert_bail!(compute_allocations(..).get(RELA_DYN_GENERAL) > 0, "Tried to write … with no allocation")` -/
  | noAllocation
  /-- `res.dynamic_symbol_index()?` -/
  | missingDynsymIndex
  /-- `debug_assert_bail!(self.output_kind.needs_dynsym(), …)` -/
  | notDynamicOutput
  /-- `res.plt_address()?` -/
  | missingPltAddress
  /-- `res.address()?` ("Expected address, found …") -/
  | expectedAddress
  /-- `ensure!(!is_static_executable, "Cannot create dynamic TLSDESC relocation …")` — a user-level error -/
  | tlsdescInStaticExe
  deriving DecidableEq, Repr

abbrev W := Except Refusal Counts

/-- `write_address_relocation(place, value, allow_relr = true)` for a GOT slot (8-aligned). -/
def writeAddress (r : Res) : W := .ok (relativeEntry r.relr)

/-- `write_dynamic_symbol_relocation` / `write_rela_dyn_general`: one general entry. -/
def writeGeneral (r : Res) : W :=
  if !r.kind.needsDynsym then .error .notDynamicOutput else .ok { general := 1 }

def andThen (a : W) (b : W) : W :=
  match a with
  | .error e => .error e
  | .ok x => match b with
    | .error e => .error e
    | .ok y => .ok (x + y)

infixl:60 " ⊳ " => andThen

def skip : W := .ok {}
def takeGot (n : Nat) : W := .ok { got := n }

def assertGeneralAllocated (allocF : Res → Counts) (r : Res) : W :=
  if (allocF r).general = 0 then .error .noAllocation else skip

def processGotTlsOffset (allocF : Res → Counts) (r : Res) : W :=
  let f := r.f
  takeGot 1 ⊳
  (if f.dyn || (f.exportDyn && f.isInterposable) then
     (if r.dynIdx then skip else .error .missingDynsymIndex) ⊳ writeGeneral r
   else if r.rawZero then skip
   else if r.kind.isExecutable then skip
   else assertGeneralAllocated allocF r ⊳ writeGeneral r)

def processGotTlsModAndOffset (allocF : Res → Counts) (r : Res) : W :=
  let f := r.f
  takeGot 1 ⊳
  (if r.kind.isExecutable && !f.dyn then skip
   else assertGeneralAllocated allocF r ⊳ writeGeneral r) ⊳
  takeGot 1 ⊳
  (if r.dynIdx && (f.isInterposable || f.dyn) then (if f.isInterposable then writeGeneral r else skip)
   else if f.isAddress then skip else .error .expectedAddress)

def processGotTlsDescriptor (allocF : Res → Counts) (r : Res) : W :=
  takeGot 2 ⊳
  (if r.kind.isStaticExecutable then .error .tlsdescInStaticExe else skip) ⊳
  assertGeneralAllocated allocF r ⊳ writeGeneral r

/-- `process_resolution`. `allocF` is the allocation function the `debug_assert_bail!`s consult. -/
def consumeWith (allocF : Res → Counts) (r : Res) : W :=
  let f := r.f
  if !hasGotAddress f then skip
  else if f.tlsOff || f.tlsMod || f.tlsDesc then
    (if f.tlsOff then processGotTlsOffset allocF r else skip) ⊳
    (if f.tlsMod then processGotTlsModAndOffset allocF r else skip) ⊳
    (if f.tlsDesc then processGotTlsDescriptor allocF r else skip)
  else
    takeGot 1 ⊳
    (if f.dyn || ((f.exportDyn && f.isInterposable) && !f.ifunc) then
       assertGeneralAllocated allocF r ⊳
       (if r.dynIdx then skip else .error .missingDynsymIndex) ⊳ writeGeneral r
     else if f.ifunc then .ok { relaPlt := 1 }
     else if f.isAddress && r.kind.isRelocatable then writeAddress r
     else skip) ⊳
    (if hasPltAddress f then .ok { plt := 1 } else skip) ⊳
    (if f.ifuncGot then
       takeGot 1 ⊳
       (if hasPltAddress f then skip else .error .missingPltAddress) ⊳
       (if r.kind.isRelocatable then writeAddress r else skip)
     else skip)

def consume := consumeWith alloc
def consumeOld := consumeWith allocOld

/-! ## Which resolutions layout can produce

Each clause names the code that establishes it. Combinations outside `Valid` are not produced for
any input (and several make the writer refuse the resolution with a user-level error). -/
-- The clauses are grouped in five stages by the fields they read, so that the exhaustive proof in
-- `Props/C23.lean` can discard impossible prefixes early.

/-- reads `ifunc dyn abs tlsOff tlsMod tlsDesc` -/
def stage1 (r : Res) : Bool :=
  let f := r.f
  -- IFUNC is a property of a definition in a regular object: never dynamic, absolute or thread-local
  (!f.ifunc || (!f.dyn && !f.abs && !f.isTls))

/-- additionally reads `got plt` -/
def stage2 (r : Res) : Bool :=
  let f := r.f
  -- `resolution_flags` hands out PLT only together with GOT; the ifunc arms of `process_relocation` add both
  (!f.plt || f.got)
  -- thread-local symbols are reached through the TLS GOT forms only
  && (!f.isTls || (!f.got && !f.plt))

/-- additionally reads `ifuncGot kind` -/
def stage3 (r : Res) : Bool :=
  let f := r.f
  -- IFUNC_GOT_FOR_ADDRESS: `flags.is_ifunc() && relocation_needs_got && !output_kind.is_relocatable()`, after GOT|PLT were added
  (!f.ifuncGot || (f.ifunc && f.got && f.plt && !r.kind.isRelocatable))
  -- symbols of shared objects / runtime-resolved weak undefineds exist only in outputs with a real dynamic symbol table
  && (!f.dyn || (r.kind.needsDynsym && !r.kind.isStaticExecutable))
  -- TLSDESC against a static executable is relaxed away by `new_relaxation` (else: user-level error)
  && (!f.tlsDesc || !r.kind.isStaticExecutable)

/-- additionally reads `nonInterp exportDyn` -/
def stage4 (r : Res) : Bool :=
  let f := r.f
  -- dynamic symbols are interposable
  (!f.dyn || !f.nonInterp)
  -- EXPORT_DYNAMIC is set (next to `export_dynamic()`) only when there is a dynamic symbol table to export into
  && (!f.exportDyn || (r.kind.needsDynsym && !r.kind.isStaticExecutable))
  -- every interposable symbol has a dynamic symbol (`is_symbol_non_interposable`: everything is non-interposable in static executables)
  && (f.nonInterp || f.dyn || f.exportDyn)

/-- additionally reads `dynIdx rawZero` -/
def stage5 (r : Res) : Bool :=
  let f := r.f
  -- `dynamic_symbol_index` is assigned exactly to DYNAMIC symbols and to `dynamic_symbol_definitions` (pushed next to EXPORT_DYNAMIC)
  (r.dynIdx == (f.dyn || f.exportDyn))
  -- a TLS symbol without usable dynamic symbol that is not an address is an undefined weak: `res.address()?` refuses GD for it
  && (!f.tlsMod || (r.dynIdx && (f.isInterposable || f.dyn)) || f.isAddress)
  -- value 0 ⇔ undefined (absolute) for thread-local symbols resolved at link time
  && (f.dyn || (r.rawZero == f.abs) || !f.isTls)

def Valid (r : Res) : Bool := stage1 r && stage2 r && stage3 r && stage4 r && stage5 r

end Wild.Alloc
