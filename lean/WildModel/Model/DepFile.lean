/-
Model of `write_dependency_file` (libwild/src/lib.rs) and a small reader of Makefile rules
(`parseMake`) for the subset of make syntax a dependency file may use.
`writeDep` is tied to the code by the differential correspondence `c25-write`; `parseMake` is
validated against GNU make by the C25 check. Core-only imports.
-/
namespace Wild.DepFile

/-- First occurrence wins (`seen.insert(path)`). -/
def dedupAux : List (List Char) → List (List Char) → List (List Char)
  | _, [] => []
  | seen, p :: ps => if seen.contains p then dedupAux seen ps else p :: dedupAux (p :: seen) ps

/-- The dependency list: non-temporary loaded files, each once, in load order. -/
def depsOf (files : List (List Char × Bool)) : List (List Char) :=
  dedupAux [] ((files.filter (fun f => !f.2)).map (·.1))

def firstLine : List (List Char) → List Char
  | [] => []
  | d :: ds => ' ' :: (d ++ firstLine ds)

def phonyRules : List (List Char) → List Char
  | [] => []
  | d :: ds => '\n' :: (d ++ ':' :: '\n' :: phonyRules ds)

/-- `write_dependency_file(_, out, files)`: the bytes written. `files` = (filename, temporary). -/
def writeDep (out : List Char) (files : List (List Char × Bool)) : List Char :=
  let deps := depsOf files
  out ++ ':' :: (firstLine deps ++ '\n' :: phonyRules deps)

/-! ## reading a dependency file the way make does (subset) -/

/-- Characters that are ordinary in file names for make (no quoting needed, no special meaning). -/
def isSafe (c : Char) : Bool :=
  c.isAlphanum || c == '_' || c == '/' || c == '.' || c == '-' || c == '+' || c == ',' || c == '@' || c.toNat ≥ 128

/-- The characters the reader gives a meaning to; anything else (`$ \ % = ; | * ? [ ~ " '` …) is
outside the modelled subset and answered `none`. -/
def isKnown (c : Char) : Bool :=
  isSafe c || c == ' ' || c == '\t' || c == '\n' || c == ':' || c == '#'

def splitOn (p : Char → Bool) : List Char → List (List Char)
  | [] => [[]]
  | c :: cs =>
    match splitOn p cs with
    | [] => [[c]]   -- unreachable
    | w :: ws => if p c then [] :: w :: ws else (c :: w) :: ws

def isBlank (c : Char) : Bool := c == ' ' || c == '\t'

def words (s : List Char) : List (List Char) := (splitOn isBlank s).filter (fun w => !w.isEmpty)

def stripComment : List Char → List Char
  | [] => []
  | c :: cs => if c == '#' then [] else c :: stripComment cs

/-- text before / after the first `:` -/
def cutColon : List Char → Option (List Char × List Char)
  | [] => none
  | c :: cs => if c == ':' then some ([], cs) else (cutColon cs).map (fun (a, b) => (c :: a, b))

/-- `targets : prerequisites` -/
def parseRule (line : List Char) : Option (List (List Char) × List (List Char)) :=
  if line.head? == some '\t' then none else
  match cutColon line with
  | none => none
  | some (lhs, rhs) =>
    if rhs.contains ':' then none
    else if (words lhs).isEmpty then none
    else some (words lhs, words rhs)

def restOk : List (List Char) → Bool
  | [] => true
  | l :: ls => ((words l).isEmpty || (parseRule l).isSome) && restOk ls

/-- The (single) target and the prerequisites of the first rule; `none` when the text is not a list
of plain rules in the modelled subset or the first rule has several targets. -/
def parseMake (text : List Char) : Option (List Char × List (List Char)) :=
  if !text.all isKnown then none else
  match (splitOn (· == '\n') text).map stripComment with
  | [] => none
  | l :: ls =>
    match parseRule l with
    | some ([t], deps) => if restOk ls then some (t, deps) else none
    | _ => none

end Wild.DepFile
