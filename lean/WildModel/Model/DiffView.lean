/-
C34: executable model of what linker-diff's comparison amounts to.

linker-diff (linker-diff/src/lib.rs `Report::from_config`, asm_diff.rs) builds, per binary, a view of
every relocated code/data site: for each function / data object found through the symbol table, the
instructions (or words) that carry a relocation, each with the RESOLVED referent (symbol + offset,
GOT/PLT indirection followed, relaxations normalised).  Two binaries are compared view against view.
The model keeps exactly that shape: `view` is abstract (a list of sites with referents), `diff`
compares two views position by position.  No attempt is made to model the 10 k lines that compute the
view: the assurance for C34 comes from the correspondence in vlib/props/c34.py (real linker-diff vs an
independent Python view, vlib/binview.py).  Core-only imports.
-/
namespace Wild.DiffView

/-- A relocated site: which object it belongs to (`owner`, e.g. the function's name), where inside
(`offset`), what kind of reference it is (call, lea, GOT load, data pointer …). -/
structure Site where
  owner : Nat
  offset : Nat
  kind : Nat
  deriving Repr, DecidableEq, Inhabited

/-- What the site resolves to: the referent's name and the offset from it. -/
structure Referent where
  name : Nat
  offset : Int
  deriving Repr, DecidableEq, Inhabited

structure Entry where
  site : Site
  ref : Referent
  deriving Repr, DecidableEq, Inhabited

/-- One reported difference. -/
inductive Report where
  | shape (lenA lenB : Nat)
  | mismatch (a b : Entry)
  deriving Repr, DecidableEq

def compareGo : List Entry → List Entry → List Report
  | a :: as, b :: bs => if a = b then compareGo as bs else .mismatch a b :: compareGo as bs
  | _, _ => []

def compare (va vb : List Entry) : List Report :=
  (if va.length = vb.length then [] else [.shape va.length vb.length]) ++ compareGo va vb

/-- `diff a b = compare (view a) (view b)` for any `view`. -/
def diff {Bin : Type} (view : Bin → List Entry) (a b : Bin) : List Report := compare (view a) (view b)

end Wild.DiffView
