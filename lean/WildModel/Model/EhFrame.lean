/-
M-EhFrame: how `.eh_frame` entries of the input objects are filtered, copied and indexed.

Mirrors (hand-written; tied by the whole-link correspondence `ehframe`):
* libwild/src/elf.rs `process_eh_frame_relocations`: an FDE is attached to the section that the symbol
  of its pc_begin relocation is defined in (same object); every CIE is kept;
  `non_empty_section_loaded` / `process_section_exception_frames`: when a section is loaded and
  `sh_size > 0`, the FDEs attached to it are counted (`num_frames`) and 8 bytes of `.eh_frame_hdr`
  per frame are allocated;
* libwild/src/elf_writer.rs `write_eh_frame_relocations`: one pass over the object's `.eh_frame`
  (`input_pos`, `output_pos`, `cies_offset_conversion`): a CIE is always copied and its
  input→output offset recorded; an FDE is copied iff its pc_begin symbol's section has an address
  (was loaded) and `sh_size != 0`; its CIE pointer is rewritten to
  `output_pos + 4 - cies_offset_conversion[input_cie_pos]` (missing CIE: the link fails);
  `take_eh_frame_hdr_entry` yields `None` when the allocation is used up (the entry is then silently
  not written); `eh_frame_hdr_entry_count` = allocated bytes / 8; `sort_eh_frame_hdr_entries`
  (stable `par_sort_by_key` on frame_ptr).
An object may have SEVERAL `.eh_frame` input sections (a plain one plus one per COMDAT group): layout
(`ObjectLayoutState::activate` → `load_exception_frame_data` per `SectionSlot::FrameData`, in section
order) appends the frames of a later section to the object's one frame vector (`frame_index_offset =
exception_frames.len()`), and the writer visits the sections in the same order, each with a fresh
`input_pos`/`cies_offset_conversion`, `eh_frame_start_address` advancing by the section's
`output_pos`, the hdr allocation shared. `Obj.entries` is therefore the object's entry list over
ALL its `.eh_frame` sections in section order and `Fde.ciePos` an offset in that concatenation; the
per-section restart of `input_pos` (`goSections` below) is the same computation
(Props/C10.lean `goSections_eq_concat`; the tie checks that no CIE pointer leaves its own section).
CIEs are NOT deduplicated by the code that exists (`finalise_object_sizes` has a TODO): every
object's CIEs are copied, so "the output position of its input CIE" is the copy in the same object.
Addresses are natural numbers (32-bit range checks of the hdr fields are out of scope).
Core-only imports.
-/
namespace Wild.EhFrame

structure Fde where
  size : Nat
  /-- input offset (within the object's `.eh_frame` sections, concatenated in section order) of the CIE
  the FDE points to -/
  ciePos : Nat
  /-- section index of the pc_begin relocation's symbol; `none`: the FDE has no pc_begin relocation -/
  target : Option Nat
  /-- symbol value + addend of the pc_begin relocation -/
  off : Nat
  deriving Repr, DecidableEq, Inhabited

inductive Entry where
  | cie (size : Nat) (tag : Nat)
  | fde (f : Fde)
  deriving Repr, DecidableEq, Inhabited

def Entry.size : Entry → Nat
  | .cie s _ => s
  | .fde f => f.size

/-- A section of the object after layout: `addr = some a` iff it was loaded (retained). -/
structure Sec where
  addr : Option Nat
  size : Nat
  deriving Repr, DecidableEq, Inhabited

structure Obj where
  entries : List Entry
  secs : List Sec
  deriving Repr, Inhabited

inductive Out where
  | cie (addr tag : Nat)
  /-- `cieAddr`: the address the rewritten CIE pointer designates; `src`: the input FDE (ghost) -/
  | fde (addr cieAddr pcBegin : Nat) (src : Fde)
  deriving Repr, DecidableEq, Inhabited

def Out.isFde : Out → Bool
  | .fde .. => true
  | .cie .. => false

/-- The writer's keep test: address of the target section if it is loaded and non-empty. -/
def sectionAddr (o : Obj) (f : Fde) : Option Nat :=
  match f.target with
  | none => none
  | some s =>
    match o.secs[s]? with
    | none => none
    | some sec => if sec.size != 0 then sec.addr else none

structure St where
  inPos : Nat
  outPos : Nat
  cmap : List (Nat × Nat)
  cap : Nat
  outs : List Out
  hdr : List (Nat × Nat)
  deriving Repr, Inhabited

/-- One loop iteration of `write_eh_frame_relocations`; `none` = the link fails. -/
def step (o : Obj) (base : Nat) (st : St) (e : Entry) : Option St :=
  match e with
  | .cie size tag =>
    some { st with inPos := st.inPos + size, outPos := st.outPos + size,
                   cmap := (st.inPos, st.outPos) :: st.cmap,
                   outs := st.outs ++ [.cie (base + st.outPos) tag] }
  | .fde f =>
    match sectionAddr o f with
    | none => some { st with inPos := st.inPos + f.size }
    | some sa =>
      match st.cmap.lookup f.ciePos with
      | none => none
      | some cieOut =>
        let pc := sa + f.off
        let field := st.outPos + 4 - cieOut
        some { inPos := st.inPos + f.size, outPos := st.outPos + f.size, cmap := st.cmap,
               cap := st.cap - 1,
               outs := st.outs ++ [.fde (base + st.outPos) (base + st.outPos + 4 - field) pc f],
               hdr := if st.cap = 0 then st.hdr else st.hdr ++ [(pc, base + st.outPos)] }

def go (o : Obj) (base : Nat) : List Entry → St → Option St
  | [], st => some st
  | e :: es, st =>
    match step o base st e with
    | none => none
    | some st' => go o base es st'

/-- Layout side: frames counted for the loaded non-empty sections (`num_frames` summed). -/
def layoutCount (o : Obj) : Nat :=
  ((List.range o.secs.length).map fun s =>
    match o.secs[s]? with
    | some sec =>
      if sec.addr.isSome && sec.size != 0 then
        o.entries.countP fun e => match e with
          | .fde f => f.target == some s
          | .cie .. => false
      else 0
    | none => 0).sum

/-- One object: its `.eh_frame` contribution starts at `base`; the hdr allocation is what layout
counted for it. -/
def writeObj (o : Obj) (base : Nat) : Option St :=
  go o base o.entries { inPos := 0, outPos := 0, cmap := [], cap := layoutCount o, outs := [], hdr := [] }

/-! ## Several `.eh_frame` input sections in one object -/

/-- The CIE reference of an FDE moved by `off` (the start offset of the FDE's section in the
concatenation of the object's `.eh_frame` sections). -/
def Entry.shift (off : Nat) : Entry → Entry
  | .cie s t => .cie s t
  | .fde f => .fde { f with ciePos := off + f.ciePos }

/-- total input size of a section's entries -/
def sizeSum (es : List Entry) : Nat := (es.map Entry.size).sum

/-- The writer as the code has it for an object with several `.eh_frame` input sections
(`write_eh_frame_data` once per `SectionSlot::FrameData`, in section order): every section is a
pass of its own with `input_pos = 0`, `output_pos = 0` and an empty `cies_offset_conversion`
(`Fde.ciePos` relative to the SECTION here); `table_writer.eh_frame_start_address` has advanced by
the previous sections' `output_pos`; the hdr allocation, the output and the table are shared. -/
def goSections (o : Obj) (base : Nat) : List (List Entry) → St → Option St
  | [], st => some st
  | es :: rest, st =>
    match go o (base + st.outPos) es { st with inPos := 0, outPos := 0, cmap := [] } with
    | none => none
    | some st' => goSections o base rest { st' with outPos := st.outPos + st'.outPos }

/-- What the tie sends instead: ONE entry list, the sections concatenated in section order, CIE
references made relative to the concatenation (Props/C10.lean `goSections_eq_concat`: same result). -/
def concatSections : List (List Entry) → Nat → List Entry
  | [], _ => []
  | es :: rest, off => es.map (Entry.shift off) ++ concatSections rest (off + sizeSum es)

structure Result where
  outs : List Out
  hdr : List (Nat × Nat)
  /-- `eh_frame_hdr_entry_count` -/
  count : Nat
  deriving Repr, Inhabited

/-- All objects in order; then the table is sorted by pc. -/
def writeAll : List Obj → Nat → Option Result
  | [], _ => some { outs := [], hdr := [], count := 0 }
  | o :: os, base =>
    match writeObj o base with
    | none => none
    | some st =>
      match writeAll os (base + st.outPos) with
      | none => none
      | some r => some { outs := st.outs ++ r.outs, hdr := st.hdr ++ r.hdr, count := layoutCount o + r.count }

def sortHdr (h : List (Nat × Nat)) : List (Nat × Nat) := h.mergeSort fun a b => a.1 ≤ b.1

def link (objs : List Obj) (base : Nat) : Option Result :=
  (writeAll objs base).map fun r => { r with hdr := sortHdr r.hdr }

end Wild.EhFrame
