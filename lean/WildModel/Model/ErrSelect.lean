/-!
# ErrSelect — how wild picks the diagnostic it reports when several independent tasks fail (C26)

Several phases of wild run independent tasks in parallel (rayon) and collect the errors the tasks
produce in a shared container; after the parallel scope ONE diagnostic is reported. The errors
arrive in the container in an arbitrary interleaving, i.e. the arrival sequence `σ` is some
permutation of the multiset of errors the tasks produce. Per site the code computes
`select σ : Option Err` (`none` = the phase succeeds).

Sites (file:function — container — selection), mirrored below:

* `layout.rs: find_required_sections` — `GraphResources.errors : Mutex<Vec<Error>>`, filled by
  `report_error` (undefined-symbol errors: the worker CONTINUES), by the `activate` error path and by
  the `do_work` error path of `GroupState::do_pending_work` (hard error: the worker's group state is
  DROPPED, later work items of that group are never processed).
    - upstream code: `errors.pop()`                     = LAST arrival              (`selectLastArrival`)
    - working tree (fix c26-layout.diff): `errors.sort_by_cached_key(Error::to_string)`, first element
                                                         = least message             (`selectLeast`)
* `resolution.rs: resolve_symbols_and_select_archive_entries` — `Outputs.errors`, filled by
  `ResolutionResources::handle_result`.
    - upstream code: `ArrayQueue::new(1)`, `let _ = errors.push(e)` (a full queue rejects the push),
      `errors.pop()`                                    = FIRST arrival             (`selectFirstArrival`)
    - working tree (fix c26-resolution.diff): `SegQueue`, drain, sort by message, first element
                                                         = least message             (`selectLeast`)
* `string_merging.rs: merge_strings` — `SplitResources.errors : ArrayQueue::new(1)`, `let _ = push`,
  `pop()`                                                = FIRST arrival             (`selectFirstArrival`)
  (unchanged; the only error that inputs can provoke there carries no location, see `Props/C26`).
* `symbol_db.rs: resolve_alternative_symbol_definitions` — `error_queue : SegQueue<Error>`, collected,
  `sort_by_key(|e| e.to_string())`, joined with "\n" behind a fixed prefix
                                                         = all messages, sorted      (`selectDup`)
* `elf_writer.rs: write_file_contents` — rayon `try_for_each` over the groups.
    - upstream code: `try_for_each` short-circuits: once some group has failed, groups that have not
      started yet are skipped; among the groups that did run the leftmost error wins
                                                         (`selectTryForEach`, parameterised by the set
                                                          of groups that ran)
    - working tree (fix c26-writer.diff): every group runs, results are collected in group order, the
      first `Err` in group order is returned               (`selectFirstInOrder`)

Core-only imports (the driver links this module).
-/
namespace Wild.ErrSelect

/-- An error value. `msg` is what the user sees (`Error::to_string`); `origin` identifies the task
(group / object / bucket) that produced it and is NOT visible in the output. -/
structure Err where
  msg : String
  origin : Nat
  deriving DecidableEq, Repr

/-- `sort_by_key(|e| e.to_string())` / `sort_by_cached_key(Error::to_string)`: stable sort by message. -/
def leMsg (a b : Err) : Bool := decide (a.msg ≤ b.msg)

/-- Insert before the first element whose message is not smaller (keeps the sort stable). -/
def insertByMsg (e : Err) : List Err → List Err
  | [] => [e]
  | a :: l => if leMsg e a then e :: a :: l else a :: insertByMsg e l

/-- Stable sort by message (insertion sort: structurally recursive, so `decide` can evaluate it). -/
def sortByMsg : List Err → List Err
  | [] => []
  | a :: l => insertByMsg a (sortByMsg l)

/-! ## Containers -/

/-- `Mutex<Vec<Error>>`: `push` appends. -/
def vecPush (v : List Err) (e : Err) : List Err := v ++ [e]

/-- `Vec::pop`: removes and returns the last element. -/
def vecPop (v : List Err) : Option Err := v.getLast?

/-- `crossbeam_queue::ArrayQueue` of capacity `cap`: `push` on a full queue fails (the code ignores
the failure with `let _ =`), so the element is dropped. -/
def arrayQueuePush (cap : Nat) (q : List Err) (e : Err) : List Err :=
  if q.length < cap then q ++ [e] else q

/-- `ArrayQueue::pop` / `SegQueue::pop`: oldest element. -/
def queuePop (q : List Err) : Option Err := q.head?

/-! ## Selections -/

/-- upstream `find_required_sections`: all errors are pushed on the Vec, `pop()` takes the last. -/
def selectLastArrival (σ : List Err) : Option Err := vecPop (σ.foldl vecPush [])

/-- `Outputs.errors` / `SplitResources.errors`: capacity-1 queue, then `pop()`. -/
def selectFirstArrival (σ : List Err) : Option Err := queuePop (σ.foldl (arrayQueuePush 1) [])

/-- fixed `find_required_sections` / resolution: sort by message, take the first. -/
def selectLeast (σ : List Err) : Option Err := (sortByMsg σ).head?

/-- The text that is reported for a selected error. -/
def reported (r : Option Err) : Option String := r.map (·.msg)

/-- `resolve_alternative_symbol_definitions`: every duplicate error, sorted by message, joined. -/
def selectDup (σ : List Err) : Option String :=
  if σ.isEmpty then none
  else some ("Duplicate symbols detected: " ++ "\n".intercalate ((sortByMsg σ).map (·.msg)))

/-- Warnings are printed as they arrive; the property only constrains the SET, which the check
observes as the sorted list of warning lines. -/
def warningSet (σ : List Err) : List String := (sortByMsg σ).map (·.msg)

/-! ## `write_file_contents`: one task per group, groups in input order

`results[g]` is the result of writing group `g` (`none` = `Ok`). -/

/-- upstream `try_for_each`: `ran[g]` says whether group `g` was executed before it observed the
short-circuit flag. rayon's reduction prefers the LEFT error among those that were produced. -/
def selectTryForEach (results : List (Option Err)) (ran : List Bool) : Option Err :=
  ((results.zip ran).filterMap (fun (r, b) => if b then r else none)).head?

/-- A `ran` vector is a possible rayon behaviour iff skipping only happens after some failure was
produced: either everything ran, or at least one group that ran failed. -/
def ranPossible (results : List (Option Err)) (ran : List Bool) : Bool :=
  ran.length == results.length &&
    (ran.all id || (results.zip ran).any (fun (r, b) => b && r.isSome))

/-- fixed `write_file_contents`: every group runs; first error in group order. -/
def selectFirstInOrder (results : List (Option Err)) : Option Err :=
  (results.filterMap id).head?

/-! ## The layout traversal's per-group error production

Inside one group the work items are processed sequentially, but the ORDER in which they reach the
group (sent by other groups) depends on the schedule. `soft` = `report_error` and continue
(undefined symbol), `hard` = `do_work` returned `Err`: reported, then the group state is dropped and
nothing else of this group is processed. -/
inductive Outcome where
  | ok
  | soft (e : Err)
  | hard (e : Err)
  deriving DecidableEq, Repr

/-- Errors one group contributes when its items are processed in the order given. -/
def groupErrors : List Outcome → List Err
  | [] => []
  | .ok :: r => groupErrors r
  | .soft e :: r => e :: groupErrors r
  | .hard e :: _ => [e]

def isHard : Outcome → Bool
  | .hard _ => true
  | _ => false

def softErrors : List Outcome → List Err
  | [] => []
  | .soft e :: r => e :: softErrors r
  | _ :: r => softErrors r

/-! ## Enumeration helpers for the tie (image of `select` over all arrival orders) -/

/-- All ways to insert `a` into `l`. -/
def insertions (a : Err) : List Err → List (List Err)
  | [] => [[a]]
  | b :: l => (a :: b :: l) :: (insertions a l).map (b :: ·)

/-- All permutations (with repetitions when elements repeat). -/
def perms : List Err → List (List Err)
  | [] => [[]]
  | a :: l => (perms l).flatMap (insertions a)

/-- Messages `select` can report over all arrival orders of the multiset `es` (sorted, deduplicated). -/
def insertStr (s : String) : List String → List String
  | [] => [s]
  | a :: l => if s = a then a :: l else if s ≤ a then s :: a :: l else a :: insertStr s l

def image (select : List Err → Option Err) (es : List Err) : List String :=
  ((perms es).filterMap (fun σ => reported (select σ))).foldr insertStr []

end Wild.ErrSelect
