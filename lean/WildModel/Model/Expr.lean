/-
Model of wild's linker-script expression parser and ASSERT evaluator.

* `libwild/src/linker_script.rs`: `parse_expression` → `parse_logical_or` → `parse_logical_and` →
  `parse_comparison` → `parse_bitwise_or` → `parse_bitwise_xor` → `parse_bitwise_and` → `parse_shift` →
  `parse_additive` → `parse_multiplicative` → `parse_unary` → `parse_primary`
  (`parse_number_with_suffix`, `parse_identifier_or_function`, `parse_function_arg`).
  The real parser is scannerless (winnow over bytes). The model splits it into `lex` (bytes → tokens;
  whitespace = `multispace0`, maximal munch for the two-character operators, numbers with `0x`/`0X`,
  at most 16 hex digits, decimal without leading zeros, `u64` overflow = error, `K k M m` suffixes
  with `wrapping_mul`) and a token-level precedence climber `run`/`step` driven by a `Table`
  (`wildTable` = the order of the Rust functions; every binary level is a `while` loop except
  `parse_comparison`, which is an `if let`, i.e. non-associative).
* `libwild/src/expression_eval.rs`: `evaluate_expression` (arms mirrored one by one in `eval`,
  including evaluation order, short-circuit of `&&`/`||`, `wrapping_shl(r as u32)`, and the SIGNED
  `wrapping_div` of the proposed fix scratch/fixes/c16-division.diff) and the ASSERT test
  `result == 0` of `evaluate_assertions`.

Hand-written; tied to the code by the differential correspondence `expr-parse` / `expr-eval`
(wvh vs wmdriver). Core-only imports.
-/
namespace Wild.Expr

inductive BinOp
  | lor | land | bor | bxor | band | eq | ne | lt | gt | le | ge | shl | shr | add | sub | mul | div
  deriving DecidableEq, Repr

inductive UnOp
  | lnot | bnot | neg
  deriving DecidableEq, Repr

/-- Functions taking a section / memory-region name. -/
inductive Fn1
  | sizeof | alignof | origin | length | addr | loadaddr
  deriving DecidableEq, Repr

/-- `linker_script::Expression` -/
inductive Expr
  | num (v : BitVec 64)
  | sym (s : String)
  | dot
  | fn1 (k : Fn1) (s : String)
  | align (e : Expr)
  | min (a b : Expr)
  | max (a b : Expr)
  | bin (o : BinOp) (a b : Expr)
  | un (o : UnOp) (e : Expr)
  deriving DecidableEq, Repr

inductive Tok
  | num (v : BitVec 64)
  | ident (s : String)
  | lparen | rparen | comma
  | bop (o : BinOp)      -- `-` is `bop .sub` in both binary and unary position
  | bang | tilde
  deriving DecidableEq, Repr

/-! ## Lexer -/

/-- winnow `multispace0`: space, tab, CR, LF. -/
def isWs (c : Char) : Bool := c == ' ' || c == '\t' || c == '\r' || c == '\n'

/-- `b.is_ascii_alphanumeric() || b == b'_' || b == b'.'` -/
def isIdChar (c : Char) : Bool := c.isAlphanum || c == '_' || c == '.'

def isIdStart (c : Char) : Bool := c.isAlpha || c == '_' || c == '.'

def isHex (c : Char) : Bool :=
  c.isDigit || ('a' ≤ c && c ≤ 'f') || ('A' ≤ c && c ≤ 'F')

def hexVal (c : Char) : Nat :=
  if c.isDigit then c.toNat - '0'.toNat
  else if 'a' ≤ c && c ≤ 'f' then c.toNat - 'a'.toNat + 10
  else c.toNat - 'A'.toNat + 10

/-- `preceded(alt(("0x", "0X")), hex_uint::<u64>)`: 1..16 hex digits, more is an error. -/
def hexAttempt : List Char → Option (Nat × List Char)
  | '0' :: x :: rest =>
    if x == 'x' || x == 'X' then
      let ds := rest.takeWhile isHex
      if ds.isEmpty || ds.length > 16 then none
      else some (ds.foldl (fun a c => a * 16 + hexVal c) 0, rest.dropWhile isHex)
    else none
  | _ => none

/-- `dec_uint::<u64>`: `[1-9][0-9]*` or a single `0`; overflow is an error. -/
def decAttempt : List Char → Option (Nat × List Char)
  | [] => none
  | c :: rest =>
    if c == '0' then some (0, rest)
    else if c.isDigit then
      let ds := c :: rest.takeWhile Char.isDigit
      let v := ds.foldl (fun a d => a * 10 + (d.toNat - '0'.toNat)) 0
      if v < 2 ^ 64 then some (v, rest.dropWhile Char.isDigit) else none
    else none

/-- `parse_number_with_suffix` -/
def lexNumber (cs : List Char) : Option (BitVec 64 × List Char) :=
  match (hexAttempt cs).orElse (fun _ => decAttempt cs) with
  | none => none
  | some (v, rest) =>
    let b := BitVec.ofNat 64 v
    match rest with
    | c :: r =>
      if c == 'K' || c == 'k' then some (b * 1024#64, r)
      else if c == 'M' || c == 'm' then some (b * 1048576#64, r)
      else some (b, rest)
    | [] => some (b, [])

def lexAux : Nat → List Char → List Tok → Option (List Tok)
  | 0, _, _ => none
  | f + 1, cs, acc =>
    match cs with
    | [] => some acc.reverse
    | '(' :: r => lexAux f r (.lparen :: acc)
    | ')' :: r => lexAux f r (.rparen :: acc)
    | ',' :: r => lexAux f r (.comma :: acc)
    | '|' :: '|' :: r => lexAux f r (.bop .lor :: acc)
    | '|' :: r => lexAux f r (.bop .bor :: acc)
    | '&' :: '&' :: r => lexAux f r (.bop .land :: acc)
    | '&' :: r => lexAux f r (.bop .band :: acc)
    | '^' :: r => lexAux f r (.bop .bxor :: acc)
    | '=' :: '=' :: r => lexAux f r (.bop .eq :: acc)
    | '!' :: '=' :: r => lexAux f r (.bop .ne :: acc)
    | '!' :: r => lexAux f r (.bang :: acc)
    | '<' :: '<' :: r => lexAux f r (.bop .shl :: acc)
    | '<' :: '=' :: r => lexAux f r (.bop .le :: acc)
    | '<' :: r => lexAux f r (.bop .lt :: acc)
    | '>' :: '>' :: r => lexAux f r (.bop .shr :: acc)
    | '>' :: '=' :: r => lexAux f r (.bop .ge :: acc)
    | '>' :: r => lexAux f r (.bop .gt :: acc)
    | '+' :: r => lexAux f r (.bop .add :: acc)
    | '-' :: r => lexAux f r (.bop .sub :: acc)
    | '*' :: r => lexAux f r (.bop .mul :: acc)
    | '/' :: r => lexAux f r (.bop .div :: acc)
    | '~' :: r => lexAux f r (.tilde :: acc)
    | c :: r =>
      if isWs c then lexAux f r acc
      else if c.isDigit then
        match lexNumber (c :: r) with
        | some (v, r') => lexAux f r' (.num v :: acc)
        | none => none
      else if isIdStart c then
        lexAux f (r.dropWhile isIdChar) (.ident (String.ofList (c :: r.takeWhile isIdChar)) :: acc)
      else none

def lex (cs : List Char) : Option (List Tok) := lexAux (cs.length + 1) cs []

/-! ## Token-level precedence climber -/

/-- A precedence table: `nl` binary levels (0 binds loosest), the level of each operator, and whether
the level's function is a `while` loop (left-associative) or a single `if let` (non-associative). -/
structure Table where
  nl : Nat
  lvl : BinOp → Nat
  loops : Nat → Bool

/-- The order of the functions in linker_script.rs:
0 `parse_logical_or`, 1 `parse_logical_and`, 2 `parse_comparison` (`if let`: one comparison at most),
3 `parse_bitwise_or`, 4 `parse_bitwise_xor`, 5 `parse_bitwise_and`, 6 `parse_shift`,
7 `parse_additive`, 8 `parse_multiplicative`; level 9 is `parse_unary`. -/
def wildTable : Table where
  nl := 9
  lvl
    | .lor => 0 | .land => 1
    | .eq => 2 | .ne => 2 | .lt => 2 | .gt => 2 | .le => 2 | .ge => 2
    | .bor => 3 | .bxor => 4 | .band => 5
    | .shl => 6 | .shr => 6 | .add => 7 | .sub => 7 | .mul => 8 | .div => 8
  loops l := l != 2

abbrev PRes := Option (Expr × List Tok)

/-- Which function of the climber is running: `at L` = the level-`L` function from its start
(`L = nl`: `parse_unary`), `loop L left` = the operator loop of level `L` holding `left`. -/
inductive Mode
  | at (L : Nat)
  | loop (L : Nat) (left : Expr)

def fnOfName (s : String) : Option Fn1 :=
  if s = "SIZEOF" then some .sizeof else if s = "ALIGNOF" then some .alignof
  else if s = "ADDR" then some .addr else if s = "ORIGIN" then some .origin
  else if s = "LENGTH" then some .length else if s = "LOADADDR" then some .loadaddr else none

/-- `first , second )` of MIN / MAX. -/
def twoArgs (rec0 : List Tok → PRes) (mk : Expr → Expr → Expr) (ts : List Tok) : PRes :=
  match rec0 ts with
  | some (a, .comma :: r) =>
    (match rec0 r with
     | some (b, .rparen :: r') => some (mk a b, r')
     | _ => none)
  | _ => none

/-- `expr )` -/
def oneArg (rec0 : List Tok → PRes) (mk : Expr → Expr) (ts : List Tok) : PRes :=
  match rec0 ts with
  | some (e, .rparen :: r) => some (mk e, r)
  | _ => none

/-- `parse_primary` (`rec0` = `parse_expression`). -/
def primary (rec0 : List Tok → PRes) : List Tok → PRes
  | .lparen :: ts => oneArg rec0 id ts
  | .num v :: r => some (.num v, r)
  | .ident s :: r =>
    if s = "." then some (.dot, r) else
    match r with
    | .lparen :: r' =>
      if s = "ALIGN" then oneArg rec0 .align r'
      else if s = "MIN" then twoArgs rec0 .min r'
      else if s = "MAX" then twoArgs rec0 .max r'
      else
        match fnOfName s, r' with
        | some k, .ident a :: .rparen :: r'' => some (.fn1 k a, r'')
        | _, _ => none
    | _ => some (.sym s, r)
  | _ => none

def mapFst (f : Expr → Expr) : PRes → PRes
  | some (e, r) => some (f e, r)
  | none => none

/-- One unfolding of the climber; `rec` stands for the recursive calls. -/
def step (T : Table) (rec : Mode → List Tok → PRes) : Mode → List Tok → PRes
  | .loop L left, ts =>
    match ts with
    | .bop o :: ts' =>
      if T.lvl o = L then
        match rec (.at (L + 1)) ts' with
        | some (r, ts'') =>
          if T.loops L then rec (.loop L (.bin o left r)) ts'' else some (.bin o left r, ts'')
        | none => none
      else some (left, ts)
    | _ => some (left, ts)
  | .at L, ts =>
    if L < T.nl then
      match rec (.at (L + 1)) ts with
      | some (l, ts') => rec (.loop L l) ts'
      | none => none
    else
      match ts with
      | .bang :: ts' => mapFst (.un .lnot) (rec (.at T.nl) ts')
      | .tilde :: ts' => mapFst (.un .bnot) (rec (.at T.nl) ts')
      | .bop .sub :: ts' => mapFst (.un .neg) (rec (.at T.nl) ts')
      | _ => primary (rec (.at 0)) ts

/-- The climber with `f` levels of recursion allowed. -/
def run (T : Table) : Nat → Mode → List Tok → PRes
  | 0 => fun _ _ => none
  | f + 1 => step T (run T f)

def fuelFor (T : Table) (ts : List Tok) : Nat := (ts.length + 1) * (2 * T.nl + 6)

/-- `parse_expression` on a complete token list (the hook requires all input to be consumed). -/
def parseToks (T : Table) (ts : List Tok) : Option Expr :=
  match run T (fuelFor T ts) (.at 0) ts with
  | some (e, []) => some e
  | _ => none

/-- wild's parser on text. -/
def parse (cs : List Char) : Option Expr :=
  match lex cs with
  | some ts => parseToks wildTable ts
  | none => none

/-! ## Evaluator -/

inductive EvalErr
  | div0 | align0 | context
  deriving DecidableEq, Repr

def b2v (b : Bool) : BitVec 64 := if b then 1#64 else 0#64

/-- The value arms of `evaluate_expression` for binary operators once both operands are known
(`div` only after the divisor was checked to be non-zero). -/
def binVal : BinOp → BitVec 64 → BitVec 64 → BitVec 64
  | .add, a, b => a + b                       -- wrapping_add
  | .sub, a, b => a - b                       -- wrapping_sub
  | .mul, a, b => a * b                       -- wrapping_mul
  | .div, a, b => a.sdiv b                    -- (l as i64).wrapping_div(r as i64) as u64
  | .lt, a, b => b2v (a.ult b)
  | .gt, a, b => b2v (b.ult a)
  | .le, a, b => b2v (a.ule b)
  | .ge, a, b => b2v (b.ule a)
  | .eq, a, b => b2v (a == b)
  | .ne, a, b => b2v (a != b)
  | .band, a, b => a &&& b
  | .bor, a, b => a ||| b
  | .bxor, a, b => a ^^^ b
  | .shl, a, b => a <<< (b.toNat % 2 ^ 32 % 64)   -- wrapping_shl(r as u32)
  | .shr, a, b => a >>> (b.toNat % 2 ^ 32 % 64)   -- wrapping_shr(r as u32)
  | .land, a, b => b2v (a != 0#64 && b != 0#64)
  | .lor, a, b => b2v (a != 0#64 || b != 0#64)

def unVal : UnOp → BitVec 64 → BitVec 64
  | .lnot, a => b2v (a == 0#64)
  | .bnot, a => ~~~a
  | .neg, a => -a                               -- wrapping_neg

/-- `evaluate_expression` with the empty layout context of the hook. -/
def eval : Expr → Except EvalErr (BitVec 64)
  | .num v => .ok v
  | .dot => .ok 0#64
  | .sym _ => .ok 1#64                          -- warning + `Ok(1)`
  | .fn1 _ _ => .error .context
  | .align e =>
    match eval e with
    | .error x => .error x
    | .ok a => if a = 0#64 then .error .align0 else .ok ((0#64 + (a - 1#64)) &&& ~~~(a - 1#64))
  | .min a b =>
    match eval a with
    | .error x => .error x
    | .ok x => match eval b with
      | .error y => .error y
      | .ok y => .ok (if x.ule y then x else y)
  | .max a b =>
    match eval a with
    | .error x => .error x
    | .ok x => match eval b with
      | .error y => .error y
      | .ok y => .ok (if y.ule x then x else y)
  | .un o e =>
    match eval e with
    | .error x => .error x
    | .ok a => .ok (unVal o a)
  | .bin o l r =>
    match o with
    | .div =>
      -- the divisor is evaluated first
      (match eval r with
       | .error x => .error x
       | .ok d => if d = 0#64 then .error .div0 else
         match eval l with
         | .error x => .error x
         | .ok n => .ok (binVal .div n d))
    | .land =>
      (match eval l with
       | .error x => .error x
       | .ok a => if a = 0#64 then .ok 0#64 else
         match eval r with
         | .error x => .error x
         | .ok b => .ok (binVal .land a b))
    | .lor =>
      (match eval l with
       | .error x => .error x
       | .ok a => if a ≠ 0#64 then .ok 1#64 else
         match eval r with
         | .error x => .error x
         | .ok b => .ok (binVal .lor a b))
    | o =>
      (match eval l with
       | .error x => .error x
       | .ok a => match eval r with
         | .error x => .error x
         | .ok b => .ok (binVal o a b))

/-- The hook refuses trees that refer to sections / memory regions before evaluating. -/
def needsContext : Expr → Bool
  | .fn1 _ _ => true
  | .num _ | .sym _ | .dot => false
  | .align e | .un _ e => needsContext e
  | .min a b | .max a b | .bin _ a b => needsContext a || needsContext b

/-- Outcome of one ASSERT in `evaluate_assertions`. -/
inductive AssertOutcome
  | passes | fails | evalError (e : EvalErr)
  deriving DecidableEq, Repr

/-- `let result = evaluate_expression(..)?; if result == 0 { bail!(message) }` -/
def assertOutcome (e : Expr) : AssertOutcome :=
  match eval e with
  | .error x => .evalError x
  | .ok v => if v = 0#64 then .fails else .passes

def assertFails (e : Expr) : Prop := assertOutcome e = .fails

end Wild.Expr
