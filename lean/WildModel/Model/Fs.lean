/-!
# Abstract file system used by C18 / C19 / C20 / C21  (core-only imports)

One directory namespace `Path → Option Ino`, an inode table `Ino → Inode`, a set of *holder*
processes (a process that `execve`d an inode, or has it mapped as a library), a fresh-inode
counter and a clock.  The operations are the Linux system calls wild's output-file code issues
(`openat(O_RDWR|O_CREAT[|O_TRUNC])`, `rename`, `unlink`, `link`, `ftruncate`, `write`/store through a
shared mapping, `fchmod`, `utimensat`) with the error cases that matter for the properties:

* a path component that is not writable (`dirWritable = false`): create / rename / unlink → `EACCES`;
* an inode without write permission: open for writing → `EACCES`;
* an inode some process is *executing*: open for writing → `ETXTBSY` (kernel "deny write");
* an inode some process has *mapped*: nothing is refused, stores into the file are visible to the
  mapper (file-backed `MAP_PRIVATE` pages that were not yet copied, or `MAP_SHARED`).

Contents are abstract: every mutation of an inode bumps its generation counter `gen`, so
"content unchanged" is "`gen` and `size` unchanged".  Time stamps: the kernel stamps a modified
inode with the current time truncated to the file system's granularity `gran` (a parameter; a
runtime fact of the kernel / file system, see C20).
-/
namespace Wild.Fs

abbrev Path := Nat
abbrev Ino := Nat
abbrev Pid := Nat

inductive Errno where
  | enoent | eexist | eacces | etxtbsy
  deriving DecidableEq, Repr, Inhabited

def Errno.name : Errno → String
  | .enoent => "ENOENT" | .eexist => "EEXIST" | .eacces => "EACCES" | .etxtbsy => "ETXTBSY"

structure Inode where
  gen : Nat := 0          -- bumped by every content mutation (truncate, write, mapped store)
  size : Nat := 0
  writable : Bool := true -- permission bits allow the linking user to open it for writing
  exec : Bool := false    -- x permission bits (set by `make_executable`)
  mtime : Nat := 0
  deriving DecidableEq, Repr, Inhabited

inductive HoldKind where
  | executing   -- the process image comes from this inode (`execve`): writers get ETXTBSY
  | mapped      -- the inode is mapped into the process (`dlopen`, `ld.so`, `mmap`): no protection
  deriving DecidableEq, Repr

structure Holder where
  pid : Pid
  ino : Ino
  kind : HoldKind
  deriving DecidableEq, Repr

structure State where
  names : Path → Option Ino
  inode : Ino → Inode
  holders : List Holder := []
  nextIno : Ino
  dirWritable : Bool := true
  now : Nat := 0          -- fine-grained clock
  gran : Nat := 1         -- timestamp granularity of the file system (≥ 1)

def upd {β : Type} (f : Nat → β) (k : Nat) (v : β) : Nat → β := fun x => if x = k then v else f x

@[simp] theorem upd_same {β} (f : Nat → β) (k : Nat) (v : β) : upd f k v k = v := by simp [upd]
@[simp] theorem upd_other {β} (f : Nat → β) (k x : Nat) (v : β) (h : x ≠ k) : upd f k v x = f x := by
  simp [upd, h]

/-- kernel time stamp for a modification happening now -/
def stamp (now gran : Nat) : Nat := now / gran * gran

namespace State

def executing (s : State) (i : Ino) : Bool := s.holders.any (fun h => h.ino == i && h.kind == .executing)
def mapped (s : State) (i : Ino) : Bool := s.holders.any (fun h => h.ino == i && h.kind == .mapped)
def held (s : State) (i : Ino) : Bool := s.holders.any (fun h => h.ino == i)

/-- advance the clock -/
def tick (s : State) (d : Nat) : State := { s with now := s.now + d }

/-- content mutation of inode `i` (bumps `gen`, stamps mtime) -/
def touchContent (s : State) (i : Ino) (size : Nat) : State :=
  { s with inode := upd s.inode i { s.inode i with gen := (s.inode i).gen + 1, size := size,
                                                    mtime := stamp s.now s.gran } }

/-- `openat(path, O_RDWR|O_CREAT|(O_TRUNC if trunc), 0o666)` -/
def openCreate (s : State) (p : Path) (trunc : Bool) : State × Except Errno Ino :=
  match s.names p with
  | some i =>
    if s.executing i then (s, .error .etxtbsy)
    else if !(s.inode i).writable then (s, .error .eacces)
    else if trunc then (s.touchContent i 0, .ok i)
    else (s, .ok i)
  | none =>
    if !s.dirWritable then (s, .error .eacces)
    else
      let i := s.nextIno
      ({ s with names := upd s.names p (some i),
                inode := upd s.inode i { gen := 0, size := 0, writable := true, exec := false, mtime := stamp s.now s.gran },
                nextIno := i + 1 }, .ok i)

/-- `rename(a, b)`; POSIX: if both name the same inode (in particular `a = b`) nothing happens. -/
def rename (s : State) (a b : Path) : State × Except Errno Unit :=
  match s.names a with
  | none => (s, .error .enoent)
  | some i =>
    if !s.dirWritable then (s, .error .eacces)
    else if s.names b = some i then (s, .ok ())
    else ({ s with names := upd (upd s.names b (some i)) a none }, .ok ())

/-- `unlink(p)` -/
def unlink (s : State) (p : Path) : State × Except Errno Unit :=
  match s.names p with
  | none => (s, .error .enoent)
  | some _ =>
    if !s.dirWritable then (s, .error .eacces)
    else ({ s with names := upd s.names p none }, .ok ())

/-- `link(a, b)`: never replaces an existing `b`. -/
def link (s : State) (a b : Path) : State × Except Errno Unit :=
  match s.names a with
  | none => (s, .error .enoent)
  | some i =>
    match s.names b with
    | some _ => (s, .error .eexist)
    | none =>
      if !s.dirWritable then (s, .error .eacces)
      else ({ s with names := upd s.names b (some i) }, .ok ())

/-- `ftruncate(fd→i, n)` -/
def ftruncate (s : State) (i : Ino) (n : Nat) : State := s.touchContent i n

/-- `write(fd→i, …)` / stores through a `MAP_SHARED` mapping of `i`, final size `n` -/
def writeData (s : State) (i : Ino) (n : Nat) : State := s.touchContent i n

/-- `fchmod(fd→i, mode | 0o111)` -/
def chmodExec (s : State) (i : Ino) : State :=
  { s with inode := upd s.inode i { s.inode i with exec := true } }

/-- `utimensat(p, t)`: set mtime explicitly (`touch -d`) -/
def setMtime (s : State) (p : Path) (t : Nat) : State :=
  match s.names p with
  | none => s
  | some i => { s with inode := upd s.inode i { s.inode i with mtime := t } }

/-- `stat(p).st_mtime` -/
def mtimeOf (s : State) (p : Path) : Option Nat := (s.names p).map (fun i => (s.inode i).mtime)

/-- What a holder process sees: the content identity of the inode it holds. -/
def view (s : State) (h : Holder) : Nat × Nat := ((s.inode h.ino).gen, (s.inode h.ino).size)

end State
end Wild.Fs
