/-
M-Gc: the sequential CONTENT of wild's section garbage collection: which input sections are roots
and which edges the traversal follows. (The parallel PROTOCOL of the same traversal — work items,
worker slots, delayed synthetic-symbols group — is Model/ProtoLayout.lean / Props/C39.lean, whose
`terminal_is_closure` says every schedule ends in the closure of the edge relation given here.)

Mirrors (hand-written; tied by the whole-link correspondence `gc`):
* libwild/src/resolution.rs `resolve_section`: `must_load = SHF_GNU_RETAIN || SHT_NOTE || rule.must_keep`
  (built-in keep rules: `.init`, `.fini`, `.preinit_array`, `.init_array*`, `.ctors*`, `.fini_array*`,
  `.dtors*`, `.comment`, `.note.ABI-tag`; linker-script `KEEP`), slot `MustLoad` vs `Unloaded`;
  `start_stop_eligible` for custom sections whose name does not start with `.`;
* libwild/src/layout.rs `ObjectLayoutState::activate`: every `MustLoad` section is queued (with
  `--no-gc-sections`: every section); every eligible `Unloaded` section is registered under its output
  section in `start_stop_sections`; CIE relocations are processed unconditionally
  (`process_eh_frame_relocations`); exported dynamic symbols are loaded (`load_non_hidden_symbols`);
  `PreludeLayoutState::activate`: entry symbol (`load_entry_point`), `--defsym` targets, `-u` symbols;
* `load_section` → `load_section_relocations` → `process_relocation`: each relocation requests the
  canonical definition of its symbol (`send_symbol_request`, once per symbol) WHATEVER its type:
  the request is sent when the symbol has no resolution flags yet, also when the relocation itself
  adds none (`resolution_flags()` empty: `R_X86_64_NONE` keep-alive relocations, `R_X86_64_TLSLD`,
  …), which is why `refs` carries no relocation type; `load_symbol` of an
  object queues the section that defines the symbol (a section symbol + ANY addend designates its
  section); `load_symbol` of the synthetic `__start_X/__stop_X` symbols queues every section
  registered under output section X; `non_empty_section_loaded`: when the loaded section has
  size > 0 the relocations of the FDEs attached to it are processed too.
There is no COMDAT edge: wild has no group logic in the traversal (duplicate groups are simply never
referenced). Core-only imports.
-/
namespace Wild.Gc

/-- What a relocation (or a root reference) designates. -/
inductive Target where
  /-- a symbol whose canonical definition lies in section `n` (named symbol, or section symbol + addend) -/
  | sec (n : Nat)
  /-- the synthetic `__start_X` / `__stop_X` symbol of output section `X` -/
  | startStop (x : Nat)
  /-- undefined, absolute, or defined by a shared object: no section -/
  | none
  deriving Repr, DecidableEq, Inhabited

/-- One input section (node); nodes are numbered in (file, section) order. -/
structure Section where
  /-- relocations of the section itself -/
  refs : List Target
  /-- relocations of the FDEs whose pc_begin points into this section -/
  fdeRefs : List Target
  /-- sh_size > 0 -/
  nonEmpty : Bool
  /-- `SectionSlot::MustLoad` (retain / note / keep rule), or `--no-gc-sections` -/
  mustLoad : Bool
  /-- custom section with a C-identifier name: the output section it is registered under -/
  startStopSet : Option Nat
  deriving Repr, Inhabited

structure Graph where
  secs : List Section
  /-- references processed unconditionally: entry symbol, `-u`, `--defsym` targets, exported dynamic
  symbols, CIE relocations (personality routines) -/
  rootRefs : List Target
  deriving Repr, Inhabited

def Graph.n (g : Graph) : Nat := g.secs.length

/-- Sections queued by one reference. -/
def targets (g : Graph) : Target → List Nat
  | .sec n => if n < g.n then [n] else []
  | .startStop x => (List.range g.n).filter fun j => (g.secs[j]?.bind (·.startStopSet)) == some x
  | .none => []

/-- Sections queued when section `i` is loaded. -/
def edgesOf (g : Graph) (i : Nat) : List Nat :=
  match g.secs[i]? with
  | none => []
  | some s => s.refs.flatMap (targets g) ++ (if s.nonEmpty then s.fdeRefs.flatMap (targets g) else [])

/-- Sections queued at activation. -/
def isRoot (g : Graph) (d : Nat) : Bool :=
  ((g.secs[d]?.map (·.mustLoad)).getD false) || (g.rootRefs.flatMap (targets g)).contains d

/-- Is section `d` queued by some section of the loaded mask `S`? -/
def reachedBy (g : Graph) (S : List Bool) (d : Nat) : Bool :=
  (List.range g.n).any fun i => S.getD i false && (edgesOf g i).contains d

/-- One round of the traversal. -/
def next (g : Graph) (S : List Bool) : List Bool :=
  (List.range g.n).map fun d => S.getD d false || isRoot g d || reachedBy g S d

/-- Iterate `next` until nothing changes (`g.n + 1` rounds always suffice, Props/C05.lean). -/
def iterate (g : Graph) : Nat → List Bool → List Bool
  | 0, S => S
  | fuel + 1, S => let S' := next g S; if S' == S then S else iterate g fuel S'

/-- The kept (loaded) mask. -/
def keptMask (g : Graph) : List Bool :=
  iterate g (g.n + 1) (List.replicate g.n false)

def isKept (g : Graph) (i : Nat) : Bool := (keptMask g).getD i false

end Wild.Gc
