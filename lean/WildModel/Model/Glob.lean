/-
Model of libwild/src/glob_match.rs and of the parts of the `glob` crate (0.3.3) it uses:
`Pattern::new` and `Pattern::matches` with `MatchOptions::new()` (case sensitive, no literal
separator / leading dot requirements). Transcribed from the crate source, quirks included
(`\` is an ordinary character, `**` is the recursive wildcard and is an error unless it forms a
whole path component, `***` is an error, an unclosed `[` is an error, `[!]` is an error).
Core-only imports.
-/
namespace Wild.Glob

/-! ## UTF-8 (Rust `str::from_utf8`) -/

def isCont (b : UInt8) : Bool := 0x80 ≤ b && b ≤ 0xBF

def cont (b : UInt8) : Nat := b.toNat % 64

/-- `str::from_utf8(bytes).ok().map(|s| s.chars().collect())`. -/
def decodeUtf8 : Nat → List UInt8 → Option (List Char)
  | 0, _ => none
  | _, [] => some []
  | fuel + 1, b0 :: rest =>
    if b0 < 0x80 then (decodeUtf8 fuel rest).map (Char.ofNat b0.toNat :: ·)
    else if 0xC2 ≤ b0 && b0 ≤ 0xDF then
      match rest with
      | b1 :: r => if isCont b1 then (decodeUtf8 fuel r).map (Char.ofNat ((b0.toNat % 32) * 64 + cont b1) :: ·) else none
      | _ => none
    else if 0xE0 ≤ b0 && b0 ≤ 0xEF then
      match rest with
      | b1 :: b2 :: r =>
        let lo : UInt8 := if b0 == 0xE0 then 0xA0 else 0x80
        let hi : UInt8 := if b0 == 0xED then 0x9F else 0xBF
        if lo ≤ b1 && b1 ≤ hi && isCont b2 then
          (decodeUtf8 fuel r).map (Char.ofNat (((b0.toNat % 16) * 64 + cont b1) * 64 + cont b2) :: ·)
        else none
      | _ => none
    else if 0xF0 ≤ b0 && b0 ≤ 0xF4 then
      match rest with
      | b1 :: b2 :: b3 :: r =>
        let lo : UInt8 := if b0 == 0xF0 then 0x90 else 0x80
        let hi : UInt8 := if b0 == 0xF4 then 0x8F else 0xBF
        if lo ≤ b1 && b1 ≤ hi && isCont b2 && isCont b3 then
          (decodeUtf8 fuel r).map (Char.ofNat ((((b0.toNat % 8) * 64 + cont b1) * 64 + cont b2) * 64 + cont b3) :: ·)
        else none
      | _ => none
    else none

def fromUtf8 (bs : List UInt8) : Option (List Char) := decodeUtf8 (bs.length + 1) bs

/-! ## glob_match.rs -/

inductive PatternType where
  | exact | escapedExact | star | nonStar
  deriving DecidableEq, Repr

def bStar : UInt8 := 0x2A      -- '*'
def bQuest : UInt8 := 0x3F     -- '?'
def bBackslash : UInt8 := 0x5C -- '\\'
def bOpen : UInt8 := 0x5B      -- '['
def bClose : UInt8 := 0x5D     -- ']'

/-- The `while let` loop of `analyze_glob_pattern`: `skip` = the iterator was advanced past an
escaped byte. -/
def analyzeLoop : PatternType → List UInt8 → PatternType
  | t, [] => t
  | t, c :: rest =>
    if c == bBackslash then
      let t' := if t == .exact then .escapedExact else t
      match rest with
      | [] => t'
      | _ :: rest' => analyzeLoop t' rest'
    else if c == bStar then .star
    else if c == bOpen || c == bClose || c == bQuest then analyzeLoop .nonStar rest
    else analyzeLoop t rest

/-- `analyze_glob_pattern` (the memchr fast path returns the same value as the loop would). -/
def analyze (p : List UInt8) : PatternType :=
  if p.all (fun c => c != bStar && c != bQuest && c != bBackslash && c != bOpen && c != bClose) then .exact
  else analyzeLoop .exact p

/-- `unescape_pattern`. -/
def unescape : List UInt8 → List UInt8
  | [] => []
  | c :: rest =>
    if c == bBackslash then
      match rest with
      | [] => [c]
      | n :: rest' => n :: unescape rest'
    else c :: unescape rest

/-- `str::replace("[^", "[!")` (non-overlapping, left to right). -/
def replaceCaret : List Char → List Char
  | '[' :: '^' :: rest => '[' :: '!' :: replaceCaret rest
  | c :: rest => c :: replaceCaret rest
  | [] => []

/-! ## glob crate -/

inductive CharSpec where
  | single (c : Char)
  | range (a b : Char)
  deriving DecidableEq, Repr

inductive Tok where
  | char (c : Char)
  | anyChar
  | anySeq
  | anyRec
  | within (cs : List CharSpec)
  | except (cs : List CharSpec)
  deriving DecidableEq, Repr

/-- `path::is_separator` on Unix. -/
def isSep (c : Char) : Bool := c == '/'

/-- `parse_char_specifiers`. -/
def parseSpecs : List Char → List CharSpec
  | a :: '-' :: b :: rest => .range a b :: parseSpecs rest
  | a :: rest => .single a :: parseSpecs rest
  | [] => []

/-- `chars[from..].iter().position(|x| *x == ']')` returning the elements before and after. -/
def splitClose : List Char → Option (List Char × List Char)
  | [] => none
  | c :: rest =>
    if c == ']' then some ([], rest)
    else (splitClose rest).map (fun (a, b) => (c :: a, b))

/-- The `while i < chars.len()` loop of `Pattern::new`. `prev` is `chars[i-1]` (none at i = 0),
`acc` the tokens pushed so far in reverse. `none` = `Err(PatternError)`. -/
def parseLoop : Nat → Option Char → List Tok → List Char → Option (List Tok)
  | 0, _, _, _ => none
  | _, _, acc, [] => some acc.reverse
  | fuel + 1, prev, acc, c :: rest =>
    if c == '?' then parseLoop fuel (some c) (.anyChar :: acc) rest
    else if c == '*' then
      match rest with
      | '*' :: '*' :: _ => none                       -- count > 2
      | '*' :: rest2 =>                                -- count == 2
        if prev.isNone || prev.any isSep then
          let push (acc : List Tok) : List Tok :=
            -- `!(tokens_len > 1 && tokens[tokens_len - 1] == AnyRecursiveSequence)`
            if acc.length > 1 && acc.head? == some .anyRec then acc else .anyRec :: acc
          match rest2 with
          | [] => some (push acc).reverse
          | d :: rest3 => if isSep d then parseLoop fuel (some d) (push acc) rest3 else none
        else none
      | _ => parseLoop fuel (some c) (.anySeq :: acc) rest   -- count == 1
    else if c == '[' then
      match rest with
      | '!' :: x :: rest2 =>
        -- needs i + 4 <= len: at least one more char after x; search for ']' starts after x
        if rest2.isEmpty then none else
        match splitClose rest2 with
        | none => none
        | some (body, after) => parseLoop fuel (some ']') (.except (parseSpecs (x :: body)) :: acc) after
      | '!' :: _ => none
      | x :: rest2 =>
        -- needs i + 3 <= len; search for ']' starts after x
        if rest2.isEmpty then none else
        match splitClose rest2 with
        | none => none
        | some (body, after) => parseLoop fuel (some ']') (.within (parseSpecs (x :: body)) :: acc) after
      | [] => none
    else parseLoop fuel (some c) (.char c :: acc) rest

/-- `Pattern::new`. -/
def patternNew (p : List Char) : Option (List Tok) := parseLoop (p.length + 1) none [] p

/-- `in_char_specifiers` with `case_sensitive = true`. -/
def inSpecs (cs : List CharSpec) (c : Char) : Bool :=
  cs.any fun
    | .single s => c == s
    | .range a b => a ≤ c && c ≤ b

inductive MatchResult where
  | isMatch | subPatternDoesntMatch | entirePatternDoesntMatch
  deriving DecidableEq, Repr

/-- One non-sequence token against one character (default options). -/
def tokOk : Tok → Char → Bool
  | .anyChar, _ => true
  | .within cs, c => inSpecs cs c
  | .except cs, c => !inSpecs cs c
  | .char c2, c => c == c2
  | _, _ => false

def Tok.isSeq : Tok → Bool
  | .anySeq | .anyRec => true
  | _ => false

/-- The `while let Some(c) = file.next()` loop of a sequence token (`isRec`: the token is `**`);
`k fs s` stands for `matches_from(fs, s, i + ti + 1, options)`. When the input is exhausted the
enclosing `for` continues with the remaining tokens on the empty input, which is `k fs []`. -/
def seqLoop (k : Bool → List Char → MatchResult) (isRec : Bool) : Bool → List Char → MatchResult
  | fs, [] => k fs []
  | _, c :: s' =>
    let fs' := isSep c
    if isRec && !fs' then seqLoop k isRec fs' s'
    else
      match k fs' s' with
      | .subPatternDoesntMatch => seqLoop k isRec fs' s'
      | m => m

/-- `Pattern::matches_from(follows_separator, file, i, MatchOptions::new())` with the first
argument the tokens from index `i` on. -/
def matchesFrom : List Tok → Bool → List Char → MatchResult
  | [], _, s => if s.isEmpty then .isMatch else .subPatternDoesntMatch
  | tok :: ts, fs, s =>
    if tok.isSeq then
      match matchesFrom ts fs s with
      | .subPatternDoesntMatch => seqLoop (matchesFrom ts) (tok == .anyRec) fs s
      | m => m
    else
      match s with
      | [] => .entirePatternDoesntMatch
      | c :: s' => if tokOk tok c then matchesFrom ts (isSep c) s' else .subPatternDoesntMatch

/-- `Pattern::matches`. -/
def patternMatches (toks : List Tok) (name : List Char) : Bool :=
  matchesFrom toks true name == .isMatch

/-- Error classes of `compile_glob_pattern`. -/
inductive CompileError where
  | utf8 | glob
  deriving DecidableEq, Repr

/-- `compile_glob_pattern`. -/
def compile (token : List UInt8) : Except CompileError (List Tok) :=
  match fromUtf8 token with
  | none => .error .utf8
  | some cs =>
    match patternNew (replaceCaret cs) with
    | none => .error .glob
    | some toks => .ok toks

/-- What every caller does with a compiled pattern and a byte string: a name that is not UTF-8
does not match. -/
def matchesBytes (toks : List Tok) (name : List UInt8) : Bool :=
  match fromUtf8 name with
  | none => false
  | some cs => patternMatches toks cs

end Wild.Glob
