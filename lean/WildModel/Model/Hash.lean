/-
Model of wild's dynamic-symbol hash tables (property C08).

Mirrors
  libwild/src/elf.rs         `create_gnu_hash_layout` (bucket count, bloom parameters, sort by (bucket, name)),
                             `allocate_sysv_hash` (bucket count, chain count), `GnuHashLayout::bucket_for_hash`
  libwild/src/elf_writer.rs  `write_gnu_hash_tables`, `write_sysv_hash_table`
  object::elf::{gnu_hash, hash}  (the two hash functions wild calls)
and transcribes the lookup side from glibc `elf/dl-lookup.c` (`do_lookup_x`, `check_match` reduced to the
name comparison) and `sysdeps/generic/dl-hash.h`.

Index-valued table words (bucket entries, SysV chain entries, symbol counts) are modelled as `Nat`;
wild computes them in `u32`, which coincides as long as `symbol_base + num_defs < 2^32`
(listed as an assumption of C08). Hash-valued words are `UInt32`, bloom words `UInt64`.
Core-only imports (the driver links this file).
-/
namespace Wild.Hash

/-! ## Hash functions -/

/-- `object::elf::gnu_hash` = glibc `dl_new_hash`: `h = h * 33 + c` from 5381, wrapping in 32 bits. -/
def dlNewHash (n : List UInt8) : UInt32 :=
  n.foldl (fun h c => h * 33 + c.toUInt32) 5381

/-- One step of `object::elf::hash`. -/
def elfHashStep (h : UInt32) (c : UInt8) : UInt32 :=
  let h := h * 16 + c.toUInt32
  h ^^^ ((h >>> 24) &&& 0xf0)

/-- `object::elf::hash` (what wild calls in `write_sysv_hash_table`); also the form used by glibc >= 2.37. -/
def elfHash (n : List UInt8) : UInt32 :=
  (n.foldl elfHashStep 0) &&& 0x0fffffff

/-- One step of the classic gABI / older glibc `_dl_elf_hash` (32-bit state). -/
def gabiHashStep (h : UInt32) (c : UInt8) : UInt32 :=
  let h := (h <<< 4) + c.toUInt32
  let g := h &&& 0xf0000000
  (h ^^^ (g >>> 24)) &&& ~~~g

/-- The gABI `elf_hash` as printed in the System V ABI. -/
def gabiHash (n : List UInt8) : UInt32 := n.foldl gabiHashStep 0

/-! ## Layout parameters -/

/-- `usize::next_power_of_two`: smallest power of two `≥ n` (`0 ↦ 1`). Fuel `n` suffices as `2^n ≥ n`. -/
def nextPowerOfTwoGo (n : Nat) : Nat → Nat → Nat
  | 0, p => p
  | fuel + 1, p => if n ≤ p then p else nextPowerOfTwoGo n fuel (2 * p)

def nextPowerOfTwo (n : Nat) : Nat := nextPowerOfTwoGo n n 1

/-- `GnuHashLayout` -/
structure GnuLayout where
  numDefs : Nat
  bucketCount : Nat
  bloomShift : Nat
  bloomCount : Nat
  symbolBase : Nat
deriving Repr, DecidableEq

/-- `create_gnu_hash_layout` (parameter part); `symbol_base` is filled in by `finalise_layout`. -/
def createGnuLayout (numDefs symbolBase : Nat) : GnuLayout :=
  { numDefs := numDefs, bucketCount := nextPowerOfTwo (numDefs / 2), bloomShift := 6, bloomCount := 1,
    symbolBase := symbolBase }

/-- `GnuHashLayout::bucket_for_hash` -/
def bucketOf (nb : Nat) (h : UInt32) : Nat := h.toNat % nb

/-- `allocate_sysv_hash`: `(num_defs / 2).max(1).next_power_of_two()` -/
def sysvBucketCount (numDefs : Nat) : Nat := nextPowerOfTwo (max (numDefs / 2) 1)

/-! ## Sorting the dynamic symbol definitions by (bucket, name) -/

/-- Rust's `Ord` for `&[u8]`: lexicographic on bytes, a proper prefix is smaller. -/
def nameLe : List UInt8 → List UInt8 → Bool
  | [], _ => true
  | _ :: _, [] => false
  | a :: as, b :: bs => if a < b then true else if b < a then false else nameLe as bs

/-- The sort key comparison of `par_sort_unstable_by_key(|d| (bucket_for_hash(d.hash), d.name))`. -/
def symLe (nb : Nat) (a b : List UInt8) : Bool :=
  let ba := bucketOf nb (dlNewHash a)
  let bb := bucketOf nb (dlNewHash b)
  if ba < bb then true else if bb < ba then false else nameLe a b

def insertSym (nb : Nat) (x : List UInt8) : List (List UInt8) → List (List UInt8)
  | [] => [x]
  | y :: ys => if symLe nb x y then x :: y :: ys else y :: insertSym nb x ys

/-- Sorting by (bucket, name), as a stable insertion sort (equal keys keep their input order; wild's
unstable sort leaves that order unspecified, the tie feeds the names in wild's output order). -/
def sortSyms (nb : Nat) (l : List (List UInt8)) : List (List UInt8) :=
  l.foldr (insertSym nb) []

/-! ## GNU hash table -/

structure GnuTable where
  nbuckets : Nat
  symoffset : Nat
  bloomSize : Nat
  bloomShift : Nat
  bloom : List UInt64
  buckets : List Nat
  chain : List UInt32
deriving Repr, DecidableEq

/-- `bit1 | bit2` of `write_gnu_hash_tables` -/
def bloomBits (shift : Nat) (h : UInt32) : UInt64 :=
  ((1 : UInt64) <<< (h % 64).toUInt64) ||| ((1 : UInt64) <<< ((h >>> shift.toUInt32) % 64).toUInt64)

/-- `bloom[(hash / 64) % bloom_count] |= bit1 | bit2` -/
def bloomAdd (shift count : Nat) (bloom : List UInt64) (h : UInt32) : List UInt64 :=
  let idx := (h.toNat / 64) % count
  bloom.set idx (bloom.getD idx 0 ||| bloomBits shift h)

/-- The bloom filter effect of the loop in `write_gnu_hash_tables`. -/
def gnuBloom (shift count : Nat) (hs : List UInt32) : List UInt64 :=
  hs.foldl (bloomAdd shift count) (List.replicate count 0)

/-- `last_in_chain`: there is no next symbol or the next symbol hashes to another bucket. -/
def lastInChain (nb : Nat) (h : UInt32) : List UInt32 → Bool
  | [] => true
  | h' :: _ => bucketOf nb h' != bucketOf nb h

/-- chain word: `hash & !1`, then `|= 1` at the end of a chain. -/
def chainWord (h : UInt32) (last : Bool) : UInt32 :=
  (h &&& ~~~(1 : UInt32)) ||| (if last then 1 else 0)

/-- The chain-array effect of the loop in `write_gnu_hash_tables`. -/
def gnuChain (nb : Nat) : List UInt32 → List UInt32
  | [] => []
  | h :: rest => chainWord h (lastInChain nb h rest) :: gnuChain nb rest

/-- The bucket-array effect of the loop in `write_gnu_hash_tables`: `i` is the loop index, `start` the
`start_of_chain` flag. -/
def gnuBucketsGo (nb base : Nat) : Nat → Bool → List UInt32 → List Nat → List Nat
  | _, _, [], buckets => buckets
  | i, start, h :: rest, buckets =>
    let buckets := if start then buckets.set (bucketOf nb h) (i + base) else buckets
    gnuBucketsGo nb base (i + 1) (lastInChain nb h rest) rest buckets

def gnuBuckets (nb base : Nat) (hs : List UInt32) : List Nat :=
  gnuBucketsGo nb base 0 true hs (List.replicate nb 0)

/-- `write_gnu_hash_tables` for the already sorted definitions. -/
def writeGnu (L : GnuLayout) (sorted : List (List UInt8)) : GnuTable :=
  let hs := sorted.map dlNewHash
  { nbuckets := L.bucketCount, symoffset := L.symbolBase, bloomSize := L.bloomCount, bloomShift := L.bloomShift,
    bloom := gnuBloom L.bloomShift L.bloomCount hs,
    buckets := gnuBuckets L.bucketCount L.symbolBase hs,
    chain := gnuChain L.bucketCount hs }

/-- The dynsym order wild produces for the defined symbols when `.gnu.hash` is emitted. -/
def gnuOrder (names : List (List UInt8)) : List (List UInt8) :=
  sortSyms (nextPowerOfTwo (names.length / 2)) names

/-- `create_gnu_hash_layout` + `write_gnu_hash_tables` from the definitions in the order wild receives them. -/
def buildGnu (base : Nat) (names : List (List UInt8)) : GnuTable :=
  writeGnu (createGnuLayout names.length base) (gnuOrder names)

/-! ## SysV hash table -/

structure SysvTable where
  nbucket : Nat
  nchain : Nat
  buckets : List Nat
  chain : List Nat
deriving Repr, DecidableEq

structure SysvState where
  buckets : List Nat
  chains : List Nat
  last : List (Option Nat)

/-- Loop body of `write_sysv_hash_table` for the `i`-th definition (dynsym index `base + i`). -/
def sysvStep (nb base : Nat) (st : SysvState) (ih : Nat × UInt32) : SysvState :=
  let symIndex := base + ih.1
  let bucket := ih.2.toNat % nb
  let st' : SysvState :=
    if st.buckets.getD bucket 0 = 0 then { st with buckets := st.buckets.set bucket symIndex }
    else match st.last.getD bucket none with
      | some l => { st with chains := st.chains.set l symIndex }
      | none => st  -- wild: error "Invalid .hash bucket chain construction"; unreachable (see `sysv_last_some`)
  { st' with last := st'.last.set bucket (some symIndex) }

def enumFrom : Nat → List α → List (Nat × α)
  | _, [] => []
  | i, x :: xs => (i, x) :: enumFrom (i + 1) xs

/-- `write_sysv_hash_table`: `base` = `dynsym_start_index`, `nchain` = number of dynsym entries,
`names` = defined dynamic symbols in dynsym order. -/
def writeSysv (nb nchain base : Nat) (names : List (List UInt8)) : SysvTable :=
  let init : SysvState := { buckets := List.replicate nb 0, chains := List.replicate nchain 0, last := List.replicate nb none }
  let st := (enumFrom 0 (names.map elfHash)).foldl (sysvStep nb base) init
  { nbucket := nb, nchain := nchain, buckets := st.buckets, chain := st.chains }

/-- `allocate_sysv_hash` + `write_sysv_hash_table`; wild emits no `.hash` content when there are no definitions. -/
def buildSysv (base : Nat) (names : List (List UInt8)) : SysvTable :=
  writeSysv (sysvBucketCount names.length) (base + names.length) base names

/-! ## glibc's lookups (`do_lookup_x`) -/

inductive Res where
  | found (symidx : Nat)
  | notFound
  | outOfFuel   -- the modelled loop ran out of fuel (would be a non-terminating walk in glibc)
  | oob         -- the walk read outside the table (undefined behaviour in glibc)
deriving Repr, DecidableEq

/-- `((*hasharr ^ new_hash) >> 1) == 0` -/
def hashMatch (w h : UInt32) : Bool := ((w ^^^ h) >>> 1) == 0

/-- `(*hasharr & 1u) != 0` -/
def isEnd (w : UInt32) : Bool := (w &&& 1) != 0

/-- `(bitmask_word >> hashbit1) & (bitmask_word >> hashbit2) & 1` -/
def bloomTest (shift : Nat) (word : UInt64) (h : UInt32) : Bool :=
  let hashbit1 := (h &&& 63).toUInt64
  let hashbit2 := ((h >>> shift.toUInt32) &&& 63).toUInt64
  ((word >>> hashbit1) &&& (word >>> hashbit2) &&& 1) != 0

/-- The `do … while ((*hasharr++ & 1u) == 0)` loop; `j` indexes the chain array (symbol index minus
`symoffset`), `syms` are the names of the dynsym entries from `symoffset` on; `check_match` is the name
comparison. -/
def gnuWalk (chain : List UInt32) (syms : List (List UInt8)) (symoffset : Nat) (h : UInt32) (n : List UInt8) :
    Nat → Nat → Res
  | 0, _ => .outOfFuel
  | fuel + 1, j =>
    match chain[j]? with
    | none => .oob
    | some w =>
      if hashMatch w h && syms[j]? == some n then .found (j + symoffset)
      else if isEnd w then .notFound
      else gnuWalk chain syms symoffset h n fuel (j + 1)

def lookupGnuFuel (fuel : Nat) (t : GnuTable) (syms : List (List UInt8)) (n : List UInt8) : Res :=
  let h := dlNewHash n
  match t.bloom[(h.toNat / 64) &&& (t.bloomSize - 1)]? with
  | none => .oob
  | some word =>
    if bloomTest t.bloomShift word h then
      if t.nbuckets = 0 then .oob else
      match t.buckets[h.toNat % t.nbuckets]? with
      | none => .oob
      | some bucket =>
        if bucket = 0 then .notFound
        else if bucket < t.symoffset then .oob
        else gnuWalk t.chain syms t.symoffset h n fuel (bucket - t.symoffset)
    else .notFound

/-- GNU-hash lookup with fuel = table size + 1. -/
def lookupGnu (t : GnuTable) (syms : List (List UInt8)) (n : List UInt8) : Res :=
  lookupGnuFuel (t.chain.length + 1) t syms n

/-- Name of dynsym entry `idx` as far as `check_match` can match it: entries below `base` are the
null/undefined symbols (never matched), entries from `base` on are the definitions. -/
def symName (base : Nat) (syms : List (List UInt8)) (idx : Nat) : Option (List UInt8) :=
  if idx < base then none else syms[idx - base]?

/-- `for (symidx = l_buckets[hash % nbuckets]; symidx != STN_UNDEF; symidx = l_chain[symidx])` -/
def sysvWalk (chain : List Nat) (base : Nat) (syms : List (List UInt8)) (n : List UInt8) : Nat → Nat → Res
  | 0, _ => .outOfFuel
  | fuel + 1, idx =>
    if idx = 0 then .notFound
    else if symName base syms idx == some n then .found idx
    else match chain[idx]? with
      | none => .oob
      | some nx => sysvWalk chain base syms n fuel nx

def lookupSysvFuel (fuel : Nat) (t : SysvTable) (base : Nat) (syms : List (List UInt8)) (n : List UInt8) : Res :=
  if t.nbucket = 0 then .oob else
  match t.buckets[(elfHash n).toNat % t.nbucket]? with
  | none => .oob
  | some s => sysvWalk t.chain base syms n fuel s

/-- SysV lookup with fuel = nchain + 1. -/
def lookupSysv (t : SysvTable) (base : Nat) (syms : List (List UInt8)) (n : List UInt8) : Res :=
  lookupSysvFuel (t.chain.length + 1) t base syms n

end Wild.Hash
