/-
M-InitFini: which order the entries of `.preinit_array`, `.init_array[.N]`, `.fini_array[.N]`,
`.ctors[.N]`, `.dtors[.N]` input sections are emitted in.

Mirrors (hand-written; tied by the whole-link correspondence `initfini`):
* libwild/src/elf.rs            `init_fini_priority`, `parse_priority_suffix`, DEFAULT_SECTION_RULES
                                (`.preinit_array` exact; `.init_array*`/`.ctors*` -> INIT_ARRAY sorted;
                                `.fini_array*`/`.dtors*` -> FINI_ARRAY sorted);
* libwild/src/resolution.rs     `resolve_section` (SortedSection: a section with `Some(priority)` is
                                recorded in `init_fini_sections`), `apply_init_fini_secondaries`
                                (such a section moves to the secondary output section
                                `(primary, priority)`; a section with priority `None` stays in the primary);
* libwild/src/output_section_id.rs `get_or_create_init_fini_secondary` (one secondary per distinct
                                priority), `OutputOrderBuilder::add_section` (primary first, then
                                the secondaries sorted by priority);
* libwild/src/elf_writer.rs     `should_reverse_contents` (`.ctors*`/`.dtors*` input sections placed
                                in INIT_ARRAY/FINI_ARRAY are written back to front).
Within one output (sub)section input sections are laid out in command-line order (file order, then
section-header order); all sections are assumed to have the same alignment (8).
Core-only imports.
-/
namespace Wild.InitFini

/-- One input section: its name and the ids of the 8-byte entries it holds, in input order. -/
structure Sec where
  name : List Char
  entries : List Nat
  deriving Repr, DecidableEq, Inhabited

inductive Out where
  | preinit | init | fini
  deriving Repr, DecidableEq, Inhabited

def stripPrefix? (p s : List Char) : Option (List Char) :=
  if p.isPrefixOf s then some (s.drop p.length) else none

/-- `parse_priority_suffix`: non-empty, all ASCII digits, parsed as u32 (failure -> None), then
clamped to u16::MAX. -/
def parsePrioritySuffix (s : List Char) : Option Nat :=
  if s.isEmpty || !s.all Char.isDigit then none
  else
    let v := s.foldl (fun a c => a * 10 + (c.toNat - 48)) 0
    if v ≥ 2 ^ 32 then none else some (min v 65535)

def sInitArray : List Char := ".init_array".toList
def sFiniArray : List Char := ".fini_array".toList
def sPreinitArray : List Char := ".preinit_array".toList
def sCtors : List Char := ".ctors".toList
def sDtors : List Char := ".dtors".toList

/-- `init_fini_priority` -/
def initFiniPriority (name : List Char) : Option Nat :=
  if name = sInitArray ∨ name = sFiniArray then some 65535 else
  match stripPrefix? (sInitArray ++ ['.']) name with
  | some rest => parsePrioritySuffix rest
  | none =>
  match stripPrefix? (sFiniArray ++ ['.']) name with
  | some rest => parsePrioritySuffix rest
  | none =>
  if name = sCtors ∨ name = sDtors then some 65535 else
  match stripPrefix? (sCtors ++ ['.']) name with
  | some rest => (parsePrioritySuffix rest).map (fun p => 65535 - p)
  | none =>
  match stripPrefix? (sDtors ++ ['.']) name with
  | some rest => (parsePrioritySuffix rest).map (fun p => 65535 - p)
  | none => none

/-- The built-in section rules for these names (first matching rule in table order). -/
def outputOf (name : List Char) : Option Out :=
  if name = sPreinitArray then some .preinit
  else if sInitArray.isPrefixOf name then some .init
  else if sCtors.isPrefixOf name then some .init
  else if sFiniArray.isPrefixOf name then some .fini
  else if sDtors.isPrefixOf name then some .fini
  else none

/-- `should_reverse_contents` (the caller has already established the output is INIT/FINI_ARRAY). -/
def reversed (name : List Char) : Bool :=
  sCtors.isPrefixOf name || sDtors.isPrefixOf name

def contents (s : Sec) : List Nat :=
  if reversed s.name then s.entries.reverse else s.entries

/-- The input sections routed to output `o`, in command-line order. -/
def routed (o : Out) (secs : List Sec) : List Sec :=
  secs.filter fun s => outputOf s.name = some o

def prio (s : Sec) : Option Nat := initFiniPriority s.name

/-- insert into an ascending duplicate-free list (`sort_by_key` over the secondaries; the
`init_fini_by_priority` map has already merged equal priorities into one secondary) -/
def insertPrio (p : Nat) : List Nat → List Nat
  | [] => [p]
  | q :: qs => if p < q then p :: q :: qs else if p = q then q :: qs else q :: insertPrio p qs

/-- The distinct priorities in use, ascending: one secondary per distinct priority, sorted. -/
def sortedPrios (secs : List Sec) : List Nat :=
  (secs.filterMap prio).foldr insertPrio []

/-- Input sections of one array output in their output order: first the primary (sections without
a priority), then each secondary in ascending priority, each in command-line order. -/
def secOrder (secs : List Sec) : List Sec :=
  secs.filter (fun s => prio s == none) ++
    (sortedPrios secs).flatMap fun p => secs.filter fun s => prio s == some p

/-- Entry ids of the array output `o` in the order they are emitted. -/
def emit (o : Out) (secs : List Sec) : List Nat :=
  match o with
  | .preinit => (routed .preinit secs).flatMap (·.entries)
  | _ => (secOrder (routed o secs)).flatMap contents

end Wild.InitFini
