import WildModel.Model.Fs
/-!
# Inputs changed during the link (libwild/src/input_data.rs, lib.rs `link_for_arch`)

`FileData::open`: `File::open(path)`, then `file.metadata().modified()` (an `fstat` on the opened
descriptor, taken *before* the `mmap`), recorded in `FileData::modification_time`.
`FileLoader::verify_inputs_unchanged` (called by `link_for_arch` after `load_inputs_and_link`
returned, whether it succeeded or not, and *before* its error is propagated): for every entry of
`loaded_files` that has data, `std::fs::metadata(&file.filename)` (a `stat` by PATH) and
`modified()` must equal the recorded value, else "was changed while we were running"; a path that
can no longer be `stat`ed is an error as well.  `par_iter().try_for_each`: which failing file is
reported is unspecified, that one is reported is not.

The file system and its clock are `Model/Fs`: a content mutation stamps the inode with
`now / gran * gran`.
-/
namespace Wild.InputsChanged
open Wild.Fs

/-- an entry of `loaded_files` -/
structure Loaded where
  path : Path
  hasData : Bool := true     -- `InputFile::data` is `Some` (always, for files that were opened)
  recorded : Nat             -- `modification_time`
  deriving DecidableEq, Repr

inductive Outcome where
  | ok | linkError | inputsChanged | metadataError
  deriving DecidableEq, Repr

/-- `FileData::open`: the descriptor's mtime at open time -/
def openInput (s : State) (p : Path) : Option Loaded :=
  (s.mtimeOf p).map (fun m => { path := p, recorded := m })

def verifyOne (s : State) (l : Loaded) : Option Outcome :=
  if !l.hasData then none else
  match s.mtimeOf l.path with
  | none => some .metadataError
  | some m => if m ≠ l.recorded then some .inputsChanged else none

/-- `verify_inputs_unchanged` (first failing entry in list order; any failing entry fails it) -/
def verify (s : State) : List Loaded → Option Outcome
  | [] => none
  | l :: ls => match verifyOne s l with
    | some e => some e
    | none => verify s ls

/-- `link_for_arch`: the verification result takes precedence over the link result. -/
def finishLink (s : State) (loaded : List Loaded) (linkOk : Bool) : Outcome :=
  match verify s loaded with
  | some e => e
  | none => if linkOk then .ok else .linkError

/-- What another process can do to an input while the link runs. -/
inductive Modif where
  | rewrite                    -- open(O_WRONLY) + write, same size
  | append
  | replaceByRename (src : Path) -- `mv src path` (a different inode with its own mtime)
  | touch                      -- utimensat(now)
  | rewriteRestore             -- rewrite, then `touch -d <old mtime>`
  | remove
  deriving DecidableEq, Repr

def applyModif (s : State) (p : Path) : Modif → State
  | .rewrite => match s.names p with
    | none => s
    | some i => s.writeData i (s.inode i).size
  | .append => match s.names p with
    | none => s
    | some i => s.writeData i ((s.inode i).size + 1)
  | .replaceByRename src => (s.rename src p).1
  | .touch => s.setMtime p (stamp s.now s.gran)
  | .rewriteRestore => match s.names p with
    | none => s
    | some i => (s.writeData i (s.inode i).size).setMtime p (s.inode i).mtime
  | .remove => (s.unlink p).1

/-- content identity of what a path names -/
def contentOf (s : State) (p : Path) : Option (Ino × Nat × Nat) :=
  (s.names p).map (fun i => (i, (s.inode i).gen, (s.inode i).size))

end Wild.InputsChanged
