/-
Model of the instruction-immediate encoders/decoders of linker-utils:
  linker-utils/src/bit_misc.rs   (`extract_bit_range`, `low_bits`, `low_bits_signed`, `sign_extend`)
  linker-utils/src/aarch64.rs    (`AArch64Instruction::{write_to_value, read_value}`)
  linker-utils/src/riscv64.rs    (`RiscVInstruction::{write_to_value, read_value}`)
  linker-utils/src/loongarch64.rs(`LoongArch64Instruction::{write_to_value, read_value}`)
Hand-written mirror of the Rust (including its quirks); tied to the code by the differential
correspondence `insn-write` / `insn-read` (wvh vs wmdriver).  Core-only imports.

Words: the Rust works on little-endian byte slices with byte-wise `and_from_slice`/`or_from_slice`;
byte-wise AND/OR of little-endian images is AND/OR of the words, so the model works on
`BitVec 32` (one instruction), `BitVec 64` (two consecutive instructions, first = low half) and
`BitVec 16` (compressed instruction).  `x as u32` is `BitVec.setWidth 32 x`.
-/
namespace Wild.Insn

/-! ## bit_misc.rs -/

/-- `u64::extract_bit_range(start..end)` -/
def extractBitRange (v : BitVec 64) (s e : Nat) : BitVec 64 :=
  if s = 0 ∧ e = 64 then v else (v >>> s) &&& ((1#64 <<< (e - s)) - 1#64)

/-- `u64::extract_bit(position)` -/
def extractBit (v : BitVec 64) (p : Nat) : BitVec 64 := extractBitRange v p (p + 1)

/-- `u64::low_bits(num_bits)` -/
def lowBits (v : BitVec 64) (n : Nat) : BitVec 64 := v &&& ((1#64 <<< n) - 1#64)

/-- `u64::sign_extend(sign_bit)` -/
def signExtend (v : BitVec 64) (b : Nat) : BitVec 64 :=
  if v &&& (1#64 <<< b) ≠ 0#64 then v ||| ~~~((2#64 <<< b) - 1#64) else v

/-- `u64::low_bits_signed(num_bits)` -/
def lowBitsSigned (v : BitVec 64) (n : Nat) : BitVec 64 := signExtend (lowBits v n) (n - 1)

/-- `x as u32` -/
abbrev u32 (v : BitVec 64) : BitVec 32 := v.setWidth 32
/-- `u64::from(x)` for `x : u32` -/
abbrev u64 (v : BitVec 32) : BitVec 64 := v.setWidth 64

/-! ## AArch64 (`AArch64Instruction`, ELF kinds; `MachOLow12` is Mach-O only and not modelled) -/

inductive A64 where
  | Adr | Movkz | Movnz | Ldr | LdrRegister | Add | LdSt | TstBr | Bcond | JumpCall
  deriving DecidableEq, Repr

namespace A64

def all : List A64 := [Adr, Movkz, Movnz, Ldr, LdrRegister, Add, LdSt, TstBr, Bcond, JumpCall]

/-- `AArch64Instruction::immediate_mask` (added by fix c13-aarch64-clear-field): the bits of the
immediate field that `write_to_value` clears before OR-ing the new immediate in. -/
def immediateMask : A64 → BitVec 32
  | Adr => 0x60ffffe0#32
  | Movkz | Movnz => 0x001fffe0#32
  | Ldr | Bcond => 0x00ffffe0#32
  | LdrRegister | Add | LdSt => 0x003ffc00#32
  | TstBr => 0x0007ffe0#32
  | JumpCall => 0x03ffffff#32

/-- The `mask` computed by the `match self` of `write_to_value`. -/
def immBits : A64 → BitVec 64 → Bool → BitVec 32
  | Adr, v, _ => (u32 (extractBitRange v 0 2) <<< 29) ||| (u32 (extractBitRange v 2 32) <<< 5)
  | Movkz, v, _ => u32 v <<< 5
  | Movnz, v, neg =>
      let value := if neg then ~~~v else v
      let op : BitVec 32 := if neg then 0x92800000#32 else 0xd2800000#32
      op ||| (u32 (extractBitRange value 0 16) <<< 5)
  | Ldr, v, _ => u32 v <<< 5
  | LdrRegister, v, _ => u32 v <<< 10
  | Add, v, _ => u32 v <<< 10
  | LdSt, v, _ => u32 v <<< 10
  | TstBr, v, _ => u32 v <<< 5
  | Bcond, v, _ => u32 v <<< 5
  | JumpCall, v, _ => u32 v

/-- The in-arm modification of `dest`: `Movnz` clears everything except rd[4:0] and hw[22:21]. -/
def preClear : A64 → BitVec 32 → BitVec 32
  | Movnz, w => w &&& 0x0060001f#32
  | _, w => w

/-- `AArch64Instruction::write_to_value(extracted_value, negative, dest)` on the word held in `dest`
(current code, i.e. with fix c13-aarch64-clear-field). -/
def write (k : A64) (v : BitVec 64) (neg : Bool) (w : BitVec 32) : BitVec 32 :=
  (preClear k w &&& ~~~(immediateMask k)) ||| immBits k v neg

/-- The code before fix c13-aarch64-clear-field: plain OR into the destination. Kept for the
regression witness in `Props/C13.lean`. -/
def writeUnfixed (k : A64) (v : BitVec 64) (neg : Bool) (w : BitVec 32) : BitVec 32 :=
  preClear k w ||| immBits k v neg

/-- `AArch64Instruction::read_value(bytes)` = `(extracted_value, negative)`. -/
def read (k : A64) (w : BitVec 32) : BitVec 64 × Bool :=
  let value := u64 w
  match k with
  | Adr => (lowBits (value >>> 29) 2 ||| (lowBitsSigned (value >>> 5) 19 <<< 2), false)
  | Movkz => (lowBitsSigned (value >>> 5) 16, false)
  | Movnz =>
      let negative := (value &&& (1#64 <<< 30)) == 0#64
      let v := lowBits (value >>> 5) 16
      (if negative then ~~~v else v, negative)
  | Ldr => (lowBitsSigned (value >>> 5) 19, false)
  | LdrRegister => (lowBits (value >>> 10) 12, false)
  | Add => (lowBits (value >>> 10) 12, false)
  | LdSt => (lowBitsSigned (value >>> 10) 12, false)
  | TstBr => (lowBitsSigned (value >>> 5) 14, false)
  | Bcond => (lowBitsSigned (value >>> 5) 19, false)
  | JumpCall => (lowBitsSigned value 26, false)

end A64

/-! ## RISC-V (`RiscVInstruction`) -/

def UTYPE_IMMEDIATE_MASK : BitVec 32 := 0x00000fff#32
def ITYPE_IMMEDIATE_MASK : BitVec 32 := 0x000fffff#32
def STYPE_IMMEDIATE_MASK : BitVec 32 := 0x01fff07f#32
def BTYPE_IMMEDIATE_MASK : BitVec 32 := 0x01fff07f#32
def JTYPE_IMMEDIATE_MASK : BitVec 32 := 0x00000fff#32
def CBTYPE_IMMEDIATE_MASK : BitVec 16 := 0xe383#16
def CJTYPE_IMMEDIATE_MASK : BitVec 16 := 0xe003#16
def CLUITYPE_IMMEDIATE_MASK : BitVec 16 := 0xef83#16

namespace RV

/-- `UType` writer -/
def writeU (v : BitVec 64) (w : BitVec 32) : BitVec 32 :=
  let m := u32 (extractBitRange (v + 0x800#64) 12 32) <<< 12
  (w &&& UTYPE_IMMEDIATE_MASK) ||| m

def writeI (v : BitVec 64) (w : BitVec 32) : BitVec 32 :=
  let m := v <<< 20
  (w &&& ITYPE_IMMEDIATE_MASK) ||| u32 m

def writeS (v : BitVec 64) (w : BitVec 32) : BitVec 32 :=
  let m := (extractBitRange v 0 5 <<< 7) ||| (extractBitRange v 5 12 <<< 25)
  (w &&& STYPE_IMMEDIATE_MASK) ||| u32 m

def writeB (v : BitVec 64) (w : BitVec 32) : BitVec 32 :=
  let m := (extractBit v 11 <<< 7) ||| (extractBitRange v 1 5 <<< 8)
    ||| (extractBitRange v 5 11 <<< 25) ||| (extractBit v 12 <<< 31)
  (w &&& BTYPE_IMMEDIATE_MASK) ||| u32 m

def writeJ (v : BitVec 64) (w : BitVec 32) : BitVec 32 :=
  let m := (extractBitRange v 12 20 <<< 12) ||| (extractBit v 11 <<< 20)
    ||| (extractBitRange v 1 11 <<< 21) ||| (extractBit v 20 <<< 31)
  (w &&& JTYPE_IMMEDIATE_MASK) ||| u32 m

/-- `UiType`: `UType` on `dest[..4]`, `IType` on `dest[4..]`, both with the same value. -/
def writeUi (v : BitVec 64) (w : BitVec 64) : BitVec 64 :=
  let lo := writeU v (w.setWidth 32)
  let hi := writeI v ((w >>> 32).setWidth 32)
  (hi.setWidth 64 <<< 32) ||| lo.setWidth 64

def writeCb (v : BitVec 64) (w : BitVec 16) : BitVec 16 :=
  let m := (extractBit v 5 <<< 2) ||| (extractBitRange v 1 3 <<< 3) ||| (extractBitRange v 6 8 <<< 5)
    ||| (extractBitRange v 3 5 <<< 10) ||| (extractBit v 8 <<< 12)
  (w &&& CBTYPE_IMMEDIATE_MASK) ||| m.setWidth 16

def writeCj (v : BitVec 64) (w : BitVec 16) : BitVec 16 :=
  let m := (extractBit v 5 <<< 2) ||| (extractBitRange v 1 4 <<< 3) ||| (extractBit v 7 <<< 6)
    ||| (extractBit v 6 <<< 7) ||| (extractBit v 10 <<< 8) ||| (extractBitRange v 8 10 <<< 9)
    ||| (extractBit v 4 <<< 11) ||| (extractBit v 11 <<< 12)
  (w &&& CJTYPE_IMMEDIATE_MASK) ||| m.setWidth 16

def writeClui (v : BitVec 64) (w : BitVec 16) : BitVec 16 :=
  let hi20 := (v + 0x800#64) >>> 12
  let m := ((hi20 &&& 0x1f#64) <<< 2) ||| (((hi20 >>> 5) &&& 1#64) <<< 12)
  (w &&& CLUITYPE_IMMEDIATE_MASK) ||| m.setWidth 16

/-- `((x as i32) << s) >> s` widened by `as u64` : sign extension of the low `32 - s` bits. -/
def sext32 (x : BitVec 32) (s : Nat) : BitVec 64 := ((x <<< s).sshiftRight s).signExtend 64

def isNeg (x : BitVec 64) : Bool := x.msb

def readU (w : BitVec 32) : BitVec 64 × Bool :=
  let imm := (w >>> 12) &&& 0xfffff#32
  (sext32 imm 12 - 0x800#64, false)

def readI (w : BitVec 32) : BitVec 64 × Bool :=
  let imm := (w >>> 20) &&& 0xfff#32
  let s := sext32 imm 20
  (s, isNeg s)

def readS (w : BitVec 32) : BitVec 64 × Bool :=
  let imm := ((((w >>> 25) &&& 0x7f#32)) <<< 5) ||| ((w >>> 7) &&& 0x1f#32)
  let s := sext32 imm 20
  (s, isNeg s)

def readB (w : BitVec 32) : BitVec 64 × Bool :=
  let imm11 := (w >>> 7) &&& 1#32
  let imm1_4 := (w >>> 8) &&& 0xf#32
  let imm5_10 := (w >>> 25) &&& 0x3f#32
  let imm12 := (w >>> 31) &&& 1#32
  let imm := (imm12 <<< 12) ||| (imm11 <<< 11) ||| (imm5_10 <<< 5) ||| (imm1_4 <<< 1)
  let s := sext32 imm 19
  (s, isNeg s)

def readJ (w : BitVec 32) : BitVec 64 × Bool :=
  let imm12_19 := (w >>> 12) &&& 0xff#32
  let imm11 := (w >>> 20) &&& 1#32
  let imm1_10 := (w >>> 21) &&& 0x3ff#32
  let imm20 := (w >>> 31) &&& 1#32
  let imm := (imm20 <<< 20) ||| (imm12_19 <<< 12) ||| (imm11 <<< 11) ||| (imm1_10 <<< 1)
  let s := sext32 imm 11
  (s, isNeg s)

/-- `UiType` reader: `(hi << 12 | lo, false)` -/
def readUi (w : BitVec 64) : BitVec 64 × Bool :=
  let hi := (readU (w.setWidth 32)).1
  let lo := (readI ((w >>> 32).setWidth 32)).1
  ((hi <<< 12) ||| lo, false)

def readCb (w : BitVec 16) : BitVec 64 × Bool :=
  let imm5 := (w >>> 2) &&& 1#16
  let imm1_2 := (w >>> 3) &&& 3#16
  let imm6_7 := (w >>> 5) &&& 3#16
  let imm3_4 := (w >>> 10) &&& 3#16
  let imm8 := (w >>> 12) &&& 1#16
  let imm := (imm8 <<< 8) ||| (imm6_7 <<< 6) ||| (imm5 <<< 5) ||| (imm3_4 <<< 3) ||| (imm1_2 <<< 1)
  let s := sext32 (imm.setWidth 32) 23
  (s, isNeg s)

def readCj (w : BitVec 16) : BitVec 64 × Bool :=
  let imm5 := (w >>> 2) &&& 1#16
  let imm1_3 := (w >>> 3) &&& 7#16
  let imm7 := (w >>> 6) &&& 1#16
  let imm6 := (w >>> 7) &&& 1#16
  let imm10 := (w >>> 8) &&& 1#16
  let imm8_9 := (w >>> 9) &&& 3#16
  let imm4 := (w >>> 11) &&& 1#16
  let imm11 := (w >>> 12) &&& 1#16
  let imm := (imm11 <<< 11) ||| (imm10 <<< 10) ||| (imm8_9 <<< 8) ||| (imm7 <<< 7) ||| (imm6 <<< 6)
    ||| (imm5 <<< 5) ||| (imm4 <<< 4) ||| (imm1_3 <<< 1)
  let s := sext32 (imm.setWidth 32) 20
  (s, isNeg s)

def readClui (w : BitVec 16) : BitVec 64 × Bool :=
  let nzimm4_0 := (w >>> 2) &&& 0x1f#16
  let nzimm5 := (w >>> 12) &&& 1#16
  let nzimm := (nzimm5 <<< 5) ||| nzimm4_0
  let hi20 := sext32 (nzimm.setWidth 32) 26
  ((hi20 <<< 12) - 0x800#64, isNeg hi20)

end RV

/-! ## LoongArch64 (`LoongArch64Instruction`) -/

namespace LA

def writeShift5 (v : BitVec 64) (w : BitVec 32) : BitVec 32 :=
  (w &&& 0xfe00001f#32) ||| u32 (v <<< 5)

def writeShift10 (v : BitVec 64) (w : BitVec 32) : BitVec 32 :=
  (w &&& 0xffc003ff#32) ||| u32 (v <<< 10)

def writeBranch26 (v : BitVec 64) (w : BitVec 32) : BitVec 32 :=
  (w &&& 0xfc000000#32) ||| u32 (((v &&& 0xffff#64) <<< 10) ||| (v >>> 16))

def writeBranch21 (v : BitVec 64) (w : BitVec 32) : BitVec 32 :=
  (w &&& 0xfc0003e0#32) ||| u32 (((v &&& 0xffff#64) <<< 10) ||| (v >>> 16))

def CALL30_CLEAR : BitVec 64 := (0xfff803ff#64 <<< 32) ||| 0xfe00001f#64
def CALL36_CLEAR : BitVec 64 := (0xfc0003ff#64 <<< 32) ||| 0xfe00001f#64

def writeCall30 (v : BitVec 64) (w : BitVec 64) : BitVec 64 :=
  let low := (v &&& 0x1ff#64) <<< 42
  let high := (v &&& ~~~0x1ff#64) <<< 5
  (w &&& CALL30_CLEAR) ||| (low ||| high)

/-- `Call36` (after fix c13-loongarch-call36-carry: the 20-bit high part is masked, so a carry out
of `extracted_value + 0x8000` no longer spills into bit 25 of the first instruction). -/
def writeCall36 (v : BitVec 64) (w : BitVec 64) : BitVec 64 :=
  let low := (v &&& 0xffff#64) <<< 42
  let high := (((v + 0x8000#64) >>> 16) &&& 0xfffff#64) <<< 5
  (w &&& CALL36_CLEAR) ||| (low ||| high)

/-- `Call36` before the fix. -/
def writeCall36Unfixed (v : BitVec 64) (w : BitVec 64) : BitVec 64 :=
  let low := (v &&& 0xffff#64) <<< 42
  let high := ((v + 0x8000#64) >>> 16) <<< 5
  (w &&& CALL36_CLEAR) ||| (low ||| high)

def readShift5 (w : BitVec 32) : BitVec 64 × Bool := (u64 ((w >>> 5) &&& 0xfffff#32), false)
def readShift10 (w : BitVec 32) : BitVec 64 × Bool := (u64 ((w >>> 10) &&& 0xfff#32), false)

def readBranch26 (w : BitVec 32) : BitVec 64 × Bool :=
  let imm := ((w &&& 0x3ff#32) <<< 16) ||| ((w >>> 10) &&& 0xffff#32)
  let s := RV.sext32 imm 6
  (s, RV.isNeg s)

def readBranch21 (w : BitVec 32) : BitVec 64 × Bool :=
  let imm := ((w &&& 0x1f#32) <<< 16) ||| ((w >>> 10) &&& 0xffff#32)
  let s := RV.sext32 imm 11
  (s, RV.isNeg s)

/-- `Call30` reader as written: `insn1` is taken from the HIGH half, `insn2` from the LOW half. -/
def readCall30 (w : BitVec 64) : BitVec 64 × Bool :=
  let insn1 : BitVec 32 := (w >>> 32).setWidth 32
  let insn2 : BitVec 32 := w.setWidth 32
  let high := ((insn1 >>> 5) &&& 0x7ffff#32) <<< 9
  let low := (insn2 >>> 10) &&& 0x1ff#32
  (u64 (high ||| low), false)

def readCall36 (w : BitVec 64) : BitVec 64 × Bool :=
  let insn1 : BitVec 32 := w.setWidth 32
  let insn2 : BitVec 32 := (w >>> 32).setWidth 32
  let high := u64 ((insn1 >>> 5) &&& 0xfffff#32)
  let low := u64 ((insn2 >>> 10) &&& 0xffff#32)
  ((((high <<< 16) - 0x8000#64) &&& 0xffffffff#64) ||| low, false)

end LA

end Wild.Insn
