/-!
# Model of wild's use of the GNU make jobserver

Anchors: `libwild/src/args.rs` (`CommonArgs::from_env` creates the `jobserver::Client`,
`activate_thread_pool` acquires tokens, `ThreadPool { _jobserver_tokens: Vec<Acquired> }` releases
them when dropped), `libwild/src/subprocess.rs` / `libwild/src/lib.rs::run` (which process holds the
`ThreadPool`, and whether it is dropped before the process exits). Core-only imports.

The jobserver is a pipe holding one byte per free token. `Client::try_acquire` is a non-blocking
1-byte read, `Drop for Acquired` writes the byte back (jobserver crate 0.1.34, `unix.rs`).

Rust scope semantics that matter here: locals are dropped when a function returns (normally or with
`?`) and when a panic unwinds through it; they are *not* dropped by `std::process::exit`,
`std::process::abort` or a fatal signal.
-/
namespace Wild.Jobserver

/-- The shared pool and this process' holdings. -/
structure St where
  /-- bytes in the jobserver pipe -/
  pool : Nat
  /-- `Acquired` values alive in this process (`ThreadPool::_jobserver_tokens`) -/
  held : Nat
  deriving DecidableEq, Repr

/-- One `client.try_acquire()`: `Ok(Some(_))` if a byte could be read, `Ok(None)` on `WouldBlock`. -/
def tryAcquire (s : St) : Option St :=
  if s.pool = 0 then none else some { pool := s.pool - 1, held := s.held + 1 }

/-- `while let Ok(Some(acquired)) = client.try_acquire() { tokens.push(acquired); }`.
`ioErrAfter = some k`: the `k+1`-th call returns `Err(_)` (any I/O error also ends the loop).
Fuel = the number of bytes in the pool: every successful iteration removes one. -/
def acquireLoop : (fuel : Nat) → (ioErrAfter : Option Nat) → St → St
  | 0, _, s => s
  | fuel + 1, ioErrAfter, s =>
    if ioErrAfter = some 0 then s else
    match tryAcquire s with
    | none => s
    | some s' => acquireLoop fuel (ioErrAfter.map (· - 1)) s'

/-- Configuration that `activate_thread_pool` looks at. -/
structure Config where
  /-- `--threads=N` / `--no-threads` (`num_threads`) -/
  numThreads : Option Nat
  /-- `Client::from_env` found a usable jobserver in `MAKEFLAGS` -/
  hasClient : Bool
  /-- `std::thread::available_parallelism()` -/
  cpus : Nat
  /-- I/O error injected into the acquire loop (see `acquireLoop`) -/
  ioErrAfter : Option Nat
  deriving DecidableEq, Repr

/-- `activate_thread_pool`: returns the new state and `available_threads`. Tokens are acquired only
when `--threads` was not given and a client exists. -/
def activateThreadPool (c : Config) (s : St) : St × Nat :=
  match c.numThreads with
  | some n => (s, n)
  | none =>
    if c.hasClient then
      let s' := acquireLoop s.pool c.ioErrAfter s
      -- `NonZeroUsize::new((tokens.len() + 1).max(1))`: our parent holds one token for us
      (s', Nat.max (s'.held - s.held + 1) 1)
    else (s, Nat.max c.cpus 1)

/-- Size of the rayon pool that `activate_thread_pool` builds for `available_threads = a` (after fix
`c35-single-thread-pool`): `a ≤ 1`: `ThreadPoolBuilder::new().num_threads(1).use_current_thread()`;
otherwise `.num_threads(a)`. -/
def poolThreads (_cpus a : Nat) : Nat := if a ≤ 1 then 1 else a

/-- Before the fix the single-thread branch was `ThreadPoolBuilder::new().use_current_thread()`:
`num_threads` stays 0, which rayon resolves to the number of CPUs (`get_num_threads`). -/
def poolThreadsOld (cpus a : Nat) : Nat := if a ≤ 1 then Nat.max cpus 1 else a

/-- `Drop for ThreadPool` = drop of `Vec<Acquired>`: every token is written back. -/
def dropThreadPool (s : St) : St := { pool := s.pool + s.held, held := 0 }

/-- How the call `linker.run(&args, &thread_pool)` (plus the rest of the enclosing function) ends. -/
inductive RunEnd where
  /-- returns `Ok` -/
  | ok
  /-- returns `Err`, propagated with `?` -/
  | error
  /-- panics on the calling thread; the panic unwinds through the caller -/
  | panic
  /-- `std::process::exit` is called inside (today: `WILD_SAVE_SKIP_LINKING` in `save_dir.rs`) -/
  | exitInside
  /-- `abort` (including a panic inside `rayon::spawn`, allocation failure) -/
  | abort
  /-- killed by a signal -/
  | killed
  deriving DecidableEq, Repr

/-- Do the locals of the function that called `linker.run` get dropped? -/
def RunEnd.dropsLocals : RunEnd → Bool
  | .ok | .error | .panic => true
  | .exitInside | .abort | .killed => false

/-- The process that runs the link. The three places that do it have the same shape:

* `subprocess_result`, child arm: `let thread_pool = activate_thread_pool()?; … linker.run(..)?; …
  inform_parent_done(&fds); Ok(0)` — the `ThreadPool` local is dropped at the end of the match arm
  (or by `?`, or by unwinding), i.e. *before* `run_in_subprocess` calls `std::process::exit`;
* `libwild::run` (no-fork, and the fork-failed fallback): `let thread_pool = …; linker.run(..)?;
  drop(linker); …; Ok(())` — dropped when `run` returns, before `main` returns /
  `report_error_and_exit`.

Returns the state when the process is gone, and the size of the rayon pool it used (`pt`: how the
pool is sized from `available_threads`). Tokens still held when a
process ends are lost (nobody writes them back). -/
def worker (pt : Nat → Nat → Nat) (c : Config) (e : RunEnd) (s : St) : St × Nat :=
  let (s1, avail) := activateThreadPool c s
  let s2 := if e.dropsLocals then dropThreadPool s1 else s1
  (s2, pt c.cpus avail)

inductive Mode where
  | fork | forkFailed | noFork
  deriving DecidableEq, Repr

/-- The forking parent: creates the `Client` (no token is read), forks, waits, exits. It never owns a
`ThreadPool`. -/
def forkingParent (s : St) : St := s

/-- Whole run: pool contents once every process of the run is gone, and the number of threads used
by the process that ran the link. Each process starts with `held = 0`. -/
def systemWith (pt : Nat → Nat → Nat) (m : Mode) (c : Config) (e : RunEnd) (pool : Nat) : Nat × Nat :=
  match m with
  | .fork =>
    let p := forkingParent { pool := pool, held := 0 }
    let (s, t) := worker pt c e { pool := p.pool, held := 0 }
    (s.pool, t)
  | .forkFailed | .noFork =>
    let (s, t) := worker pt c e { pool := pool, held := 0 }
    (s.pool, t)

/-- The current code. -/
def system : Mode → Config → RunEnd → Nat → Nat × Nat := systemWith poolThreads
/-- The code before fix `c35-single-thread-pool`. -/
def systemOld : Mode → Config → RunEnd → Nat → Nat × Nat := systemWith poolThreadsOld

/-- Tokens the link process acquired. -/
def acquired (c : Config) (pool : Nat) : Nat :=
  ((activateThreadPool c { pool := pool, held := 0 }).1).held

end Wild.Jobserver
