import WildModel.Model.Align
/-!
Model of the output layout of wild (M-Layout), mirroring

* `OutputOrderBuilder::{add_section, should_end_current_rw_segment, end_rw_load_segment,
  start_stop_segments_for_section, build}` (libwild/src/output_section_id.rs) and
  `ProgramSegmentDef::should_include_section` (libwild/src/elf.rs);
* `layout_section_parts`, `compute_segment_alignments`, `Elf::align_load_segment_start`,
  `layout_sections`, `compute_segment_layout` (libwild/src/layout.rs, libwild/src/elf.rs).

Numbers are `Nat`s: the model computes the exact mathematical result of every `u64`/`usize` operation.
The Rust code (debug profile) panics on overflow, so on every input on which the real code returns,
all intermediate values are `< 2^64` and the two agree (`alignUpN`/`alignModuloN` are tied to the
`BitVec 64` kernels of `Model/Align.lean` by the bridge lemmas in `Props/C04.lean`; the whole model is
tied to the code by the dump correspondence `layout` of vlib/props/c04.py).

Core-only imports (the driver links this file).
-/
namespace Wild.Layout

/-- `Alignment::align_up` on naturals: `u64::next_multiple_of(2^e)`. -/
def alignUpN (e v : Nat) : Nat :=
  if v % 2 ^ e = 0 then v else v + (2 ^ e - v % 2 ^ e)

/-- `Alignment::align_modulo(ref, o)` on naturals, statement by statement. -/
def alignModuloN (e r o : Nat) : Nat :=
  let o := alignUpN e o
  if o % 2 ^ e = r % 2 ^ e then o
  else
    let adj := r % 2 ^ e + 2 ^ e - o % 2 ^ e
    let adj := if adj > 2 ^ e then adj - 2 ^ e else adj
    o + adj

/-- A row of `PROGRAM_SEGMENT_DEFS` / `unconditional_segment_defs` as seen through the
`platform::ProgramSegmentDef` trait. `key` is `order_key()`. -/
structure SegDef where
  load : Bool
  w : Bool
  x : Bool
  tls : Bool
  stack : Bool
  cut : Bool          -- should_cut_rw_segment_when_ending (GNU_RELRO)
  key : Nat
  deriving Repr, DecidableEq, Inhabited

/-- One output part: alignment exponent of the part id and its total size. -/
structure PartIn where
  align : Nat
  size : Nat
  deriving Repr, DecidableEq, Inhabited

/-- What the layout code reads about one output section id. `alloc`, `hasData`, `emitted` are those of the
primary section (`merge_target`), exactly as the code looks them up. `aux k` is the answer of
`should_include_section` for the non-LOAD, non-TLS definition number `k` (NOTE: section type; GNU_RELRO:
TLS flag or built-in `is_relro`; the others: built-in `target_segment_type`). -/
structure Sec where
  primary : Option Nat
  alloc : Bool
  w : Bool
  x : Bool
  tls : Bool
  nobits : Bool
  hasData : Bool
  emitted : Bool
  noteLike : Bool       -- section type NOTE / RISCV_ATTRIBUTES (validate_section exception)
  minAlign : Nat
  loc : Option Nat
  aux : List Bool
  parts : List PartIn
  deriving Repr, Inhabited

inductive Event where
  | segStart (id : Nat)
  | segEnd (id : Nat)
  | section (id : Nat)
  | setLoc (addr : Nat)
  deriving Repr, DecidableEq, Inhabited

/-! ## (a) output order automaton -/

/-- `ProgramSegmentDef::should_include_section` -/
def includes (d : SegDef) (k : Nat) (s : Sec) : Bool :=
  if d.load then s.alloc && (s.w == d.w) && (s.x == d.x)
  else if d.tls then s.tls
  else s.aux.getD k false

structure OState where
  events : List Event          -- in emission order
  segDefs : List Nat           -- `program_segments`: def index of every created segment id
  active : List (Option Nat)   -- `active_segment_kinds`, one slot per conditional def
  deriving Repr, Inhabited

def OState.init (ndefs : Nat) : OState := ⟨[], [], List.replicate ndefs none⟩

/-- `should_end_current_rw_segment` -/
def shouldEndRw (defs : List SegDef) (st : OState) (s : Sec) : Bool :=
  ((st.active.zip defs).zipIdx).any fun ((a, d), k) => a.isSome && d.cut && !includes d k s

/-- `end_rw_load_segment` -/
def endRwLoad (defs : List SegDef) (st : OState) : OState :=
  match defs.findIdx? (fun d => d.load && d.w && !d.x) with
  | none => st
  | some i =>
    match st.active.getD i none with
    | none => st
    | some id => { st with events := st.events ++ [Event.segEnd id], active := st.active.set i none }

/-- The zip-loop of `start_stop_segments_for_section` over (def, active slot): returns the new slots (reversed
accumulator avoided: plain structural recursion), the ids to stop, the ids to start and the grown
`program_segments`. -/
def startStopLoop (s : Sec) : List SegDef → List (Option Nat) → Nat → List Nat →
    (List (Option Nat) × List Nat × List Nat × List Nat)
  | d :: ds, a :: as, k, segDefs =>
    let should := includes d k s
    match a, should with
    | none, false =>
      let (as', stop, start, sd) := startStopLoop s ds as (k + 1) segDefs
      (none :: as', stop, start, sd)
    | some id, true =>
      let (as', stop, start, sd) := startStopLoop s ds as (k + 1) segDefs
      (some id :: as', stop, start, sd)
    | none, true =>
      let id := segDefs.length
      let (as', stop, start, sd) := startStopLoop s ds as (k + 1) (segDefs ++ [k])
      (some id :: as', stop, id :: start, sd)
    | some id, false =>
      let (as', stop, start, sd) := startStopLoop s ds as (k + 1) segDefs
      (none :: as', id :: stop, start, sd)
  | _, as, _, segDefs => (as, [], [], segDefs)

/-- `add_section` for a primary section `id` with its (already ordered) secondary sections. -/
def addSection (defs : List SegDef) (partialObj : Bool) (secs : Nat → Sec) (st : OState) (sid : Nat)
    (secondaries : List Nat) : OState :=
  let s := secs sid
  let st := if shouldEndRw defs st s then endRwLoad defs st else st
  -- start_stop_segments_for_section
  let (active, stop, start, segDefs) :=
    if partialObj then (st.active, [], [], st.segDefs)
    else if s.primary.isSome then (st.active, [], [], st.segDefs)
    else
      let (stop0, active0) :=
        if s.loc.isSome then (st.active.filterMap id, st.active.map (fun _ => none)) else ([], st.active)
      let (a, stop, start, sd) := startStopLoop s defs active0 0 st.segDefs
      (a, stop0 ++ stop, start, sd)
  let ev := st.events ++ stop.map Event.segEnd
  let ev := match s.loc with
    | some a => if s.alloc then ev ++ [Event.setLoc a] else ev
    | none => ev
  let ev := ev ++ start.map Event.segStart ++ [Event.section sid] ++ secondaries.map Event.section
  { events := ev, segDefs := segDefs, active := active }

/-- `build`: end whatever is active, then the unconditional segments (GNU_STACK) as empty start/end pairs.
`nCond` = number of conditional defs; unconditional def `j` has def index `nCond + j`. -/
def buildOrder (st : OState) (partialObj : Bool) (nCond nUncond : Nat) : List Event × List Nat :=
  let ev := st.events ++ (st.active.filterMap id).map Event.segEnd
  if partialObj then (ev, st.segDefs)
  else
    let rec go (j : Nat) (n : Nat) (ev : List Event) (sd : List Nat) : List Event × List Nat :=
      match n with
      | 0 => (ev, sd)
      | n + 1 => go (j + 1) n (ev ++ [Event.segStart sd.length, Event.segEnd sd.length]) (sd ++ [nCond + j])
    go 0 nUncond ev st.segDefs

/-- The whole of `build_output_order_and_program_segments`, given the sequence of `add_section` calls. -/
def outputOrder (defs : List SegDef) (nUncond : Nat) (partialObj : Bool) (secs : Nat → Sec)
    (calls : List (Nat × List Nat)) : List Event × List Nat :=
  let st := calls.foldl (fun st c => addSection defs partialObj secs st c.1 c.2) (OState.init defs.length)
  buildOrder st partialObj defs.length nUncond

/-! ## (b) `layout_section_parts` -/

structure Config where
  partialObj : Bool
  base : Nat
  page : Nat           -- exponent of `args.loadable_segment_alignment()`
  stack : Nat          -- `stack_size_override` or 0
  relroPad : Nat       -- section id of RELRO_PADDING
  deriving Repr, Inhabited

/-- `OutputRecordLayout` -/
structure Rec where
  fileSize : Nat
  memSize : Nat
  align : Nat
  fileOff : Nat
  memOff : Nat
  deriving Repr, DecidableEq, Inhabited

/-- `OutputSectionPartMap::max_alignment` for the parts of one section. -/
def maxAlignment (s : Sec) : Nat :=
  let first := match s.parts.find? (fun p => p.size != 0) with
    | some p => p.align
    | none => 0
  max first s.minAlign

/-- `compute_segment_alignments`: association list segment id ↦ exponent, and the active LOAD ids. -/
def segAlignStep (segIsLoad : Nat → Bool) (secs : Nat → Sec) (page : Nat)
    (st : List (Nat × Nat) × List Nat) (e : Event) : List (Nat × Nat) × List Nat :=
  match e with
  | .segStart id =>
    if segIsLoad id then
      ((if (st.1.lookup id).isSome then st.1 else st.1 ++ [(id, page)]), st.2 ++ [id])
    else st
  | .segEnd id => (st.1, st.2.filter (· != id))
  | .section sid =>
    let m := maxAlignment (secs sid)
    (st.1.map (fun (id, a) => if st.2.contains id then (id, max a m) else (id, a)), st.2)
  | .setLoc _ => st

def segmentAlignments (segIsLoad : Nat → Bool) (secs : Nat → Sec) (page : Nat) (evs : List Event) :
    List (Nat × Nat) :=
  (evs.foldl (segAlignStep segIsLoad secs page) ([], [])).1

/-- The cursor of `layout_section_parts`. -/
structure Cursor where
  file : Nat
  mem : Nat
  pending : Option Nat
  deriving Repr, DecidableEq, Inhabited

/-- Part loop state inside one `Section` event: cursor plus the per-section counters
(`nonalloc_mem_offsets[section]`, `reloc_alloc_mem_offsets[section]`; every section id occurs in exactly one
`Section` event, so the per-section maps of the Rust code are local to the event). -/
structure PartState where
  file : Nat
  mem : Nat
  nonalloc : Nat
  reloc : Nat
  deriving Repr, Inhabited

/-- Body of the `for_each` over the parts of a section. -/
def placePart (cfg : Config) (s : Sec) (isRelroPad : Bool) (maxAl : Nat) (st : PartState) (p : PartIn) :
    PartState × Rec :=
  let alignment := min p.align maxAl
  let memSize := if isRelroPad then alignUpN cfg.page st.mem - st.mem else p.size
  let file := alignUpN alignment st.file
  if s.alloc then
    if cfg.partialObj then
      let fileSize := if s.hasData then memSize else 0
      let pm := alignUpN alignment st.reloc
      ({ st with file := file + fileSize, reloc := pm + memSize },
        { fileSize := fileSize, memSize := memSize, align := alignment, fileOff := file, memOff := pm })
    else
      let mem := alignUpN alignment st.mem
      let fileSize := if s.hasData then memSize else 0
      ({ st with file := file + fileSize, mem := mem + memSize },
        { fileSize := fileSize, memSize := memSize, align := alignment, fileOff := file, memOff := mem })
  else
    let m := alignUpN alignment st.nonalloc
    ({ st with file := file + memSize, nonalloc := st.nonalloc + memSize },
      { fileSize := memSize, memSize := memSize, align := alignment, fileOff := file, memOff := m })

def placeParts (cfg : Config) (s : Sec) (isRelroPad : Bool) (maxAl : Nat) :
    PartState → List PartIn → PartState × List Rec
  | st, [] => (st, [])
  | st, p :: ps =>
    let (st1, r) := placePart cfg s isRelroPad maxAl st p
    let (st2, rs) := placeParts cfg s isRelroPad maxAl st1 ps
    (st2, r :: rs)

/-- One `OrderEvent` of `layout_section_parts`. Returns the new cursor and, for a `Section` event, the section
id with the records of its parts. -/
def layoutStep (cfg : Config) (segIsLoad : Nat → Bool) (segAl : List (Nat × Nat)) (secs : Nat → Sec)
    (c : Cursor) (e : Event) : Cursor × Option (Nat × List Rec) :=
  match e with
  | .setLoc a => ({ c with pending := some a }, none)
  | .segEnd _ => (c, none)
  | .segStart id =>
    if segIsLoad id then
      let sa := (segAl.lookup id).getD cfg.page
      match c.pending with
      | some a => ({ file := alignModuloN sa a c.file, mem := a, pending := none }, none)
      | none => ({ c with mem := alignModuloN sa c.file c.mem }, none)   -- Elf::align_load_segment_start
    else (c, none)
  | .section sid =>
    let s := secs sid
    let mem := match s.loc with | some a => a | none => c.mem
    let r := placeParts cfg s (sid == cfg.relroPad) (maxAlignment s)
      { file := c.file, mem := mem, nonalloc := 0, reloc := 0 } s.parts
    ({ c with file := r.1.file, mem := r.1.mem }, some (sid, r.2))

def layoutWalk (cfg : Config) (segIsLoad : Nat → Bool) (segAl : List (Nat × Nat)) (secs : Nat → Sec) :
    Cursor → List Event → Cursor × List (Nat × List Rec)
  | c, [] => (c, [])
  | c, e :: es =>
    let (c1, o) := layoutStep cfg segIsLoad segAl secs c e
    let (c2, rest) := layoutWalk cfg segIsLoad segAl secs c1 es
    (c2, match o with | some r => r :: rest | none => rest)

/-- `layout_section_parts` -/
def layoutParts (cfg : Config) (segIsLoad : Nat → Bool) (secs : Nat → Sec) (evs : List Event) :
    List (Nat × List Rec) :=
  let segAl := segmentAlignments segIsLoad secs cfg.page evs
  (layoutWalk cfg segIsLoad segAl secs { file := 0, mem := cfg.base, pending := none } evs).2

/-! ## (c) `layout_sections` and `compute_segment_layout` -/

def u64Max : Nat := 2 ^ 64 - 1

/-- `layout_sections` closure for one section: hull of its parts. -/
def sectionLayout (minAlign : Nat) (parts : List Rec) : Rec :=
  let fo := parts.foldl (fun a p => min a p.fileOff) u64Max
  let mo := parts.foldl (fun a p => min a p.memOff) u64Max
  let fe := parts.foldl (fun a p => max a (p.fileOff + p.fileSize)) 0
  let me := parts.foldl (fun a p => max a (p.memOff + p.memSize)) 0
  let al := parts.foldl (fun a p => if p.memSize > 0 then max a p.align else a) minAlign
  { fileSize := fe - fo, memSize := me - mo, align := al, fileOff := fo, memOff := mo }

/-- The `Record` of `compute_segment_layout`. -/
structure SegRec where
  id : Nat
  fileStart : Nat
  fileEnd : Nat
  memStart : Nat
  memEnd : Nat
  align : Nat
  deriving Repr, DecidableEq, Inhabited

inductive LayoutError where
  | endWithoutStart
  | nonzeroAddressOutsideSegments (sid : Nat)
  | allocOutsideSegments (sid : Nat)
  | missingMemOffset (sid : Nat)
  | missingAllocFlag (sid : Nat)
  | segmentCountMismatch
  deriving Repr, DecidableEq, Inhabited

def SegRec.absorb (r : SegRec) (l : Rec) : SegRec :=
  { r with fileStart := min r.fileStart l.fileOff, memStart := min r.memStart l.memOff,
           fileEnd := max r.fileEnd (l.fileOff + l.fileSize), memEnd := max r.memEnd (l.memOff + l.memSize),
           align := max r.align l.align }

structure SegState where
  active : List SegRec      -- `active_segments` (the `Some` entries, in any order; ids are distinct)
  complete : List SegRec
  deriving Repr, Inhabited

/-- One event of the main loop of `compute_segment_layout`. `fileHeader` is the id of FILE_HEADER. -/
def segStep (cfg : Config) (segIsStack : Nat → Bool) (secs : Nat → Sec) (lay : Nat → Rec) (fileHeader : Nat)
    (st : SegState) (e : Event) : Except LayoutError SegState :=
  match e with
  | .segStart id =>
    let r : SegRec := if segIsStack id then ⟨id, 0, 0, 0, cfg.stack, 0⟩ else ⟨id, u64Max, 0, u64Max, 0, 0⟩
    .ok { st with active := st.active.filter (·.id != id) ++ [r] }
  | .segEnd id =>
    match st.active.find? (·.id == id) with
    | none => .error .endWithoutStart
    | some r => .ok { active := st.active.filter (·.id != id), complete := st.complete ++ [r] }
  | .section sid =>
    let s := secs sid
    let l := lay sid
    let target := s.primary.getD sid
    if l.fileSize == 0 && l.memSize == 0 && !s.emitted then .ok st
    else if st.active.isEmpty then
      if l.memOff != 0 then .error (.nonzeroAddressOutsideSegments sid)
      else if s.alloc then .error (.allocOutsideSegments sid)
      else .ok st
    else
      -- Elf::validate_section
      if !s.noteLike && (l.memOff == 0 && target != fileHeader) then .error (.missingMemOffset sid)
      else if !s.noteLike && !s.alloc then .error (.missingAllocFlag sid)
      else .ok { st with active := st.active.map (·.absorb l) }
  | .setLoc _ => .ok st

def segLoop (cfg : Config) (segIsStack : Nat → Bool) (secs : Nat → Sec) (lay : Nat → Rec) (fileHeader : Nat) :
    SegState → List Event → Except LayoutError SegState
  | st, [] => .ok st
  | st, e :: es =>
    match segStep cfg segIsStack secs lay fileHeader st e with
    | .error err => .error err
    | .ok st1 => segLoop cfg segIsStack secs lay fileHeader st1 es

/-- Insertion into a list sorted by `key` (stable: after the last element with an equal key). -/
def insertBy {α : Type} (key : α → Nat × Nat) (x : α) : List α → List α
  | [] => [x]
  | y :: ys =>
    let (a, b) := key x
    let (c, d) := key y
    if a < c || (a == c && b < d) then x :: y :: ys else y :: insertBy key x ys

def sortBy {α : Type} (key : α → Nat × Nat) (xs : List α) : List α :=
  xs.foldl (fun acc x => insertBy key x acc) []

/-- `compute_segment_layout`: the `SegmentLayout`s (id, sizes) in program-header order. -/
def segmentLayout (cfg : Config) (segKey : Nat → Nat) (segIsStack : Nat → Bool) (nSegs : Nat) (secs : Nat → Sec)
    (lay : Nat → Rec) (fileHeader : Nat) (activeIds : List Nat) (evs : List Event) :
    Except LayoutError (List (Nat × Rec)) :=
  if cfg.partialObj then .ok [] else
  match segLoop cfg segIsStack secs lay fileHeader ⟨[], []⟩ evs with
  | .error e => .error e
  | .ok st =>
    let complete := sortBy (fun r => (r.id, 0)) st.complete
    if complete.length != nSegs then .error .segmentCountMismatch else
    let segs := activeIds.map fun id =>
      let r := complete.getD id default
      (id, ({ fileSize := r.fileEnd - r.fileStart, memSize := r.memEnd - r.memStart, align := r.align,
              fileOff := r.fileStart, memOff := r.memStart } : Rec))
    .ok (sortBy (fun (p : Nat × Rec) => (segKey p.1, p.2.memOff)) segs)

/-- `write_program_headers`: `p_align` exponent of a segment. -/
def phdrAlign (cfg : Config) (isLoad isStack : Bool) (r : Rec) : Nat :=
  if isLoad then max r.align cfg.page else if isStack then 4 else r.align

/-- The ELF `PROGRAM_SEGMENT_DEFS` table (libwild/src/elf.rs), in order, then `STACK_SEGMENT_DEF`; the driver
checks the dumped table of every link against this constant. -/
def elfDefs : List SegDef := [
  ⟨false, false, false, false, false, false, 0⟩,           -- PHDR
  ⟨false, false, false, false, false, false, 1⟩,           -- INTERP
  ⟨false, false, false, false, false, false, 8⟩,           -- NOTE
  ⟨false, false, false, false, false, false, 1685382487⟩,  -- GNU_PROPERTY
  ⟨true, false, false, false, false, false, 2⟩,            -- LOAD R
  ⟨true, false, true, false, false, false, 2⟩,             -- LOAD RX
  ⟨true, true, false, false, false, false, 2⟩,             -- LOAD RW
  ⟨false, false, false, true, false, false, 11⟩,           -- TLS
  ⟨false, false, false, false, false, false, 1685382484⟩,  -- GNU_EH_FRAME
  ⟨false, false, false, false, false, false, 1685382488⟩,  -- GNU_SFRAME
  ⟨false, true, false, false, false, false, 3⟩,            -- DYNAMIC
  ⟨false, false, false, false, false, true, 1685382486⟩,   -- GNU_RELRO
  ⟨false, false, false, false, false, false, 1879048199⟩]  -- RISCV_ATTRIBUTES

def elfStackDef : SegDef := ⟨false, true, false, false, true, false, 1685382485⟩

end Wild.Layout
