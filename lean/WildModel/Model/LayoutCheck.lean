import WildModel.Model.Layout
/-!
Executable forms of the C04 predicates over the outputs of the layout model (spec side, written
independently of the model's recursion): used by the driver op `layout-props` on real dumps and on synthetic
random layouts (testing), and as the decidable statements some C04 theorems are phrased with.
Core-only imports.
-/
namespace Wild.Layout

def pairwiseB {α : Type} (r : α → α → Bool) : List α → Bool
  | [] => true
  | x :: xs => xs.all (r x) && pairwiseB r xs

def flatParts (parts : List (Nat × List Rec)) : List (Nat × Rec) :=
  parts.flatMap fun (sid, rs) => rs.map fun r => (sid, r)

/-- every part's file offset and address are multiples of its alignment -/
def partsAlignedB (parts : List (Nat × List Rec)) : Bool :=
  (flatParts parts).all fun (_, r) => r.fileOff % 2 ^ r.align == 0 && r.memOff % 2 ^ r.align == 0

/-- file ranges of all parts, in layout order, are disjoint and ascending -/
def disjointFileB (parts : List (Nat × List Rec)) : Bool :=
  pairwiseB (fun a b => a.2.fileOff + a.2.fileSize ≤ b.2.fileOff) (flatParts parts)

/-- memory ranges of the parts of allocated sections are pairwise disjoint -/
def disjointMemB (secs : Nat → Sec) (parts : List (Nat × List Rec)) : Bool :=
  pairwiseB (fun a b => a.2.memOff + a.2.memSize ≤ b.2.memOff || b.2.memOff + b.2.memSize ≤ a.2.memOff
      || a.2.memSize == 0 || b.2.memSize == 0)
    ((flatParts parts).filter fun (sid, _) => (secs sid).alloc)

/-- One event of `locsForward`: a location applied by this event is at or above the address cursor. -/
def stepFwd (il : Nat → Bool) (secs : Nat → Sec) (c : Cursor) (e : Event) : Bool :=
  match e with
  | .segStart id => if il id then (match c.pending with | some a => decide (c.mem ≤ a) | none => true) else true
  | .section sid => (match (secs sid).loc with | some a => decide (c.mem ≤ a) | none => true)
  | _ => true

/-- Hypothesis of `parts_disjoint_mem`: every user location (linker script `. = X`, `--section-start`) is at
or above the address cursor at the moment it is applied. -/
def locsForward (cfg : Config) (segIsLoad : Nat → Bool) (segAl : List (Nat × Nat)) (secs : Nat → Sec) :
    Cursor → List Event → Bool
  | _, [] => true
  | c, e :: es =>
    stepFwd segIsLoad secs c e && locsForward cfg segIsLoad segAl secs (layoutStep cfg segIsLoad segAl secs c e).1 es

/-- Segment ids: each is started exactly once, ended exactly once afterwards, and nothing else refers to it. -/
def wellBracketedB (evs : List Event) (nSegs : Nat) : Bool :=
  (List.range nSegs).all fun id =>
    let starts := evs.filter (· == Event.segStart id)
    let ends := evs.filter (· == Event.segEnd id)
    starts.length == 1 && ends.length == 1 &&
      (evs.findIdx? (· == Event.segStart id)).getD 0 < (evs.findIdx? (· == Event.segEnd id)).getD 0
  && evs.all fun e => match e with
    | .segStart id => id < nSegs
    | .segEnd id => id < nSegs
    | _ => true

/-- Replays the events keeping the set of open segment ids; `f open e` is checked at every event. -/
def replayOpen (f : List Nat → Event → Bool) : List Nat → List Event → Bool
  | _, [] => true
  | open_, e :: es =>
    f open_ e && replayOpen f (match e with
      | .segStart id => open_ ++ [id]
      | .segEnd id => open_.filter (· != id)
      | _ => open_) es

/-- every allocated primary section sits in at least one open LOAD segment, and every open LOAD segment has
exactly the section's W and X -/
def loadFlagsB (defOf : Nat → SegDef) (secs : Nat → Sec) (evs : List Event) : Bool :=
  replayOpen (fun open_ e => match e with
    | .section sid =>
      let s := secs sid
      if s.alloc && s.primary.isNone then
        (open_.any fun id => (defOf id).load) &&
        (open_.all fun id => !(defOf id).load || ((defOf id).w == s.w && (defOf id).x == s.x))
      else true
    | _ => true) [] evs

/-- at every primary section the open segments are exactly the definitions that include the section -/
def auxCoverB (condDefs : List SegDef) (segDefIdx : Nat → Nat) (secs : Nat → Sec) (evs : List Event) : Bool :=
  replayOpen (fun open_ e => match e with
    | .section sid =>
      let s := secs sid
      if s.primary.isNone then
        (condDefs.zipIdx).all fun (d, k) => (open_.any fun id => segDefIdx id == k) == includes d k s
      else true
    | _ => true) [] evs

def noWxB (defs : List SegDef) : Bool := defs.all fun d => !(d.load && d.w && d.x)

/-- `p_offset ≡ p_vaddr (mod p_align)` for the LOAD segment records -/
def loadCongruentB (cfg : Config) (defOf : Nat → SegDef) (segs : List (Nat × Rec)) : Bool :=
  segs.all fun (id, r) =>
    let d := defOf id
    !d.load || (r.fileOff % 2 ^ phdrAlign cfg true false r == r.memOff % 2 ^ phdrAlign cfg true false r)

/-- PT_TLS: `p_vaddr` is a multiple of `p_align` (what static TLS layouts of libcs assume). -/
def tlsStartAlignedB (defOf : Nat → SegDef) (segs : List (Nat × Rec)) : Bool :=
  segs.all fun (id, r) => !(defOf id).tls || r.memSize == 0 || r.memOff % 2 ^ r.align == 0

/-- every part with file contents placed while a LOAD segment is open has the same displacement between
file offset and address as the segment start (the loader maps `p_offset + k` at `p_vaddr + k`) -/
def loadOffsetsB (defOf : Nat → SegDef) (secs : Nat → Sec) (evs : List Event) (parts : List (Nat × List Rec))
    (segs : List (Nat × Rec)) : Bool :=
  replayOpen (fun open_ e => match e with
    | .section sid =>
      if (secs sid).alloc then
        open_.all fun id =>
          match segs.lookup id with
          | some sr =>
            !(defOf id).load ||
              ((parts.lookup sid).getD []).all fun r => r.fileSize == 0 || r.memOff + sr.fileOff == r.fileOff + sr.memOff
          | none => true
      else true
    | _ => true) [] evs

/-- Names of the predicates that fail (hypotheses: non-partial output; `disjoint-mem` only if `locsForward`). -/
def checkAll (cfg : Config) (condDefs : List SegDef) (defOf : Nat → SegDef) (segDefIdx : Nat → Nat) (nSegs : Nat)
    (secs : Nat → Sec) (evs : List Event) (parts : List (Nat × List Rec)) (segs : Option (List (Nat × Rec))) :
    List String :=
  let segIsLoad := fun id => (defOf id).load
  let segAl := segmentAlignments segIsLoad secs cfg.page evs
  let fwd := locsForward cfg segIsLoad segAl secs { file := 0, mem := cfg.base, pending := none } evs
  let chk (name : String) (ok : Bool) : List String := if ok then [] else [name]
  chk "parts-aligned" (partsAlignedB parts)
  ++ chk "disjoint-file" (disjointFileB parts)
  ++ chk "disjoint-mem" (cfg.partialObj || !fwd || disjointMemB secs parts)
  ++ chk "well-bracketed" (wellBracketedB evs nSegs)
  ++ chk "load-flags" (cfg.partialObj || loadFlagsB defOf secs evs)
  ++ chk "aux-cover" (cfg.partialObj || auxCoverB condDefs segDefIdx secs evs)
  ++ chk "no-wx" (noWxB condDefs)
  ++ chk "load-congruent" (match segs with | some l => !fwd || loadCongruentB cfg defOf l | none => true)
  ++ chk "tls-start-aligned" (match segs with | some l => tlsStartAlignedB defOf l | none => true)
  ++ chk "load-offsets" (match segs with | some l => cfg.partialObj || !fwd || loadOffsetsB defOf secs evs parts l | none => true)
  ++ (if fwd then [] else ["note:locations-not-forward"])

end Wild.Layout
