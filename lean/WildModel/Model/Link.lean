/-
M-Link: abstract link input and the pure functions that decide which files take part in the link
(archive-member / as-needed activation) and which definition each global name binds to.

Mirrors (hand-written; tied by the whole-link correspondence `lk`):
* libwild/src/resolution.rs  `resolve_group` / `is_optional` (which files are mandatory),
  `resolve_symbol` (an undefined non-weak reference requests the file holding the FIRST definition
  of the name in command-line order), `try_request_file_id` (AtomicTake = test-and-set);
* libwild/src/symbol_db.rs   `select_symbol`, `SymbolPrioritySelector::{consider,best}`,
  `SymbolStrength`, duplicate-strong detection, `symbol_strength` (a definition in a file that
  was not loaded counts as `Undefined`).
-/
namespace Wild.Link

inductive Strength where
  | undefined
  | weak
  | gnuUnique
  | strong
  | common (size : Nat)
  deriving Repr, DecidableEq, Inhabited

/-- One global symbol-table entry of an input file. -/
inductive Entry where
  /-- definition with its binding strength; `comdat` = defined in a section of a COMDAT group -/
  | defn (name : Nat) (s : Strength) (comdat : Bool)
  /-- undefined reference (default visibility) -/
  | undef (name : Nat) (weak : Bool)
  deriving Repr, DecidableEq, Inhabited

structure File where
  /-- shared object -/
  dynamic : Bool
  /-- archive member outside `--whole-archive`, or `--as-needed` shared object -/
  optional : Bool
  entries : List Entry
  deriving Repr, Inhabited

def Entry.definesName (e : Entry) (n : Nat) : Bool :=
  match e with
  | .defn m _ _ => m == n
  | .undef _ _ => false

def File.defines (f : File) (n : Nat) : Bool := f.entries.any (·.definesName n)

/-- Strength of `f`'s definition of `n` (first entry), `undefined` if it has none. -/
def File.strengthOf (f : File) (n : Nat) : Strength :=
  match f.entries.find? (·.definesName n) with
  | some (.defn _ s _) => s
  | _ => .undefined

def File.comdatOf (f : File) (n : Nat) : Bool :=
  match f.entries.find? (·.definesName n) with
  | some (.defn _ _ c) => c
  | _ => false

/-- Names `f` references non-weakly. -/
def File.strongUndefs (f : File) : List Nat :=
  f.entries.filterMap fun e => match e with
    | .undef n false => some n
    | _ => none

/-- Index of the first file (command-line order) that defines `n`: the symbol the name maps to
in the symbol db (`name_to_id` keeps the first id; later ones become alternatives). -/
def firstDef (fs : List File) (n : Nat) : Option Nat :=
  fs.findIdx? (·.defines n)

/-! ### Which files are loaded -/

/-- The files that `f` (index `i`) requests when its symbols are resolved: for every non-weak
undefined `n` whose first definition is in another file `d`, request `d` — except that a shared
object never activates another shared object. -/
def requestsOf (fs : List File) (i : Nat) : List Nat :=
  match fs[i]? with
  | none => []
  | some f =>
    f.strongUndefs.filterMap fun n =>
      match firstDef fs n with
      | some d =>
        if d != i && !(f.dynamic && (fs[d]?.map (·.dynamic)).getD false) then some d else none
      | none => none

/-- Is file `d` requested by some file of the loaded mask `S`? -/
def requestedBy (fs : List File) (S : List Bool) (d : Nat) : Bool :=
  (List.range fs.length).any fun i => S.getD i false && (requestsOf fs i).contains d

/-- One round: everything loaded stays loaded; mandatory files and requested files are added. -/
def next (fs : List File) (S : List Bool) : List Bool :=
  (List.range fs.length).map fun d =>
    S.getD d false || !((fs[d]?.map (·.optional)).getD true) || requestedBy fs S d

def count (S : List Bool) : Nat := S.countP id

/-- Iterate `next` until nothing changes (at most `fuel` rounds; `fs.length + 1` always suffices,
see `Props/C03.lean`). -/
def iterate (fs : List File) : Nat → List Bool → List Bool
  | 0, S => S
  | fuel + 1, S => let S' := next fs S; if S' == S then S else iterate fs fuel S'

/-- The loaded mask. -/
def loadedMask (fs : List File) : List Bool :=
  iterate fs (fs.length + 1) (List.replicate fs.length false)

def isLoaded (fs : List File) (i : Nat) : Bool := (loadedMask fs).getD i false

/-! ### Which definition a name binds to -/

/-- `SymbolPrioritySelector` -/
structure Selector where
  firstStrong : Option Nat := none
  maxCommon : Option (Nat × Nat) := none
  firstWeak : Option Nat := none
  deriving Repr

def Selector.consider (sel : Selector) (id : Nat) (s : Strength) : Selector :=
  match s with
  | .strong => if sel.firstStrong.isNone then { sel with firstStrong := some id } else sel
  | .weak | .gnuUnique => if sel.firstWeak.isNone then { sel with firstWeak := some id } else sel
  | .common size =>
    match sel.maxCommon with
    | some (prev, _) => if size ≤ prev then sel else { sel with maxCommon := some (size, id) }
    | none => { sel with maxCommon := some (size, id) }
  | .undefined => sel

def Selector.best (sel : Selector) : Option Nat :=
  (sel.firstStrong.orElse fun _ => sel.maxCommon.map (·.2)).orElse fun _ => sel.firstWeak

/-- A candidate definition of one name: file index, whether the file is dynamic, the effective
strength (`undefined` when the file was not loaded), COMDAT flag. In command-line order. -/
structure Cand where
  file : Nat
  dynamic : Bool
  strength : Strength
  comdat : Bool
  deriving Repr, Inhabited

inductive SelResult where
  | chosen (file : Nat)
  | dup (a b : Nat)
  deriving Repr, DecidableEq

/-- `select_symbol`. Candidates are identified by their file index (one definition per file and
name). -/
def selectGo (allowMulti : Bool) : List Cand → Selector → Option (Nat × Bool) → Except (Nat × Nat) Selector
  | [], sel, _ => .ok sel
  | c :: rest, sel, fs =>
    if c.dynamic then selectGo allowMulti rest sel fs
    else
      match c.strength, fs with
      | .strong, some (existing, existingComdat) =>
        if (!existingComdat || !c.comdat) && !allowMulti then .error (existing, c.file)
        else selectGo allowMulti rest (sel.consider c.file c.strength) fs
      | .strong, none => selectGo allowMulti rest (sel.consider c.file c.strength) (some (c.file, c.comdat))
      | _, _ => selectGo allowMulti rest (sel.consider c.file c.strength) fs

def selectSymbol (allowMulti : Bool) (cs : List Cand) : SelResult :=
  match selectGo allowMulti cs {} none with
  | .error (a, b) => .dup a b
  | .ok sel =>
    match sel.best with
    | some f => .chosen f
    | none =>
      match cs.find? (fun c => c.strength != .undefined) with
      | some c => .chosen c.file
      | none => .chosen ((cs.head?.map (·.file)).getD 0)

/-- Candidates for `n` in command-line order with effective strengths under loaded mask `S`. -/
def candidates (fs : List File) (S : List Bool) (n : Nat) : List Cand :=
  (List.range fs.length).filterMap fun i =>
    match fs[i]? with
    | some f =>
      if f.defines n then
        some { file := i, dynamic := f.dynamic,
               strength := if S.getD i false then f.strengthOf n else .undefined,
               comdat := f.comdatOf n }
      else none
    | none => none

/-- Resolution of name `n` for the whole link: `none` = no definition at all. -/
def resolveName (allowMulti : Bool) (fs : List File) (n : Nat) : Option SelResult :=
  let cs := candidates fs (loadedMask fs) n
  if cs.isEmpty then none else some (selectSymbol allowMulti cs)

/-- Is name `n` bound to a definition taking part in the link (a chosen definition in a loaded file)? -/
def isBound (allowMulti : Bool) (fs : List File) (n : Nat) : Bool :=
  match resolveName allowMulti fs n with
  | some (.chosen f) => isLoaded fs f
  | _ => false

/-- `isBound` as seen from a reference in file kind `fromDyn`. For a reference made by a SHARED OBJECT a definition in another
shared object counts even when that library was not activated (an `--as-needed` library nobody else needs): its symbols
stay in the symbol table as definitions (layout.rs `request_all_undefined_symbols` only looks at the definition's flags).
For a regular object's reference the two coincide (`isBoundFrom_false`); such a reference activates the library anyway. -/
def isBoundFrom (allowMulti : Bool) (fs : List File) (fromDyn : Bool) (n : Nat) : Bool :=
  match resolveName allowMulti fs n with
  | some (.chosen f) => isLoaded fs f || (fromDyn && (fs[f]?.map (·.dynamic)).getD false)
  | _ => false

theorem isBoundFrom_false (allowMulti : Bool) (fs : List File) (n : Nat) :
    isBoundFrom allowMulti fs false n = isBound allowMulti fs n := by
  unfold isBoundFrom isBound
  cases resolveName allowMulti fs n with
  | none => rfl
  | some r => cases r <;> simp

/-- `(file, name)` pairs reported as undefined-symbol errors when linking an executable: a loaded
file (regular object, or shared object whose dependencies are all part of the link) references `n`
non-weakly and `n` is bound to nothing. -/
def undefinedErrors (allowMulti : Bool) (fs : List File) : List (Nat × Nat) :=
  (List.range fs.length).flatMap fun i =>
    match fs[i]? with
    | some f =>
      if isLoaded fs i then
        (f.strongUndefs.filter fun n => !isBoundFrom allowMulti fs f.dynamic n).map fun n => (i, n)
      else []
    | none => []

end Wild.Link
