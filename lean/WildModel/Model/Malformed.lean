/-!
# Malformed — total models of two byte-level parsers on wild's input path (C22)

* `Args.argsFromString` — `args.rs: arguments_from_string` (response files `@file`): quoting / escape
  state machine over the characters of the file.
* `Ar.walk` — `archive.rs: ArchiveIterator` (`from_archive_bytes` + `Iterator::next`), which is
  `object::read::archive::{ArchiveFile::parse, ArchiveMember::parse, ArchiveMemberIterator::next,
  ArchiveMember::data}` of the `object` crate 0.39 for the common (`!<arch>\n` / `!<thin>\n`)
  formats. AIX big archives (`<bigaf>\n`) are outside the model (`Outcome.aixbig`).

Both are plain structural / fuelled recursions over the input, every index computation is an
explicit bounds-checked read (`readBytes`), the u64 arithmetic of the Rust (checked_add,
saturating_add, checked_mul, checked_sub) is mirrored on `Nat` with the 2^64 bound explicit.
Core-only imports (linked into `wmdriver`).
-/
namespace Wild.Malformed

/-! ## Response-file tokenizer -/
namespace Args

inductive Err where
  | missingClosing      -- "Missing closing '{quote}'"
  | expectedWhitespace  -- "Expected white space after quoted argument"
  | missingOpening      -- "Missing opening quote '{ch}'"
  | invalidEscape       -- "Invalid escape"
  deriving DecidableEq, Repr

/-- Rust `char::is_whitespace` (Unicode `White_Space`). -/
def isWhitespace (c : Char) : Bool :=
  let n := c.toNat
  (0x9 ≤ n && n ≤ 0xd) || n == 0x20 || n == 0x85 || n == 0xa0 || n == 0x1680 ||
  (0x2000 ≤ n && n ≤ 0x200a) || n == 0x2028 || n == 0x2029 || n == 0x202f || n == 0x205f ||
  n == 0x3000

def isQuote (c : Char) : Bool := c == '\'' || c == '"'

/-- Loop state: `out` reversed, `heap` = the argument under construction (reversed chars),
`quote`, `expectWs`, `esc` = the previous character was an unquoted-or-quoted backslash whose
follower is consumed verbatim by the inner `chars.next()`. -/
structure St where
  out : List (List Char) := []
  heap : Option (List Char) := none
  quote : Option Char := none
  expectWs : Bool := false
  esc : Bool := false
  deriving DecidableEq, Repr

def pushCh (h : Option (List Char)) (c : Char) : Option (List Char) := some (c :: h.getD [])

def flush (s : St) : List (List Char) :=
  match s.heap with
  | some a => a.reverse :: s.out
  | none => s.out

/-- One iteration of the `loop` body for character `ch`. -/
def step (s : St) (ch : Char) : Except Err St :=
  if s.esc then
    .ok { s with heap := pushCh s.heap ch, esc := false }
  else if s.expectWs && !isWhitespace ch then .error .expectedWhitespace
  else
    let s := { s with expectWs := false }
    if isQuote ch then
      match s.quote with
      | some q =>
        if q == ch then .ok { s with out := flush s, heap := none, quote := none, expectWs := true }
        else .ok { s with heap := pushCh s.heap ch }
      | none =>
        if s.heap.isSome then .error .missingOpening else .ok { s with quote := some ch }
    else if isWhitespace ch then
      if s.quote.isNone then .ok { s with out := flush s, heap := none }
      else .ok { s with heap := pushCh s.heap ch }
    else if ch == '\\' then .ok { s with esc := true }
    else .ok { s with heap := pushCh s.heap ch }

def run : St → List Char → Except Err St
  | s, [] => .ok s
  | s, c :: cs =>
    match step s c with
    | .ok s' => run s' cs
    | .error e => .error e

/-- `arguments_from_string`. -/
def argsFromString (cs : List Char) : Except Err (List String) :=
  match run {} cs with
  | .error e => .error e
  | .ok s =>
    if s.esc then .error .invalidEscape
    else if s.quote.isSome then .error .missingClosing
    else .ok ((flush s).reverse.map String.ofList)

end Args

/-! ## Archive walk -/
namespace Ar

abbrev Bytes := List UInt8

def U64 : Nat := 2 ^ 64

inductive Err where
  | size          -- "Invalid archive size" (shorter than the magic)
  | ident         -- "Unsupported archive identifier"
  | header        -- "Invalid archive member header" (fewer than 60 bytes left)
  | terminator    -- "Invalid archive terminator"
  | memberSize    -- "Invalid archive member size"
  | extNameOffset -- "Invalid archive extended name offset"
  | extNameLength -- "Invalid archive extended name length"
  | tooLarge      -- "Archive member size is too large"
  deriving DecidableEq, Repr

/-- `data.read_bytes_at(off, len)` on `&[u8]`: `None` unless `off + len ≤ data.len()`. -/
def readBytes (d : Bytes) (off len : Nat) : Option Bytes :=
  if off + len ≤ d.length then some ((d.drop off).take len) else none

def bytesOf (s : String) : Bytes := s.toList.map (fun c => UInt8.ofNat c.toNat)

def MAGIC : Bytes := bytesOf "!<arch>\n"
def THIN_MAGIC : Bytes := bytesOf "!<thin>\n"
def AIX_BIG_MAGIC : Bytes := bytesOf "<bigaf>\n"
def TERMINATOR : Bytes := [0x60, 0x0a]

def isDigit (b : UInt8) : Bool := 0x30 ≤ b && b ≤ 0x39

/-- `parse_u64_digits(digits, 10)`. -/
def parseDigitsAux : Bytes → Nat → Option Nat
  | [], acc => some acc
  | c :: r, acc =>
    if c == 0x20 then some acc
    else if isDigit c then
      let v := acc * 10 + (c.toNat - 0x30)
      if v < U64 then parseDigitsAux r v else none
    else none

def parseDigits (ds : Bytes) : Option Nat :=
  match ds with
  | 0x20 :: _ => none
  | _ => parseDigitsAux ds 0

/-- `memchr(c, s)`. -/
def memchr (c : UInt8) : Bytes → Option Nat
  | [] => none
  | b :: r => if b == c then some 0 else (memchr c r).map (· + 1)

def memchr2 (c1 c2 : UInt8) : Bytes → Option Nat
  | [] => none
  | b :: r => if b == c1 || b == c2 then some 0 else (memchr2 c1 c2 r).map (· + 1)

/-- `parse_sysv_extended_name(digits, names)`. -/
def sysvName (digits names : Bytes) : Option Bytes := do
  let off ← parseDigits digits
  if off > names.length then none else
  let nd := names.drop off
  let len ← memchr2 0x0a 0x00 nd
  if nd[len]? = some 0x0a then
    if len < 1 ∨ nd[len - 1]? ≠ some 0x2f then none else some (nd.take (len - 1))
  else some (nd.take len)

structure Member where
  name : Bytes
  /-- 0 for thin members -/
  offset : Nat
  size : Nat
  deriving DecidableEq, Repr

/-- The part of `ArchiveMember::parse` after the 60-byte header `h` was read; `off` is the offset
just behind the header. Returns the member and the offset of the next header. -/
def parseAfterHeader (d : Bytes) (h : Bytes) (off : Nat) (names : Bytes) (thin : Bool) :
    Except Err (Member × Nat) :=
  let name16 := h.take 16
  let size10 := (h.drop 48).take 10
  let term := (h.drop 58).take 2
  if term ≠ TERMINATOR then .error .terminator else
  match parseDigits size10 with
  | none => .error .memberSize
  | some hfs =>
    -- name, file_offset, file_size
    let r : Except Err (Bytes × Nat × Nat) :=
      if name16[0]? = some 0x2f ∧ (name16[1]?.map isDigit) = some true then
        match sysvName (name16.drop 1) names with
        | some n => .ok (n, off, hfs)
        | none => .error .extNameOffset
      else if name16.take 3 = [0x23, 0x31, 0x2f] ∧ (name16[3]?.map isDigit) = some true then
        match parseDigits (name16.drop 3) with
        | none => .error .extNameLength
        | some len =>
          if hfs < len then .error .extNameLength else
          match readBytes d off len with
          | none => .error .extNameLength
          | some nd =>
            let n := match memchr 0 nd with | some k => nd.take k | none => nd
            .ok (n, off + len, hfs - len)
      else if name16[0]? = some 0x2f then
        .ok (name16.take ((memchr 0x20 name16).getD name16.length), off, hfs)
      else
        let k := match memchr 0x2f name16 with
          | some k => k
          | none => (memchr 0x20 name16).getD name16.length
        .ok (name16.take k, off, hfs)
    match r with
    | .error e => .error e
    | .ok (name, fileOff, fileSize) =>
      if thin ∧ name ≠ [0x2f] ∧ name ≠ [0x2f, 0x2f] ∧ name ≠ bytesOf "/SYM64/" then
        .ok (⟨name, 0, fileSize⟩, off)
      else
        let o1 := off + hfs
        if o1 ≥ U64 then .error .tooLarge else
        let o2 := if hfs % 2 = 1 then min (o1 + 1) (U64 - 1) else o1
        .ok (⟨name, fileOff, fileSize⟩, o2)

/-- `ArchiveMember::parse(data, &mut offset, names, thin)`. -/
def parseMember (d : Bytes) (off : Nat) (names : Bytes) (thin : Bool) : Except Err (Member × Nat) :=
  match readBytes d off 60 with
  | none => .error .header
  | some h => parseAfterHeader d h (off + 60) names thin

/-- `ArchiveMember::data`. -/
def memberData (d : Bytes) (m : Member) : Except Err Bytes :=
  if m.offset = 0 then .ok [] else
  match readBytes d m.offset m.size with
  | some b => .ok b
  | none => .error .tooLarge

structure File where
  thin : Bool
  names : Bytes
  membersOffset : Nat
  deriving DecidableEq, Repr

inductive Parsed where
  | aixbig
  | file (f : File)
  deriving DecidableEq, Repr

/-- Optional names-table member at `tail`: `if tail < len { parse; if name == "//" { names = data } }`.
Also returns the advanced `tail` (the Rust variable moves past the member even when it is not `//`). -/
def optNames (d : Bytes) (tail : Nat) (names0 : Bytes) (thin : Bool) (f : File) : Except Err (File × Nat) :=
  if tail < d.length then
    match parseMember d tail names0 thin with
    | .error e => .error e
    | .ok (m, tail') =>
      if m.name = [0x2f, 0x2f] then
        match memberData d m with
        | .error e => .error e
        | .ok n => .ok ({ f with names := n, membersOffset := tail' }, tail')
      else .ok (f, tail')
  else .ok (f, tail)

/-- `ArchiveFile::parse` (common formats). -/
def parseFile (d : Bytes) : Except Err Parsed :=
  match readBytes d 0 8 with
  | none => .error .size
  | some magic =>
    if magic = AIX_BIG_MAGIC then .ok .aixbig else
    if magic ≠ THIN_MAGIC ∧ magic ≠ MAGIC then .error .ident else
    let thin := magic = THIN_MAGIC
    let f0 : File := ⟨thin, [], 8⟩
    if ¬ (8 < d.length) then .ok (.file f0) else
    match parseMember d 8 [] thin with
    | .error e => .error e
    | .ok (m, tail) =>
      if m.name = [0x2f] then
        let f1 := { f0 with membersOffset := tail }
        if tail < d.length then
          match parseMember d tail [] thin with
          | .error e => .error e
          | .ok (m2, tail2) =>
            if m2.name = [0x2f] then
              -- COFF: second linker member, optional names table, optional EC symbol table
              let f2 := { f1 with membersOffset := tail2 }
              match optNames d tail2 [] thin f2 with
              | .error e => .error e
              | .ok (f3, tail3) =>
                if tail3 < d.length then
                  match parseMember d tail3 f3.names thin with
                  | .error e => .error e
                  | .ok (m4, tail4) =>
                    if m4.name = bytesOf "/<ECSYMBOLS>/" then .ok (.file { f3 with membersOffset := tail4 })
                    else .ok (.file f3)
                else .ok (.file f3)
            else if m2.name = [0x2f, 0x2f] then
              match memberData d m2 with
              | .error e => .error e
              | .ok n => .ok (.file { f1 with names := n, membersOffset := tail2 })
            else .ok (.file f1)
        else .ok (.file f1)
      else if m.name = bytesOf "/SYM64/" then
        match optNames d tail [] thin { f0 with membersOffset := tail } with
        | .error e => .error e
        | .ok (f, _) => .ok (.file f)
      else if m.name = [0x2f, 0x2f] then
        match memberData d m with
        | .error e => .error e
        | .ok n => .ok (.file { f0 with names := n, membersOffset := tail })
      else if m.name = bytesOf "__.SYMDEF" ∨ m.name = bytesOf "__.SYMDEF SORTED" ∨
              m.name = bytesOf "__.SYMDEF_64" ∨ m.name = bytesOf "__.SYMDEF_64 SORTED" then
        .ok (.file { f0 with membersOffset := tail })
      else .ok (.file f0)

/-- What wild's `ArchiveIterator::next` yields per member. -/
structure Entry where
  thin : Bool
  name : Bytes
  dataOffset : Nat
  dataLen : Nat
  deriving DecidableEq, Repr

/-- Result of draining the iterator: the entries produced, and the error that ended the walk, if any. -/
structure Walk where
  entries : List Entry
  error : Option Err
  /-- the fuel ran out (never happens for `walk`, see `Props/C22.walk_fuel_sufficient`) -/
  exhausted : Bool := false
  deriving DecidableEq, Repr

/-- `ArchiveMemberIterator::next` + wild's mapping, iterated. `off ≥ end` ends the walk; an error ends
it too (`*offset = *end_offset`). -/
def walkFrom (d : Bytes) (f : File) : Nat → Nat → List Entry → Walk
  | 0, off, acc => ⟨acc.reverse, none, decide (off < d.length)⟩
  | fuel + 1, off, acc =>
    if off ≥ d.length then ⟨acc.reverse, none, false⟩ else
    match parseMember d off f.names f.thin with
    | .error e => ⟨acc.reverse, some e, false⟩
    | .ok (m, off') =>
      if f.thin then walkFrom d f fuel off' (⟨true, m.name, 0, 0⟩ :: acc)
      else
        match memberData d m with
        | .error e => ⟨acc.reverse, some e, false⟩
        | .ok b => walkFrom d f fuel off' (⟨false, m.name, m.offset, b.length⟩ :: acc)

inductive Outcome where
  | aixbig
  | openError (e : Err)
  | walked (w : Walk)
  deriving DecidableEq, Repr

/-- `ArchiveIterator::from_archive_bytes(data)` followed by draining the iterator. -/
def walk (d : Bytes) : Outcome :=
  match parseFile d with
  | .error e => .openError e
  | .ok .aixbig => .aixbig
  | .ok (.file f) => .walked (walkFrom d f (d.length + 1) f.membersOffset [])

end Ar

end Wild.Malformed
