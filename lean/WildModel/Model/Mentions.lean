/-
Files named more than once on the command line: the de-duplication loop of
`FileLoader::load_inputs` (libwild/src/input_data.rs). A mention is `(path, as_needed)`.
Theorems: Props/C37Mentions.lean. Driver op: `mentions`.
-/
namespace Wild.Mentions

abbrev Mention := Nat × Bool          -- (path, as_needed)

def hasPath (acc : List Mention) (p : Nat) : Bool := acc.any (fun q => q.1 == p)

def andFlag (p : Nat) (b : Bool) (q : Mention) : Mention := if q.1 == p then (q.1, q.2 && b) else q

def loadStep (acc : List Mention) (m : Mention) : List Mention :=
  if hasPath acc m.1 then acc.map (andFlag m.1 m.2) else acc ++ [m]

def loadInputs (ms : List Mention) : List Mention := ms.foldl loadStep []

def loadStepOld (acc : List Mention) (m : Mention) : List Mention :=
  if hasPath acc m.1 then acc else acc ++ [m]

def loadInputsOld (ms : List Mention) : List Mention := ms.foldl loadStepOld []

end Wild.Mentions
