import WildModel.Model.Link
/-
DT_NEEDED model: wild emits one DT_NEEDED per shared object that took part in the link
(`ResolvedFile::Dynamic` in the loaded set), in command-line order (elf_writer.rs
`write_dynamic_file` / epilogue dynamic entries). Shared objects outside `--as-needed` are
mandatory (grouping.rs `is_optional`), `--as-needed` ones take part iff they were requested.
-/
namespace Wild.Link

/-- Indices of the shared objects listed in DT_NEEDED, in command-line order. -/
def neededLibs (fs : List File) : List Nat :=
  (List.range fs.length).filter fun i =>
    (fs[i]?.map (·.dynamic)).getD false && isLoaded fs i

end Wild.Link
