/-
Model of wild's handling of `.note.GNU-stack` and `.note.gnu.property` (x86-64).  Core-only imports.

Mirrors (libwild/src):
* `elf_x86_64.rs  get_property_class`            → `getPropertyClass`
* `elf.rs         process_gnu_note_section`      → `processNoteSection` (only `pr_datasz == 4` entries are kept;
                                                    a type that occurs again in the same file is OR-ed into the
                                                    entry that is already there)
* `elf.rs         merge_gnu_property_notes`      → `mergeGnuPropertyNotes` (hash map = association list `upsert`;
                                                    first occurrence inserts `(data, class)`, later ones AND / OR;
                                                    `-z x86-64-vN`; sorted by type; `type_present_in_all` filter)
* `elf.rs         validate_stack_section`        → `validateStackSection`
* `elf_writer.rs  write_program_headers` (PT_GNU_STACK gets PF_X iff `args.execstack`) → `stackFlags`
* `args/elf.rs    -z execstack / -z noexecstack` → `execstackArg`
-/
namespace Wild.Notes

/-! ## Property classes -/

inductive PClass where
  | or | and | andOr
  deriving DecidableEq, Repr, Inhabited

/-- Constants of the `object` crate (object-0.39.1/src/elf.rs). -/
def GNU_PROPERTY_UINT32_AND_LO : Nat := 0xb0000000
def GNU_PROPERTY_UINT32_AND_HI : Nat := 0xb0007fff
def GNU_PROPERTY_UINT32_OR_LO : Nat := 0xb0008000
def GNU_PROPERTY_UINT32_OR_HI : Nat := 0xb000ffff
def GNU_PROPERTY_X86_UINT32_AND_LO : Nat := 0xc0000002
def GNU_PROPERTY_X86_UINT32_AND_HI : Nat := 0xc0007fff
def GNU_PROPERTY_X86_UINT32_OR_LO : Nat := 0xc0008000
def GNU_PROPERTY_X86_UINT32_OR_HI : Nat := 0xc000ffff
def GNU_PROPERTY_X86_UINT32_OR_AND_LO : Nat := 0xc0010000
def GNU_PROPERTY_X86_UINT32_OR_AND_HI : Nat := 0xc0017fff
def GNU_PROPERTY_X86_ISA_1_NEEDED : Nat := 0xc0008002

/-- `ElfX86_64::get_property_class` (match arms in source order). `pr_type` is a `u32`; values ≥ 2^32 fall
through to `none` like every other unlisted value. -/
def getPropertyClass (t : Nat) : Option PClass :=
  if GNU_PROPERTY_X86_UINT32_AND_LO ≤ t ∧ t ≤ GNU_PROPERTY_X86_UINT32_AND_HI then some .and
  else if GNU_PROPERTY_X86_UINT32_OR_LO ≤ t ∧ t ≤ GNU_PROPERTY_X86_UINT32_OR_HI then some .or
  else if GNU_PROPERTY_X86_UINT32_OR_AND_LO ≤ t ∧ t ≤ GNU_PROPERTY_X86_UINT32_OR_AND_HI then some .andOr
  else if GNU_PROPERTY_UINT32_AND_LO ≤ t ∧ t ≤ GNU_PROPERTY_UINT32_AND_HI then some .and
  else if GNU_PROPERTY_UINT32_OR_LO ≤ t ∧ t ≤ GNU_PROPERTY_UINT32_OR_HI then some .or
  else none

/-! ## Per-file parsing -/

/-- One entry of an `NT_GNU_PROPERTY_TYPE_0` note as it sits in the input: type, `pr_datasz`, and the first
four data bytes read as little-endian `u32` (meaningful only when `datasz = 4`). -/
structure RawProp where
  ptype : Nat
  datasz : Nat
  data : BitVec 32
  deriving DecidableEq, Repr

/-- `crate::elf::GnuProperty`. -/
structure GnuProperty where
  ptype : Nat
  data : BitVec 32
  deriving DecidableEq, Repr

/-- `state.gnu_property_notes`: push, or OR into the entry with the same type if the file already has one. -/
def pushProp : List GnuProperty → GnuProperty → List GnuProperty
  | [], p => [p]
  | e :: r, p => if e.ptype = p.ptype then { e with data := e.data ||| p.data } :: r else e :: pushProp r p

/-- `process_gnu_note_section`: all notes of the section, all properties of each note, in file order. -/
def processNoteSection (raw : List RawProp) : List GnuProperty :=
  raw.foldl (fun acc r => if r.datasz ≠ 4 then acc else pushProp acc ⟨r.ptype, r.data⟩) []

/-! ## Merge over the loaded relocatable inputs -/

/-- A `property_map` entry: `(u32, PropertyClass)` keyed by `pr_type`. -/
structure Entry where
  key : Nat
  val : BitVec 32
  cls : PClass
  deriving DecidableEq, Repr

/-- `HashMap::entry(k).and_modify(f).or_insert(ins)` on an association list with unique keys. -/
def upsert (m : List Entry) (k : Nat) (f : Entry → Entry) (ins : Entry) : List Entry :=
  match m with
  | [] => [ins]
  | e :: r => if e.key = k then f e :: r else e :: upsert r k f ins

/-- Body of the inner loop of `merge_gnu_property_notes` for one property; `Except.error t` is
`unclassified property type t`. -/
def mergeStep (m : List Entry) (p : GnuProperty) : Except Nat (List Entry) :=
  match getPropertyClass p.ptype with
  | none => .error p.ptype
  | some c =>
    .ok (upsert m p.ptype
      (fun e => if c = .and then { e with val := e.val &&& p.data } else { e with val := e.val ||| p.data })
      ⟨p.ptype, p.data, c⟩)

/-- The two nested `for` loops. -/
def mergeFiles (files : List (List GnuProperty)) : Except Nat (List Entry) :=
  files.foldlM (fun m f => f.foldlM mergeStep m) []

/-- `if let Some(isa_needed) = isa_needed { map.entry(ISA_1_NEEDED).or_insert((0, Or)).0 |= isa_needed }`. -/
def mergeIsa (m : List Entry) (isa : Option (BitVec 32)) : List Entry :=
  match isa with
  | none => m
  | some v =>
    upsert m GNU_PROPERTY_X86_ISA_1_NEEDED (fun e => { e with val := e.val ||| v })
      ⟨GNU_PROPERTY_X86_ISA_1_NEEDED, 0 ||| v, .or⟩

/-- `sorted_by_key(|x| x.0)`: insertion sort on the (unique) keys. -/
def insertByKey (e : Entry) : List Entry → List Entry
  | [] => [e]
  | x :: r => if e.key ≤ x.key then e :: x :: r else x :: insertByKey e r

def sortByKey (m : List Entry) : List Entry := m.foldr insertByKey []

/-- `type_present_in_all`. -/
def typePresentInAll (files : List (List GnuProperty)) (t : Nat) : Bool :=
  files.all fun f => f.any fun p => p.ptype == t

/-- The `filter_map` closure. -/
def keepEntry (files : List (List GnuProperty)) (e : Entry) : Option GnuProperty :=
  let keep : Bool := match e.cls with
    | .or => e.val != 0
    | .and => typePresentInAll files e.key && e.val != 0
    | .andOr => typePresentInAll files e.key
  if keep then some ⟨e.key, e.val⟩ else none

/-- `merge_gnu_property_notes::<X86_64>(states, args.z_isa)`. -/
def mergeGnuPropertyNotes (files : List (List GnuProperty)) (isa : Option (BitVec 32)) : Except Nat (List GnuProperty) :=
  match mergeFiles files with
  | .error t => .error t
  | .ok m => .ok ((sortByKey (mergeIsa m isa)).filterMap (keepEntry files))

/-- From the raw notes of every loaded relocatable input to the output note's entries. -/
def linkProps (inputs : List (List RawProp)) (isa : Option (BitVec 32)) : Except Nat (List GnuProperty) :=
  mergeGnuPropertyNotes (inputs.map processNoteSection) isa

/-! ## Stack -/

/-- What a relocatable input says about the stack. -/
inductive StackNote where
  | missing   -- no `.note.GNU-stack` section
  | noexec    -- section without SHF_EXECINSTR
  | exec      -- section with SHF_EXECINSTR
  deriving DecidableEq, Repr

/-- The last of `-z execstack` (`some true`) / `-z noexecstack` (`some false`) on the command line, `none` if
neither was given.  `args.execstack` starts as `false`. -/
def execstackArg (z : Option Bool) : Bool := z.getD false

/-- `validate_stack_section`: called for every `.note.GNU-stack` section of a loaded object. -/
def validateStackSection (sectionIsExecutable : Bool) (execstack : Bool) : Except Unit Unit :=
  if sectionIsExecutable && !execstack then .error () else .ok ()

def validateInput (execstack : Bool) : StackNote → Except Unit Unit
  | .missing => .ok ()
  | .noexec => validateStackSection false execstack
  | .exec => validateStackSection true execstack

def PF_X : Nat := 1
def PF_W : Nat := 2
def PF_R : Nat := 4

/-- `p_flags` of PT_GNU_STACK (`PROGRAM_SEGMENT_DEFS` gives RW, the writer adds X iff `args.execstack`).  The
header is emitted for every output kind. -/
def stackFlags (execstack : Bool) : Nat := (PF_R ||| PF_W) ||| (if execstack then PF_X else 0)

/-- Link outcome for the stack: `error i` = input `i` "requires executable stack, but -z execstack is not
specified"; `ok flags` = PT_GNU_STACK present with these flags. -/
def wildStack (notes : List StackNote) (z : Option Bool) : Except Unit Nat :=
  let x := execstackArg z
  match notes.foldlM (fun _ n => validateInput x n) () with
  | .error _ => .error ()
  | .ok _ => .ok (stackFlags x)

end Wild.Notes
