/-
C36 — the GNU ld side: what GNU ld (2.40, x86-64) puts into PT_GNU_STACK and into the output
`.note.gnu.property` for 4-byte (UINT32) properties.  This is the *specification* the property compares wild
with; it is written independently of the model in `Model/Notes.lean` (per-type functions over the list of
inputs, no map, no fold with an accumulator that mixes types) and shares only the data types `RawProp` /
`GnuProperty` / `StackNote` with it.  It lives in a core-only file (not in `Props/C36.lean`) so that the driver
can evaluate it: every check run validates this text against the real `/usr/bin/ld` (`notes-gnu` op).

Sources: bfd/elf-properties.c (`_bfd_elf_parse_gnu_properties`, `elf_merge_gnu_properties`,
`_bfd_elf_link_setup_gnu_properties`), bfd/elfxx-x86.c (`_bfd_x86_elf_parse_gnu_properties`,
`_bfd_x86_elf_merge_gnu_properties`), bfd/elflink.c (`bfd_elf_size_dynamic_sections`, stack flags), and
experiments with GNU ld 2.40 recorded in /verif/scratch/c36/REPORT.md.
-/
import WildModel.Model.Notes
namespace Wild.Notes

inductive GClass where
  | and | or | orAnd
  deriving DecidableEq, Repr

/-- Class of a UINT32 property type in GNU ld for x86-64. -/
def gnuClass (t : Nat) : Option GClass :=
  if (0xc0000002 ≤ t ∧ t ≤ 0xc0007fff) ∨ (0xb0000000 ≤ t ∧ t ≤ 0xb0007fff) then some .and
  else if (0xc0008000 ≤ t ∧ t ≤ 0xc000ffff) ∨ (0xb0008000 ≤ t ∧ t ≤ 0xb000ffff) then some .or
  else if 0xc0010000 ≤ t ∧ t ≤ 0xc0017fff then some .orAnd
  else none

/-- Does input `f` carry a UINT32 property of type `t`? -/
def hasProp (f : List RawProp) (t : Nat) : Bool :=
  f.any fun r => r.ptype = t ∧ r.datasz = 4

/-- The bits of property `t` in input `f`: the OR of all its entries of that type (the parser does
`prop->u.number |= value`); `0` if there is none. -/
def inputBits (f : List RawProp) (t : Nat) : BitVec 32 :=
  (f.filter fun r => r.ptype = t ∧ r.datasz = 4).foldl (fun a r => a ||| r.data) 0

/-- AND over all relocatable inputs; an input without the property contributes 0. -/
def andOver (inputs : List (List RawProp)) (t : Nat) : BitVec 32 :=
  inputs.foldr (fun f acc => inputBits f t &&& acc) (BitVec.allOnes 32)

/-- OR over all relocatable inputs. -/
def orOver (inputs : List (List RawProp)) (t : Nat) : BitVec 32 :=
  inputs.foldr (fun f acc => inputBits f t ||| acc) 0

/-- `-z x86-64-v2` etc. add their bit to GNU_PROPERTY_X86_ISA_1_NEEDED. -/
def isaBits (isa : Option (BitVec 32)) (t : Nat) : BitVec 32 :=
  if t = 0xc0008002 then isa.getD 0 else 0

/-- The value GNU ld writes for type `t`; `none` = the property is not in the output. -/
def gnuValue (inputs : List (List RawProp)) (isa : Option (BitVec 32)) (t : Nat) : Option (BitVec 32) :=
  match gnuClass t with
  | some .and => let v := andOver inputs t; if v = 0 then none else some v
  | some .or => let v := orOver inputs t ||| isaBits isa t; if v = 0 then none else some v
  | some .orAnd => if inputs.all (hasProp · t) then some (orOver inputs t) else none
  | none => none

/-- Sorted insertion without duplicates. -/
def insertType (t : Nat) : List Nat → List Nat
  | [] => [t]
  | x :: r => if t < x then t :: x :: r else if t = x then x :: r else x :: insertType t r

/-- The UINT32 property types that occur at all (in some input, or through `-z x86-64-vN`), ascending. -/
def typeList (inputs : List (List RawProp)) (isa : Option (BitVec 32)) : List Nat :=
  (((inputs.flatten.filter fun (r : RawProp) => r.datasz = 4).map RawProp.ptype)
    ++ (if isa.isSome then [0xc0008002] else [])).foldr insertType []

/-- GNU ld's output note (UINT32 properties), ascending by type. -/
def gnuProps (inputs : List (List RawProp)) (isa : Option (BitVec 32)) : List GnuProperty :=
  (typeList inputs isa).filterMap fun t => (gnuValue inputs isa t).map fun v => ⟨t, v⟩

/-- GNU ld's PT_GNU_STACK: `none` = no such program header (no input has a `.note.GNU-stack` section and
no `-z` flag), otherwise the flags.  x86-64 Linux default: an input without the section implies an
executable stack. -/
def gnuStack (notes : List StackNote) (z : Option Bool) : Option Nat :=
  match z with
  | some true => some 7
  | some false => some 6
  | none =>
    if notes.all (· = .missing) then none
    else if notes.any (· = .exec) || notes.any (· = .missing) then some 7 else some 6

/-- Is the stack of GNU ld's output executable?  (No PT_GNU_STACK on x86-64 Linux: not executable.) -/
def gnuStackExec (notes : List StackNote) (z : Option Bool) : Bool :=
  match gnuStack notes z with
  | some f => f &&& 1 = 1
  | none => false

end Wild.Notes
