/-
Abstract dynamic-linking model for C38 ("every function and object has one address across modules").

Modules in load order (executable first, then its shared libraries).  Per module: its own
definitions (exported or not), and the link-time artefacts wild creates for references to symbols the
module does not define: a PLT entry (function referenced directly from non-writable, non-PIC code:
elf.rs `process_relocation`, branch `flags.is_function()` → `PLT | GOT`, `create_resolution` sets
`raw_value = plt_address` for dynamic symbols), a copy-relocated object in .bss (data referenced directly:
`COPY_RELOCATION`; `finalise_copy_relocations`/`select_copy_relocation_alternatives` export the copy —
`layout::export_dynamic` — and `write_copy_relocations` emits R_*_COPY), GOT entries with GLOB_DAT
(`process_resolution`).  Undefined dynamic symbols are written by `write_dynamic_file` with
`define_symbol(false, 0, 0, 0, name)`: st_value 0, i.e. a PLT entry is NOT advertised as the function's
canonical address (`canonicalPltExported = false` is what the current code does; GNU ld sets st_value).

Loader: a symbolic reference (GLOB_DAT, R_*_64, COPY source excluded) binds to the first module in load
order whose dynamic symbol table defines the name (`lookup`).
Core-only imports.
-/
namespace Wild.OneAddress

inductive SymKind where
  | data | func
  deriving DecidableEq, Repr

inductive ModKind where
  | nonPicExe | pie | shared
  deriving DecidableEq, Repr

/-- How a module obtains the address of a symbol at one reference site. -/
inductive RefKind where
  /-- absolute / PC-relative reference from a non-writable section (resolved at link time) -/
  | direct
  /-- GOT entry (GLOB_DAT) or symbolic dynamic relocation in writable data (resolved by the loader) -/
  | got
  deriving DecidableEq, Repr

structure Module where
  kind : ModKind
  base : BitVec 64
  /-- own definitions: link-time address and whether the symbol is in the dynamic symbol table -/
  defs : Nat → Option (BitVec 64 × Bool)
  /-- PLT entry created for a symbol the module does not define -/
  plt : Nat → Option (BitVec 64)
  /-- copy-relocated object created for a data symbol the module does not define -/
  copy : Nat → Option (BitVec 64)
  /-- whether undefined function symbols carry st_value = PLT address in the dynamic symbol table -/
  canonicalPltExported : Bool := false

/-- What the loader finds for `s` in `m`'s dynamic symbol table (run-time address). -/
def dynDefines (m : Module) (s : Nat) : Option (BitVec 64) :=
  match m.defs s with
  | some (a, true) => some (m.base + a)
  | some (_, false) => none
  | none =>
    match m.copy s with
    | some c => some (m.base + c)
    | none =>
      if m.canonicalPltExported then (m.plt s).map (m.base + ·) else none

/-- Loader symbol search: first definition in load order. -/
def lookup : List Module → Nat → Option (BitVec 64)
  | [], _ => none
  | m :: ms, s =>
    match dynDefines m s with
    | some a => some a
    | none => lookup ms s

/-- The address module `m` observes for `s` at a reference of kind `r` (wild's decisions). -/
def addrSeenBy (mods : List Module) (kindOf : Nat → SymKind) (m : Module) (s : Nat) (r : RefKind) :
    Option (BitVec 64) :=
  match r with
  | .got => lookup mods s
  | .direct =>
    match m.defs s with
    | some (a, _) => some (m.base + a)
    | none =>
      match kindOf s with
      | .func => (m.plt s).map (m.base + ·)
      | .data => (m.copy s).map (m.base + ·)

/-- References a module kind can contain: only a non-PIC executable refers directly to symbols it
does not define; every module may refer directly to its own non-interposable definitions — for a shared
library those are not exported (hidden/local) symbols, for an executable all of its definitions. -/
def validRef (m : Module) (s : Nat) (r : RefKind) : Prop :=
  r = .direct →
    match m.defs s with
    | some (_, exported) => m.kind ≠ .shared ∨ exported = false
    | none => m.kind = .nonPicExe

/-- IFUNC defined in the executable `m`.  Non-PIC executable: every reference (direct:
`value_with_addend` returns the PLT address for `is_ifunc`; GOT: the `IFUNC_GOT_FOR_ADDRESS` slot holds the
PLT address; data word: `write_absolute_relocation` stores `value_with_addend`) yields the PLT entry.
PIE / static-PIE: a direct (PC-relative) reference is rewritten to the PLT entry
(`new_relaxation`: R_X86_64_PC32 → PLT32 for `is_ifunc`), but a GOT slot gets an IRELATIVE relocation
(`IFUNC_GOT_FOR_ADDRESS` is only set when `!is_relocatable()`) and so does a data word
(`write_ifunc_relocation_for_data`): those hold the resolver's result. -/
def ifuncAddrInExe (m : Module) (plt resolved : BitVec 64) (r : RefKind) : BitVec 64 :=
  match m.kind with
  | .nonPicExe => m.base + plt
  | _ =>
    match r with
    | .direct => m.base + plt
    | .got => resolved

/-- what a library observes for an IFUNC the executable defines and exports -/
def ifuncAddrFromLib (exe : Module) (plt resolved : BitVec 64) : BitVec 64 :=
  match exe.kind with
  | .nonPicExe => exe.base + plt   -- exported as a function at its PLT entry
  | _ => resolved                   -- exported as STT_GNU_IFUNC: loader calls the resolver

end Wild.OneAddress
