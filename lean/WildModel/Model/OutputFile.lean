import WildModel.Model.Fs
/-!
# wild's output-file state machine (libwild/src/file_writer.rs + the call order in lib.rs)

The exact sequence of file-system operations wild performs on the output path `out` and on the
temporary sibling `tmp`, for every write mode, both creators (`FileCreator::Background` when more
than one thread is available, `FileCreator::Regular` otherwise) and every place where the link can
fail.  Two versions of the code are modelled:

* `v0` — upstream: `tmp = out.with_extension("delete")`, the old output is moved with `rename`
  (which replaces whatever is at `tmp`), nothing is cleaned up when the link fails;
* `v1` — working tree (fixes `c18-unlink-on-error`, `c19-temp-name`): `tmp` is a hidden
  per-process sibling, the old output is moved aside with `link` + `unlink` (never replaces), and
  an `Output` that is dropped without `commit()` removes the output it opened; `link_for_arch`
  removes the output when `verify_inputs_unchanged` / the dependency file fails after a successful
  link.

Call order (lib.rs): load inputs → `Output::new` (decides the write mode, looks at the output
path) → symbol resolution → `layout::compute` (calls `set_size` in the middle; linker-script
ASSERTs and segment layout come after it) → `Output::write` → `commit` → `verify_inputs_unchanged`
→ dependency file.
-/
namespace Wild.OutputFile
open Wild.Fs

inductive WriteMode where
  | unlinkAndReplace | updateInPlace | updateInPlaceWithFallback
  deriving DecidableEq, Repr

inductive Version where
  | v0 | v1
  deriving DecidableEq, Repr

structure Cfg where
  out : Path
  tmp : Path
  flag : Option WriteMode := none   -- `--update-in-place` / `--no-update-in-place`
  shared : Bool := false            -- `output_kind.is_shared_object()`
  single : Bool := false            -- `available_threads == 1` → `FileCreator::Regular`
  mmap : Bool := true               -- `--no-mmap-output-file` clears it
  size : Nat := 1
  ver : Version := .v1

/-- Where the link fails (`none`: it does not).  In program order. -/
inductive FailPoint where
  | none
  | preOutput     -- argument/input errors: before `Output::new`
  | preSetSize    -- symbol resolution, first half of layout (undefined symbols)
  | postSetSize   -- rest of `layout::compute` after `set_size` (ASSERT, segment layout)
  | postCreate    -- in `Output::write`, right after the file was created and sized
  | writeFn       -- `write_fn` fails (relocation errors): file partly written
  | flush         -- `flush` fails (`write_all`): all bytes in the buffer
  | postWrite     -- after `write` returned, before `commit` (e.g. `diff::maybe_diff`)
  | verify        -- `verify_inputs_unchanged` fails after a successful link
  | depfile       -- writing the dependency file fails
  deriving DecidableEq, Repr

/-- Scheduling choices of the two background tasks (`rayon::spawn`). -/
structure Sched where
  /-- v0 only: when the link fails between `set_size` and `write`, nobody waits for the background
  creation task; it either ran before the process exited or it did not. -/
  bgRan : Bool := true
  /-- the spawned `remove_file(tmp)` ran before the process exited -/
  tmpUnlinkRan : Bool := true
  /-- the spawned `remove_file(tmp)` ran only after the new output was created -/
  tmpUnlinkLate : Bool := false

inductive Op where
  | rename (ok : Bool)            -- rename(out, tmp)
  | link (ok : Bool)              -- link(out, tmp)
  | unlinkOut (ok : Bool)
  | unlinkTmp (ok : Bool)
  | openOut (trunc : Bool) (err : Option Errno)
  | ftruncate
  | write                         -- write(2) of the whole buffer (no-mmap mode)
  | chmod
  deriving DecidableEq, Repr

def Op.show : Op → String
  | .rename ok => s!"rename:{if ok then "ok" else "err"}"
  | .link ok => s!"link:{if ok then "ok" else "err"}"
  | .unlinkOut ok => s!"unlink-out:{if ok then "ok" else "err"}"
  | .unlinkTmp ok => s!"unlink-tmp:{if ok then "ok" else "err"}"
  | .openOut t e => s!"open{if t then "+trunc" else ""}:{match e with | none => "ok" | some e => e.name}"
  | .ftruncate => "ftruncate"
  | .write => "write"
  | .chmod => "chmod"

structure St where
  fs : State
  tr : List Op

def isOk {α} : Except Errno α → Bool
  | .ok _ => true
  | .error _ => false

/-- `default_file_write_mode` (evaluated in `Output::new`, i.e. on the state before the link) -/
def defaultMode (s : State) (c : Cfg) : WriteMode :=
  if c.shared then .unlinkAndReplace
  else if (s.names c.out).isNone then .unlinkAndReplace
  else .updateInPlaceWithFallback

def modeOf (s : State) (c : Cfg) : WriteMode := c.flag.getD (defaultMode s c)

/-- the spawned `remove_file(renamed_old_file)` -/
def unlinkTmp (c : Cfg) (st : St) : St :=
  let r := st.fs.unlink c.tmp
  ⟨r.1, st.tr ++ [.unlinkTmp (isOk r.2)]⟩

/-- Background creator, `UnlinkAndReplace`: move the old output out of the way.  Returns whether a
`remove_file(tmp)` task was spawned. -/
def moveOldAside (c : Cfg) (st : St) : St × Bool :=
  match c.ver with
  | .v0 =>
    let r := st.fs.rename c.out c.tmp
    (⟨r.1, st.tr ++ [.rename (isOk r.2)]⟩, isOk r.2)
  | .v1 =>
    let r1 := st.fs.link c.out c.tmp
    let r2 := r1.1.unlink c.out
    (⟨r2.1, st.tr ++ [.link (isOk r1.2), .unlinkOut (isOk r2.2)]⟩, isOk r1.2)

/-- `SizedOutput::new` + `OutputBuffer::new` (`set_len`) -/
def sizedOutputNew (c : Cfg) (m : WriteMode) (st : St) : St × Option Ino :=
  let trunc := decide (m = .unlinkAndReplace)
  match st.fs.openCreate c.out trunc with
  | (fs1, .ok i) => (⟨fs1.ftruncate i c.size, st.tr ++ [.openOut trunc none, .ftruncate]⟩, some i)
  | (fs1, .error e) =>
    if e = .etxtbsy ∧ m = .updateInPlaceWithFallback then
      match fs1.unlink c.out with
      | (fs2, .ok _) =>
        match fs2.openCreate c.out false with
        | (fs3, .ok i) =>
          (⟨fs3.ftruncate i c.size, st.tr ++ [.openOut trunc (some e), .unlinkOut true, .openOut false none, .ftruncate]⟩, some i)
        | (fs3, .error e2) =>
          (⟨fs3, st.tr ++ [.openOut trunc (some e), .unlinkOut true, .openOut false (some e2)]⟩, none)
      | (fs2, .error _) => (⟨fs2, st.tr ++ [.openOut trunc (some e), .unlinkOut false]⟩, none)
    else (⟨fs1, st.tr ++ [.openOut trunc (some e)]⟩, none)

/-- The background creation task spawned by `set_size` (plus the `remove_file(tmp)` it spawns). -/
def bgCreate (c : Cfg) (m : WriteMode) (sch : Sched) (st : St) : St × Option Ino :=
  if m = .unlinkAndReplace then
    let a := moveOldAside c st
    if a.2 ∧ sch.tmpUnlinkRan then
      if sch.tmpUnlinkLate then
        let r := sizedOutputNew c m a.1
        (unlinkTmp c r.1, r.2)
      else sizedOutputNew c m (unlinkTmp c a.1)
    else sizedOutputNew c m a.1
  else sizedOutputNew c m st

/-- `delete_old_output` + `create_file_non_lazily` (single-threaded creator, inside `write`) -/
def fgCreate (c : Cfg) (m : WriteMode) (st : St) : St × Option Ino :=
  let r := st.fs.unlink c.out
  sizedOutputNew c m ⟨r.1, st.tr ++ [.unlinkOut (isOk r.2)]⟩

/-- v1: `remove_failed_output` (all model files are regular files) -/
def removeFailed (c : Cfg) (st : St) : St :=
  match st.fs.names c.out with
  | none => st
  | some _ =>
    let r := st.fs.unlink c.out
    ⟨r.1, st.tr ++ [.unlinkOut (isOk r.2)]⟩

structure Result where
  fs : State
  ok : Bool
  tr : List Op

/-- the link fails after this link opened the output path -/
def failOpened (c : Cfg) (st : St) : Result :=
  match c.ver with
  | .v0 => ⟨st.fs, false, st.tr⟩
  | .v1 => let st' := removeFailed c st; ⟨st'.fs, false, st'.tr⟩

/-- `Output::write` after the file was created (`write_fn`, `flush`, `make_executable`, unmap), then
`commit`, `verify_inputs_unchanged` and the dependency file. -/
def finish (c : Cfg) (f : FailPoint) (st : St) (i : Ino) : Result :=
  if f = .postCreate then failOpened c st else
  let st2 : St := ⟨st.fs.writeData i c.size, st.tr⟩
  if f = .writeFn then failOpened c st2 else
  if f = .flush then failOpened c st2 else
  let st3 : St := ⟨st2.fs.chmodExec i, st2.tr ++ (if c.mmap then [.chmod] else [.write, .chmod])⟩
  if f = .postWrite then failOpened c st3 else
  if f = .verify ∨ f = .depfile then failOpened c st3 else
  ⟨st3.fs, true, st3.tr⟩

/-- `Output::write` once the creator has answered -/
def afterCreate (c : Cfg) (f : FailPoint) (r : St × Option Ino) : Result :=
  match r.2 with
  | none => ⟨r.1.fs, false, r.1.tr⟩        -- "Failed to open": nothing was opened by this link
  | some i => finish c f r.1 i

def run (s : State) (c : Cfg) (f : FailPoint) (sch : Sched) : Result :=
  let st0 : St := ⟨s, []⟩
  if f = .preOutput then ⟨s, false, []⟩ else
  let m := modeOf s c
  if f = .preSetSize then ⟨s, false, []⟩ else
  if f = .postSetSize then
    if c.single then ⟨s, false, []⟩
    else match c.ver with
      | .v0 => if sch.bgRan then let r := bgCreate c m sch st0; ⟨r.1.fs, false, r.1.tr⟩ else ⟨s, false, []⟩
      | .v1 =>
        -- `Drop for Output` waits for the background creation and removes what it created
        let r := bgCreate c m sch st0
        match r.2 with
        | none => ⟨r.1.fs, false, r.1.tr⟩
        | some _ => failOpened c r.1
  else
  afterCreate c f (if c.single then fgCreate c m st0 else bgCreate c m sch st0)

end Wild.OutputFile
