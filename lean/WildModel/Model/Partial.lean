/-
M-Link, partial links (`-r`): abstract relocatable objects and `combine`.

Mirrors (hand-written; tied by the whole-link correspondence `part` in vlib/props/c27.py, which
reads wild's real `-r` output back with vlib/elfread.py):
* libwild/src/elf.rs `lookup_for_partial_link`: under `-r` every input section keeps its own name
  (`SectionRuleOutcome::Custom`), i.e. the output section is chosen BY NAME ONLY; `.group`, `.symtab`,
  `.strtab`, `.shstrtab` are discarded (COMDAT group membership is therefore lost);
* libwild/src/output_section_part_map.rs / layout.rs: the input sections that go to one output section
  are placed by alignment class, largest alignment first, input order inside one class, and every
  input section occupies its size rounded up to its own alignment (measured: aligns 1,8,4,8,16 and
  sizes 3 land at 0x24,0x10,0x20,0x18,0x0);
* libwild/src/elf_writer.rs `write_rela_sections`: `r_offset' = section_address + r_offset`; when the
  referenced symbol is an `STT_SECTION` symbol, `r_addend' = r_addend + address-of-that-input-section`
  (addresses are offsets inside the output section because every output section starts at 0);
  otherwise the addend is copied and the symbol index is renumbered through `build_sym_index_map`
  (section symbols first, then the local symbols file by file, then the canonical globals);
* libwild/src/layout.rs `SymbolCopyInfo::new`: only the CANONICAL definition of a global name is
  copied (symbol resolution by the C02 rules happens inside the group), and a COMMON symbol without
  a resolution is dropped altogether (recorded defect, see `Props/C27.lean`).

Bytes are not modelled: an input section is a rigid `Piece` with an identity; relocated fields are
described by `Rel`.  Core-only imports.
-/
import WildModel.Model.Link
namespace Wild.Partial
open Wild.Link

/-- A rigid run of input bytes (one original input section) inside a section. -/
structure Piece where
  id : Nat
  off : Nat
  size : Nat
  deriving Repr, DecidableEq, Inhabited

structure Sec where
  name : Nat
  flags : Nat
  /-- alignment = 2 ^ alignExp -/
  alignExp : Nat
  size : Nat
  pieces : List Piece
  deriving Repr, Inhabited

/-- What a relocation refers to. -/
inductive Target where
  /-- the `STT_SECTION` symbol of section `s` of the same object -/
  | secSym (s : Nat)
  /-- a local (non-section) symbol defined at `value` in section `s` of the same object -/
  | localSym (s : Nat) (value : Nat)
  /-- a global name, resolved over the whole link -/
  | glob (name : Nat)
  deriving Repr, DecidableEq, Inhabited

structure Rel where
  sec : Nat
  off : Nat
  target : Target
  addend : Int
  deriving Repr, DecidableEq, Inhabited

/-- A global definition. `id` is the identity of the definition (stable across `combine`). -/
structure Def where
  name : Nat
  id : Nat
  strength : Strength
  comdat : Bool
  sec : Nat
  value : Nat
  deriving Repr, Inhabited

structure Obj where
  secs : List Sec
  defs : List Def
  rels : List Rel
  deriving Repr, Inhabited

def Obj.secName (o : Obj) (j : Nat) : Nat := (o.secs[j]?.map (·.name)).getD 0

/-! ### Placement of the input sections inside the combined sections -/

def alignUp (x e : Nat) : Nat := (x + 2 ^ e - 1) / 2 ^ e * 2 ^ e

/-- An input section on its way into an output section: (object index, section index, section). -/
structure Member where
  obj : Nat
  idx : Nat
  sec : Sec
  deriving Repr, Inhabited

def membersOfObj (i : Nat) (o : Obj) : List Member :=
  (List.range o.secs.length).filterMap fun j => o.secs[j]?.map fun s => { obj := i, idx := j, sec := s }

def allMembersFrom : Nat → List Obj → List Member
  | _, [] => []
  | k, o :: rest => membersOfObj k o ++ allMembersFrom (k + 1) rest

def allMembers (ys : List Obj) : List Member := allMembersFrom 0 ys

/-- Stable insertion (`m` is earlier in the input than everything in the list): larger alignment
first, earlier input first among equals. -/
def insertMember (m : Member) : List Member → List Member
  | [] => [m]
  | x :: rest => if x.sec.alignExp ≤ m.sec.alignExp then m :: x :: rest else x :: insertMember m rest

def sortMembers : List Member → List Member
  | [] => []
  | m :: rest => insertMember m (sortMembers rest)

/-- Members of output section `nm`, in wild's placement order. -/
def membersOf (ys : List Obj) (nm : Nat) : List Member :=
  sortMembers ((allMembers ys).filter fun m => m.sec.name == nm)

/-- Running placement: each member starts at the (aligned) cursor and occupies its padded size. -/
def placeGo : Nat → List Member → List (Member × Nat)
  | _, [] => []
  | cur, m :: rest =>
    let b := alignUp cur m.sec.alignExp
    (m, b) :: placeGo (b + alignUp m.sec.size m.sec.alignExp) rest

def endOf : Nat → List Member → Nat
  | cur, [] => cur
  | cur, m :: rest => endOf (alignUp cur m.sec.alignExp + alignUp m.sec.size m.sec.alignExp) rest

def placement (ys : List Obj) (nm : Nat) : List (Member × Nat) := placeGo 0 (membersOf ys nm)

/-- Offset of input section `j` of object `i` inside its output section. -/
def baseOf (ys : List Obj) (i j : Nat) : Nat :=
  match ys[i]? with
  | none => 0
  | some o =>
    match (placement ys (o.secName j)).find? (fun mb => mb.1.obj == i && mb.1.idx == j) with
    | some mb => mb.2
    | none => 0

/-- Output section names in first-occurrence order. -/
def outNames (ys : List Obj) : List Nat :=
  (allMembers ys).foldl (fun acc m => if acc.contains m.sec.name then acc else acc ++ [m.sec.name]) []

def outIdx (ys : List Obj) (nm : Nat) : Nat := (outNames ys).idxOf nm

def outSec (ys : List Obj) (nm : Nat) : Sec :=
  let pl := placement ys nm
  { name := nm
    flags := ((pl.head?).map (·.1.sec.flags)).getD 0
    alignExp := pl.foldl (fun a mb => max a mb.1.sec.alignExp) 0
    size := endOf 0 (membersOf ys nm)
    pieces := pl.flatMap fun mb => mb.1.sec.pieces.map fun p => { p with off := mb.2 + p.off } }

/-! ### Relocations and definitions of the combined object -/

/-- `write_rela_sections`, parametric in the base function `B` and the output index function `O`. -/
def mapRel (B : Nat → Nat) (O : Nat → Nat) (r : Rel) : Rel :=
  match r.target with
  | .secSym s => { sec := O r.sec, off := B r.sec + r.off, target := .secSym (O s), addend := r.addend + (B s : Int) }
  | .localSym s v => { sec := O r.sec, off := B r.sec + r.off, target := .localSym (O s) (B s + v), addend := r.addend }
  | .glob n => { sec := O r.sec, off := B r.sec + r.off, target := .glob n, addend := r.addend }

def combRelsFrom (B : Nat → Nat → Nat) (O : Nat → Nat → Nat) : Nat → List Obj → List Rel
  | _, [] => []
  | k, o :: rest => o.rels.map (mapRel (B k) (O k)) ++ combRelsFrom B O (k + 1) rest

def Def.toCand (d : Def) : Cand :=
  { file := d.id, dynamic := false, strength := d.strength, comdat := d.comdat }

/-- Candidate definitions of name `n` in command-line order; the label of a candidate is the
identity of the definition. -/
def defCands (objs : List Obj) (n : Nat) : List Cand :=
  objs.flatMap fun o => (o.defs.filter (·.name == n)).map Def.toCand

/-- `selectSymbol` of M-Link reduced to the chosen label (`--allow-multiple-definition` semantics, so
that the choice is defined even where a duplicate error would be raised; a `dup` cannot occur). -/
def chosenLabel (cs : List Cand) : Nat :=
  match selectSymbol true cs with
  | .chosen f => f
  | .dup a _ => a

/-- The definition the C02 rules select for `n` (its identity). -/
def winnerId (objs : List Obj) (n : Nat) : Nat := chosenLabel (defCands objs n)

/-- What wild's `-r` does with the classes the property cares about. -/
structure Cfg where
  /-- COMMON symbols are not copied into the output symbol table -/
  dropCommons : Bool := true
  /-- `.group` sections are discarded: definitions lose their COMDAT flag -/
  dropGroups : Bool := true
  deriving Repr

def wildCfg : Cfg := {}

def Def.isCommon (d : Def) : Bool :=
  match d.strength with
  | .common _ => true
  | _ => false

/-- Definitions copied into the combined object: for every name only the definition selected
inside the group, re-homed into the output section. -/
def combDefsFrom (cfg : Cfg) (ys : List Obj) (B : Nat → Nat → Nat) (O : Nat → Nat → Nat) : Nat → List Obj → List Def
  | _, [] => []
  | k, o :: rest =>
    (o.defs.filter fun d => winnerId ys d.name == d.id && !(cfg.dropCommons && d.isCommon)).map
      (fun d => { d with sec := O k d.sec, value := B k d.sec + d.value,
                         comdat := if cfg.dropGroups then false else d.comdat })
    ++ combDefsFrom cfg ys B O (k + 1) rest

def combineWith (cfg : Cfg) (B : Nat → Nat → Nat) (O : Nat → Nat → Nat) (ys : List Obj) : Obj :=
  { secs := (outNames ys).map (outSec ys)
    defs := combDefsFrom cfg ys B O 0 ys
    rels := combRelsFrom B O 0 ys }

/-- wild's `-r`. -/
def combine (ys : List Obj) : Obj :=
  combineWith wildCfg (baseOf ys) (fun i j => outIdx ys (((ys[i]?).map (·.secName j)).getD 0)) ys

/-! ### Meaning of a link -/

/-- Address a relocation target denotes, given the addresses `q` of this object's sections and the
address `W` of every global name. -/
def targetAddr (q : Nat → Int) (W : Nat → Int) : Target → Int
  | .secSym s => q s
  | .localSym s v => q s + v
  | .glob n => W n

/-- (P, S + A) of one relocation. -/
def relValue (q : Nat → Int) (W : Nat → Int) (r : Rel) : Int × Int :=
  (q r.sec + r.off, targetAddr q W r.target + r.addend)

/-- All relocation sites of a link in input order: where each field lives and what it denotes,
under section placement `p` (object index → section index → address). -/
def meaningFrom (p : Nat → Nat → Int) (W : Nat → Int) : Nat → List Obj → List (Int × Int)
  | _, [] => []
  | k, o :: rest => o.rels.map (relValue (p k) W) ++ meaningFrom p W (k + 1) rest

/-- `D` gives the address of a definition identity; a global name denotes the address of the
definition selected for it. -/
def meaning (p : Nat → Nat → Int) (D : Nat → Int) (objs : List Obj) : List (Int × Int) :=
  meaningFrom p (fun n => D (winnerId objs n)) 0 objs

/-- Pieces of the sections called `nm`, in input order (init/fini order when `nm` is
`.init_array`/`.fini_array`). -/
def pieceOrder (objs : List Obj) (nm : Nat) : List Nat :=
  objs.flatMap fun o => (o.secs.filter (·.name == nm)).flatMap fun s => s.pieces.map (·.id)

/-! ### Local symbol renumbering (`build_sym_index_map`: `group_local_base += 1` per copied symbol) -/

/-- New index of local symbol `k` of file `i` when the per-file local tables are concatenated after
`nsec` section symbols. -/
def localIndex {α : Type} (nsec : Nat) (tables : List (List α)) (i k : Nat) : Nat :=
  nsec + ((tables.take i).map List.length).sum + k

end Wild.Partial
