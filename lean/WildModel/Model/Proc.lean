/-!
# Model of `libwild/src/subprocess.rs`, `wild/src/main.rs`, `error.rs::report_error_and_exit`

Fork / pipe / wait state machine of wild's "run the link in a forked worker" scheme, with the Linux
wait-status encoding. Core-only imports (the driver links this file).

What is modelled (mirrors the Rust; names follow the code):

* `main` (`wild/src/main.rs`): parse args, then either `run_in_subprocess` (fork mode, the default)
  or `libwild::run` in-process (`--no-fork`). An `Err` reaching `main` goes to
  `report_error_and_exit` = `std::process::exit(-1)`.
* `subprocess_result`: `make_pipe`; `fork()`:
  - `0` (child): `setup_tracing?; activate_thread_pool?; linker.run?; finalise_perfetto_trace?;
    inform_parent_done; Ok(0)`; then `run_in_subprocess` calls `std::process::exit(0)`; an `Err`
    goes to `report_error_and_exit`.
  - `-1` (fork failed): `crate::run(args)?; Ok(0)` in the parent itself.
  - `pid` (parent): `wait_for_child_done`.
* `wait_for_child_done`: `fread` of one byte from the pipe; `1` byte ⇒ `0`; EOF ⇒ `waitpid` and map
  the wait status to an exit code (`waitCode`, the fixed code; `waitCodeOld`, the code before the
  fix `c17-wifexited`, which returned `WEXITSTATUS(status)` unconditionally).
* the kernel: how the end of a process becomes a wait status (`End.status`), and the libc macros
  that take it apart (transcribed from libc 0.2 `src/unix/linux_like/mod.rs`).
* the Rust runtime: `exit(c)`; a panic on the main thread exits with 101; `abort` and
  `handle_alloc_error` raise SIGABRT.
-/
namespace Wild.Proc

/-! A wait status is a `c_int`: `BitVec 32` (no abbreviation, so that `bv_decide` sees the type). -/

/-! ## libc macros (libc crate, linux_like) -/

/-- `status & 0x7f` -/
def WTERMSIG (s : BitVec 32) : BitVec 32 := s &&& 0x7f
/-- `(status & 0x7f) == 0` -/
def WIFEXITED (s : BitVec 32) : Bool := (s &&& 0x7f) == 0
/-- `(status >> 8) & 0xff` (`>>` on `c_int` is an arithmetic shift) -/
def WEXITSTATUS (s : BitVec 32) : BitVec 32 := (s.sshiftRight 8) &&& 0xff
/-- `((status & 0x7f) + 1) as i8 >= 2` -/
def WIFSIGNALED (s : BitVec 32) : Bool := (2 : BitVec 8).sle (((s &&& 0x7f) + 1).setWidth 8)
/-- `(status & 0xff) == 0x7f` -/
def WIFSTOPPED (s : BitVec 32) : Bool := (s &&& 0xff) == 0x7f
/-- `(status & 0x80) != 0` -/
def WCOREDUMP (s : BitVec 32) : Bool := (s &&& 0x80) != 0
/-- `(ret << 8) | sig` -/
def W_EXITCODE (ret sig : BitVec 32) : BitVec 32 := (ret <<< (8 : Nat)) ||| sig

/-! ## Kernel: the end of a process and its wait status -/

/-- How a process ends. -/
inductive End where
  /-- `exit_group(code)`; only the low 8 bits of the code survive. -/
  | exited (code : BitVec 32)
  /-- killed by signal `sig` (default action terminate / core). -/
  | signaled (sig : BitVec 32) (core : Bool)
  deriving DecidableEq, Repr

/-- Linux wait status of an ended process (`kernel/exit.c`: `(code & 0xff) << 8` for exit, the signal
number, `| 0x80` if a core was dumped, for a fatal signal). -/
def End.status : End → BitVec 32
  | .exited code => W_EXITCODE (code &&& 0xff) 0
  | .signaled sig core => sig ||| (if core then 0x80 else 0)

/-- Signals that exist on Linux: `1 ..= 64`. -/
def validSig (sig : BitVec 32) : Bool := decide (1 ≤ sig.toNat ∧ sig.toNat ≤ 64)

/-- "The invoker sees exit status 0": it exited (was not signalled) with code 0. -/
def exitZero (e : End) : Bool := WIFEXITED e.status && WEXITSTATUS e.status == 0

def SIGABRT : BitVec 32 := 6
def SIGKILL : BitVec 32 := 9
def SIGSEGV : BitVec 32 := 11

/-! ## Faults -/

/-- What goes wrong. -/
inductive Kind where
  /-- an `Err` is propagated with `?` up to `report_error_and_exit` -/
  | error
  /-- a panic on the main thread (unwinding); the Rust runtime exits with status 101 -/
  | panic
  /-- `std::process::abort()` (also: a panic while panicking, a panic inside `rayon::spawn`) -/
  | abort (core : Bool)
  /-- allocation failure: `handle_alloc_error` prints a message and aborts -/
  | oom (core : Bool)
  /-- killed by a signal (SIGKILL from the OOM killer / the user, SIGSEGV, SIGBUS on a full disk, ...) -/
  | signal (sig : BitVec 32) (core : Bool)
  deriving DecidableEq, Repr

/-- Where in the worker's straight-line code the fault strikes. -/
inductive Loc where
  /-- before `Linker::run` has returned; `written` says whether the write phase
  (`file_writer::Output::write`: contents, flush, chmod, unmap) had already finished -/
  | inRun (written : Bool)
  /-- `Linker::run` returned `Ok` (hence written), the done byte has not been sent
  (`finalise_perfetto_trace` fails, or the process dies right before `inform_parent_done`) -/
  | afterRun
  /-- after `inform_parent_done` (background shutdown of the worker) -/
  | afterInform
  deriving DecidableEq, Repr

structure Fault where
  kind : Kind
  loc : Loc
  deriving DecidableEq, Repr

/-- `report_error_and_exit`: `std::process::exit(-1)`. -/
def reportErrorAndExit : End := .exited (-1)

/-- How the process that runs the link ends when the fault strikes it. -/
def Kind.end : Kind → End
  | .error => reportErrorAndExit
  | .panic => .exited 101
  | .abort core => .signaled SIGABRT core
  | .oom core => .signaled SIGABRT core
  | .signal sig core => .signaled sig core

def Kind.wf : Kind → Bool
  | .signal sig _ => validSig sig
  | _ => true

/-- Did the write phase finish before the fault? -/
def Loc.written : Loc → Bool
  | .inRun w => w
  | .afterRun => true
  | .afterInform => true

/-! ## The forked child -/

/-- What the parent can observe of the child. -/
structure ChildObs where
  /-- the done byte was written to the pipe before the pipe's write end was closed -/
  byteSent : Bool
  «end» : End
  deriving DecidableEq, Repr

/-- Child arm of `subprocess_result`. Without a fault: `inform_parent_done`, `Ok(0)`,
`std::process::exit(0)`. With a fault the byte has been sent iff the fault strikes after
`inform_parent_done`. -/
def child : Option Fault → ChildObs
  | none => ⟨true, .exited 0⟩
  | some f => ⟨f.loc == .afterInform, f.kind.end⟩

/-! ## The parent -/

/-- EOF branch of `wait_for_child_done` after fix `c17-wifexited`. -/
def waitCode (status : BitVec 32) : BitVec 32 :=
  if WIFEXITED status then WEXITSTATUS status
  else if WIFSIGNALED status then 128 + WTERMSIG status
  else 1

/-- EOF branch of `wait_for_child_done` before the fix. -/
def waitCodeOld (status : BitVec 32) : BitVec 32 := WEXITSTATUS status

/-- `wait_for_child_done`: `fread` returns 1 iff the child sent the byte (the parent has closed its
own copy of the write end, so EOF arrives as soon as the child has exited or died). -/
def waitForChildDone (wc : BitVec 32 → BitVec 32) (c : ChildObs) : BitVec 32 :=
  if c.byteSent then 0 else wc c.end.status

/-- What `main` does after argument parsing. -/
inductive Setup where
  /-- `--no-fork`: `libwild::run` in-process -/
  | noFork
  /-- `make_pipe` failed: `Err` → `report_error_and_exit` -/
  | pipeFailed
  /-- `fork()` returned -1: fall back to `crate::run` in-process, then `exit(0)` -/
  | forkFailed
  /-- `fork()` succeeded -/
  | forked
  deriving DecidableEq, Repr

structure Scenario where
  setup : Setup
  fault : Option Fault
  deriving DecidableEq, Repr

def Scenario.wf (sc : Scenario) : Bool :=
  match sc.fault with
  | none => true
  | some f => f.kind.wf

/-- The link runs in the top-level process itself (`libwild::run`): `Ok` ⇒ exit 0 (return from
`main`, or `std::process::exit(0)` in the fork-failed fallback); a fault ends the process. -/
def inProcess : Option Fault → End
  | none => .exited 0
  | some f => f.kind.end

/-- End of the top-level `wild` process, as its invoker (make, cc, a shell) sees it. -/
def topEndWith (wc : BitVec 32 → BitVec 32) (sc : Scenario) : End :=
  match sc.setup with
  | .noFork => inProcess sc.fault
  | .pipeFailed => reportErrorAndExit
  | .forkFailed => inProcess sc.fault
  | .forked => .exited (waitForChildDone wc (child sc.fault))   -- `std::process::exit(exit_code)`

def topEnd : Scenario → End := topEndWith waitCode
def topEndOld : Scenario → End := topEndWith waitCodeOld

/-- `libwild::run` / `Linker::run` + shutdown returned `Ok` in the process that ran the link. -/
def runOk (sc : Scenario) : Bool := sc.setup != .pipeFailed && sc.fault.isNone

/-- Python-`subprocess`-style return code of an `End`: exit code, or minus the signal number. -/
def End.returncode : End → Int
  | .exited code => ((code &&& 0xff).toNat : Int)
  | .signaled sig _ => - (sig.toNat : Int)

end Wild.Proc
