import WildModel.Model.Proc
/-!
# Spec side of C17 (what the property demands), kept apart from the code model `Model/Proc.lean`

Core-only so that the driver can print the predictions. These definitions look only at *where* the
fault struck, never at what the parent computes.
-/
namespace Wild.Proc

/-- Spec: the output file is complete (written, flushed, made executable, unmapped). -/
def outputComplete (sc : Scenario) : Bool :=
  match sc.setup, sc.fault with
  | .pipeFailed, _ => false
  | _, none => true
  | _, some f => f.loc.written

/-- Spec: the link failed before the process running it could report success. -/
def failedBeforeDone (sc : Scenario) : Bool :=
  match sc.setup, sc.fault with
  | .pipeFailed, _ => true
  | _, none => false
  | .forked, some f => f.loc != .afterInform
  | _, some _ => true

end Wild.Proc
