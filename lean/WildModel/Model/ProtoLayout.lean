/-
Model of the parallel graph traversal of libwild/src/layout.rs (`find_required_sections`):
`GraphResources::send_work`, `LocalWorkQueue::send_work`, `GroupState::do_pending_work`,
`GroupActivationInputs::activate_group`, `activations_remaining` / `delay_processing`, the error path.

Interleaving small-step semantics. One transition = one ATOMIC block of the real code:

* `activate g`    the rayon task spawned by `queue_initial_group_processing` for group `g` starts; the
                  requests issued by `activate` (`roots g`) become its outbox.
* `claim g`       `per_symbol_flags.get_atomic(sym).fetch_or(..)` of the sender: test-and-set of the
                  symbol's "requested" flag. Flag already set -> the request is not sent.
* `send g`        the head request of the task that owns `g`:
                  - `LocalWorkQueue::send_work` with `file_id.group() == self.index`, or a direct
                    `queue.local_work.push`: push on the task's local queue;
                  - `GraphResources::send_work`: `[lock slot[to]; worker = slot.worker.take();
                    slot.work.push(item); unlock]`, then `scope.spawn(worker.do_pending_work)` if a
                    parked worker was taken. The closure owns the `GroupState` from the moment of the
                    `take`, so the spawned task exists (is schedulable) from that step on.
* `pop g i`       `self.queue.local_work.pop()` + the sequential part of `do_work` that decides what
                  the item generates (a section already `Loaded` generates nothing).
* `parkOrSwap g`  `[lock slot[g]; if slot.work.is_empty() { slot.worker = Some(self); return }
                  swap(slot.work, local_work); unlock]`.
* `delay g`       `resources.delay_processing.push(group)` (group holding `SyntheticSymbols`).
* `finish`        `activations_remaining.fetch_sub(1) - 1`; when it reaches 0 the delayed group is
                  popped and the same task runs `do_pending_work` on it.
* `error g`       `do_work` returned `Err`: `report_error`, the `GroupState` is dropped (never parked).

Abstractions (see scratch/c39/REPORT.md): rayon = any existing task may take the next step and the
scope ends only when no task is left; `Mutex`/atomics are sequentially consistent; the local queue is
a multiset (the code pops LIFO; the model lets any element be popped, a superset of behaviours).
Core-only imports.
-/
namespace Wild.ProtoLayout

abbrev Group := Nat
abbrev Item := Nat

/-- One request produced while processing an item. `direct = true`: sent with
`GraphResources::send_work` (always through the slot, even to the own group: `__start_`/`__stop_`
requests of the synthetic-symbols file); `direct = false`: `LocalWorkQueue::send_work` /
`local_work.push` (own group => local queue). -/
structure Req where
  to : Group
  item : Item
  direct : Bool
  deriving DecidableEq, Repr, Inhabited

/-- The abstract finite request graph. -/
structure Graph where
  numGroups : Nat
  numItems : Nat
  /-- requests generated when the item is processed with effect -/
  gen : Item → List Req
  /-- requests issued by the activation of a group -/
  roots : Group → List Req
  /-- item is a symbol request (`LoadGlobalSymbol`, `CopyRelocateSymbol`): deduplicated by the
  sender with an atomic `fetch_or` on the symbol's flags, so it is sent at most once. Other items
  (`LoadSection`) are deduplicated by the receiver (section slot already `Loaded`). -/
  once : Item → Bool
  /-- the group that contains the `SyntheticSymbols` file -/
  delayedGroup : Option Group

def Graph.valid (G : Graph) (r : Req) : Bool := decide (r.to < G.numGroups)

/-- Requests of an item; items outside the universe are inert, requests to non-existent groups do not
exist (`worker_slots[file_id.group()]` would panic). -/
def Graph.genOf (G : Graph) (i : Item) : List Req :=
  if i < G.numItems then (G.gen i).filter G.valid else []

def Graph.rootsOf (G : Graph) (g : Group) : List Req := (G.roots g).filter G.valid

def Graph.isOnce (G : Graph) (i : Item) : Bool := decide (i < G.numItems) && G.once i

def Graph.isDelayed (G : Graph) (g : Group) : Bool := G.delayedGroup == some g

/-- A running (or spawned, not yet started) task inside `do_pending_work`/`activate_group`, owning
the `GroupState` of group `g`. `outbox`: requests of the item being processed that are not yet
sent, each with a flag "already claimed by `fetch_or`". `act`: the task is the activation task of
`g` (it still has to run the `activations_remaining` epilogue). -/
structure Worker where
  g : Group
  localq : List Item
  outbox : List (Req × Bool)
  act : Bool
  deriving DecidableEq, Repr, Inhabited

structure State where
  /-- groups whose activation task has not started yet -/
  unborn : List Group
  workers : List Worker
  /-- activation tasks that returned from `do_pending_work` / pushed to `delay_processing` and
  have not yet executed `fetch_sub` -/
  finishing : Nat
  /-- union of all `slot.work` vectors, tagged with the slot index -/
  pending : List (Group × Item)
  /-- slots with `worker = Some(..)` (a parked worker always has an empty local queue) -/
  parked : List Group
  /-- content of `delay_processing` (group and its local queue) -/
  delayed : Option (Group × List Item)
  actRemaining : Nat
  /-- symbols whose flags have been set by some sender -/
  flagged : List Item
  /-- every item popped so far (ghost; for receiver-dedup items this is the `Loaded` state) -/
  processed : List Item
  /-- group states dropped on the error path -/
  dropped : List Group
  /-- `resources.errors` is non-empty -/
  failed : Bool
  deriving Repr, Inhabited

def init (G : Graph) : State :=
  { unborn := List.range G.numGroups, workers := [], finishing := 0, pending := [], parked := [],
    delayed := none, actRemaining := G.numGroups, flagged := [], processed := [], dropped := [],
    failed := false }

inductive Event
  | activate (g : Group)
  | claim (g : Group)
  | send (g : Group)
  | pop (g : Group) (i : Item)
  | parkOrSwap (g : Group)
  | delay (g : Group)
  | finish
  | error (g : Group)
  deriving DecidableEq, Repr, Inhabited

/-- Remove the first worker that owns group `g`. -/
def takeWorker (g : Group) : List Worker → Option (Worker × List Worker)
  | [] => none
  | w :: ws =>
    if w.g = g then some (w, ws) else
      match takeWorker g ws with
      | some (w', rest) => some (w', w :: rest)
      | none => none

def needsClaim (G : Graph) (t : Req × Bool) : Bool := G.isOnce t.1.item && !t.2

def tag (rs : List Req) : List (Req × Bool) := rs.map (fun r => (r, false))

/-- the task must not enter the work loop: it is the activation task of the delayed group -/
def mustDelay (G : Graph) (w : Worker) : Bool := w.act && G.isDelayed w.g

def stepActivate (G : Graph) (s : State) (g : Group) : Option State :=
  if g ∈ s.unborn then
    some { s with unborn := s.unborn.erase g,
                  workers := ⟨g, [], tag (G.rootsOf g), true⟩ :: s.workers }
  else none

def stepClaim (G : Graph) (s : State) (g : Group) : Option State :=
  match takeWorker g s.workers with
  | some (w, rest) =>
    match w.outbox with
    | (r, c) :: ob =>
      if needsClaim G (r, c) then
        if r.item ∈ s.flagged then
          some { s with workers := { w with outbox := ob } :: rest }
        else
          some { s with workers := { w with outbox := (r, true) :: ob } :: rest,
                        flagged := r.item :: s.flagged }
      else none
    | [] => none
  | none => none

def stepSend (G : Graph) (s : State) (g : Group) : Option State :=
  match takeWorker g s.workers with
  | some (w, rest) =>
    match w.outbox with
    | (r, c) :: ob =>
      if needsClaim G (r, c) then none
      else if !r.direct && r.to == w.g then
        some { s with workers := { w with outbox := ob, localq := r.item :: w.localq } :: rest }
      else if r.to < G.numGroups then
        if r.to ∈ s.parked then
          some { s with workers := ⟨r.to, [], [], false⟩ :: { w with outbox := ob } :: rest,
                        parked := s.parked.erase r.to,
                        pending := (r.to, r.item) :: s.pending }
        else
          some { s with workers := { w with outbox := ob } :: rest,
                        pending := (r.to, r.item) :: s.pending }
      else
        some { s with workers := { w with outbox := ob } :: rest }
    | [] => none
  | none => none

def stepPop (G : Graph) (s : State) (g : Group) (i : Item) : Option State :=
  match takeWorker g s.workers with
  | some (w, rest) =>
    if w.outbox = [] ∧ i ∈ w.localq ∧ mustDelay G w = false then
      let out := if !G.isOnce i && decide (i ∈ s.processed) then [] else tag (G.genOf i)
      some { s with workers := { w with localq := w.localq.erase i, outbox := out } :: rest,
                    processed := i :: s.processed }
    else none
  | none => none

def mine (g : Group) (p : Group × Item) : Bool := p.1 == g

def stepParkOrSwap (G : Graph) (s : State) (g : Group) : Option State :=
  match takeWorker g s.workers with
  | some (w, rest) =>
    if w.outbox = [] ∧ w.localq = [] ∧ mustDelay G w = false then
      if (s.pending.filter (mine w.g)) = [] then
        some { s with workers := rest, parked := w.g :: s.parked,
                      finishing := s.finishing + (if w.act then 1 else 0) }
      else
        some { s with workers := { w with localq := (s.pending.filter (mine w.g)).map (·.2) } :: rest,
                      pending := s.pending.filter (fun p => !mine w.g p) }
    else none
  | none => none

def stepDelay (G : Graph) (s : State) (g : Group) : Option State :=
  match takeWorker g s.workers with
  | some (w, rest) =>
    if w.outbox = [] ∧ mustDelay G w = true then
      some { s with workers := rest, delayed := some (w.g, w.localq), finishing := s.finishing + 1 }
    else none
  | none => none

def stepFinish (_G : Graph) (s : State) : Option State :=
  if 0 < s.finishing then
    if s.actRemaining - 1 = 0 then
      match s.delayed with
      | some (d, lq) =>
        some { s with finishing := s.finishing - 1, actRemaining := s.actRemaining - 1,
                      delayed := none, workers := ⟨d, lq, [], false⟩ :: s.workers }
      | none => some { s with finishing := s.finishing - 1, actRemaining := s.actRemaining - 1 }
    else some { s with finishing := s.finishing - 1, actRemaining := s.actRemaining - 1 }
  else none

def stepError (_G : Graph) (s : State) (g : Group) : Option State :=
  match takeWorker g s.workers with
  | some (w, rest) =>
    some { s with workers := rest, dropped := w.g :: s.dropped, failed := true,
                  finishing := s.finishing + (if w.act then 1 else 0) }
  | none => none

/-- The executable transition function. -/
def step? (G : Graph) (s : State) : Event → Option State
  | .activate g => stepActivate G s g
  | .claim g => stepClaim G s g
  | .send g => stepSend G s g
  | .pop g i => stepPop G s g i
  | .parkOrSwap g => stepParkOrSwap G s g
  | .delay g => stepDelay G s g
  | .finish => stepFinish G s
  | .error g => stepError G s g

def enabled (G : Graph) (s : State) (e : Event) : Bool := (step? G s e).isSome

/-- The events a scheduler can choose from in `s` (complete up to the choice of the popped item and
the error events; used by `Terminal` and by the explicit-state exploration). -/
def candidates (s : State) : List Event :=
  s.unborn.map .activate ++
  (if 0 < s.finishing then [.finish] else []) ++
  s.workers.flatMap (fun w =>
    [.claim w.g, .send w.g, .parkOrSwap w.g, .delay w.g, .error w.g] ++ w.localq.map (.pop w.g))

/-- No task can take a step: the rayon scope ends. -/
def Terminal (G : Graph) (s : State) : Prop := ∀ e, step? G s e = none

/-- Executable terminal test (equivalent to `Terminal`, see `Props/C39.lean`). -/
def isTerminal (s : State) : Bool := s.unborn.isEmpty && s.workers.isEmpty && s.finishing == 0

/-- What `find_required_sections` returns: `Err` iff the error list is non-empty. -/
def linkFails (s : State) : Bool := s.failed

/-- All slots empty, every group state back in its slot, nothing delayed: the state in which
`unwrap_worker_states` finds every `GroupState`. -/
def quiescent (G : Graph) (s : State) : Bool :=
  s.pending.isEmpty && s.delayed.isNone && s.dropped.isEmpty &&
  (List.range G.numGroups).all (fun g => s.parked.contains g)

/-- The owners of group states, one entry per `GroupState` value in existence (or not yet created). -/
def delayedOwner : Option (Group × List Item) → List Group
  | some (d, _) => [d]
  | none => []

def owners (s : State) : List Group :=
  s.unborn ++ (s.workers.map (·.g) ++ (s.parked ++ (delayedOwner s.delayed ++ s.dropped)))

/-- Runs a list of events. -/
def run (G : Graph) (s : State) : List Event → Option State
  | [] => some s
  | e :: es => match step? G s e with
    | some s' => run G s' es
    | none => none

/-- Executable form of the state invariant proved in `Props/C39.lean` (`Inv`); evaluated by the
trace replay after every event. -/
def invCheck (G : Graph) (s : State) : Bool :=
  -- S1: every group state has exactly one owner
  (owners s).length == G.numGroups && (List.range G.numGroups).all (fun g => (owners s).contains g) &&
  -- activation counter
  s.actRemaining == s.unborn.length + (s.workers.filter (·.act)).length + s.finishing &&
  -- I: pending work in a slot implies that the slot has no parked worker
  s.pending.all (fun p => decide (p.1 < G.numGroups) && !s.parked.contains p.1) &&
  -- the delayed group waits for somebody who will decrement the counter
  (match s.delayed with | some (d, _) => G.isDelayed d && decide (0 < s.actRemaining) | none => true) &&
  -- a dropped group state means the link fails
  (s.dropped.isEmpty || s.failed)

end Wild.ProtoLayout
