/-
Model of the concurrency protocol of libwild/src/string_merging.rs (`add_input_sections`):
`try_spawn_input_processing` / `ReusePool::{try_reserve, unreserve, return_strings_to_merge}` /
`process_input_section_group` / `work_with_bucket`. Interleaving small-step semantics; every access
to a shared object (the `available` atomic, the `unprocessed` queue, one slot mutex, the
`finished_buckets` queue) is one atomic transition. Hand-written; tied to the code by trace
conformance (T4): the hooked `wild` records the linearised sequence of these operations and
`pm-replay` (Driver/OpsProtoMerge.lean) replays it through `step?`.

Parameters: `G` input groups (`num_input_groups`), `B` hash buckets (`MERGE_STRING_BUCKETS`, also the
size of one reservation: `try_reserve(MERGE_STRING_BUCKETS)`), `P` = split parallelism;
`ReusePool.capacity = B * P`.

Tasks (rayon jobs; any live task may take the next step):
* the scope body ("main"): runs `try_spawn_input_processing` once;
* input tasks: spawned with a reservation of `B` vectors; `pop` the queue; with a group `g` they
  take the `B` vectors (`remaining = 0`), split + hash (local, not modelled), then `swap` slot
  `(g, 0) … (g, B-1)` to `Strings`, spawning the bucket task found `WaitingForStrings`; without a
  group they `unreserve(B)`;
* bucket task `b` with `next_input_group_index = n`: `take` slot `(n, b)`: `Strings` -> process
  (local) -> `fetch_add(1)` (`ret`) -> `try_spawn_input_processing` (`load`, `cas` …) -> `n + 1`;
  anything else -> park the bucket in the slot as `WaitingForStrings` and end; `n = G` -> `finish`.

Abstractions (stated, not proved): rayon = "any live task may step, `scope.spawn` makes the task
live at once"; `Mutex`/atomics are sequentially consistent (the code uses `Relaxed`; the hooked
binary serialises the instrumented operations); Rust ownership: a `SectionGroup` / a
`Box<MergeStringsSectionBucket>` has exactly one owner, so task-local state is indexed by group /
by bucket (`grp`, `bkt`); the string contents (C07) and the error path (`?` after the vectors were
taken) are not modelled; `unreserve(0)` touches nothing and is not a transition.
-/
namespace Wild.ProtoMerge

structure Cfg where
  G : Nat
  B : Nat
  P : Nat
  deriving DecidableEq, Repr

def Cfg.cap (c : Cfg) : Nat := c.B * c.P

/-- `StringsSlot`; `waiting b n` = `WaitingForStrings(bucket)` with `bucket.index = b`,
`bucket.next_input_group_index = n`. -/
inductive Slot where
  | empty
  | waiting (b n : Nat)
  | strings
  deriving DecidableEq, Repr

/-- Position inside the loop of `try_spawn_input_processing` / `try_reserve`. -/
inductive Sp where
  | load                -- about to `available.load`
  | cas (seen : Nat)    -- loaded `seen ≥ B`, about to `compare_exchange(seen, seen - B)`
  deriving DecidableEq, Repr

inductive MainSt where
  | run (sp : Sp)
  | done
  deriving DecidableEq, Repr

/-- Where the `SectionGroup` g is. -/
inductive GrpSt where
  | queued              -- still in `unprocessed`
  | inTask (i : Nat)    -- owned by an input task that swaps slot (g, i) next
  | done                -- delivered to every bucket, task finished
  deriving DecidableEq, Repr

/-- Where the `Box<MergeStringsSectionBucket>` b is. -/
inductive BktSt where
  | parked (n : Nat)            -- inside slot (n, b) as `WaitingForStrings`; no task
  | head (n : Nat)              -- task at the `while` head with `next_input_group_index = n`
  | proc (n : Nat)              -- task holds the strings of group n (about to `fetch_add(1)`)
  | spawning (n : Nat) (sp : Sp) -- task inside `try_spawn_input_processing` after group n
  | fin                         -- pushed to `finished_buckets`
  deriving DecidableEq, Repr

inductive Owner where
  | main
  | bkt (b n : Nat)
  deriving DecidableEq, Repr

inductive Event where
  | load (o : Owner) (a : Nat)
  | cas (o : Owner) (seen : Nat) (ok : Bool)
  | pop (r : Option Nat)
  | swap (g i : Nat) (prev : Slot)
  | unres (r : Nat)
  | take (b n : Nat) (found : Slot)
  | ret (b n : Nat)
  | finish (b n : Nat)
  deriving DecidableEq, Repr

structure State where
  available : Nat
  unprocessed : List Nat          -- FIFO, head is popped next
  slot : Nat → Nat → Slot         -- `strings_by_bucket_and_group[g * B + b]`
  main : MainSt
  grp : Nat → GrpSt
  bkt : Nat → BktSt
  nPop : Nat                      -- input tasks holding a full reservation, about to `pop`
  nUnres : Nat                    -- input tasks that popped `None`, about to `unreserve(B)`
  finished : List Nat             -- `finished_buckets`
  hist : Nat → List Nat           -- ghost: groups consumed by bucket b, oldest first

def upd {α : Type} (f : Nat → α) (i : Nat) (v : α) : Nat → α := fun j => if j = i then v else f j

def upd2 {α : Type} (f : Nat → Nat → α) (i j : Nat) (v : α) : Nat → Nat → α :=
  fun x y => if x = i ∧ y = j then v else f x y

/-- `string_bucket_offset`; the model indexes slots by the pair, which is the same thing: -/
def flatIndex (B g b : Nat) : Nat := g * B + b

theorem flatIndex_inj {B g b g' b' : Nat} (hb : b < B) (hb' : b' < B)
    (h : flatIndex B g b = flatIndex B g' b') : g = g' ∧ b = b' := by
  unfold flatIndex at h
  have h1 : (g * B + b) / B = g := by
    rw [Nat.mul_comm, Nat.mul_add_div (by omega), Nat.div_eq_of_lt hb]; omega
  have h2 : (g' * B + b') / B = g' := by
    rw [Nat.mul_comm, Nat.mul_add_div (by omega), Nat.div_eq_of_lt hb']; omega
  have hg : g = g' := by rw [← h1, ← h2, h]
  subst hg
  exact ⟨rfl, by omega⟩

/-- State built by `create_split_resources`: every bucket waits at group 0. -/
def init (c : Cfg) : State where
  available := c.cap
  unprocessed := List.range c.G
  slot := fun g b => if g = 0 ∧ b < c.B then .waiting b 0 else .empty
  main := .run .load
  grp := fun _ => .queued
  bkt := fun b => if b < c.B then .parked 0 else .fin
  nPop := 0
  nUnres := 0
  finished := []
  hist := fun _ => []

def getSp (s : State) : Owner → Option Sp
  | .main => match s.main with
    | .run sp => some sp
    | .done => none
  | .bkt b n => match s.bkt b with
    | .spawning n' sp => if n' = n then some sp else none
    | _ => none

def setSp (s : State) (o : Owner) (sp : Sp) : State :=
  match o with
  | .main => { s with main := .run sp }
  | .bkt b n => { s with bkt := upd s.bkt b (.spawning n sp) }

/-- `try_reserve` returned `Err`: `try_spawn_input_processing` returns; the scope body ends, a
bucket task advances (`next_input_group_index += 1`) and goes back to the `while` head. -/
def exitSp (s : State) (o : Owner) : State :=
  match o with
  | .main => { s with main := .done }
  | .bkt b n => { s with bkt := upd s.bkt b (.head (n + 1)) }

/-- One atomic transition; `none` = the event is not enabled in `s` (wrong task state or the
observed value differs from the model state). -/
def step? (c : Cfg) (s : State) : Event → Option State
  | .load o a =>
    if getSp s o = some .load ∧ a = s.available then
      some (if a < c.B then exitSp s o else setSp s o (.cas a))
    else none
  | .cas o seen ok =>
    if getSp s o = some (.cas seen) ∧ ok = decide (seen = s.available) then
      some (if ok then setSp { s with available := seen - c.B, nPop := s.nPop + 1 } o .load
            else exitSp s o)
    else none
  | .pop r =>
    if 0 < s.nPop ∧ r = s.unprocessed.head? then
      match s.unprocessed with
      | [] => some { s with nPop := s.nPop - 1, nUnres := s.nUnres + 1 }
      | g :: rest => some { s with nPop := s.nPop - 1, unprocessed := rest, grp := upd s.grp g (.inTask 0) }
    else none
  | .swap g i prev =>
    if s.grp g = .inTask i ∧ i < c.B ∧ prev = s.slot g i then
      let s1 := { s with slot := upd2 s.slot g i .strings,
                         grp := upd s.grp g (if i + 1 = c.B then .done else .inTask (i + 1)) }
      some (match prev with
            | .waiting b n => { s1 with bkt := upd s1.bkt b (.head n) }
            | _ => s1)
    else none
  | .unres r =>
    if r = c.B ∧ 0 < s.nUnres then
      some { s with nUnres := s.nUnres - 1, available := s.available + c.B }
    else none
  | .take b n found =>
    if s.bkt b = .head n ∧ n < c.G ∧ found = s.slot n b then
      some (match found with
            | .strings => { s with slot := upd2 s.slot n b .empty, bkt := upd s.bkt b (.proc n),
                                   hist := upd s.hist b (s.hist b ++ [n]) }
            | _ => { s with slot := upd2 s.slot n b (.waiting b n), bkt := upd s.bkt b (.parked n) })
    else none
  | .ret b n =>
    if s.bkt b = .proc n then
      some { s with available := s.available + 1, bkt := upd s.bkt b (.spawning n .load) }
    else none
  | .finish b n =>
    if s.bkt b = .head n ∧ ¬ n < c.G then
      some { s with bkt := upd s.bkt b .fin, finished := s.finished ++ [b] }
    else none

def spEvents (s : State) (o : Owner) : Sp → List Event
  | .load => [.load o s.available]
  | .cas seen => [.cas o seen (decide (seen = s.available))]

/-- All events enabled in `s` (for buckets `< B`, groups `< G`). -/
def enabled (c : Cfg) (s : State) : List Event :=
  (match s.main with
    | .run sp => spEvents s .main sp
    | .done => [])
  ++ (List.range c.B).flatMap (fun b =>
      match s.bkt b with
      | .head n => if n < c.G then [.take b n (s.slot n b)] else [.finish b n]
      | .proc n => [.ret b n]
      | .spawning n sp => spEvents s (.bkt b n) sp
      | _ => [])
  ++ (List.range c.G).flatMap (fun g =>
      match s.grp g with
      | .inTask i => if i < c.B then [.swap g i (s.slot g i)] else []
      | _ => [])
  ++ (if 0 < s.nPop then [.pop s.unprocessed.head?] else [])
  ++ (if 0 < s.nUnres then [.unres c.B] else [])

/-- Number of groups consumed by the bucket in this state. -/
def cnt (c : Cfg) : BktSt → Nat
  | .parked n => n
  | .head n => n
  | .proc n => n + 1
  | .spawning n _ => n + 1
  | .fin => c.G

/-- Replay result. -/
inductive Verdict where
  | ok (n : Nat)
  | reject (i : Nat)
  | broken (i : Nat)
  deriving DecidableEq, Repr

/-- Executable state invariant checked after every replayed event (a cheap projection of the proved
invariant: bounds, FIFO content of the queue, per-bucket history, cell contents of the touched
row/column are checked by `checkCells`). -/
def checkLight (c : Cfg) (s : State) : Bool :=
  let k := c.G - s.unprocessed.length
  decide (s.unprocessed = List.range' k (c.G - k))
  && decide (s.available + c.B * (s.nPop + s.nUnres) ≤ c.cap)
  && (List.range c.B).all (fun b => decide (s.hist b = List.range (cnt c (s.bkt b))) && decide (cnt c (s.bkt b) ≤ c.G))

def deliv : GrpSt → Nat → Bool
  | .queued, _ => false
  | .inTask i, b => decide (b < i)
  | .done, _ => true

/-- What slot (g, b) must contain, as a function of the task states. -/
def cellSpec (c : Cfg) (s : State) (g b : Nat) : Slot :=
  if g < cnt c (s.bkt b) then .empty
  else if deliv (s.grp g) b then .strings
  else if s.bkt b = .parked g then .waiting b g
  else .empty

/-- Vector (g, b) is out of the pool: group g was popped and bucket b has not returned it. -/
def tok (c : Cfg) (s : State) (g b : Nat) : Nat :=
  if s.grp g = .queued then 0
  else if g < cnt c (s.bkt b) ∧ s.bkt b ≠ .proc g then 0
  else 1

def sumTo : Nat → (Nat → Nat) → Nat
  | 0, _ => 0
  | n + 1, f => sumTo n f + f n

def sum2 (G B : Nat) (f : Nat → Nat → Nat) : Nat := sumTo G (fun g => sumTo B (f g))

/-- Full executable invariant (all cells, accounting); O(G·B) per call. -/
def checkFull (c : Cfg) (s : State) : Bool :=
  checkLight c s
  && (List.range c.G).all (fun g => (List.range c.B).all (fun b => decide (s.slot g b = cellSpec c s g b)))
  && decide (s.available + c.B * (s.nPop + s.nUnres) + sum2 c.G c.B (tok c s) = c.cap)

/-- Re-tabulates the function-valued fields on the grid `g < G`, `b < B` (arrays instead of chains of
`upd`). Extensionally the identity; only used by the replay driver to keep look-ups cheap. -/
def compact (c : Cfg) (s : State) : State :=
  let slotA := Array.ofFn (n := c.G * c.B) (fun i => s.slot (i.val / c.B) (i.val % c.B))
  let grpA := Array.ofFn (n := c.G) (fun i => s.grp i.val)
  let bktA := Array.ofFn (n := c.B) (fun i => s.bkt i.val)
  let histA := Array.ofFn (n := c.B) (fun i => s.hist i.val)
  { s with
    slot := fun g b => if g < c.G ∧ b < c.B then slotA.getD (g * c.B + b) .empty else s.slot g b
    grp := fun g => if g < c.G then grpA.getD g .queued else s.grp g
    bkt := fun b => if b < c.B then bktA.getD b .fin else s.bkt b
    hist := fun b => if b < c.B then histA.getD b [] else s.hist b }

/-- Replays `es` from `s`; after event number `i` the light invariant is checked, and the full one
when `period > 0` and `period` divides `i + 1`. -/
def replayAux (c : Cfg) (period : Nat) : State → List Event → Nat → Verdict × State
  | s, [], i => (.ok i, s)
  | s, e :: es, i =>
    match step? c s e with
    | none => (.reject i, s)
    | some s' =>
      let s' := if (i + 1) % 64 = 0 then compact c s' else s'
      if (if period > 0 ∧ (i + 1) % period = 0 then checkFull c s' else checkLight c s') then
        replayAux c period s' es (i + 1)
      else (.broken i, s')

def replay (c : Cfg) (period : Nat) (es : List Event) : Verdict × State :=
  replayAux c period (init c) es 0

/-- Terminal-state predicate (executable): nothing enabled, every bucket finished, pool full. -/
def terminalGood (c : Cfg) (s : State) : Bool :=
  (enabled c s).isEmpty
  && (List.range c.B).all (fun b => decide (s.bkt b = .fin) && decide (s.hist b = List.range c.G))
  && decide (s.available = c.cap) && decide (s.unprocessed = []) && decide (s.finished.length = c.B)

end Wild.ProtoMerge
