import WildModel.Gen.RelocTables
import WildModel.Model.Insn
/-
Model of linker-utils/src/elf.rs: `AllowedRange::{new, no_check, from_bit_size, from_byte_size, contains}`,
`RelocationKindInfo::{verify, write_to_buffer}` (alignment test, range test, little-endian truncating
byte write, ULEB128 branch, bit-mask branch through the instruction encoders of `Model/Insn.lean`).
Hand-written mirror of the Rust; tied to the code by the correspondences `range-from-bits`,
`range-contains`, `reloc-write` (wvh vs wmdriver) with the rows taken from the REGENERATED tables
`Gen/RelocTables.lean`.  Core-only imports.
-/
namespace Wild.Reloc
open Wild.Gen

def I64_MIN : Int := -9223372036854775808
def I64_MAX : Int := 9223372036854775807

/-- `AllowedRange { min, max }` (half open, `i64`) -/
structure AllowedRange where
  min : Int
  max : Int
  deriving DecidableEq, Repr

/-- `AllowedRange::no_check()` = `new(i64::MIN, i64::MAX)` -/
def noCheck : AllowedRange := ⟨I64_MIN, I64_MAX⟩

inductive Sign where
  | signed | unsigned
  deriving DecidableEq, Repr

/-- `AllowedRange::from_bit_size(n_bits, sign)`; `none` = the two `panic!`s. -/
def fromBitSize (n : Nat) (s : Sign) : Option AllowedRange :=
  if n = 0 ∨ n = 64 then some noCheck
  else if n = 63 ∧ s = .unsigned then none
  else if n < 64 then
    match s with
    | .unsigned => some ⟨0, 2 ^ n⟩
    | .signed => some ⟨-(2 ^ (n - 1)), 2 ^ (n - 1)⟩
  else none

/-- `AllowedRange::from_byte_size` -/
def fromByteSize (n : Nat) (s : Sign) : Option AllowedRange := fromBitSize (8 * n) s

/-- `AllowedRange::contains(value: i64)` — current code (fix c12-range-i64-max): `max` is exclusive,
except that `i64::MAX` (the bound of `no_check`) means "no upper bound". -/
def contains (r : AllowedRange) (v : Int) : Bool :=
  decide (r.min ≤ v) && (decide (v < r.max) || decide (r.max = I64_MAX))

/-- `contains` before the fix: `no_check()` rejected the value `i64::MAX`. -/
def containsUnfixed (r : AllowedRange) (v : Int) : Bool :=
  decide (r.min ≤ v) && decide (v < r.max)

inductive Verdict where
  | ok | errAlign | errRange | errBounds
  deriving DecidableEq, Repr

/-- `usize::is_multiple_of` -/
def isMultipleOf (x a : Nat) : Bool := if a = 0 then x == 0 else x % a == 0

/-- `RelocationKindInfo::verify(value as i64)`: first the alignment test on `value as usize`,
then the range test on the `i64` reading. -/
def verify (r : RelocRow) (v : BitVec 64) : Verdict :=
  if !isMultipleOf v.toNat r.alignment then .errAlign
  else if !contains ⟨r.min, r.max⟩ v.toInt then .errRange
  else .ok

def accept (r : RelocRow) (v : BitVec 64) : Bool := verify r v == .ok

/-- first `n` bytes of `value.to_le_bytes()` -/
def leBytes (n : Nat) (v : BitVec 64) : List UInt8 :=
  (List.range n).map fun i => UInt8.ofNat ((v.toNat >>> (8 * i)) % 256)

/-- `leb128::write::unsigned` -/
def uleb128 : Nat → Nat → List UInt8
  | 0, _ => []
  | fuel + 1, v =>
    let b := v % 128
    let rest := v / 128
    if rest = 0 then [UInt8.ofNat b] else UInt8.ofNat (b + 128) :: uleb128 fuel rest

/-- size in bytes of the instruction window an encoder touches -/
def insnBytes : InsnKind → Nat
  | .rvUiType | .laCall30 | .laCall36 => 8
  | .rvCbType | .rvCjType | .rvCluiType => 2
  | _ => 4

open Wild.Insn in
/-- the encoder of an instruction kind applied to an 8-byte little-endian window image -/
def insnWrite (k : InsnKind) (v : BitVec 64) (neg : Bool) (w : BitVec 64) : Option (BitVec 64) :=
  let on32 (f : BitVec 32 → BitVec 32) : BitVec 64 := (w &&& 0xffffffff00000000#64) ||| (f (w.setWidth 32)).setWidth 64
  let on16 (f : BitVec 16 → BitVec 16) : BitVec 64 := (w &&& 0xffffffffffff0000#64) ||| (f (w.setWidth 16)).setWidth 64
  match k with
  | .a64Adr => some (on32 (A64.write .Adr v neg))
  | .a64Movkz => some (on32 (A64.write .Movkz v neg))
  | .a64Movnz => some (on32 (A64.write .Movnz v neg))
  | .a64Ldr => some (on32 (A64.write .Ldr v neg))
  | .a64LdrRegister => some (on32 (A64.write .LdrRegister v neg))
  | .a64Add => some (on32 (A64.write .Add v neg))
  | .a64LdSt => some (on32 (A64.write .LdSt v neg))
  | .a64TstBr => some (on32 (A64.write .TstBr v neg))
  | .a64Bcond => some (on32 (A64.write .Bcond v neg))
  | .a64JumpCall => some (on32 (A64.write .JumpCall v neg))
  | .a64MachOLow12 => none
  | .rvUiType => some (RV.writeUi v w)
  | .rvUType => some (on32 (RV.writeU v))
  | .rvIType => some (on32 (RV.writeI v))
  | .rvSType => some (on32 (RV.writeS v))
  | .rvBType => some (on32 (RV.writeB v))
  | .rvJType => some (on32 (RV.writeJ v))
  | .rvCbType => some (on16 (RV.writeCb v))
  | .rvCjType => some (on16 (RV.writeCj v))
  | .rvCluiType => some (on16 (RV.writeClui v))
  | .laShift5 => some (on32 (LA.writeShift5 v))
  | .laShift10 => some (on32 (LA.writeShift10 v))
  | .laBranch21 => some (on32 (LA.writeBranch21 v))
  | .laBranch26 => some (on32 (LA.writeBranch26 v))
  | .laCall30 => some (LA.writeCall30 v w)
  | .laCall36 => some (LA.writeCall36 v w)

def isUleb (r : RelocRow) : Bool := r.kind.startsWith "PairSubtractionULEB128"

/-- Result of `write_to_buffer(value, output)` on a buffer `buf`: verdict and the new buffer. For the
bit-mask branch the window must be at least as long as the encoder's window (shorter: the Rust
panics on slice indexing; reported as `errBounds` here and never generated by the check). -/
def writeToBuffer (r : RelocRow) (v : BitVec 64) (buf : List UInt8) : Verdict × List UInt8 :=
  match verify r v with
  | .ok =>
    if isUleb r then
      let bs := uleb128 10 v.toNat
      if buf.length < bs.length then (.errBounds, buf) else (.ok, bs ++ buf.drop bs.length)
    else
      match r.size with
      | .bytes n =>
        if buf.length < n then (.errBounds, buf) else (.ok, leBytes n v ++ buf.drop n)
      | .bits s e k =>
        let n := insnBytes k
        if buf.length < n then (.errBounds, buf) else
        let w : BitVec 64 := BitVec.ofNat 64 ((buf.take 8).foldr (fun b acc => acc * 256 + b.toNat) 0)
        let x := Wild.Insn.extractBitRange v s e
        match insnWrite k x (v.toInt < 0) w with
        | none => (.errBounds, buf)
        | some w' => (.ok, (leBytes n w') ++ buf.drop n)
  | e => (e, buf)

def lookup (a : Arch) (t : Nat) : Option RelocRow := relocRows.find? fun r => r.arch == a && r.rtype == t

end Wild.Reloc
