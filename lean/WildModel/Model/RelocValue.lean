/-
Model of the VALUE computation of libwild/src/elf_writer.rs `apply_relocation` (the
`match rel_info.kind` that produces `value`), of `write_absolute_relocation`'s decision tree, of the GOT
slot filling in `TableWriter::process_resolution` (+ `process_got_tls_offset`,
`process_got_tls_mod_and_offset`, `process_got_tls_descriptor`), and of the dynamic loader for the
dynamic relocation kinds wild emits (`DynamicRelocationKind`).

Hand-written mirror of the Rust (one Lean arm per Rust arm, `wrapping_add/sub` = BitVec 64 `+`/`-`,
`.bitand` = `&&&`).  The field ENCODING (`rel_info.write_to_buffer`) is Model/RelocRange + Model/Insn
(C12/C13), relaxations are Model/X86Relax (C14); this file stops at `value`.

Tied to the code by the whole-link correspondence of vlib/props/c01.py: for every relocation site of
generated programs the environment is recovered from wild's OUTPUT (symbol table, section headers,
GOT/PLT addresses), `relocValue` is evaluated by the driver (Driver/OpsRelocValue.lean) and compared
with the field decoded from the output bytes; the dynamic side is compared with the output's
.rela.dyn/.relr.dyn and with a Python loader.  Core-only imports.
-/
namespace Wild.RelocValue

/-- linker-utils/src/elf.rs `RelocationKind` (every variant). -/
inductive Kind where
  | absolute | absoluteSet | absoluteSetWord6 | absoluteAddition | absoluteAdditionWord6
  | absoluteSubtraction | absoluteSubtractionWord6 | absoluteLowPart | pairSubtractionULEB128
  | relative | relativeLoongArchHigh | relativeRiscVLow12
  | symRelGotBase | gotRelGotBase | got | pltRelGotBase | pltRelative
  | gotRelative | gotRelativeLoongArch64
  | tlsGd | tlsGdGot | tlsGdGotBase | tlsLd | tlsLdGot | tlsLdGotBase
  | dtpOff | gotTpOff | gotTpOffLoongArch64 | gotTpOffGot | gotTpOffGotBase | tpOff
  | tlsDesc | tlsDescLoongArch64 | tlsDescGot | tlsDescGotBase | tlsDescCall
  | none | alignment
  deriving DecidableEq, Repr

/-- Debug name as printed by `wvh dump-reloc-tables` (Gen/RelocTables `kind` column). -/
def Kind.ofString (s : String) : Option Kind :=
  match s with
  | "Absolute" => some .absolute | "AbsoluteSet" => some .absoluteSet
  | "AbsoluteSetWord6" => some .absoluteSetWord6 | "AbsoluteAddition" => some .absoluteAddition
  | "AbsoluteAdditionWord6" => some .absoluteAdditionWord6
  | "AbsoluteSubtraction" => some .absoluteSubtraction
  | "AbsoluteSubtractionWord6" => some .absoluteSubtractionWord6
  | "AbsoluteLowPart" => some .absoluteLowPart
  | "Relative" => some .relative | "RelativeLoongArchHigh" => some .relativeLoongArchHigh
  | "RelativeRiscVLow12" => some .relativeRiscVLow12
  | "SymRelGotBase" => some .symRelGotBase | "GotRelGotBase" => some .gotRelGotBase
  | "Got" => some .got | "PltRelGotBase" => some .pltRelGotBase | "PltRelative" => some .pltRelative
  | "GotRelative" => some .gotRelative | "GotRelativeLoongArch64" => some .gotRelativeLoongArch64
  | "TlsGd" => some .tlsGd | "TlsGdGot" => some .tlsGdGot | "TlsGdGotBase" => some .tlsGdGotBase
  | "TlsLd" => some .tlsLd | "TlsLdGot" => some .tlsLdGot | "TlsLdGotBase" => some .tlsLdGotBase
  | "DtpOff" => some .dtpOff | "GotTpOff" => some .gotTpOff
  | "GotTpOffLoongArch64" => some .gotTpOffLoongArch64
  | "GotTpOffGot" => some .gotTpOffGot | "GotTpOffGotBase" => some .gotTpOffGotBase
  | "TpOff" => some .tpOff | "TlsDesc" => some .tlsDesc
  | "TlsDescLoongArch64" => some .tlsDescLoongArch64
  | "TlsDescGot" => some .tlsDescGot | "TlsDescGotBase" => some .tlsDescGotBase
  | "TlsDescCall" => some .tlsDescCall | "None" => some .none | "Alignment" => some .alignment
  | _ => if s.startsWith "PairSubtractionULEB128" then some .pairSubtractionULEB128 else Option.none

/-- linker-utils `PageMask` (the `Option<PageMask>` of a row; `nomask` = `None`). -/
inductive PageMask where
  | nomask
  | symbolPlusAddendAndPosition (m : BitVec 64)
  | gotEntryAndPosition (m : BitVec 64)
  | gotBase (m : BitVec 64)
  | position (m : BitVec 64)
  deriving DecidableEq, Repr

/-- libwild/src/elf.rs `PageMaskValue` -/
structure PageMaskValue where
  symbolPlusAddend : BitVec 64 := BitVec.allOnes 64
  gotEntry : BitVec 64 := BitVec.allOnes 64
  place : BitVec 64 := BitVec.allOnes 64
  got : BitVec 64 := BitVec.allOnes 64

/-- libwild/src/elf.rs `get_page_mask` -/
def getPageMask : PageMask → PageMaskValue
  | .nomask => {}
  | .symbolPlusAddendAndPosition m => { symbolPlusAddend := ~~~m, place := ~~~m }
  | .gotEntryAndPosition m => { gotEntry := ~~~m, place := ~~~m }
  | .gotBase m => { got := ~~~m }
  | .position m => { place := ~~~m }

/-- `pageMask` column of Gen/RelocTables (`nomask` or `<Variant>:0x<hex>`); the masks that occur in the
x86-64 / AArch64 tables are matched literally (so the lookup reduces in the kernel). -/
def PageMask.ofString (s : String) : Option PageMask :=
  match s with
  | "nomask" => some .nomask
  | "SymbolPlusAddendAndPosition:0xfff" => some (.symbolPlusAddendAndPosition 0xfff)
  | "GotEntryAndPosition:0xfff" => some (.gotEntryAndPosition 0xfff)
  | "GotBase:0xfff" => some (.gotBase 0xfff)
  | "Position:0xfff" => some (.position 0xfff)
  | _ => Option.none

/-- Everything `apply_relocation` reads besides the relocation row.  Names follow the psABI letters
where there is one; each field says which Rust expression it stands for. -/
structure Env where
  /-- `resolution.raw_value` -/
  S : BitVec 64
  /-- `addend as u64` (after a relaxation's `apply` possibly changed it) -/
  A : BitVec 64
  /-- `place = section_address + offset_in_section` -/
  P : BitVec 64
  /-- `resolution.format_specific.got_address` (first GOT slot of the symbol) -/
  G : BitVec 64
  /-- `resolution.format_specific.plt_address` -/
  L : BitVec 64
  /-- `layout.got_base()` -/
  gotBase : BitVec 64
  /-- `layout.tls_start_address()` -/
  tlsStart : BitVec 64
  /-- `layout.tls_end_address()` -/
  tlsEnd : BitVec 64
  /-- `A::tp_offset_start(layout)`: x86-64 `tls_end_address()`, AArch64 `tls_start_address_aarch64()` -/
  tpStart : BitVec 64
  /-- `layout.prelude().format_specific.tlsld_got_entry` -/
  tlsldGot : BitVec 64
  /-- `resolution.flags.is_ifunc()` -/
  isIfunc : Bool := false
  /-- `flags.needs_ifunc_got_for_address()` -/
  ifuncGotForAddress : Bool := false
  /-- `flags.needs_got_tls_offset()` -/
  gotTlsOffset : Bool := false
  /-- `flags.needs_got_tls_module()` -/
  gotTlsModule : Bool := false
  /-- `output_kind == OutputKind::SharedObject` -/
  sharedObject : Bool := false
  /-- result of `get_merged_string_output_address` when it is consulted (`raw_value == 0`) -/
  mergedString : Option (BitVec 64) := Option.none

def GOT_ENTRY_SIZE : BitVec 64 := 8

/-- `Resolution::value_with_addend` -/
def valueWithAddend (e : Env) : BitVec 64 :=
  if e.isIfunc then e.L + e.A
  else if e.S = 0 then
    match e.mergedString with
    | some r => r
    | Option.none => e.S + e.A
  else e.S + e.A

/-- `Resolution::got_address_for_relocation` -/
def gotAddressForRelocation (e : Env) : BitVec 64 :=
  if e.ifuncGotForAddress then e.G + GOT_ENTRY_SIZE else e.G

/-- `Resolution::tlsgd_got_address` -/
def tlsgdGotAddress (e : Env) : BitVec 64 :=
  if e.gotTlsOffset then e.G + GOT_ENTRY_SIZE else e.G

/-- `Resolution::tls_descriptor_got_address` -/
def tlsDescriptorGotAddress (e : Env) : BitVec 64 :=
  let g := if e.gotTlsOffset then e.G + GOT_ENTRY_SIZE else e.G
  if e.gotTlsModule then g + 2 * GOT_ENTRY_SIZE else g

/-- linker-utils/src/loongarch64.rs `highest_relocation_with_bias` -/
def highestRelocationWithBias (sa pc : BitVec 64) : BitVec 64 :=
  let size2GB : BitVec 64 := 0x80000000
  let size2KB : BitVec 64 := 0x800
  let size4KB : BitVec 64 := 0x1000
  let size4GB : BitVec 64 := 0x100000000
  let pageMask4KB : BitVec 64 := 0xfff
  ((sa + size2GB + (if sa &&& size2KB ≠ 0 then size4KB - size4GB else 0)) &&& ~~~pageMask4KB)
    - ((pc - 8) &&& ~~~pageMask4KB)

/-- Extra inputs of the two pair-shaped kinds. -/
structure PairEnv where
  /-- `RelativeRiscVLow12`: kind of the HI20 relocation found at the label, and its environment -/
  hiKind : Kind := .relative
  hi : Option Env := Option.none
  /-- `PairSubtractionULEB128`: `set_resolution.value_with_addend(set_rel.addend())` -/
  setValue : BitVec 64 := 0

/-- The non-`Absolute` arms of `let mut value = match rel_info.kind { … }`.
`none` = the Rust returns an error / is unreachable for this kind. -/
def relocValueCore (k : Kind) (pm : PageMask) (bias : BitVec 64) (e : Env) (pe : PairEnv := {}) :
    Option (BitVec 64) :=
  let mask := getPageMask pm
  match k with
  | .absolute => Option.none   -- handled by `absoluteWrite`
  | .absoluteSet | .absoluteSetWord6 | .absoluteAddition | .absoluteAdditionWord6
  | .absoluteSubtraction | .absoluteSubtractionWord6 => some (valueWithAddend e)
  | .absoluteLowPart => some (valueWithAddend e &&& mask.symbolPlusAddend)
  | .relative =>
      some (((valueWithAddend e + bias) &&& mask.symbolPlusAddend) - (e.P &&& mask.place))
  | .relativeLoongArchHigh => some (highestRelocationWithBias (valueWithAddend e) e.P)
  | .relativeRiscVLow12 =>
      -- `place` of the HI relocation = its own `P`; the LO12 addend must be 0
      if e.A ≠ 0 then Option.none else
      match pe.hi with
      | Option.none => Option.none
      | some h =>
        match pe.hiKind with
        | .relative => some (valueWithAddend h + bias - h.P)
        | .gotRelative => some (gotAddressForRelocation h + h.A + bias - h.P)
        | .tlsGd => some (tlsgdGotAddress h + h.A + bias - h.P)
        | .tlsLd => some (h.tlsldGot + h.A + bias - h.P)
        | .gotTpOff => some (h.G + h.A + bias - h.P)
        | _ => Option.none
  | .pairSubtractionULEB128 => some (pe.setValue - valueWithAddend e)
  | .gotRelative =>
      some (((gotAddressForRelocation e + bias + e.A) &&& mask.gotEntry) - (e.P &&& mask.place))
  | .gotRelativeLoongArch64 =>
      some (highestRelocationWithBias (gotAddressForRelocation e + e.A) e.P)
  | .gotRelGotBase =>
      some (((gotAddressForRelocation e + e.A + bias) &&& mask.gotEntry) - (e.gotBase &&& mask.got))
  | .got =>
      some (((if e.gotTlsModule then tlsgdGotAddress e else gotAddressForRelocation e) + bias)
        &&& mask.gotEntry)
  | .symRelGotBase =>
      some (((valueWithAddend e + bias) &&& mask.symbolPlusAddend) - (e.gotBase &&& mask.got))
  | .pltRelGotBase => some (e.L + bias - (e.gotBase &&& mask.got))
  | .pltRelative => some (e.L + e.A + bias - (e.P &&& mask.place))
  | .tlsGd => some (((tlsgdGotAddress e + e.A + bias) &&& mask.gotEntry) - (e.P &&& mask.place))
  | .tlsGdGot => some ((tlsgdGotAddress e + e.A + bias) &&& mask.gotEntry)
  | .tlsGdGotBase =>
      some (((tlsgdGotAddress e + e.A + bias) &&& mask.gotEntry) - (e.gotBase &&& mask.got))
  | .tlsLd => some (((e.tlsldGot + e.A + bias) &&& mask.gotEntry) - (e.P &&& mask.place))
  | .tlsLdGot => some ((e.tlsldGot + e.A + bias) &&& mask.gotEntry)
  | .tlsLdGotBase => some (((e.tlsldGot + e.A + bias) &&& mask.gotEntry) - (e.gotBase &&& mask.got))
  | .dtpOff =>
      -- shared object: `.sub(layout.tls_start_address())` (checked subtraction in debug builds;
      -- the panic region `S+A+bias < tlsStart` is reported by `dtpOffPanics`)
      if e.sharedObject then some (e.S + e.A + bias - e.tlsStart)
      else some (e.S + e.A + bias - e.tlsEnd)
  | .gotTpOff => some (((e.G + e.A + bias) &&& mask.gotEntry) - (e.P &&& mask.place))
  | .gotTpOffLoongArch64 => some (highestRelocationWithBias (e.G + e.A) e.P)
  | .gotTpOffGot => some ((e.G + e.A + bias) &&& mask.gotEntry)
  | .gotTpOffGotBase => some (((e.G + e.A + bias) &&& mask.gotEntry) - (e.gotBase &&& mask.got))
  | .tpOff => some (e.S + e.A + bias - e.tpStart)
  | .tlsDesc =>
      some (((tlsDescriptorGotAddress e + e.A + bias) &&& mask.gotEntry) - (e.P &&& mask.place))
  | .tlsDescLoongArch64 => some (highestRelocationWithBias (tlsDescriptorGotAddress e + e.A) e.P)
  | .tlsDescGot => some ((tlsDescriptorGotAddress e + e.A + bias) &&& mask.gotEntry)
  | .tlsDescGotBase =>
      some (((tlsDescriptorGotAddress e + e.A + bias) &&& mask.gotEntry) - (e.gotBase &&& mask.got))
  | .none | .tlsDescCall => some 0
  | .alignment => Option.none

/-- debug-profile overflow check of the `DtpOff` shared-object arm (`Sub::sub`, not `wrapping_sub`) -/
def dtpOffPanics (bias : BitVec 64) (e : Env) : Bool :=
  e.sharedObject && decide ((e.S + e.A + bias).toNat < e.tlsStart.toNat)

/-! ## Dynamic side -/

/-- `OutputKind` as far as the writer distinguishes it. -/
inductive OutputKind where
  | staticExecutableNonRelocatable   -- `StaticExecutable(NonRelocatable)`
  | staticExecutableRelocatable      -- static-PIE
  | dynamicExecutableNonRelocatable  -- dynamically linked, non-PIE
  | dynamicExecutableRelocatable     -- PIE
  | sharedObject
  deriving DecidableEq, Repr

def OutputKind.isRelocatable : OutputKind → Bool
  | .staticExecutableRelocatable | .dynamicExecutableRelocatable | .sharedObject => true
  | _ => false

def OutputKind.isExecutable : OutputKind → Bool
  | .sharedObject => false
  | _ => true

def OutputKind.isStaticExecutable : OutputKind → Bool
  | .staticExecutableNonRelocatable | .staticExecutableRelocatable => true
  | _ => false

def OutputKind.needsDynsym : OutputKind → Bool
  | .dynamicExecutableNonRelocatable | .dynamicExecutableRelocatable | .sharedObject => true
  | _ => false

def OutputKind.all : List OutputKind :=
  [.staticExecutableNonRelocatable, .staticExecutableRelocatable, .dynamicExecutableNonRelocatable,
   .dynamicExecutableRelocatable, .sharedObject]

/-- `ValueFlags` bits the writer looks at. -/
structure Flags where
  dynamic : Bool := false
  absolute : Bool := false
  ifunc : Bool := false
  /-- `!NON_INTERPOSABLE` -/
  interposable : Bool := false
  exportDynamic : Bool := false
  ifuncGotForAddress : Bool := false
  gotTlsOffset : Bool := false
  gotTlsModule : Bool := false
  gotTlsDescriptor : Bool := false
  deriving DecidableEq, Repr

/-- `ValueFlags::is_address` -/
def Flags.isAddress (f : Flags) : Bool := !f.ifunc && !f.dynamic && !f.absolute

/-- `DynamicRelocationKind` + RELR (an address-only packed relative relocation). -/
inductive DynKind where
  | copy | irelative | dtpMod | dtpOff | tlsDesc | tpOff | relative | absolute | gotEntry | jumpSlot
  | relr
  deriving DecidableEq, Repr

/-- One emitted dynamic relocation: `r_offset`, kind, dynamic symbol (`0` = none), `r_addend`. -/
structure DynReloc where
  offset : BitVec 64
  kind : DynKind
  sym : Nat
  addend : BitVec 64
  deriving DecidableEq, Repr

/-- Result of writing one 8-byte site: the bytes stored by the linker and the dynamic relocations. -/
structure Site where
  stored : BitVec 64
  dyn : List DynReloc
  deriving DecidableEq, Repr

/-- `TableWriter::write_address_relocation(place, relative_address)`:
RELR when enabled and `place` is even (value stays in place), else RELA RELATIVE (0 stays). -/
def writeAddressRelocation (relr : Bool) (place addr : BitVec 64) : Site :=
  if relr && place.toNat % 2 == 0 then ⟨addr, [⟨place, .relr, 0, 0⟩]⟩
  else ⟨0, [⟨place, .relative, 0, addr⟩]⟩

/-- Section facts read by `write_absolute_relocation`. -/
structure SecInfo where
  alloc : Bool := true
  writable : Bool := true
  deriving DecidableEq, Repr

/-- `write_absolute_relocation` (value returned to `apply_relocation` + dynamic relocations written).
`dynsym` = `resolution.dynamic_symbol_index` (0 = none). -/
def absoluteWrite (ok : OutputKind) (relr : Bool) (sec : SecInfo) (f : Flags) (dynsym : Nat) (e : Env) : Site :=
  if !sec.alloc then ⟨valueWithAddend e, []⟩
  else if f.dynamic && f.absolute && !sec.writable then ⟨0, []⟩
  else if f.interposable && sec.writable then ⟨0, [⟨e.P, .absolute, dynsym, e.A⟩]⟩
  else if f.ifunc && sec.writable && ok.isRelocatable then ⟨0, [⟨e.P, .irelative, 0, e.S + e.A⟩]⟩
  else if ok.isRelocatable && !f.absolute then writeAddressRelocation relr e.P (valueWithAddend e)
  else ⟨valueWithAddend e, []⟩

/-- The whole `value` of `apply_relocation` (before thunks and `write_to_buffer`). For `Absolute`
only the stored value (dynamic relocations: `absoluteWrite`). -/
def relocValue (k : Kind) (pm : PageMask) (bias : BitVec 64) (e : Env) (pe : PairEnv := {})
    (ok : OutputKind := .staticExecutableNonRelocatable) (relr : Bool := false) (sec : SecInfo := {})
    (f : Flags := {}) (dynsym : Nat := 0) : Option (BitVec 64) :=
  match k with
  | .absolute => some (absoluteWrite ok relr sec f dynsym e).stored
  | _ => relocValueCore k pm bias e pe

/-- TLS geometry handed to `process_resolution`: `self.tls.start/end`, `A::tp_offset_start`,
`A::get_dtv_offset()`. -/
structure TlsInfo where
  start : BitVec 64
  tpStart : BitVec 64
  dtvOffset : BitVec 64 := 0

def CURRENT_EXE_TLS_MOD : BitVec 64 := 1

/-- GOT words and dynamic relocations produced by `process_resolution` for one symbol.
`words` are the consecutive GOT slots starting at `got`. -/
structure GotFill where
  words : List (BitVec 64)
  dyn : List DynReloc
  deriving DecidableEq, Repr

/-- `process_got_tls_offset`. `none` = the `bail!` (address outside the TLS segment is not modelled:
the caller guarantees it) -/
def gotTlsOffsetFill (ok : OutputKind) (f : Flags) (dynsym : Nat) (tls : TlsInfo) (raw got : BitVec 64) : GotFill :=
  if f.dynamic || (f.exportDynamic && f.interposable) then ⟨[0], [⟨got, .tpOff, dynsym, 0⟩]⟩
  else if raw = 0 then ⟨[0], []⟩
  else if ok.isExecutable then ⟨[raw - tls.tpStart], []⟩
  else ⟨[0], [⟨got, .tpOff, 0, raw - tls.start⟩]⟩

/-- `process_got_tls_mod_and_offset` (`dynsym = 0` ⇔ `res.dynamic_symbol_index == None`) -/
def gotTlsModFill (ok : OutputKind) (f : Flags) (dynsym : Nat) (tls : TlsInfo) (raw got : BitVec 64) : GotFill :=
  let modPart : GotFill :=
    if ok.isExecutable && !f.dynamic then ⟨[CURRENT_EXE_TLS_MOD], []⟩
    else ⟨[0], [⟨got, .dtpMod, dynsym, 0⟩]⟩
  -- (after fix c01-tlsgd-protected-offset: an exported, non-interposable, locally defined symbol
  -- gets its offset written statically; before, the word was left 0 without a relocation)
  let offPart : GotFill :=
    if dynsym ≠ 0 && (f.interposable || f.dynamic) then
      if f.interposable then ⟨[0], [⟨got + 8, .dtpOff, dynsym, 0⟩]⟩ else ⟨[0], []⟩
    else ⟨[raw - tls.start - tls.dtvOffset], []⟩
  ⟨modPart.words ++ offPart.words, modPart.dyn ++ offPart.dyn⟩

/-- `write_plt_got_entries`: the module's own `tls_index` pair at `tlsld_got_entry` (used by TLSLD).
Executables: `{CURRENT_EXE_TLS_MOD, tp_offset_start − tls_start}` written statically (so that
`__tls_get_addr` returns the thread pointer and `DtpOff` values are TP-relative); shared objects:
`{DTPMOD64(0), 0}`. -/
def tlsldFill (ok : OutputKind) (tls : TlsInfo) (got : BitVec 64) : GotFill :=
  if ok.isExecutable then ⟨[CURRENT_EXE_TLS_MOD, tls.tpStart - tls.start], []⟩
  else ⟨[0, 0], [⟨got, .dtpMod, 0, 0⟩]⟩

/-- `process_got_tls_descriptor` (static executables error out: `none`) -/
def gotTlsDescFill (ok : OutputKind) (dynsym : Nat) (tls : TlsInfo) (raw got : BitVec 64) : Option GotFill :=
  if ok.isStaticExecutable then Option.none
  else some ⟨[0, 0], [⟨got, .tlsDesc, dynsym, if dynsym = 0 then raw - tls.start else 0⟩]⟩

/-- `process_resolution`, non-TLS part, first GOT entry (`take_next_got_entry` #1).
Rust precedence: `is_dynamic() || ((export_dynamic && interposable) && !is_ifunc())`. -/
def gotFirstFill (ok : OutputKind) (relr : Bool) (f : Flags) (dynsym : Nat) (raw got : BitVec 64) : GotFill :=
  if f.dynamic || ((f.exportDynamic && f.interposable) && !f.ifunc) then
    ⟨[0], [⟨got, .gotEntry, dynsym, 0⟩]⟩
  else if f.ifunc then ⟨[0], [⟨got, .irelative, 0, raw⟩]⟩
  else if f.isAddress && ok.isRelocatable then
    let s := writeAddressRelocation relr got raw
    ⟨[s.stored], s.dyn⟩
  else ⟨[raw], []⟩

/-- `process_resolution`, the `needs_ifunc_got_for_address()` entry at `got_address + 8`. -/
def gotIfuncAddrFill (ok : OutputKind) (relr : Bool) (got plt : BitVec 64) : Site :=
  if ok.isRelocatable then writeAddressRelocation relr (got + 8) plt else ⟨plt, []⟩

/-- `TableWriter::process_resolution` for a resolution that has a GOT address. -/
def processResolution (ok : OutputKind) (relr : Bool) (f : Flags) (dynsym : Nat) (tls : TlsInfo)
    (raw got plt : BitVec 64) : Option GotFill :=
  if f.gotTlsOffset || f.gotTlsModule || f.gotTlsDescriptor then
    let a : GotFill := if f.gotTlsOffset then gotTlsOffsetFill ok f dynsym tls raw got else ⟨[], []⟩
    let got1 := if f.gotTlsOffset then got + 8 else got
    let b : GotFill := if f.gotTlsModule then gotTlsModFill ok f dynsym tls raw got1 else ⟨[], []⟩
    let got2 := if f.gotTlsModule then got1 + 16 else got1
    if f.gotTlsDescriptor then
      match gotTlsDescFill ok dynsym tls raw got2 with
      | Option.none => Option.none
      | some c => some ⟨a.words ++ b.words ++ c.words, a.dyn ++ b.dyn ++ c.dyn⟩
    else some ⟨a.words ++ b.words, a.dyn ++ b.dyn⟩
  else
    let first := gotFirstFill ok relr f dynsym raw got
    if f.ifuncGotForAddress then
      let s := gotIfuncAddrFill ok relr got plt
      some ⟨first.words ++ [s.stored], first.dyn ++ s.dyn⟩
    else some first

/-! ## Loader -/

/-- What the dynamic loader knows: load bias of this module, symbol lookup (dynamic symbol index →
run-time address / TLS offset inside its module / module id), result of calling an IFUNC resolver,
this module's id and static-TLS offset (x86-64 variant II: `TP - l_tls_offset` is the start of the
module's TLS block; AArch64 variant I: `TP + l_tls_offset`). -/
structure Loader where
  base : BitVec 64
  symAddr : Nat → BitVec 64
  symTlsOff : Nat → BitVec 64
  symTlsMod : Nat → BitVec 64
  /-- TP-relative offset of the start of the TLS block of the module defining dynamic symbol `n` -/
  symTlsBlockTp : Nat → BitVec 64
  ifuncResolve : BitVec 64 → BitVec 64
  selfMod : BitVec 64
  /-- TP-relative offset of the start of this module's TLS block -/
  selfTlsBlockTp : BitVec 64

/-- Run-time content of an 8-byte word at `r.offset` holding `stored` after the loader processed `r`
(glibc `elf_machine_rela` / `elf_dynamic_do_Relr`, x86-64 and AArch64 agree for the kinds and zero
`GLOB_DAT` addends wild emits). TLSDESC: the value the descriptor's resolver returns (the TP offset). -/
def loaderApply (ld : Loader) (stored : BitVec 64) (r : DynReloc) : BitVec 64 :=
  match r.kind with
  | .relative => ld.base + r.addend
  | .relr => stored + ld.base
  | .absolute => ld.symAddr r.sym + r.addend
  | .gotEntry | .jumpSlot => ld.symAddr r.sym + r.addend
  | .irelative => ld.ifuncResolve (ld.base + r.addend)
  | .tpOff =>
      if r.sym = 0 then ld.selfTlsBlockTp + r.addend
      else ld.symTlsBlockTp r.sym + ld.symTlsOff r.sym + r.addend
  | .dtpMod => if r.sym = 0 then ld.selfMod else ld.symTlsMod r.sym
  | .dtpOff => ld.symTlsOff r.sym + r.addend
  | .tlsDesc =>
      if r.sym = 0 then ld.selfTlsBlockTp + r.addend
      else ld.symTlsBlockTp r.sym + ld.symTlsOff r.sym + r.addend
  | .copy => stored

/-- Run-time content of the word at `addr` whose link-time content is `stored`, given the dynamic
relocations of the output: the relocation at `addr` is applied if there is one. -/
def runtimeWord (ld : Loader) (addr stored : BitVec 64) (dyn : List DynReloc) : BitVec 64 :=
  match dyn.find? (fun r => r.offset == addr) with
  | some r => loaderApply ld stored r
  | Option.none => stored

/-- number of dynamic relocations covering `addr` -/
def coverCount (addr : BitVec 64) (dyn : List DynReloc) : Nat :=
  (dyn.filter (fun r => r.offset == addr)).length

end Wild.RelocValue
