/-
Model of wild's relative dynamic relocations (C09, and the relocation-site half of C23).

Mirrors
* `libwild/src/elf.rs`        `relr_eligible`, `process_relocation` (RELR/RELA choice when space is
                              allocated), `allocate_resolution` (GOT entries: RELR iff enabled),
* `libwild/src/elf_writer.rs` `TableWriter::new` (`relr_dyn` is `None` when the group's `.relr.dyn`
                              slice is empty), `write_address_relocation` (RELR/RELA choice when the
                              entry is written, the value stored at the place, the two
                              "Insufficient ... allocation" failures), `validate_empty`
                              ("Allocated too much space"),
and, as the spec side of the loader, glibc's `elf_dynamic_do_Relr` and the application of
`R_X86_64_RELATIVE`.

Hand-written; tied to the code by the whole-link correspondence of `vlib/props/c09.py`
(ops `relr-site`, `relr-encode`, `relr-decode`, `relr-load`).  Core-only imports.
-/
namespace Wild.Relr

/-! ## The RELR / RELA choice -/

/-- `elf::relr_eligible(section_alignment, offset_in_section)`. -/
def relrEligible (sectionAlign offset : Nat) : Bool :=
  decide (2 ≤ sectionAlign) && offset % 2 == 0

/-- Where an address-holding 8-byte slot comes from. -/
inductive SiteKind where
  /-- `R_*_64` against a non-interposable address in a writable input section with the given
  `sh_addralign`, at `offset` in that section; the section was placed at `secAddr`. -/
  | data (sectionAlign secAddr offset : Nat)
  /-- GOT entry of a non-interposable address (`process_resolution`), at `addr`. -/
  | got (addr : Nat)
  deriving DecidableEq, Repr

structure Site where
  kind : SiteKind
  /-- link-time absolute address that the slot must hold (`S + A`) -/
  value : BitVec 64
  deriving DecidableEq, Repr

def SiteKind.place : SiteKind → Nat
  | .data _ secAddr offset => secAddr + offset
  | .got addr => addr

def Site.place (s : Site) : Nat := s.kind.place

/-- The choice made when space is allocated (`process_relocation` for data sites — it sees the
input section header and `rel.offset()` only, no addresses exist yet; `allocate_resolution` for GOT
entries). `true` = one `.relr.dyn` entry, `false` = one `.rela.dyn` (relative) entry. -/
def layoutChoosesRelr (relrEnabled : Bool) : SiteKind → Bool
  | .data al _ off => relrEnabled && relrEligible al off
  | .got _ => relrEnabled

/-- The choice made by `write_address_relocation(place, value, allow_relr)`: RELR iff the group has
a `.relr.dyn` writer and `allow_relr`; `allow_relr = relr_eligible(alignment, rel.offset())` for
data sites (`write_absolute_relocation`) and `true` for GOT entries. -/
def writeChoosesRelr (relrAvail : Bool) : SiteKind → Bool
  | .data al _ off => relrAvail && relrEligible al off
  | .got _ => relrAvail

/-- The code as it was before `scratch/fixes/c09-relr-parity.diff`: layout looked at the parity of
the *offset*, … -/
def layoutChoosesRelrOld (relrEnabled : Bool) : SiteKind → Bool
  | .data _ _ off => relrEnabled && off % 2 == 0
  | .got _ => relrEnabled

/-- … and the writer at the parity of the *address*. -/
def writeChoosesRelrOld (relrAvail : Bool) (k : SiteKind) : Bool :=
  relrAvail && k.place % 2 == 0

/-! ## Allocation and the sequential writer (one group = one `TableWriter`) -/

structure Counts where
  relr : Nat
  rela : Nat
  deriving DecidableEq, Repr

/-- Entries allocated by layout for the sites of a group. -/
def allocCounts (choose : SiteKind → Bool) (sites : List Site) : Counts :=
  { relr := (sites.filter fun s => choose s.kind).length
    rela := (sites.filter fun s => !choose s.kind).length }

abbrev Image := Nat → BitVec 64

def Image.set (im : Image) (a : Nat) (v : BitVec 64) : Image := fun x => if x = a then v else im x

inductive WriteError where
  | insufficientRelr      -- "Insufficient .relr.dyn allocation"
  | insufficientRela      -- "Insufficient .rela.dyn (relative) allocation"
  | excessRela            -- "Allocated too much space in .rela.dyn (relative)"
  | excessRelr            -- "Allocated too much space in .relr.dyn"
  deriving DecidableEq, Repr

/-- What the writer has produced so far. -/
structure Out where
  /-- `.rela.dyn` relative entries `(r_offset, r_addend)`, in write order -/
  rela : List (Nat × BitVec 64)
  /-- `.relr.dyn` words, in write order -/
  relr : List Nat
  /-- contents of the output sections (8-byte slots by link-time address) -/
  image : Image

/-- One `write_address_relocation`: takes the next entry of the chosen table (or fails), stores
`relative_address` (RELR) or `0` (RELA) at the place. -/
def writeOne (choose : SiteKind → Bool) (left : Counts) (o : Out) (s : Site) :
    Except WriteError (Counts × Out) :=
  if choose s.kind then
    if left.relr = 0 then .error .insufficientRelr
    else .ok ({ left with relr := left.relr - 1 },
              { o with relr := o.relr ++ [s.place], image := o.image.set s.place s.value })
  else
    if left.rela = 0 then .error .insufficientRela
    else .ok ({ left with rela := left.rela - 1 },
              { o with rela := o.rela ++ [(s.place, s.value)], image := o.image.set s.place 0 })

def writeAll (choose : SiteKind → Bool) : Counts → Out → List Site → Except WriteError (Counts × Out)
  | left, o, [] => .ok (left, o)
  | left, o, s :: rest =>
    match writeOne choose left o s with
    | .error e => .error e
    | .ok (left', o') => writeAll choose left' o' rest

/-- `validate_empty` for the two tables. -/
def validateEmpty (left : Counts) : Except WriteError Unit :=
  if left.rela ≠ 0 then .error .excessRela
  else if left.relr ≠ 0 then .error .excessRelr
  else .ok ()

/-- Layout followed by writing, parameterised by the two choice functions.
`relrAvail` mirrors `TableWriter::new`: `pack_relative_relocs.then(take RELR_DYN).filter(non-empty)`. -/
def linkWith (layoutChoice : Bool → SiteKind → Bool) (writeChoice : Bool → SiteKind → Bool)
    (relrEnabled : Bool) (img0 : Image) (sites : List Site) : Except WriteError Out :=
  let alloc := allocCounts (layoutChoice relrEnabled) sites
  let relrAvail := relrEnabled && decide (alloc.relr ≠ 0)
  match writeAll (writeChoice relrAvail) alloc { rela := [], relr := [], image := img0 } sites with
  | .error e => .error e
  | .ok (left, o) =>
    match validateEmpty left with
    | .error e => .error e
    | .ok () => .ok o

/-- The current code. -/
def link := linkWith layoutChoosesRelr writeChoosesRelr
/-- The code before the fix. -/
def linkOld := linkWith layoutChoosesRelrOld writeChoosesRelrOld

/-- Closed form of what a successful run emits (proved equal to `link` in `Props/C09.lean`). -/
def emit (choose : SiteKind → Bool) (img0 : Image) (sites : List Site) : Out :=
  { rela := (sites.filter fun s => !choose s.kind).map fun s => (s.place, s.value)
    relr := (sites.filter fun s => choose s.kind).map fun s => s.place
    image := sites.foldl (fun im s => im.set s.place (if choose s.kind then s.value else 0)) img0 }

/-- wild's RELR encoder: `write_address_relocation` stores one *address entry* per place
(`relr.0.set(place)`); it never produces bitmap entries. -/
def encodeRelr (places : List Nat) : List Nat := places

/-! ## The loader (spec side: glibc `elf_dynamic_do_Relr`, `R_X86_64_RELATIVE`) -/

/-- The addresses named by a bitmap entry `e` (odd) relative to `where_`: bit `i+1` ⇒ `where_ + 8*i`
(`for (i = 0; (entry >>= 1) != 0; i++) if (entry & 1) where[i] += l_addr`). -/
def bitmapAddrs (where_ e : Nat) : List Nat :=
  (List.range 63).filterMap fun i => if e.testBit (i + 1) then some (where_ + 8 * i) else none

/-- glibc's decoder, as the list of link-time addresses it relocates, in order. -/
def decodeRelrFrom : Nat → List Nat → List Nat
  | _, [] => []
  | where_, e :: es =>
    if e % 2 = 0 then e :: decodeRelrFrom (e + 8) es
    else bitmapAddrs where_ e ++ decodeRelrFrom (where_ + 8 * 63) es

def decodeRelr (words : List Nat) : List Nat := decodeRelrFrom 0 words

/-- `*where += l_addr` for every decoded address. -/
def applyRelr (base : BitVec 64) (im : Image) (words : List Nat) : Image :=
  (decodeRelr words).foldl (fun im a => im.set a (im a + base)) im

/-- `*reloc_addr = l_addr + r_addend` for every `R_X86_64_RELATIVE`. -/
def applyRela (base : BitVec 64) (im : Image) (relas : List (Nat × BitVec 64)) : Image :=
  relas.foldl (fun im r => im.set r.1 (base + r.2)) im

/-- `ELF_DYNAMIC_RELOCATE`: RELR first, then RELA. -/
def load (base : BitVec 64) (o : Out) : Image :=
  applyRela base (applyRelr base o.image o.relr) o.rela

/-! ## A compacting encoder (what GNU ld / lld emit), used to validate the decoder model on the
oracle's `.relr.dyn` and as the reference should wild start to emit bitmaps. -/

/-- Collects into one bitmap the addresses of `ps` (ascending) that fall into the 63 slots starting
at `base`; returns the bitmap (without the tag bit) and the rest. -/
def takeBitmap (base : Nat) : List Nat → Nat × List Nat
  | [] => (0, [])
  | p :: ps =>
    if base ≤ p ∧ p < base + 8 * 63 ∧ (p - base) % 8 = 0 then
      let (bm, rest) := takeBitmap base ps
      (bm ||| (1 <<< ((p - base) / 8)), rest)
    else (0, p :: ps)

def encodePackedAux : Nat → Option Nat → List Nat → List Nat
  | 0, _, _ => []
  | _ + 1, _, [] => []
  | fuel + 1, none, p :: ps => p :: encodePackedAux fuel (some (p + 8)) ps
  | fuel + 1, some base, p :: ps =>
    let (bm, rest) := takeBitmap base (p :: ps)
    if bm = 0 then encodePackedAux fuel none (p :: ps)
    else (2 * bm + 1) :: encodePackedAux fuel (some (base + 8 * 63)) rest

def encodePacked (ps : List Nat) : List Nat := encodePackedAux (2 * ps.length + 1) none ps

end Wild.Relr
