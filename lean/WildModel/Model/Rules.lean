/-
Model of libwild/src/layout_rules.rs: `SectionRule::{new, matches}`, `SectionNameMatcher`,
`SectionRules::{from_rules, lookup}` (as of the working tree: rules that have a literal 4-byte
prefix live in a hash table keyed by that prefix, all others in an ordered side list; every
entry carries its position in the original rule list and the earliest matching position wins).

Abstraction of the hash table: `HashTable::find(hash, eq)` returns the first entry, in insertion
order, whose key equals the looked-up key and for which `eq` holds. (hashbrown probes equal-hash
entries in insertion order as long as nothing is removed or rehashed; the table is created with
its final capacity. Entries with a different key are only visited on a 7-bit tag collision and
`eq` = `rule.matches` is false for them, see `Props/C15.lean: keyed_match_key`.)
Core-only imports.
-/
import WildModel.Model.Glob
namespace Wild.Rules
open Wild.Glob

abbrev Bytes := List UInt8

inductive NameMatcher where
  | exact (n : Bytes)
  | pref (n : Bytes)
  | glob (pat : Bytes) (toks : List Tok)
  deriving Repr

/-- `SectionRuleOutcome`: only the variants a linker-script rule can produce plus the fallbacks of
`lookup`. `section idx keep` = `Section(SectionOutputInfo { section_id: idx, must_keep: keep })`. -/
inductive Outcome where
  | section (idx : Nat) (keep : Bool)
  | custom
  | unnamed
  deriving DecidableEq, Repr

structure Rule where
  matcher : NameMatcher
  filePat : Option (List Tok)
  outcome : Outcome
  deriving Repr

/-- `SectionRule::new`. -/
def Rule.new (pattern : Bytes) (filePattern : Option Bytes) (outcome : Outcome) : Except CompileError Rule := do
  let fp ← match filePattern with
    | none => pure none
    | some p => (compile p).map some
  let m ← match analyze pattern with
    | .exact => pure (NameMatcher.exact pattern)
    | .escapedExact => pure (NameMatcher.exact (unescape pattern))
    | .star | .nonStar => (compile pattern).map (NameMatcher.glob pattern)
  pure { matcher := m, filePat := fp, outcome := outcome }

/-- `SectionRule::exact` / `SectionRule::prefix` (built-in rule table constructors). -/
def Rule.exact (n : Bytes) (o : Outcome) : Rule := { matcher := .exact n, filePat := none, outcome := o }
def Rule.pref (n : Bytes) (o : Outcome) : Rule := { matcher := .pref n, filePat := none, outcome := o }

def NameMatcher.matches : NameMatcher → Bytes → Bool
  | .exact n, s => s == n
  | .pref n, s => n.isPrefixOf s
  | .glob _ toks, s => matchesBytes toks s

/-- `SectionRule::matches`. -/
def Rule.matches (r : Rule) (name : Bytes) (file : Option Bytes) : Bool :=
  if !r.matcher.matches name then false else
  match r.filePat with
  | none => true
  | some toks =>
    match file with
    | none => false
    | some f => matchesBytes toks f

/-- `SectionNameMatcher::prefix_bytes`. -/
def NameMatcher.prefixBytes : NameMatcher → Bytes
  | .exact n => n
  | .pref n => n
  | .glob p _ => p

def isGlobMeta (b : UInt8) : Bool := b == bStar || b == bQuest || b == bOpen || b == bBackslash

/-- `SectionNameMatcher::key_bytes`: `prefix_bytes().get(..4)`, `None` for a glob with a
metacharacter among these bytes. -/
def NameMatcher.keyBytes (m : NameMatcher) : Option Bytes :=
  let p := m.prefixBytes
  if p.length < 4 then none else
  let key := p.take 4
  match m with
  | .glob _ _ => if key.any isGlobMeta then none else some key
  | _ => some key

structure SectionRules where
  /-- hash table entries in insertion order -/
  keyed : List (Nat × Rule)
  unkeyed : List (Nat × Rule)
  deriving Repr

def fromRulesAux : Nat → List Rule → SectionRules
  | _, [] => { keyed := [], unkeyed := [] }
  | i, r :: rs =>
    let t := fromRulesAux (i + 1) rs
    match r.matcher.keyBytes with
    | none => { t with unkeyed := (i, r) :: t.unkeyed }
    | some _ => { t with keyed := (i, r) :: t.keyed }

/-- `SectionRules::from_rules`. -/
def fromRules (rs : List Rule) : SectionRules := fromRulesAux 0 rs

/-- `section_name_prefix_hash` up to the hash function: the key is the first four bytes. -/
def nameKey (name : Bytes) : Option Bytes := if name.length < 4 then none else some (name.take 4)

/-- `HashTable::find(hash(key), eq)` under the abstraction stated in the header. -/
def tableFind (entries : List (Nat × Rule)) (key : Bytes) (eq : Rule → Bool) : Option (Nat × Rule) :=
  entries.find? (fun e => e.2.matcher.keyBytes == some key && eq e.2)

/-- `SectionRules::lookup` for a section header with `should_exclude() == false`. -/
def lookup (t : SectionRules) (name : Bytes) (file : Option Bytes) : Outcome :=
  let keyed := (nameKey name).bind (fun k => tableFind t.keyed k (fun r => r.matches name file))
  let cands : List (Nat × Rule) := match keyed with
    | none => t.unkeyed
    | some (ki, _) => t.unkeyed.takeWhile (fun e => e.1 < ki)
  let unk := cands.find? (fun e => e.2.matches name file)
  match unk with
  | some (_, r) => r.outcome
  | none =>
    match keyed with
    | some (_, r) => r.outcome
    | none => if name.isEmpty then .unnamed else .custom

end Wild.Rules
