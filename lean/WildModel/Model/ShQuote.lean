/-
Model of the argument rendering of libwild/src/save_dir.rs (`SaveDirState::write_args`,
`write_arg`, `write_shell_quoted`, `write_at_file_escaped`, `write_copied_file_arg`,
`write_arg_separator`, `to_output_relative_path` ∘ `std::path::absolute`), of the response-file
tokenizer `arguments_from_string` (libwild/src/args.rs) and of the `$D`/`$OUT` substitution loop the
run-with script applies to saved response files.
`renderItemOld` keeps the rendering of the code before the quoting fix
(scratch/fixes/c24-quote-args.diff) for the regression witnesses in Props/C24.lean.
Tied to the code by the differential correspondences `c24-*`. Core-only imports.
-/
namespace Wild.ShQuote

/-- What `write_args` decides to write for one (or two: `-o X`, `-L X`) original argument(s). -/
inductive Item where
  /-- literal text `pre ++ s` (`pre` is non-empty only when the text after the first `=` names an
  existing file that was not copied) -/
  | plain (pre s : List Char)
  /-- `pre` followed by the copy of a file/directory: `$D/rel` -/
  | copied (pre rel : List Char)
  /-- `-o <anything>` / `-o<anything>` -/
  | out
  /-- top-level `@file`: the `rsp_index`-th saved response file -/
  | rsp (idx : Nat)
  deriving DecidableEq, Repr

/-! ## paths: `to_output_relative_path (std::path::absolute p)` -/

def splitSlash : List Char → List (List Char)
  | [] => [[]]
  | c :: cs =>
    match splitSlash cs with
    | [] => [[c]]   -- unreachable
    | w :: ws => if c == '/' then [] :: w :: ws else (c :: w) :: ws

/-- `Path::components` after `strip_prefix(".")`, without the root: empty and `.` components vanish,
`..` stays. -/
def comps (p : List Char) : List (List Char) :=
  (splitSlash p).filter (fun c => !(c == [] || c == ['.']))

def joinSlash : List (List Char) → List Char
  | [] => []
  | [w] => w
  | w :: ws => w ++ '/' :: joinSlash ws

/-- The path below the save directory where `p` (resolved against `cwd`) is copied to. -/
def relOf (cwd p : List Char) : List Char :=
  joinSlash ((if p.head? == some '/' then [] else comps cwd) ++ comps p)

/-! ## classification (control flow of `write_args`, file-system facts supplied per argument) -/

structure ArgIn where
  text : List Char
  /-- `Path::new(<text after the first '='>).exists()` -/
  eqExists : Bool
  /-- a copy of the path after the first `=` exists in the save directory -/
  copiedSuffix : Bool
  /-- a copy of the whole argument (as a path) exists in the save directory -/
  copiedWhole : Bool
  /-- for `@file`: the response file could be read and tokenized -/
  rspOk : Bool
  deriving Repr

inductive Pending where
  | none | outArg | libDir
  deriving DecidableEq, Repr

def afterEq : List Char → Option (List Char × List Char)
  | [] => none
  | c :: cs => if c == '=' then some (['='], cs) else (afterEq cs).map (fun (p, s) => (c :: p, s))

/-- `none`: `write_args` returns an error (unreadable response file, `-L` without a directory). -/
def classify (cwd : List Char) : List ArgIn → Pending → Nat → Option (List Item)
  | [], .libDir, _ => none                       -- `absolute("")` fails
  | [], _, _ => some []
  | _ :: rest, .outArg, n => classify cwd rest .none n     -- the value of `-o` (already written)
  | a :: rest, .libDir, n =>
    if a.text.isEmpty then none
    else (classify cwd rest .none n).map (fun is => Item.copied ['-', 'L'] (relOf cwd a.text) :: is)
  | a :: rest, .none, n =>
    let t := a.text
    if t.head? == some '@' then
      if a.rspOk then (classify cwd rest .none (n + 1)).map (fun is => Item.rsp n :: is) else none
    else if t.take 2 == ['-', 'o'] then
      if t.length == 2 then (classify cwd rest .outArg n).map (fun is => Item.out :: is)
      else (classify cwd rest .none n).map (fun is => Item.out :: is)
    else if t.take 2 == ['-', 'L'] then
      if t.length == 2 then
        -- the separator and nothing else has been written; the directory is the next argument
        classify cwd rest .libDir n
      else (classify cwd rest .none n).map (fun is => Item.copied ['-', 'L'] (relOf cwd (t.drop 2)) :: is)
    else
      let item :=
        match afterEq t with
        | some (pre, suf) =>
          if a.eqExists then
            (if !suf.isEmpty && a.copiedSuffix then Item.copied pre (relOf cwd suf) else Item.plain pre suf)
          else (if !t.isEmpty && a.copiedWhole then Item.copied [] (relOf cwd t) else Item.plain [] t)
        | none => if !t.isEmpty && a.copiedWhole then Item.copied [] (relOf cwd t) else Item.plain [] t
      (classify cwd rest .none n).map (fun is => item :: is)

/-! ## rendering into the `exec "$@"` line of `run-with` -/

/-- `write_script_arg_separator` -/
def sep : List Char := [' ', '\\', '\n', ' ', ' ']

def sqBody : List Char → List Char
  | [] => []
  | c :: cs => if c == '\'' then '\'' :: '\\' :: '\'' :: '\'' :: sqBody cs else c :: sqBody cs

/-- `write_shell_quoted` -/
def shellQuoted (s : List Char) : List Char := '\'' :: (sqBody s ++ ['\''])

def digits (n : Nat) : List Char := Nat.toDigits 10 n

def rspVar (n : Nat) : List Char := ['R', 'S', 'P', '_'] ++ digits n

def quotedPre (pre : List Char) : List Char := if pre.isEmpty then [] else shellQuoted pre

def renderItem : Item → List Char
  | .plain pre s => sep ++ quotedPre pre ++ shellQuoted s
  | .copied pre rel => sep ++ quotedPre pre ++ ['"', '$', 'D', '"', '/'] ++ shellQuoted rel
  | .out => sep ++ ['-', 'o', ' ', '"', '$', 'O', 'U', 'T', '"']
  | .rsp n => sep ++ ['@', '"', '$'] ++ rspVar n ++ ['"']

def renderItems : List Item → List Char
  | [] => []
  | i :: is => renderItem i ++ renderItems is

/-- `write_args` (main script mode): the text that follows `exec "$@"`. -/
def emitRunWith (cwd : List Char) (args : List ArgIn) : Option (List Char) :=
  (classify cwd args .none 0).map renderItems

/-! ## the rendering before the fix (only space, `$`, `\` escaped; copies and variables unquoted) -/

def oldEsc : List Char → List Char
  | [] => []
  | c :: cs => if c == ' ' || c == '$' || c == '\\' then '\\' :: c :: oldEsc cs else c :: oldEsc cs

def renderItemOld : Item → List Char
  | .plain pre s => sep ++ pre ++ oldEsc s
  | .copied pre rel => sep ++ pre ++ ['$', 'D', '/'] ++ rel
  | .out => sep ++ ['-', 'o', ' ', '$', 'O', 'U', 'T']
  | .rsp n => sep ++ ['@', '$'] ++ rspVar n

def renderItemsOld : List Item → List Char
  | [] => []
  | i :: is => renderItemOld i ++ renderItemsOld is

/-! ## saved response files (`at-N.txt`) -/

/-- `write_at_file_escaped`; `prev` = previous byte (0 at the start). -/
def atEsc (prev : Char) : List Char → List Char
  | [] => []
  | c :: cs =>
    if c == '\\' || c == '"' || (prev == '$' && (c == 'D' || c == 'O')) then '\\' :: c :: atEsc c cs
    else c :: atEsc c cs

/-- one argument of an at-file (separator `\n` first); nested `@file`s are expanded before. -/
def renderRspItem : Item → List Char
  | .plain pre s => '\n' :: '"' :: (atEsc '\x00' pre ++ atEsc '\x00' s ++ ['"'])
  | .copied pre rel => '\n' :: '"' :: (atEsc '\x00' pre ++ ['$', 'D', '/'] ++ atEsc '\x00' rel ++ ['"'])
  | .out => ['\n', '-', 'o', ' ', '"', '$', 'O', 'U', 'T', '"']
  | .rsp _ => []

def renderRspItems : List Item → List Char
  | [] => []
  | i :: is => renderRspItem i ++ renderRspItems is

/-- Rust `char::is_whitespace` (Unicode White_Space). -/
def isWs (c : Char) : Bool :=
  let n := c.toNat
  (9 ≤ n && n ≤ 13) || n == 32 || n == 0x85 || n == 0xA0 || n == 0x1680 || (0x2000 ≤ n && n ≤ 0x200A) ||
  n == 0x2028 || n == 0x2029 || n == 0x202F || n == 0x205F || n == 0x3000

structure Tok where
  out : List (List Char)        -- finished arguments, most recent first
  heap : Option (List Char)
  quote : Option Char
  expectWs : Bool
  esc : Bool                    -- the previous char was an escaping backslash

def Tok.init : Tok := ⟨[], none, none, false, false⟩

def Tok.pushc (t : Tok) (c : Char) : Tok := { t with heap := some (t.heap.getD [] ++ [c]) }
def Tok.flush (t : Tok) : Tok :=
  match t.heap with
  | none => t
  | some a => { t with heap := none, out := a :: t.out }

/-- `arguments_from_string`; `none` = any of its errors. -/
def tokStep (t : Tok) (ch : Char) : Option Tok :=
  if t.esc then some { t.pushc ch with esc := false }
  else if t.expectWs && !isWs ch then none
  else
    let t := { t with expectWs := false }
    if ch == '\'' || ch == '"' then
      match t.quote with
      | some q =>
        if q == ch then some { t.flush with quote := none, expectWs := true }
        else some (t.pushc ch)
      | none => if t.heap.isSome then none else some { t with quote := some ch }
    else if isWs ch then
      if t.quote.isNone then some t.flush else some (t.pushc ch)
    else if ch == '\\' then some { t with esc := true }
    else some (t.pushc ch)

def tokRun : Tok → List Char → Option Tok
  | t, [] => some t
  | t, c :: cs => (tokStep t c).bind (fun t' => tokRun t' cs)

def argsFromString (s : List Char) : Option (List (List Char)) :=
  (tokRun Tok.init s).bind (fun t =>
    if t.esc || t.quote.isSome then none else some t.flush.out.reverse)

/-- `${LINE//pat/rep}`: replace every (leftmost, non-overlapping) occurrence. Fuel = input length. -/
def replaceAll (pat rep : List Char) : Nat → List Char → List Char
  | 0, s => s
  | _, [] => []
  | fuel + 1, c :: cs =>
    if !pat.isEmpty && pat.isPrefixOf (c :: cs) then rep ++ replaceAll pat rep fuel ((c :: cs).drop pat.length)
    else c :: replaceAll pat rep fuel cs

/-- `DQ=${D//\\/\\\\}; DQ=${DQ//\"/\\\"}` -/
def dqEscValue : List Char → List Char
  | [] => []
  | c :: cs => if c == '\\' || c == '"' then '\\' :: c :: dqEscValue cs else c :: dqEscValue cs

/-- What the run-with loop turns a saved response file into (the text wild then tokenizes).
The substitution is per line; neither pattern nor (for the modelled values) the replacement contains
a newline, so it is applied to the whole text. -/
def substRsp (d out : List Char) (text : List Char) : List Char :=
  let t1 := replaceAll ['$', 'D'] (dqEscValue d) text.length text
  replaceAll ['$', 'O', 'U', 'T'] (dqEscValue out) t1.length t1

end Wild.ShQuote
