/-
POSIX-shell (bash) word splitting of ONE simple command's argument text, for the subset of the
shell language that `libwild/src/save_dir.rs` emits into `run-with` (and a margin around it):
backslash escapes and line continuation, single quotes, double quotes (with `\` escapes and
`$NAME`), unquoted `$NAME` followed by field splitting.  Everything whose meaning depends on more
than the text and the variable values (pathname expansion `* ? [`, tilde, brace expansion, command
substitution, operators `; & | < > ( )`, comments, an unquoted newline = end of the command) is
answered `none` = "not a simple command whose words are determined by this text".

Validated against real bash by the C24 check (`bash` prints the words NUL-separated; every text on
which this model answers `some ws` must make bash produce exactly `ws`).
Core-only imports (linked into the driver).
-/
namespace Wild.ShSplit

/-- Shell variable values; unset = empty. -/
@[reducible] def Env := List Char → List Char

def isNameStart (c : Char) : Bool := c.isAlpha || c == '_'
def isNameChar (c : Char) : Bool := c.isAlphanum || c == '_'
/-- default IFS -/
def isIfs (c : Char) : Bool := c == ' ' || c == '\t' || c == '\n'
/-- pathname-expansion characters (and backslash, which is a pattern escape in expansion results) -/
def isGlob (c : Char) : Bool := c == '*' || c == '?' || c == '['
/-- characters that, unquoted, make the text something else than the words of one simple command -/
def isMeta (c : Char) : Bool :=
  c == ';' || c == '&' || c == '|' || c == '<' || c == '>' || c == '(' || c == ')' || c == '`' || c == '{'
/-- what may not follow an unquoted/double-quoted `$` in the modelled subset (positional and special
parameters, `${`, `$(`) -/
def isDollarSpecial (c : Char) : Bool :=
  c.isDigit || c == '@' || c == '*' || c == '#' || c == '?' || c == '-' || c == '$' || c == '!' ||
  c == '(' || c == '{'

inductive Mode where
  | unq | sq | dq | unqBs | dqBs | unqDollar | dqDollar
  | unqVar (name : List Char)
  | dqVar (name : List Char)
  deriving DecidableEq, Repr

structure St where
  mode : Mode
  /-- the word in progress (`none`: no word has been started) -/
  cur : Option (List Char)
  /-- finished words, most recent first -/
  done : List (List Char)
  deriving DecidableEq, Repr

def St.init : St := ⟨.unq, none, []⟩

def St.app (s : St) (cs : List Char) : St := { s with cur := some (s.cur.getD [] ++ cs) }
def St.push (s : St) : St :=
  match s.cur with
  | none => s
  | some w => { s with cur := none, done := w :: s.done }

/-- Unquoted expansion result: field splitting on IFS white space; a result that would undergo
pathname expansion is outside the subset. -/
def expandUnq : St → List Char → Option St
  | s, [] => some s
  | s, c :: cs =>
    if isIfs c then expandUnq s.push cs
    else if isGlob c || c == '\\' then none
    else expandUnq (s.app [c]) cs

def stepUnq (s : St) (c : Char) : Option St :=
  if c == ' ' || c == '\t' then some { s.push with mode := .unq }
  else if c == '\n' then none
  else if c == '\\' then some { s with mode := .unqBs }
  else if c == '\'' then some { s.app [] with mode := .sq }
  else if c == '"' then some { s.app [] with mode := .dq }
  else if c == '$' then some { s with mode := .unqDollar }
  else if isGlob c || isMeta c then none
  else if (c == '#' || c == '~') && s.cur.isNone then none
  else some { s.app [c] with mode := .unq }

def stepDq (s : St) (c : Char) : Option St :=
  if c == '"' then some { s with mode := .unq }
  else if c == '\\' then some { s with mode := .dqBs }
  else if c == '$' then some { s with mode := .dqDollar }
  else if c == '`' then none
  else some { s.app [c] with mode := .dq }

def step (env : Env) (s : St) (c : Char) : Option St :=
  match s.mode with
  | .unq => stepUnq s c
  | .sq => if c == '\'' then some { s with mode := .unq } else some (s.app [c])
  | .dq => stepDq s c
  | .unqBs => if c == '\n' then some { s with mode := .unq } else some { s.app [c] with mode := .unq }
  | .dqBs =>
    if c == '\n' then some { s with mode := .dq }
    else if c == '$' || c == '`' || c == '"' || c == '\\' then some { s.app [c] with mode := .dq }
    else some { s.app ['\\', c] with mode := .dq }
  | .unqDollar =>
    -- a bare unquoted `$` is outside the subset: bash treats a word containing one as quoted (no field
    -- splitting of the other expansions in that word), other shells do not
    if isNameStart c then some { s with mode := .unqVar [c] } else none
  | .dqDollar =>
    if isNameStart c then some { s with mode := .dqVar [c] }
    else if isDollarSpecial c then none
    else stepDq { s.app ['$'] with mode := .dq } c
  | .unqVar n =>
    if isNameChar c then some { s with mode := .unqVar (n ++ [c]) }
    else (expandUnq { s with mode := .unq } (env n)).bind (fun s' => stepUnq s' c)
  | .dqVar n =>
    if isNameChar c then some { s with mode := .dqVar (n ++ [c]) }
    else stepDq { s.app (env n) with mode := .dq } c

def run (env : Env) : St → List Char → Option St
  | s, [] => some s
  | s, c :: cs => (step env s c).bind (fun s' => run env s' cs)

def finish (env : Env) (s : St) : Option (List (List Char)) :=
  match s.mode with
  | .unq => some s.push.done.reverse
  | .unqVar n => (expandUnq { s with mode := .unq } (env n)).map (fun s' => s'.push.done.reverse)
  | _ => none

/-- The words bash passes to the command for the argument text `text`. -/
def shSplit (env : Env) (text : List Char) : Option (List (List Char)) :=
  (run env St.init text).bind (finish env)

theorem run_append (env : Env) (s : St) (xs ys : List Char) :
    run env s (xs ++ ys) = (run env s xs).bind (fun s' => run env s' ys) := by
  induction xs generalizing s with
  | nil => simp [run]
  | cons x xs ih =>
    simp only [List.cons_append, run]
    cases step env s x with
    | none => simp
    | some s' => simp [ih]

end Wild.ShSplit
