/-
Extended section numbering (gABI): mirrors elf_writer.rs `populate_file_header` (e_shnum, e_shstrndx)
and the SHT_NULL arm of `write_section_headers` (sh_size / sh_link of section header 0).
Two cooperating places in the code; the reader (`decode*`) is what every ELF consumer does.
Theorems: Props/C04Ext.lean. Driver op: `shdr-ext`.
-/
namespace Wild.ShdrExt

def SHN_LORESERVE : Nat := 0xff00
def SHN_XINDEX : Nat := 0xffff

structure Hdr where
  eShnum : Nat
  eShstrndx : Nat
  sh0Size : Nat
  sh0Link : Nat
  deriving Repr, DecidableEq

/-- populate_file_header: the two ELF-header fields. -/
def headerFields (shnum shstrndx : Nat) : Nat × Nat :=
  (if shnum ≥ SHN_LORESERVE then 0 else shnum, if shstrndx ≥ SHN_LORESERVE then SHN_XINDEX else shstrndx)

/-- write_section_headers, SHT_NULL arm: sh_size and sh_link of header 0. -/
def section0Fields (shnum shstrndx : Nat) : Nat × Nat :=
  (if shnum ≥ SHN_LORESERVE then shnum else 0, if shstrndx ≥ SHN_LORESERVE then shstrndx else 0)

def encode (shnum shstrndx : Nat) : Hdr :=
  let h := headerFields shnum shstrndx
  let s := section0Fields shnum shstrndx
  { eShnum := h.1, eShstrndx := h.2, sh0Size := s.1, sh0Link := s.2 }

/-- What a reader of the file computes (gABI). -/
def decodeShnum (h : Hdr) : Nat := if h.eShnum = 0 then h.sh0Size else h.eShnum
def decodeShstrndx (h : Hdr) : Nat := if h.eShstrndx = SHN_XINDEX then h.sh0Link else h.eShstrndx

/-- The variant in which the SHT_NULL arm tests `>` instead of `>=` for the string-table index
(a one-character slip between the two cooperating places). -/
def section0FieldsOffByOne (shnum shstrndx : Nat) : Nat × Nat :=
  (if shnum ≥ SHN_LORESERVE then shnum else 0, if shstrndx > SHN_LORESERVE then shstrndx else 0)

end Wild.ShdrExt
