/-
Model of the sequential CONTENT of libwild/src/string_merging.rs (property C07).
Hand-written; tied to the code by the differential correspondences `sm-split` / `sm-merge`
(wvh runs the real `split_sections`, `add_input_sections`, `find_string`) and by whole links.

Abstractions (listed in the trusted base of C07):
* the sharded `OffsetMap` + overflow `HashMap` are one finite map (association list, first match);
* the per-bucket `HashMap<string, offset>` is "offset of the first occurrence in the insertion list";
* `BucketOffset` (u32: 4 bucket bits | 28 offset bits) is a pair `(bucket, offset)`; the 28-bit limit
  on string START offsets is modelled (`Err.tooLarge`), carries of `offset + i` into the bucket bits
  (only possible with > 256 MiB in one bucket) are not;
* the hash is a parameter `h`; the schedule is not modelled (C40): groups are processed in index order,
  which is the order in which every bucket consumes them.
Core-only imports.
-/
namespace Wild.StrMerge

inductive Err where
  | unterminated | tooLarge | notFound | panic
  deriving DecidableEq, Repr

/-- One input section selected for merging (`StringMergeInputSection` without its start offset). -/
structure Sec where
  data : List UInt8
  isString : Bool
  deriving DecidableEq, Repr

/-- `MAP_BLOCK_SIZE` -/
def blockSize : Nat := 256

/-- `len.next_multiple_of(MAP_BLOCK_SIZE)` (`padded_len`) -/
def padLen (n : Nat) : Nat := (n + 255) / 256 * 256

/-- `group_merge_string_sections_by_output`: every section gets the sum of the padded sizes of the
sections before it as `start_input_offset`. -/
def withStarts : Nat → List Sec → List (Nat × Sec)
  | _, [] => []
  | st, s :: rest => (st, s) :: withStarts (st + padLen s.data.length) rest

/-- `memchr::memchr(0, bytes)` -/
def findNul : List UInt8 → Option Nat
  | [] => none
  | b :: r => if b = 0 then some 0 else
    match findNul r with
    | none => none
    | some i => some (i + 1)

/-- `MergeString::take_string_hashed`: split after the first NUL; `none` = "not null-terminated". -/
def takeString (d : List UInt8) : Option (List UInt8 × List UInt8) :=
  match findNul d with
  | none => none
  | some i => some (d.take (i + 1), d.drop (i + 1))

/-- An entry handed to a bucket: (linear input offset of the string start, the string incl. NUL). -/
abbrev Entry := Nat × List UInt8

/-- The `while !remaining.is_empty() && input_offset < range.end` loop of `process_input_section`. -/
def scanLoop (hi : Nat) : Nat → List UInt8 → Nat → Except Err (List Entry)
  | 0, _, _ => .ok []
  | fuel + 1, rem, off =>
    if rem.isEmpty || !(decide (off < hi)) then .ok []
    else
      match takeString rem with
      | none => .error .unterminated
      | some (s, rest) =>
        match scanLoop hi fuel rest (off + s.length) with
        | .error e => .error e
        | .ok es => .ok ((off, s) :: es)

/-- The `if range.start > input_offset` block: how many bytes of the section to skip when the group
starts `x > 0` bytes into it. `remaining[x - 1]` out of bounds is a panic. -/
def skipAdvance (d : List UInt8) (x : Nat) : Except Err Nat :=
  match d[x - 1]? with
  | none => .error .panic
  | some b =>
    if b = 0 then .ok x
    else
      match findNul (d.drop x) with
      | none => .ok d.length
      | some i => .ok (x + i + 1)

/-- `process_input_section` for the section with linear start `st` and the group range `[lo, hi)`. -/
def processSection (st : Nat) (sec : Sec) (lo hi : Nat) : Except Err (List Entry) :=
  match (if lo > st then skipAdvance sec.data (lo - st) else .ok 0) with
  | .error e => .error e
  | .ok adv =>
    let rem := sec.data.drop adv
    if !sec.isString then .ok [(st + adv, rem)]
    else scanLoop hi (rem.length + 1) rem (st + adv)

/-- `SectionGroup`: the sections `sections[start..=end]` (with their start offsets) and the range. -/
structure Group where
  secs : List (Nat × Sec)
  lo : Nat
  hi : Nat
  deriving Repr

/-- `split_sections`, both loops merged into one state machine.
`todo.head` = `sections[section_index]`, `x` = `offset_in_section`, `cur` = the sections already
taken into the open group, `lo` = its `linear_start` (meaningful when `cur ≠ []`), `rem` = `remaining`. -/
def splitLoop (size : Nat) : Nat → List (Nat × Sec) → Nat → List (Nat × Sec) → Nat → Nat → List Group
  | 0, _, _, _, _, _ => []
  | _ + 1, [], _, _, _, _ => []
  | fuel + 1, (st, sec) :: rest, x, cur, lo, rem =>
    let avail := padLen sec.data.length - x
    let lo' := if cur.isEmpty then st + x else lo
    if avail > rem && sec.isString then
      -- still some of this section left for the next group
      ⟨cur ++ [(st, sec)], lo', st + x + rem⟩ ::
        splitLoop size fuel ((st, sec) :: rest) (x + rem) [] 0 size
    else if avail ≥ rem || rest.isEmpty then
      -- `remaining <= 0 || section_index + 1 == sections.len()`: the group ends with this section
      ⟨cur ++ [(st, sec)], lo', st + x + avail⟩ :: splitLoop size fuel rest 0 [] 0 size
    else
      splitLoop size fuel rest 0 (cur ++ [(st, sec)]) lo' (rem - avail)

def splitFuel : List (Nat × Sec) → Nat
  | [] => 1
  | (_, s) :: r => padLen s.data.length + 1 + splitFuel r

def splitSections (size : Nat) (ss : List (Nat × Sec)) : List Group :=
  splitLoop size (splitFuel ss) ss 0 [] 0 size

/-- `process_input_section_group`: the sections of the group in order; first error wins. -/
def processSecs (lo hi : Nat) : List (Nat × Sec) → Except Err (List Entry)
  | [] => .ok []
  | (st, s) :: r =>
    match processSection st s lo hi with
    | .error e => .error e
    | .ok es =>
      match processSecs lo hi r with
      | .error e => .error e
      | .ok es' => .ok (es ++ es')

/-- All groups in index order (the order in which every bucket consumes them). -/
def processGroups : List Group → Except Err (List Entry)
  | [] => .ok []
  | g :: r =>
    match processSecs g.lo g.hi g.secs with
    | .error e => .error e
    | .ok es =>
      match processGroups r with
      | .error e => .error e
      | .ok es' => .ok (es ++ es')

/-- `add_string`: append unless an identical string is already present. -/
def addString (strs : List (List UInt8)) (s : List UInt8) : List (List UInt8) :=
  if s ∈ strs then strs else strs ++ [s]

/-- The offset `add_string` returns for `s`: total size of the strings inserted before its first occurrence. -/
def offIn : List (List UInt8) → List UInt8 → Nat
  | [], _ => 0
  | t :: r, s => if t = s then 0 else t.length + offIn r s

/-- Strings of bucket `b` after all groups: `(hash as usize) % MERGE_STRING_BUCKETS == b`. -/
def bucketStrs (nb : Nat) (h : List UInt8 → Nat) (b : Nat) (es : List Entry) : List (List UInt8) :=
  ((es.filter (fun e => h e.2 % nb == b)).map (·.2)).foldl addString []

def allBuckets (nb : Nat) (h : List UInt8 → Nat) (es : List Entry) : List (List (List UInt8)) :=
  (List.range nb).map (fun b => bucketStrs nb h b es)

/-- `bucket_offsets[b]`: sum of `next_offset` of the buckets before `b`. -/
def baseOf (bs : List (List (List UInt8))) (b : Nat) : Nat :=
  ((bs.take b).map (fun ss => ss.flatten.length)).sum

/-- What `write_merged_strings` writes: every bucket's strings in order, buckets in index order. -/
def outBytes (bs : List (List (List UInt8))) : List UInt8 :=
  (bs.map List.flatten).flatten

/-- `BucketOffset::new` limit: `offset >= 1 << 28` is an error. -/
def offsetLimit : Nat := 2 ^ 28

/-- The finite map input offset ↦ (bucket, offset in bucket) (`string_offsets` + overflow map). -/
def offMap (nb : Nat) (h : List UInt8 → Nat) (bs : List (List (List UInt8))) (es : List Entry) :
    List (Nat × (Nat × Nat)) :=
  es.map (fun e => (e.1, (h e.2 % nb, offIn (bs.getD (h e.2 % nb) []) e.2)))

structure Merged where
  buckets : List (List (List UInt8))
  map : List (Nat × (Nat × Nat))
  starts : List (Nat × Sec)
  deriving Repr

def Merged.bytes (m : Merged) : List UInt8 := outBytes m.buckets

/-- `add_input_sections` as a function: split, scan, bucket, dedup, offsets. `size` is the group size
after `.next_multiple_of(MAP_BLOCK_SIZE)`. -/
def merge (size nb : Nat) (h : List UInt8 → Nat) (secs : List Sec) : Except Err Merged :=
  let ss := withStarts 0 secs
  match processGroups (splitSections size ss) with
  | .error e => .error e
  | .ok es =>
    let bs := allBuckets nb h es
    let m := offMap nb h bs es
    if m.any (fun kv => decide (offsetLimit ≤ kv.2.2)) then .error .tooLarge
    else .ok ⟨bs, m, ss⟩

/-- The backward search of `find_string`: candidates `o-1, o-2, …, 0` (argument `j` = candidate + 1). -/
def findBack (m : List (Nat × (Nat × Nat))) (st o : Nat) : Nat → Option (Nat × Nat)
  | 0 => none
  | j + 1 =>
    match m.lookup (st + j) with
    | some v => some (v.1, v.2 + (o - j))
    | none => findBack m st o j

/-- `find_string(merge_slot, input_offset, section)` -/
def findString (m : List (Nat × (Nat × Nat))) (st o : Nat) : Except Err (Nat × Nat) :=
  match m.lookup (st + o) with
  | some v => .ok v
  | none =>
    match findBack m st o o with
    | some v => .ok v
    | none => .error .notFound

/-- Output offset (section-relative address) of input offset `o` of the section starting at `st`:
`bucket_base + offset_in_bucket`. -/
def addr (m : Merged) (st o : Nat) : Except Err Nat :=
  match findString m.map st o with
  | .error e => .error e
  | .ok v => .ok (baseOf m.buckets v.1 + v.2)

def wrap64 (i : Int) : Nat := (i % (2 ^ 64 : Int)).toNat

/-- `get_merged_string_output_address` (with `zero_unnamed = false`, section address 0):
named symbol: string chosen at the symbol value, addend added afterwards;
section symbol: addend applied before the lookup. All arithmetic wraps at 64 bits. -/
def refAddr (m : Merged) (st value : Nat) (addend : Int) (named : Bool) : Except Err Nat :=
  if named then
    match addr m st value with
    | .error e => .error e
    | .ok a => .ok (wrap64 (a + addend))
  else
    addr m st (wrap64 (value + addend))

/-- Bytes from `o` up to and including the first NUL (`none`: no NUL / out of range). -/
def cstr (bs : List UInt8) (o : Nat) : Option (List UInt8) :=
  match findNul (bs.drop o) with
  | none => none
  | some i => some ((bs.drop o).take (i + 1))

end Wild.StrMerge
