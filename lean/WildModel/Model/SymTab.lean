import WildModel.Model.Link
/-!
M-SymTab: which symbols end up in `.dynsym`, and how `.symtab` is ordered.

Extends the abstract link input of `Model/Link.lean` with per-symbol visibility / type / size and the
export controls. Mirrors (hand-written; tied by the whole-link correspondence `st` in
`vlib/props/c31.py`):

* libwild/src/elf.rs `convert_elf_visibility` (STV_INTERNAL is treated like STV_HIDDEN) and
  `Visibility: Ord` (Default < Protected < Hidden);
* libwild/src/symbol_db.rs `RegularObjectSymbolLoader::should_downgrade_to_local` (version script
  `local:`), `process_alternatives` + `handle_non_default_visibility` (hidden visibility of any
  definition of the name in a file that takes part in the link downgrades every regular definition),
  libwild/src/resolution.rs `resolve_symbol` (a hidden undefined reference downgrades the definition;
  `process_alternatives` spreads the flag over all regular definitions of the name);
* libwild/src/layout.rs `ObjectLayoutState::activate` (`export_all_dynamic`, `load_non_hidden_symbols`),
  `ObjectLayoutState::export_dynamic` (request from a shared object that references the name),
  `can_export_symbol`;
* libwild/src/elf_writer.rs `write_symbols` / `SymbolCopyInfo::new` / `SymbolTableWriter`
  (`define_symbol(is_local, ..)`: locals part, then globals part; `copy_symbol_shndx` sets STB_LOCAL on
  downgraded symbols), `ValueFlags::is_symtab_local`.
-/
namespace Wild.SymTab
open Wild.Link

inductive Vis where
  | dflt | prot | hid | intern
  deriving Repr, DecidableEq, Inhabited

/-- `convert_elf_visibility` followed by the derived `Ord`: 0 default, 1 protected, 2 hidden. -/
def Vis.rank : Vis → Nat
  | .dflt => 0
  | .prot => 1
  | .hid => 2
  | .intern => 2

def Vis.isHidden (v : Vis) : Bool := v.rank == 2

/-- One symbol-table entry of an input file. -/
structure Sym where
  name : Nat
  /-- `st_shndx != SHN_UNDEF` -/
  defined : Bool
  /-- STB_LOCAL -/
  isLocal : Bool := false
  /-- STB_WEAK -/
  weak : Bool := false
  vis : Vis := .dflt
  /-- STT_* -/
  type : Nat := 0
  size : Nat := 0
  deriving Repr, DecidableEq, Inhabited

structure XFile where
  /-- shared object -/
  dynamic : Bool
  /-- archive member outside `--whole-archive`, or `--as-needed` shared object -/
  optional : Bool
  /-- `has_archive_semantics() && !args.should_export_dynamic(lib_name)`: member of an archive named by
  `--exclude-libs` -/
  excluded : Bool
  syms : List Sym
  deriving Repr, Inhabited

inductive OutKind where
  /-- `-shared` -/
  | shared
  /-- dynamically linked executable or PIE (`needs_dynsym`) -/
  | exe
  deriving Repr, DecidableEq, Inhabited

structure Config where
  out : OutKind
  /-- `--export-dynamic` -/
  exportAll : Bool
  /-- `--export-dynamic-symbol` / `--export-dynamic-symbol-list` / `--dynamic-list`: the names matched -/
  exportList : Option (List Nat)
  /-- names the version script makes `local:` -/
  vsLocal : List Nat
  deriving Repr, Inhabited

/-! ### Projection to M-Link (which files are loaded, which definition is canonical) -/

def Sym.toEntry (s : Sym) : Option Entry :=
  if s.isLocal then none
  else if s.defined then some (.defn s.name (if s.weak then .weak else .strong) false)
  else some (.undef s.name s.weak)

def XFile.toLink (f : XFile) : File :=
  { dynamic := f.dynamic, optional := f.optional, entries := f.syms.filterMap Sym.toEntry }

def linkFiles (fs : List XFile) : List File := fs.map XFile.toLink

def loaded (fs : List XFile) (i : Nat) : Bool := isLoaded (linkFiles fs) i

/-- `symbol_db.is_canonical(symbol_id)` for the definition of `n` in file `i`. -/
def isCanonical (fs : List XFile) (i n : Nat) : Bool :=
  resolveName false (linkFiles fs) n == some (.chosen i)

/-! ### ValueFlags::DOWNGRADE_TO_LOCAL -/

/-- Does file `f` have a (non-local) entry for `n` — defined or not, as `wantDef` says — whose
visibility converts to `Hidden`? -/
def hiddenEntry (f : XFile) (n : Nat) (wantDef : Bool) : Bool :=
  f.syms.any fun s => !s.isLocal && s.name == n && s.defined == wantDef && s.vis.isHidden

/-- Some regular object that takes part in the link has such an entry. -/
def anyLoadedRegular (fs : List XFile) (p : XFile → Bool) : Bool :=
  (List.range fs.length).any fun i =>
    match fs[i]? with
    | some f => loaded fs i && !f.dynamic && p f
    | none => false

/-- Does `f` hold a non-local definition of `n`? (one pending symbol in `populate_symbol_db`) -/
def XFile.definesGlobal (f : XFile) (n : Nat) : Bool :=
  f.syms.any fun s => s.defined && !s.isLocal && s.name == n

/-- The name has alternative definitions (`alternative_definitions` is non-empty): at least two files
— loaded or not, regular or shared — define it. -/
def hasAlternatives (fs : List XFile) (n : Nat) : Bool := 2 ≤ fs.countP (·.definesGlobal n)

/-- `process_alternatives`: runs only for names with alternatives; the visibility merge looks at the
definitions in files that take part in the link; `handle_non_default_visibility(Hidden)` flags every
regular definition of the name. -/
def defVisHidden (fs : List XFile) (n : Nat) : Bool :=
  hasAlternatives fs n && anyLoadedRegular fs (hiddenEntry · n true)

/-- `resolve_symbol`: a hidden undefined reference in a loaded regular object. -/
def refVisHidden (fs : List XFile) (n : Nat) : Bool := anyLoadedRegular fs (hiddenEntry · n false)

/-- The flag as seen on the canonical regular definition of `n`. -/
def downgraded (cfg : Config) (fs : List XFile) (n : Nat) : Bool :=
  cfg.vsLocal.contains n || defVisHidden fs n || refVisHidden fs n

/-! ### `.dynsym` definitions -/

def inExportList (cfg : Config) (n : Nat) : Bool :=
  match cfg.exportList with
  | none => true
  | some l => l.contains n

/-- `can_export_symbol(sym, id, resources, export_all_dynamic)` for entry `s` of regular file `i`. -/
def canExport (cfg : Config) (fs : List XFile) (i : Nat) (f : XFile) (s : Sym) (exportAll : Bool) : Bool :=
  if !s.defined || s.isLocal then false
  else if s.vis.isHidden then false
  else if !isCanonical fs i s.name then false
  else if downgraded cfg fs s.name then false
  else if f.excluded then false
  else if !exportAll && !inExportList cfg s.name then false
  else true

/-- `export_all_dynamic` of `ObjectLayoutState::activate`. -/
def exportAllDynamic (cfg : Config) (f : XFile) : Bool :=
  (cfg.out == .shared && !f.excluded) || cfg.exportAll

/-- Names in the dynamic symbol table of a loaded shared object, defined there or not
(`request_all_undefined_symbols` walks ALL its symbols): each one whose canonical definition lives in
another file sends `WorkItem::ExportDynamic` to that file. -/
def sharedRefs (fs : List XFile) : List Nat :=
  (List.range fs.length).flatMap fun i =>
    match fs[i]? with
    | some f =>
      if loaded fs i && f.dynamic then
        (f.syms.filter fun s => !s.isLocal).map (·.name)
      else []
    | none => []

/-- Exports of regular file `i`: `load_non_hidden_symbols` plus the `ExportDynamic` requests. -/
def fileExports (cfg : Config) (fs : List XFile) (i : Nat) (f : XFile) : List Nat :=
  let ea := exportAllDynamic cfg f
  let a := if ea || cfg.exportList.isSome then f.syms.filter (canExport cfg fs i f · ea) else []
  let b := f.syms.filter fun s => (sharedRefs fs).contains s.name && canExport cfg fs i f s true
  (a ++ b).map (·.name)

/-- Defined entries of `.dynsym` (names; possibly with repetitions, the writer de-duplicates through
the `EXPORT_DYNAMIC` flag). -/
def dynExports (cfg : Config) (fs : List XFile) : List Nat :=
  (List.range fs.length).flatMap fun i =>
    match fs[i]? with
    | some f => if loaded fs i && !f.dynamic then fileExports cfg fs i f else []
    | none => []

/-! ### `.dynsym` imports -/

/-- Undefined default-visibility references of loaded regular objects, in symbol-id order. -/
def regularRefs (fs : List XFile) (n : Nat) : List Sym :=
  (List.range fs.length).flatMap fun i =>
    match fs[i]? with
    | some f =>
      if loaded fs i && !f.dynamic then f.syms.filter fun s => !s.defined && !s.isLocal && s.name == n
      else []
    | none => []

/-- Is `n` bound to a definition in a loaded shared object? -/
def boundToShared (fs : List XFile) (n : Nat) : Bool :=
  match resolveName false (linkFiles fs) n with
  | some (.chosen d) => loaded fs d && ((fs[d]?.map (·.dynamic)).getD false)
  | _ => false

/-- `canonicalise_undefined_symbols`: an unbound name is made `DYNAMIC` (an import) when it is
referenced with default visibility only, and the output is a shared object or the references are weak
(a non-weak unbound reference in an executable is a link error). -/
def unboundImport (cfg : Config) (fs : List XFile) (n : Nat) : Bool :=
  !isBound false (linkFiles fs) n && !(regularRefs fs n).isEmpty &&
    ((regularRefs fs n).all fun s => s.vis == .dflt) &&
    (cfg.out == .shared || (regularRefs fs n).all fun s => s.weak)

def isImport (cfg : Config) (fs : List XFile) (n : Nat) : Bool :=
  ((regularRefs fs n).any fun s => s.vis == .dflt) && boundToShared fs n && !refVisHidden fs n
    || unboundImport cfg fs n

/-! ### `.symtab` -/

structure OutSym where
  name : Nat
  file : Nat
  /-- the input entry was STB_LOCAL (model-internal: tells global definitions from file-local ones) -/
  fromLocal : Bool
  /-- output binding is STB_LOCAL -/
  bindLocal : Bool
  weak : Bool
  vis : Vis
  type : Nat
  size : Nat
  deriving Repr, DecidableEq, Inhabited

/-- `SymbolCopyInfo::new`: canonical, defined (section-GC and name-based stripping are not modelled:
every loaded section is kept). -/
def copied (fs : List XFile) (i : Nat) (s : Sym) : Bool :=
  s.defined && (s.isLocal || isCanonical fs i s.name)

/-- `ValueFlags::is_symtab_local`. -/
def symtabLocal (cfg : Config) (fs : List XFile) (s : Sym) : Bool :=
  s.isLocal || downgraded cfg fs s.name

/-- `copy_symbol_shndx`: `st_info`/`st_other` copied from the input, binding forced to STB_LOCAL when
downgraded. -/
def outSym (cfg : Config) (fs : List XFile) (i : Nat) (s : Sym) : OutSym :=
  { name := s.name, file := i, fromLocal := s.isLocal, bindLocal := s.isLocal || downgraded cfg fs s.name,
    weak := s.weak, vis := s.vis, type := s.type, size := s.size }

/-- Entries file `i` writes into the part selected by `wantLocal` (`define_symbol(is_local, ..)`). -/
def filePart (cfg : Config) (fs : List XFile) (wantLocal : Bool) (i : Nat) : List OutSym :=
  match fs[i]? with
  | some f =>
    if loaded fs i && !f.dynamic then
      (f.syms.filter fun s => copied fs i s && symtabLocal cfg fs s == wantLocal).map (outSym cfg fs i)
    else []
  | none => []

def symtabPart (cfg : Config) (fs : List XFile) (wantLocal : Bool) : List OutSym :=
  (List.range fs.length).flatMap (filePart cfg fs wantLocal)

/-- `.symtab` after the null entry / section symbols: the SYMTAB_LOCAL part, then SYMTAB_GLOBAL. -/
def symtab (cfg : Config) (fs : List XFile) : List OutSym :=
  symtabPart cfg fs true ++ symtabPart cfg fs false

/-- `sh_info` (relative to the first modelled entry). -/
def shInfo (cfg : Config) (fs : List XFile) : Nat := (symtabPart cfg fs true).length

end Wild.SymTab
