/-
Model of wild's AArch64 range-extension thunk machinery (property C11):
  libwild/src/thunks.rs       `collect_primary_ranges`, `assign_thunk_blocks`, the `provably_in_range`
                              closure of `process_primary_part_refs`, `ThunkLayoutBuilder::new`
                              (`branch_range = min_branch_range - MAXIMUM_THUNK_BYTES_PER_BLOCK`)
  libwild/src/elf_aarch64.rs  `MIN_BRANCH_RANGE`, `THUNK_TEMPLATE`, `write_thunk`
  libwild/src/layout.rs       `finalise_layout` of an owner object: the block's thunks are appended
                              after the owner's own sections in the primary part, 12 bytes each, in
                              sorted symbol order
  libwild/src/elf_writer.rs   `maybe_get_thunk_for_relocation` (value written into the branch)
Core-only imports (the driver links this file).

### `assign_thunk_blocks`
Objects arrive in address order as `(start, end)` of their post-GC bytes in the primary part.
The Rust loop keeps `prev_block_id`/`prev_block_pos` ("previous" mode) and
`pending_next = Some(id, first_file, first_object_start)` + `pending_last = (file, end)` ("next"
mode) and reports results through an `assign(file, block, is_owner)` callback that overwrites
`(thunk_block_id, owns_thunk_block)` of the object, so the LAST callback per object wins.  The model
is the same automaton written as a structurally recursive function that emits the FINAL
`(block, is_owner)` of every object in input order (deferred callbacks of the Rust — the first
object of a pending group, the owner flag of the last one — are emitted when the group is closed):

  Rust state                                   model
  prev mode (pending_next = None)              `Mode.prev id pos`
  pending_next = Some(id, first, first_start)  `Mode.pend id first_start befores last`
    + pending_last = (last, last.end)            (group = befores ++ [last], first = head of it)
  `end - prev_block_pos >= R`                  `o.stop - pos ≥ R`   (Nat subtraction; inputs are
  `end - first_object_start < R`               `o.stop - fs < R`     increasing, so no underflow)

Every emitted assignment also carries the ghost field `pos`: the position of the block in the
pre-thunk coordinates (= `end` of the owner; the Rust's `prev_block_pos`).

The pre-fix automaton (`run`) is kept for the regression witness in `Props/C11.lean`.
-/
import WildModel.Model.Insn
namespace Wild.Thunks
open Wild.Insn

/-! ## Constants -/

/-- `elf_aarch64.rs: MIN_BRANCH_RANGE` (128 MiB): B/BL reach `[-2^27, 2^27)`. -/
def MIN_BRANCH_RANGE : Nat := 128 * 1024 * 1024
/-- `thunks.rs: MAXIMUM_THUNK_BYTES_PER_BLOCK` (2 MiB) -/
def MAXIMUM_THUNK_BYTES_PER_BLOCK : Nat := 2 * 1024 * 1024
/-- `THUNK_TEMPLATE.len()` -/
def THUNK_SIZE : Nat := 12
/-- `ThunkLayoutBuilder::new`: `branch_range` -/
def BRANCH_RANGE : Nat := MIN_BRANCH_RANGE - MAXIMUM_THUNK_BYTES_PER_BLOCK

/-! ## Objects and `collect_primary_ranges` -/

/-- Post-GC byte range of an object in the primary part (`(start, end)`), pre-thunk coordinates. -/
structure Obj where
  start : Nat
  stop : Nat
  deriving Repr, DecidableEq, Inhabited

/-- `collect_primary_ranges(group_states, initial_offset)`: contiguous ranges from the sizes
(`post_gc_primary_bytes`) starting at the non-primary executable size. -/
def collectPrimaryRanges : Nat → List Nat → List Obj
  | _, [] => []
  | off, sz :: rest => ⟨off, off + sz⟩ :: collectPrimaryRanges (off + sz) rest

/-- `assign_thunk_blocks_to_groups`: only objects with `end > start` take part. -/
def nonEmpty (os : List Obj) : List Obj := os.filter (fun o => o.stop > o.start)

/-! ## `assign_thunk_blocks` -/

/-- Final assignment of one object + ghost position of its block. -/
structure Asg where
  block : Nat
  owner : Bool
  pos : Nat
  deriving Repr, DecidableEq, Inhabited

inductive Mode where
  | prev (id pos : Nat)
  | pend (id fs : Nat) (befores : List Obj) (last : Obj)
  deriving Repr

/-- The pending block is placed on `last` (its owner); everybody else of the group uses it. -/
def emitPlaced (id : Nat) (befores : List Obj) (last : Obj) : List (Obj × Asg) :=
  befores.map (fun m => (m, ⟨id, false, last.stop⟩)) ++ [(last, ⟨id, true, last.stop⟩)]

/-- The loop ended in "next" mode: the first object of the group owns the block. -/
def emitEnd (id : Nat) (befores : List Obj) (last : Obj) : List (Obj × Asg) :=
  match befores with
  | [] => [(last, ⟨id, true, last.stop⟩)]
  | f :: bs => (f, ⟨id, true, f.stop⟩) :: (bs ++ [last]).map (fun m => (m, ⟨id, false, f.stop⟩))

/-- PROPOSED automaton (not in the tree): the loop after the first object; `nb` = `num_blocks`. -/
def runProposed (R : Nat) : Nat → Mode → List Obj → List (Obj × Asg) × Nat
  | nb, .prev _ _, [] => ([], nb)
  | nb, .pend id _ bef last, [] => (emitEnd id bef last, nb)
  | nb, .prev id pos, o :: rest =>
      if o.stop - pos ≥ R then runProposed R (nb + 1) (.pend nb o.start [] o) rest
      else
        let r := runProposed R nb (.prev id pos) rest
        ((o, ⟨id, false, pos⟩) :: r.1, r.2)
  | nb, .pend id fs bef last, o :: rest =>
      if o.stop - fs < R then runProposed R nb (.pend id fs (bef ++ [last]) o) rest
      else
        let placed := emitPlaced id bef last
        if o.stop - last.stop ≥ R then
          let r := runProposed R (nb + 1) (.pend nb o.start [] o) rest
          (placed ++ r.1, r.2)
        else
          let r := runProposed R nb (.prev id last.stop) rest
          (placed ++ (o, ⟨id, false, last.stop⟩) :: r.1, r.2)

/-- PROPOSED `assign_thunk_blocks` (patch c11-thunk-block-placement-proposal.diff). -/
def assignThunkBlocksProposed (R : Nat) : List Obj → List (Obj × Asg) × Nat
  | [] => ([], 0)
  | o :: rest =>
      let r := runProposed R 1 (.prev 0 o.stop) rest
      ((o, ⟨0, true, o.stop⟩) :: r.1, r.2)

/-! ### The automaton of the code as it is
`run`: the loop of `assign_thunk_blocks` after the first object (`nb` = `num_blocks`);
`assignThunkBlocks`: `assign_thunk_blocks(objects, max_branch_range, assign) -> num_blocks`.
In "next" mode the block is placed on the object whose `end` first reaches the range measured
from the first object's start, i.e. at a position that is already out of range of the first object. -/

def run (R : Nat) : Nat → Mode → List Obj → List (Obj × Asg) × Nat
  | nb, .prev _ _, [] => ([], nb)
  | nb, .pend id _ bef last, [] => (emitEnd id bef last, nb)
  | nb, .prev id pos, o :: rest =>
      if o.stop - pos ≥ R then run R (nb + 1) (.pend nb o.start [] o) rest
      else
        let r := run R nb (.prev id pos) rest
        ((o, ⟨id, false, pos⟩) :: r.1, r.2)
  | nb, .pend id fs bef last, o :: rest =>
      if o.stop - fs ≥ R then
        let r := run R nb (.prev id o.stop) rest
        (emitPlaced id (bef ++ [last]) o ++ r.1, r.2)
      else run R nb (.pend id fs (bef ++ [last]) o) rest

def assignThunkBlocks (R : Nat) : List Obj → List (Obj × Asg) × Nat
  | [] => ([], 0)
  | o :: rest =>
      let r := run R 1 (.prev 0 o.stop) rest
      ((o, ⟨0, true, o.stop⟩) :: r.1, r.2)

/-! ## `provably_in_range` and the decision to create a thunk -/

/-- What `provably_in_range` can see of the definition: `DYNAMIC` flag; a definition in the primary
part of an object with range `(def_start, def_end)` (`primary_range_for_symbol = Some`); anything
else (IFUNC, a symbol with a PLT entry — e.g. an interposable function of a shared object, which is
branched to via its PLT entry —, non-primary part: `primary_range_for_symbol = None`). -/
inductive Target where
  | dynamic
  | primary (defStart defStop : Nat)
  | other
  deriving Repr, DecidableEq

/-- The closure `provably_in_range(src_start, src_end, definition_id)` with `branch_range = R`.
`saturating_sub` is `Nat` subtraction. -/
def provablyInRange (R srcStart srcStop : Nat) : Target → Bool
  | .dynamic => false
  | .primary ds de => decide (max srcStop de - min srcStart ds < R)
  | .other => decide (srcStop < R)

/-- `process_primary_part_refs`: the definition is added to the symbols of the block of the
referencing object iff the reference is not provably in range. -/
def needsThunk (R : Nat) (src : Obj) (t : Target) : Bool := !provablyInRange R src.start src.stop t

/-- Address of the `idx`-th thunk of a block whose first thunk is at `blockAddr`
(`finalise_layout`: `*addr += config.thunk_size` per sorted symbol). -/
def thunkAddr (blockAddr idx : Nat) : Nat := blockAddr + THUNK_SIZE * idx

/-- `AllowedRange::contains` of the `R_AARCH64_CALL26/JUMP26` rows: `[-2^27, 2^27)`. -/
def inBranchRange (v : Int) : Bool := decide (-134217728 ≤ v ∧ v < 134217728)

inductive BranchError where
  /-- "Branch relocation out of range by .. but no thunk allocated" -/
  | noThunk
  /-- the thunk itself is out of range: "Relocation .. outside of bounds" from `write_to_buffer` -/
  | thunkOutOfRange
  deriving Repr, DecidableEq

/-- `maybe_get_thunk_for_relocation` + the range check of `write_to_buffer` for
`R_AARCH64_CALL26/JUMP26` (no page mask, bias 0).  `direct` is `S + A - P`; `viaThunk` is
`thunk_address - P` when the block of the place has a thunk for the symbol. -/
def branchOutcome (direct : Int) (viaThunk : Option Int) : Except BranchError Int :=
  if inBranchRange direct then .ok direct
  else match viaThunk with
    | some v => if inBranchRange v then .ok v else .error .thunkOutOfRange
    | none => .error .noThunk

/-! ## `write_thunk` -/

def PAGE_MASK_4KB : BitVec 64 := 0xfff#64

/-- Little-endian words of `THUNK_TEMPLATE`: `adrp x16, 0; add x16, x16, #0; br x16`. -/
def TEMPLATE_ADRP : BitVec 32 := 0x90000010#32
def TEMPLATE_ADD : BitVec 32 := 0x91000210#32
def TEMPLATE_BR : BitVec 32 := 0xd61f0200#32

/-- `page_count` of `write_thunk`: `(page_diff / 4096) as u64 & 0x1F_FFFF` with signed division. -/
def pageCount (thunk target : BitVec 64) : BitVec 64 :=
  let thunkPage := thunk &&& ~~~PAGE_MASK_4KB
  let targetPage := target &&& ~~~PAGE_MASK_4KB
  let pageDiff := targetPage - thunkPage
  (pageDiff.sdiv 4096#64) &&& 0x1FFFFF#64

/-- `ElfAArch64::write_thunk(thunk_address, target_address, buf)`: the three instruction words. -/
def writeThunk (thunk target : BitVec 64) : BitVec 32 × BitVec 32 × BitVec 32 :=
  (A64.write .Adr (pageCount thunk target) false TEMPLATE_ADRP,
   A64.write .Add (target &&& PAGE_MASK_4KB) false TEMPLATE_ADD,
   TEMPLATE_BR)

end Wild.Thunks
