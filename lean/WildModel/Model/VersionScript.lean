/-
Model of libwild/src/version_script.rs: the parsed structure (`Version`, `VersionBody`,
`MatchRules`, `BasicMatchRules`), the classification of a pattern token done by `parse_matcher`,
`BasicMatchRules::push`, the Rust-style specialisation, `RegularVersionScript::find_match`,
`version_for_symbol(name, None)` and `is_local`.

The concrete syntax is not modelled: a script is given as a list of nodes, each with its name,
its parent (index into the version list, 0 = implicit base version) and its pattern entries
(section `global`/`local`, language `C`/`extern "C++"`, quoted or not, token bytes). The
correspondence renders such a structure to text and has the real parser parse it.
The C++ demangler is a parameter `dem`. Core-only imports.
-/
import WildModel.Model.Glob
namespace Wild.VersionScript
open Wild.Glob

abbrev Bytes := List UInt8

inductive SymbolMatcher where
  | exact (n : Bytes)
  | escapedExact (raw : Bytes)
  | starGlob (toks : List Tok)
  | nonstarGlob (toks : List Tok)
  | matchesAll
  deriving Repr

structure Entry where
  isLocal : Bool
  isCxx : Bool
  quoted : Bool
  token : Bytes
  deriving Repr

/-- The tail of `parse_matcher`: classification of one (already trimmed) token. -/
def classify (quoted : Bool) (token : Bytes) : Except CompileError SymbolMatcher :=
  if quoted then .ok (.exact token)
  else if token == [bStar] then .ok .matchesAll
  else match analyze token with
    | .exact => .ok (.exact token)
    | .escapedExact => .ok (.escapedExact token)
    | .star => (compile token).map .starGlob
    | .nonStar => (compile token).map .nonstarGlob

structure BasicRules where
  exact : List Bytes := []
  escapedExact : List Bytes := []
  starGlobs : List (List Tok) := []
  nonstarGlobs : List (List Tok) := []
  matchesAll : Bool := false
  deriving Repr

/-- `BasicMatchRules::push` (the hash sets are modelled as lists; only membership is used). -/
def BasicRules.push (r : BasicRules) : SymbolMatcher → BasicRules
  | .matchesAll => { r with matchesAll := true }
  | .starGlob g => { r with starGlobs := r.starGlobs ++ [g] }
  | .nonstarGlob g => { r with nonstarGlobs := r.nonstarGlobs ++ [g] }
  | .exact n => { r with exact := r.exact ++ [n] }
  | .escapedExact raw => { r with escapedExact := r.escapedExact ++ [unescape raw] }

/-- `BasicMatchRules::matches_exact` on the (possibly demangled) name bytes. -/
def BasicRules.matchesExact (r : BasicRules) (name : Bytes) : Bool :=
  r.exact.contains name || r.escapedExact.contains name

/-- `BasicMatchRules::matches_glob`. -/
def BasicRules.matchesGlob (r : BasicRules) (nonStar : Bool) (name : Bytes) : Bool :=
  (if nonStar then r.nonstarGlobs else r.starGlobs).any (fun g => matchesBytes g name)

structure MatchRules where
  general : BasicRules := {}
  cxx : BasicRules := {}
  deriving Repr

structure VersionBody where
  globals : MatchRules := {}
  locals : MatchRules := {}
  deriving Repr

structure Version where
  name : Bytes := []
  parentIndex : Option Nat := none
  body : VersionBody := {}
  deriving Repr

def VersionBody.push (b : VersionBody) (e : Entry) (m : SymbolMatcher) : VersionBody :=
  let upd (r : MatchRules) : MatchRules :=
    if e.isCxx then { r with cxx := r.cxx.push m } else { r with general := r.general.push m }
  if e.isLocal then { b with locals := upd b.locals } else { b with globals := upd b.globals }

/-- `RawVersionBody` → `VersionBody` (`parse_version_section` + `From`): globals first, then
locals, each in source order; the order only matters for list order inside one `BasicRules`. -/
def buildBody (es : List Entry) : Except CompileError VersionBody :=
  es.foldlM (fun b e => do
    let m ← classify e.quoted e.token
    pure (b.push e m)) {}

inductive Section where
  | global | loc
  deriving DecidableEq, Repr

/-- Step 1 of `find_match` for one version. -/
def exactIn (dem : Bytes → Bytes) (b : VersionBody) (name : Bytes) : Option Section :=
  if b.globals.general.matchesExact name then some .global
  else if b.locals.general.matchesExact name then some .loc
  else if b.globals.cxx.matchesExact (dem name) then some .global
  else if b.locals.cxx.matchesExact (dem name) then some .loc
  else none

/-- Step 2 of `find_match` for one version and one glob class. -/
def globIn (dem : Bytes → Bytes) (nonStar : Bool) (b : VersionBody) (name : Bytes) : Option Section :=
  if b.globals.general.matchesGlob nonStar name || b.globals.cxx.matchesGlob nonStar (dem name) then some .global
  else if b.locals.general.matchesGlob nonStar name || b.locals.cxx.matchesGlob nonStar (dem name) then some .loc
  else none

/-- Step 3 of `find_match` for one version. -/
def allIn (b : VersionBody) : Option Section :=
  if b.globals.general.matchesAll || b.globals.cxx.matchesAll then some .global
  else if b.locals.general.matchesAll || b.locals.cxx.matchesAll then some .loc
  else none

/-- `iter().enumerate()` then first hit. -/
def firstHit (f : VersionBody → Option Section) : Nat → List Version → Option (Nat × Section)
  | _, [] => none
  | i, v :: vs =>
    match f v.body with
    | some s => some (i, s)
    | none => firstHit f (i + 1) vs

/-- `iter().enumerate().rev()` then first hit = last hit in forward order. -/
def lastHit (f : VersionBody → Option Section) : Nat → List Version → Option (Nat × Section)
  | _, [] => none
  | i, v :: vs =>
    match lastHit f (i + 1) vs with
    | some r => some r
    | none => (f v.body).map (fun s => (i, s))

/-- `RegularVersionScript::find_match`. -/
def findMatch (dem : Bytes → Bytes) (versions : List Version) (name : Bytes) : Option (Nat × Section) :=
  (firstHit (fun b => exactIn dem b name) 0 versions)
  <|> (lastHit (fun b => globIn dem true b name) 0 versions)
  <|> (lastHit (fun b => globIn dem false b name) 0 versions)
  <|> (lastHit allIn 0 versions)

/-- `version_for_symbol(name, None)`: `VER_NDX_GLOBAL` = 1. -/
def versionForSymbol (dem : Bytes → Bytes) (versions : List Version) (name : Bytes) : Option Nat :=
  (findMatch dem versions name).bind (fun (n, _) => if n == 0 then none else some (n + 1))

/-- `is_local`. -/
def isLocal (dem : Bytes → Bytes) (versions : List Version) (name : Bytes) : Bool :=
  match findMatch dem versions name with
  | some (_, .loc) => true
  | _ => false

/-- `RawVersionBody::rust_like` on the entries of an anonymous script. -/
def rustLike (es : List Entry) : Bool :=
  es.any (fun e => e.isLocal && !e.isCxx && !e.quoted && e.token == [bStar])
  && (es.filter (fun e => !e.isLocal)).all (fun e =>
        !e.isCxx && (e.quoted || (e.token != [bStar] && analyze e.token == .exact)))

structure Node where
  name : Bytes
  parent : Option Nat
  entries : List Entry
  deriving Repr

inductive Script where
  /-- `VersionScript::Rust`: the global names. -/
  | rust (globals : List Bytes)
  | regular (versions : List Version)
  deriving Repr

/-- `parse_version_script` on the structure: an anonymous script is a single node whose name is
empty; otherwise a base version is prepended. -/
def build (anonymous : Bool) (nodes : List Node) : Except CompileError Script :=
  if anonymous then
    match nodes with
    | [n] =>
      if rustLike n.entries then
        .ok (.rust ((n.entries.filter (fun e => !e.isLocal)).map (·.token)))
      else do
        let b ← buildBody n.entries
        pure (.regular [{ body := b }])
    | _ => .error .glob
  else do
    let vs ← nodes.mapM (fun n => do
      let b ← buildBody n.entries
      pure ({ name := n.name, parentIndex := n.parent, body := b } : Version))
    pure (.regular ({} :: vs))

/-- `RegularVersionScript::version_count` / `parent_count`. -/
def versionCount (vs : List Version) : Nat := if vs.length == 1 then 0 else vs.length
def parentCount (vs : List Version) : Nat := (vs.filter (fun v => v.parentIndex.isSome)).length

end Wild.VersionScript
