import WildModel.Model.Link
/-
`--wrap=S` model. Mirrors libwild/src/symbol_db.rs `apply_wrapped_symbol_overrides`:
for each wrapped name S, if a symbol `__wrap_S` exists the NAME S is re-pointed at it, and if a
symbol S exists the NAME `__real_S` is pointed at it. Only name lookups — i.e. the resolution of
UNDEFINED references — are affected; a file that defines S refers to its own S directly.

Names are numbers: `n` (< 1000) is S, `wrapOf n = n + 1000` is `__wrap_S`, `realOf n = n + 2000`
is `__real_S`.
-/
namespace Wild.Link

def wrapOf (n : Nat) : Nat := n + 1000
def realOf (n : Nat) : Nat := n + 2000

/-- Where an undefined reference to `n` is looked up after the overrides (wild). -/
def wrapLookupName (W : List Nat) (fs : List File) (n : Nat) : Nat :=
  if n < 1000 then
    -- reference to S: goes to __wrap_S when S is wrapped and __wrap_S exists
    if W.contains n && (firstDef fs (wrapOf n)).isSome then wrapOf n else n
  else if 2000 ≤ n && n < 3000 then
    -- reference to __real_S: goes to S when S is wrapped and S exists
    let s := n - 2000
    if W.contains s && (firstDef fs s).isSome then s else n
  else n

def Entry.rename (g : Nat → Nat) : Entry → Entry
  | .undef n w => .undef (g n) w
  | e => e

/-- The link input as seen after `apply_wrapped_symbol_overrides`: every undefined reference is
looked up under its overridden name. Definitions are untouched. -/
def wrapTransform (W : List Nat) (fs : List File) : List File :=
  fs.map fun f => { f with entries := f.entries.map (Entry.rename (wrapLookupName W fs)) }

end Wild.Link
