/-
Model of the x86-64 relaxation decision `ElfX86_64::new_relaxation`
(/repo/libwild/src/elf_x86_64.rs) and of the byte rewriting `RelaxationKind::apply`
(/repo/linker-utils/src/x86_64.rs). Core-only imports (linked into `wmdriver`).

The Rust is mirrored arm by arm, including evaluation order, the `offset - n` look-behinds (the
four that used to be unguarded — GOTPCRELX, TLSLD, TLSDESC second arm, `TlsGdForm::identify` — are
`checked_sub(n)?` since fix c22-relax-lookbehind; `Model/RelaxGuard.lean` keeps the pre-fix arms for
the C22 witnesses) and slice indexing panics.  `Res` makes the panics explicit.
-/
namespace Wild.X86Relax

/-- Rust panics that the anchored code can raise. -/
inductive Panic where
  | overflow   -- `offset - n` with `offset < n` (debug profile only)
  | bounds     -- slice index / range out of bounds (both profiles)
  deriving DecidableEq, Repr

abbrev Res (α : Type) := Except Panic α

/-- `a - n` on `usize` with overflow checks. -/
@[inline] def usub (a n : Nat) : Res Nat := if a < n then .error .overflow else .ok (a - n)

/-- `bytes[i]`. -/
@[inline] def idx (bs : List UInt8) (i : Nat) : Res UInt8 :=
  match bs[i]? with
  | some b => .ok b
  | none => .error .bounds

/-- `bytes.get(a..b)` (never panics; `None` when `a > b` or `b > len`). -/
@[inline] def getRange (bs : List UInt8) (a b : Nat) : Option (List UInt8) :=
  if a ≤ b ∧ b ≤ bs.length then some ((bs.drop a).take (b - a)) else none

/-- `bytes[a..b].copy_from_slice(new)` with `new.length = b - a`, `a ≤ b`. -/
@[inline] def splice (bs : List UInt8) (a : Nat) (new : List UInt8) : Res (List UInt8) :=
  if a + new.length ≤ bs.length then .ok (bs.take a ++ new ++ bs.drop (a + new.length)) else .error .bounds

/-- `bytes[i] = v`. -/
@[inline] def setIdx (bs : List UInt8) (i : Nat) (v : UInt8) : Res (List UInt8) :=
  if i < bs.length then .ok (bs.set i v) else .error .bounds

/-! ### relocation types (object::elf::R_X86_64_*) -/
def R_NONE : Nat := 0
def R_PC32 : Nat := 2
def R_PLT32 : Nat := 4
def R_GOTPCREL : Nat := 9
def R_32 : Nat := 10
def R_32S : Nat := 11
def R_TLSGD : Nat := 19
def R_TLSLD : Nat := 20
def R_GOTTPOFF : Nat := 22
def R_TPOFF32 : Nat := 23
def R_GOTOFF64 : Nat := 25
def R_PLTOFF64 : Nat := 31
def R_GOTPC32_TLSDESC : Nat := 34
def R_TLSDESC_CALL : Nat := 35
def R_GOTPCRELX : Nat := 41
def R_REX_GOTPCRELX : Nat := 42
def R_CODE_4_GOTPCRELX : Nat := 43
def R_CODE_4_GOTTPOFF : Nat := 44
def R_CODE_4_GOTPC32_TLSDESC : Nat := 45
def R_CODE_6_GOTTPOFF : Nat := 50

/-! ### `RelaxationKind` -/
inductive Kind where
  | movIndirectToLea
  | movIndirectToAbsolute
  | rexMovIndirectToAbsolute (instOffset : Nat)
  | rexAddIndirectToAbsolute (instOffset : Nat)
  | rexSubIndirectToAbsolute (instOffset : Nat)
  | rexCmpIndirectToAbsolute (instOffset : Nat)
  | callIndirectToRelative
  | jmpIndirectToRelative
  | noOp
  | tlsGdToLocalExec
  | tlsGdToLocalExecLarge
  | tlsLdToLocalExec
  | tlsLdToLocalExecNoPlt
  | tlsLdToLocalExec64
  | tlsGdToInitialExec
  | tlsDescToLocalExec (instOffset : Nat)
  | tlsDescToInitialExec
  | skipTlsDescCall
  deriving DecidableEq, Repr

/-- `Relaxation { kind, rel_info, mandatory }`; `rel_info` is represented by the relocation type it
was built from (`rel_info_from_type!(T)`). -/
structure Relaxation where
  kind : Kind
  rtype : Nat
  mandatory : Bool
  deriving DecidableEq, Repr

/-! ### `ValueFlags`, `OutputKind`, `SectionFlags` -/
def bit (v : Nat) (i : Nat) : Bool := v.testBit i

def vfAbsolute (vf : Nat) : Bool := bit vf 0
def vfDynamic (vf : Nat) : Bool := bit vf 1
def vfIfunc (vf : Nat) : Bool := bit vf 2
def vfNonInterposable (vf : Nat) : Bool := bit vf 3
/-- `ValueFlags::is_address`. -/
def vfIsAddress (vf : Nat) : Bool := !vfIfunc vf && !vfDynamic vf && !vfAbsolute vf

/-- `OutputKind`, numbered as in the hook: 0 static exe, 1 static PIE, 2 dynamic exe, 3 dynamic
PIE, 4 shared object, 5 relocatable (partial link). -/
inductive OutKind where
  | staticExe | staticPie | dynExe | dynPie | shared | partialObj
  deriving DecidableEq, Repr

def OutKind.ofIndex : Nat → OutKind
  | 0 => .staticExe | 1 => .staticPie | 2 => .dynExe | 3 => .dynPie | 4 => .shared | _ => .partialObj

def OutKind.isRelocatable : OutKind → Bool
  | .staticExe | .dynExe => false
  | _ => true
def OutKind.isExecutable : OutKind → Bool
  | .shared | .partialObj => false
  | _ => true
def OutKind.isStaticExecutable : OutKind → Bool
  | .staticExe | .staticPie => true
  | _ => false

/-- `shf::EXECINSTR` = 0x4. -/
def sfExec (sf : Nat) : Bool := bit sf 2

/-! ### `TlsGdForm::identify` -/
inductive TlsGdForm where | regular | large
  deriving DecidableEq, Repr

def identifyTlsGd (bs : List UInt8) (off : Nat) : Res (Option TlsGdForm) := do
  -- `offset.checked_sub(4)?` (fix c22-relax-lookbehind: was an unguarded `offset - 4`)
  if off < 4 then return none
  let a := off - 4
  if getRange bs a off = some [0x66, 0x48, 0x8d, 0x3d]
      ∧ getRange bs (off + 4) (off + 8) = some [0x66, 0x66, 0x48, 0xe8] then
    return some .regular
  let a3 := off - 3  -- `offset.checked_sub(3)?`; cannot fail here since `off ≥ 4`
  if getRange bs a3 off = some [0x48, 0x8d, 0x3d]
      ∧ getRange bs (off + 4) (off + 6) = some [0x48, 0xb8]
      ∧ getRange bs (off + 14) (off + 19) = some [0x48, 0x01, 0xd8, 0xff, 0xd0] then
    return some .large
  return none

/-- `(kind == CODE_4_x && (offset >= 4 && bytes[offset-4] == 0xd5)) || offset >= 3`. -/
def code4Guard (isCode4 : Bool) (bs : List UInt8) (off : Nat) : Res Bool := do
  if isCode4 ∧ off ≥ 4 then
    let b ← idx bs (off - 4)
    if b = 0xd5 then return true
  return decide (off ≥ 3)

/-- Flag-derived inputs of the decision (`is_absolute || is_absolute_address`, `interposable`,
`output_kind.is_static_executable()`, `output_kind.is_executable()`). -/
structure Cfg where
  absLike : Bool
  interposable : Bool
  static : Bool
  exe : Bool
  deriving DecidableEq, Repr

def mkCfg (vf : Nat) (ok : OutKind) : Cfg :=
  { absLike := (vfAbsolute vf && !vfDynamic vf) || (vfIsAddress vf && !ok.isRelocatable)
    interposable := !vfNonInterposable vf
    static := ok.isStaticExecutable
    exe := ok.isExecutable }

/-- arm `R_X86_64_REX_GOTPCRELX | R_X86_64_CODE_4_GOTPCRELX`. -/
def armRexGotpcrelx (c : Cfg) (isCode4 : Bool) (bs : List UInt8) (off : Nat) : Res (Option Relaxation) := do
  if !(← code4Guard isCode4 bs off) then return none
  let b1 ← idx bs (off - 2)
  let rex ← idx bs (off - 3)
  if rex ≠ 0x48 ∧ rex ≠ 0x4c then return none
  let instOffset := if isCode4 then 4 else 3
  if c.absLike then
    if b1 = 0x8b then return some ⟨.rexMovIndirectToAbsolute instOffset, R_32S, c.static⟩
    if b1 = 0x2b then return some ⟨.rexSubIndirectToAbsolute instOffset, R_32S, c.static⟩
    if b1 = 0x3b then return some ⟨.rexCmpIndirectToAbsolute instOffset, R_32S, c.static⟩
    return none
  else if !c.interposable then
    if b1 = 0x8b then return some ⟨.movIndirectToLea, R_PC32, c.static⟩
    return none
  return none

/-- arm `R_X86_64_GOTPCRELX`. -/
def armGotpcrelx (c : Cfg) (bs : List UInt8) (off : Nat) : Res (Option Relaxation) := do
  -- `offset.checked_sub(2)?` (fix c22-relax-lookbehind: was an unguarded `offset - 2`)
  if off < 2 then return none
  let a := off - 2
  match bs[a]? with
  | none => return none
  | some b =>
    if b = 0x8b ∧ c.absLike then return some ⟨.movIndirectToAbsolute, R_32, c.static⟩
    if b = 0x8b ∧ !c.interposable then return some ⟨.movIndirectToLea, R_PC32, c.static⟩
    if !c.interposable then
      match getRange bs a off with
      | none => return none
      | some w =>
        if w = [0xff, 0x15] then return some ⟨.callIndirectToRelative, R_PC32, c.static⟩
        if w = [0xff, 0x25] then return some ⟨.jmpIndirectToRelative, R_PC32, c.static⟩
        return none
    return none

/-- arm `R_X86_64_GOTPCREL if !interposable && offset >= 2`. -/
def armGotpcrel (c : Cfg) (bs : List UInt8) (off : Nat) : Res (Option Relaxation) := do
  if !c.interposable ∧ off ≥ 2 then
    match bs[off - 2]? with
    | none => return none
    | some b =>
      if b = 0x8b then return some ⟨.movIndirectToLea, R_PC32, false⟩
      return none
  return none

/-- arm `R_X86_64_GOTTPOFF | R_X86_64_CODE_4_GOTTPOFF`. -/
def armGottpoff (c : Cfg) (isCode4 : Bool) (bs : List UInt8) (off : Nat) : Res (Option Relaxation) := do
  if !(c.exe && !c.interposable) then return none
  if !(← code4Guard isCode4 bs off) then return none
  let instOffset := if isCode4 then 4 else 3
  -- here `off ≥ 3` (both disjuncts of the guard imply it)
  match getRange bs (off - 3) (off - 1) with
  | none => return none
  | some w =>
    if w = [0x48, 0x8b] ∨ w = [0x4c, 0x8b] then
      return some ⟨.rexMovIndirectToAbsolute instOffset, R_TPOFF32, false⟩
    if w = [0x48, 0x03] ∨ w = [0x4c, 0x03] then
      return some ⟨.rexAddIndirectToAbsolute instOffset, R_TPOFF32, false⟩
    return none

/-- arm `R_X86_64_CODE_6_GOTTPOFF`. -/
def armCode6Gottpoff (c : Cfg) (bs : List UInt8) (off : Nat) : Res (Option Relaxation) := do
  if c.exe && !c.interposable && decide (off ≥ 6) then
    match getRange bs (off - 6) (off - 1) with
    | some [b0, l5, l4, l3, op] =>
      if b0 = 0x62 ∧ (op = 0x01 ∨ op = 0x03) ∧ (l5 &&& 0x47) = 0x44 ∧ (l4 &&& 0x87) = 0x84 ∧ (l3 &&& 0x14) ≠ 0 then
        return some ⟨.rexAddIndirectToAbsolute 6, R_TPOFF32, c.static⟩
      return none
    | _ => return none
  return none

/-- arms `R_X86_64_TLSGD if !interposable && is_executable` and `R_X86_64_TLSGD if is_executable`. -/
def armTlsGd (c : Cfg) (bs : List UInt8) (off : Nat) : Res (Option Relaxation) := do
  if !c.interposable && c.exe then
    match ← identifyTlsGd bs off with
    | none => return none
    | some .regular => return some ⟨.tlsGdToLocalExec, R_TPOFF32, c.static⟩
    | some .large => return some ⟨.tlsGdToLocalExecLarge, R_TPOFF32, c.static⟩
  if c.exe then
    match ← identifyTlsGd bs off with
    | none => return none
    | some .regular => return some ⟨.tlsGdToInitialExec, R_GOTTPOFF, false⟩
    | some .large => return none
  return none

/-- arm `R_X86_64_TLSLD if is_executable`. -/
def armTlsLd (c : Cfg) (bs : List UInt8) (off : Nat) : Res (Option Relaxation) := do
  if c.exe then
    -- `offset.checked_sub(3)?` (fix c22-relax-lookbehind)
    if off < 3 then return none
    let a := off - 3
    match getRange bs a off with
    | none => return none
    | some w =>
      if w = [0x48, 0x8d, 0x3d] then
        match getRange bs (off + 4) (off + 6) with
        | some [x, y] =>
          if x = 0xe8 then return some ⟨.tlsLdToLocalExec, R_NONE, c.static⟩
          if x = 0x48 ∧ y = 0xb8 then return some ⟨.tlsLdToLocalExec64, R_NONE, false⟩
          if x = 0xff ∧ y = 0x15 then return some ⟨.tlsLdToLocalExecNoPlt, R_NONE, c.static⟩
          return none
        | _ => return none
      return none
  return none

/-- arms `R_X86_64_GOTPC32_TLSDESC | R_X86_64_CODE_4_GOTPC32_TLSDESC if ..` and
`R_X86_64_GOTPC32_TLSDESC if is_executable`. -/
def armTlsDesc (c : Cfg) (isCode4 : Bool) (bs : List UInt8) (off : Nat) : Res (Option Relaxation) := do
  let g1 ← (if !c.interposable && c.exe then code4Guard isCode4 bs off else pure false)
  if g1 then
    let w := getRange bs (off - 3) (off - 1)
    if w = some [0x48, 0x8d] ∨ w = some [0x4c, 0x8d] then
      return some ⟨.tlsDescToLocalExec (if isCode4 then 4 else 3), R_TPOFF32, c.static⟩
    return none
  if !isCode4 ∧ c.exe then
    -- `offset.checked_sub(3)?..offset - 1` (fix c22-relax-lookbehind)
    if off < 3 then return none
    let a := off - 3
    let e := off - 1
    let w := getRange bs a e
    if w = some [0x48, 0x8d] ∨ w = some [0x4c, 0x8d] then
      return some ⟨.tlsDescToInitialExec, R_GOTTPOFF, c.static⟩
    return none
  return none

/-- `ElfX86_64::new_relaxation`. -/
def newRelaxation (rt : Nat) (bs : List UInt8) (off : Nat) (vf : Nat) (ok : OutKind) (sf : Nat) :
    Res (Option Relaxation) :=
  let c := mkCfg vf ok
  if vfIfunc vf then
    .ok (if rt = R_PC32 then some ⟨.noOp, R_PLT32, true⟩ else none)
  else if !sfExec sf then .ok none
  -- `if offset > section_bytes.len() { return None; }` (fix c22-relax-lookbehind)
  else if off > bs.length then .ok none
  else if rt = R_REX_GOTPCRELX then armRexGotpcrelx c false bs off
  else if rt = R_CODE_4_GOTPCRELX then armRexGotpcrelx c true bs off
  else if rt = R_GOTPCRELX then armGotpcrelx c bs off
  else if rt = R_GOTPCREL then armGotpcrel c bs off
  else if rt = R_GOTTPOFF then armGottpoff c false bs off
  else if rt = R_CODE_4_GOTTPOFF then armGottpoff c true bs off
  else if rt = R_CODE_6_GOTTPOFF then armCode6Gottpoff c bs off
  else if rt = R_PLT32 then .ok (if !c.interposable then some ⟨.noOp, R_PC32, c.static⟩ else none)
  else if rt = R_PLTOFF64 then .ok (if !c.interposable then some ⟨.noOp, R_GOTOFF64, c.static⟩ else none)
  else if rt = R_TLSGD then armTlsGd c bs off
  else if rt = R_TLSLD then armTlsLd c bs off
  else if rt = R_GOTPC32_TLSDESC then armTlsDesc c false bs off
  else if rt = R_CODE_4_GOTPC32_TLSDESC then armTlsDesc c true bs off
  else if rt = R_TLSDESC_CALL then .ok (if c.exe then some ⟨.skipTlsDescCall, R_NONE, c.static⟩ else none)
  else .ok none

/-! ### `RelaxationKind::apply` -/

/-- Result of `apply`: rewritten section bytes, new `offset_in_section`, new addend. -/
structure Applied where
  bytes : List UInt8
  off : Nat
  addend : Int
  deriving DecidableEq, Repr

/-- `(rex & !4) | ((rex & 4) >> 2)` (REX: move R to B). -/
def rexRtoB (rex : UInt8) : UInt8 := (rex &&& ~~~(4 : UInt8)) ||| ((rex &&& 4) >>> 2)
/-- `(rex & !0x44) | ((rex & 0x44) >> 2)` (REX2 payload: move R4,R3 to B4,B3). -/
def rex2RtoB (rex : UInt8) : UInt8 := (rex &&& ~~~(0x44 : UInt8)) ||| ((rex &&& 0x44) >>> 2)
/-- `(modrm >> 3) & 7 | ext`. -/
def modrmRegToRm (modrm ext : UInt8) : UInt8 := ((modrm >>> 3) &&& 0x7) ||| ext

/-- EVEX byte 1 adjustment of `RexAddIndirectToAbsolute(6)`. -/
def evexP0RtoB (l5 : UInt8) : UInt8 :=
  let l5 := if (l5 &&& 0x80) = 0 then (l5 ||| 0x80) &&& ~~~(0x20 : UInt8) else l5
  if (l5 &&& 0x10) = 0 then l5 ||| 0x10 ||| 0x08 else l5

/-- Common tail of the `Rex*IndirectToAbsolute` arms: rewrite prefix byte at `off-3` (after it was
read), opcode at `off-2`, ModRM at `off-1`. `readRexFirst` says whether the arm reads
`section_bytes[offset - 3]` unconditionally before anything else. -/
def rexToAbs (bs : List UInt8) (off : Nat) (instOffset : Nat) (opcode ext : UInt8) (readRexFirst : Bool) :
    Res (List UInt8) := do
  let mut bs := bs
  if readRexFirst then
    let a ← usub off 3
    let rex ← idx bs a
    if instOffset = 3 then bs ← setIdx bs a (rexRtoB rex)
    else if instOffset = 4 then bs ← setIdx bs a (rex2RtoB rex)
  else
    if instOffset = 3 then
      let a ← usub off 3
      let rex ← idx bs a
      bs ← setIdx bs a (rexRtoB rex)
    else if instOffset = 4 then
      let a ← usub off 3
      let rex ← idx bs a
      bs ← setIdx bs a (rex2RtoB rex)
    else if instOffset = 6 then
      let a ← usub off 5
      let l5 ← idx bs a
      bs ← setIdx bs a (evexP0RtoB l5)
  let o2 ← usub off 2
  bs ← setIdx bs o2 opcode
  let o1 ← usub off 1
  let m ← idx bs o1
  setIdx bs o1 (modrmRegToRm m ext)

def apply (k : Kind) (bs : List UInt8) (off : Nat) (addend : Int) : Res Applied := do
  match k with
  | .movIndirectToLea =>
    let o2 ← usub off 2
    return ⟨← setIdx bs o2 0x8d, off, addend⟩
  | .movIndirectToAbsolute =>
    let o2 ← usub off 2
    let bs ← setIdx bs o2 0xc7
    let o1 ← usub off 1
    let m ← idx bs o1
    return ⟨← setIdx bs o1 (modrmRegToRm m 0xc0), off, 0⟩
  | .rexMovIndirectToAbsolute n => return ⟨← rexToAbs bs off n 0xc7 0xc0 true, off, 0⟩
  | .rexAddIndirectToAbsolute n => return ⟨← rexToAbs bs off n 0x81 0xc0 false, off, 0⟩
  | .rexSubIndirectToAbsolute n => return ⟨← rexToAbs bs off n 0x81 0xe8 true, off, 0⟩
  | .rexCmpIndirectToAbsolute n => return ⟨← rexToAbs bs off n 0x81 0xf8 true, off, 0⟩
  | .callIndirectToRelative =>
    let a ← usub off 2
    return ⟨← splice bs a [0x67, 0xe8], off, addend⟩
  | .jmpIndirectToRelative =>
    let a ← usub off 2
    let bs ← splice bs a [0xe9, 0, 0, 0, 0, 0x90]
    return ⟨bs, ← usub off 1, addend⟩
  | .tlsGdToLocalExec =>
    let a ← usub off 4
    let bs ← splice bs a [0x64, 0x48, 0x8b, 0x04, 0x25, 0, 0, 0, 0, 0x48, 0x8d, 0x80]
    return ⟨bs, off + 8, 0⟩
  | .tlsGdToLocalExecLarge =>
    let a ← usub off 3
    let bs ← splice bs a [0x64, 0x48, 0x8b, 0x04, 0x25, 0, 0, 0, 0, 0x48, 0x8d, 0x80, 0, 0, 0, 0,
                          0x66, 0x0f, 0x1f, 0x44, 0, 0]
    return ⟨bs, off + 9, 0⟩
  | .tlsGdToInitialExec =>
    let a ← usub off 4
    let bs ← splice bs a [0x64, 0x48, 0x8b, 0x04, 0x25, 0, 0, 0, 0, 0x48, 0x03, 0x05]
    return ⟨bs, off + 8, addend⟩
  | .tlsLdToLocalExec =>
    let a ← usub off 3
    let bs ← splice bs a [0x66, 0x66, 0x66, 0x64, 0x48, 0x8b, 0x04, 0x25, 0, 0, 0, 0]
    return ⟨bs, off + 5, addend⟩
  | .tlsLdToLocalExecNoPlt =>
    let a ← usub off 3
    let bs ← splice bs a [0x66, 0x66, 0x66, 0x66, 0x64, 0x48, 0x8b, 0x04, 0x25, 0, 0, 0, 0]
    return ⟨bs, off + 5, addend⟩
  | .tlsLdToLocalExec64 =>
    let a ← usub off 3
    let bs ← splice bs a [0x66, 0x66, 0x66, 0x66, 0x2e, 0x0f, 0x1f, 0x84, 0, 0, 0, 0, 0,
                          0x64, 0x48, 0x8b, 0x04, 0x25, 0, 0, 0, 0]
    return ⟨bs, off + 15, addend⟩
  | .tlsDescToLocalExec n =>
    let a ← usub off 3
    let rex ← idx bs a
    let o1 ← usub off 1
    let modrm ← idx bs o1
    let rexR := (rex >>> 2) &&& 1
    let reg := (modrm >>> 3) &&& 0x7
    if n = 3 ∨ n = 4 then
      let rex' : UInt8 := if n = 3 then (if rexR = 0 then 0x48 else 0x49) else (if rexR = 0 then 0x18 else 0x19)
      let bs ← splice bs a [rex', 0xc7, 0xc0 ||| reg, 0, 0, 0, 0]
      return ⟨bs, off, 0⟩
    else
      return ⟨bs, off, addend⟩
  | .tlsDescToInitialExec =>
    let a ← usub off 3
    let rex ← idx bs a
    let o1 ← usub off 1
    let modrm ← idx bs o1
    let rexR := (rex >>> 2) &&& 1
    let reg := (modrm >>> 3) &&& 0x7
    let rex' : UInt8 := if rexR = 0 then 0x48 else 0x4c
    let bs ← splice bs a [rex', 0x8b, (0x05 : UInt8) ||| (reg <<< 3), 0, 0, 0, 0]
    return ⟨bs, off, addend⟩
  | .skipTlsDescCall =>
    return ⟨← splice bs off [0x66, 0x90], off, addend⟩
  | .noOp => return ⟨bs, off, addend⟩

/-- `RelaxationKind::next_modifier() == SkipNextRelocation`. -/
def skipNext : Kind → Bool
  | .tlsGdToInitialExec | .tlsGdToLocalExec | .tlsGdToLocalExecLarge
  | .tlsLdToLocalExec | .tlsLdToLocalExecNoPlt | .tlsLdToLocalExec64 => true
  | _ => false

/-- The hook's pipeline: decision, then `apply` on a copy of the section. -/
def relax (rt : Nat) (bs : List UInt8) (off : Nat) (vf : Nat) (ok : OutKind) (sf : Nat) (addend : Int) :
    Res (Option (Relaxation × Applied)) := do
  match ← newRelaxation rt bs off vf ok sf with
  | none => return none
  | some r => return some (r, ← apply r.kind bs off addend)

end Wild.X86Relax
