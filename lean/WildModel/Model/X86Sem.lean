/-
A small x86-64 semantics, sufficient for the instruction forms touched by wild's GOT/TLS
relaxations.  An instruction is split into its *head* (prefixes, opcode, ModRM, SIB: everything in
front of the 32-bit field that a relocation fills) and the 32-bit *field* (disp32 / imm32 / rel32),
which is the last part of every instruction considered here.  `decodeHead` decodes the head bytes
into a `Form`; `exec` gives the architectural effect of `Form` + field in a state.

Spec side of C14: written from the Intel SDM (vol. 2: MOV 8B /r, C7 /0; LEA 8D /r; ADD 03 /r, 81 /0;
SUB 2B /r, 81 /5; CMP 3B /r, 81 /7; CALL E8, FF /2; JMP E9, FF /4; REX; APX REX2 prefix D5),
independently of the linker.  Core-only imports.
-/
namespace Wild.X86Sem

/-- General purpose registers r0..r31 (r16..r31 exist with APX only). -/
abbrev Reg := Fin 32

inductive Sz where | w16 | w32 | w64
  deriving DecidableEq, Repr

inductive Alu where | add | sub | cmp
  deriving DecidableEq, Repr

/-- Arithmetic status flags. -/
structure Flags where
  cf : Bool
  zf : Bool
  sf : Bool
  of : Bool
  pf : Bool
  af : Bool
  deriving DecidableEq, Repr

def parityEven (v : BitVec 64) : Bool :=
  let b := v.truncate 8
  let x := b ^^^ (b >>> 4)
  let x := x ^^^ (x >>> 2)
  let x := x ^^^ (x >>> 1)
  !(x.getLsbD 0)

def flagsAdd (a b : BitVec 64) : Flags :=
  let r := a + b
  { cf := decide (r < a), zf := decide (r = 0), sf := r.msb,
    of := (a.msb == b.msb) && (r.msb != a.msb), pf := parityEven r,
    af := ((a ^^^ b ^^^ r).getLsbD 4) }

def flagsSub (a b : BitVec 64) : Flags :=
  let r := a - b
  { cf := decide (a < b), zf := decide (r = 0), sf := r.msb,
    of := (a.msb != b.msb) && (r.msb != a.msb), pf := parityEven r,
    af := ((a ^^^ b ^^^ r).getLsbD 4) }

structure State where
  reg : Reg → BitVec 64
  /-- 64-bit little-endian load. -/
  mem : BitVec 64 → BitVec 64
  /-- address of the first byte of the instruction being executed -/
  rip : BitVec 64
  /-- `%fs` base; the TLS ABI guarantees `mem[fsBase] = fsBase` (used only by the TLS theorems) -/
  fsBase : BitVec 64

/-- Architectural effect of one instruction (what the property observes). -/
inductive Effect where
  /-- register write, with the arithmetic flags if the instruction sets them -/
  | reg (r : Reg) (v : BitVec 64) (fl : Option Flags)
  /-- only flags are written (`cmp`) -/
  | flags (fl : Flags)
  | jump (target : BitVec 64)
  /-- control transfer pushing a return address -/
  | call (target : BitVec 64) (ret : BitVec 64)
  | nop
  deriving DecidableEq

/-- Instruction forms (head only). `len` = number of head bytes. -/
inductive Form where
  | movRip (sz : Sz) (r : Reg)      -- mov r, [rip+disp32]
  | leaRip (sz : Sz) (r : Reg)      -- lea r, [rip+disp32]
  | aluRip (op : Alu) (r : Reg)     -- add/sub/cmp r64, [rip+disp32]
  | movImm (sz : Sz) (r : Reg)      -- mov r, imm32 (C7 /0, mod=11): sign-extended with REX.W, else zero-extending 32-bit
  | aluImm (op : Alu) (r : Reg)     -- add/sub/cmp r64, imm32 sign-extended (81 /0 /5 /7, mod=11)
  | callRip | jmpRip                -- call/jmp [rip+disp32]
  | callRel | jmpRel                -- call/jmp rel32
  | leaBase (r base : Reg)          -- lea r, [base+disp32]  (64-bit)
  deriving DecidableEq, Repr

def sext32 (v : BitVec 32) : BitVec 64 := v.signExtend 64
def zext32 (v : BitVec 32) : BitVec 64 := v.zeroExtend 64

/-- Destination write of the given operand size into a 64-bit register holding `old`. -/
def writeSz (sz : Sz) (old v : BitVec 64) : BitVec 64 :=
  match sz with
  | .w64 => v
  | .w32 => (v.truncate 32).zeroExtend 64
  | .w16 => (old &&& ~~~0xffff#64) ||| (v &&& 0xffff#64)

def aluEffect (op : Alu) (r : Reg) (a b : BitVec 64) : Effect :=
  match op with
  | .add => .reg r (a + b) (some (flagsAdd a b))
  | .sub => .reg r (a - b) (some (flagsSub a b))
  | .cmp => .flags (flagsSub a b)

/-- Effect of the instruction `head ++ field` (head is `hlen` bytes long) in state `σ`. -/
def exec (f : Form) (hlen : Nat) (field : BitVec 32) (σ : State) : Effect :=
  let next := σ.rip + BitVec.ofNat 64 (hlen + 4)
  let ea := next + sext32 field
  match f with
  | .movRip sz r => .reg r (writeSz sz (σ.reg r) (σ.mem ea)) none
  | .leaRip sz r => .reg r (writeSz sz (σ.reg r) ea) none
  | .aluRip op r => aluEffect op r (σ.reg r) (σ.mem ea)
  | .movImm sz r =>
      .reg r (writeSz sz (σ.reg r) (match sz with | .w64 => sext32 field | _ => zext32 field)) none
  | .aluImm op r => aluEffect op r (σ.reg r) (sext32 field)
  | .callRip => .call (σ.mem ea) next
  | .jmpRip => .jump (σ.mem ea)
  | .callRel => .call ea next
  | .jmpRel => .jump ea
  | .leaBase r base => .reg r (σ.reg base + sext32 field) none

/-! ### decoding of heads -/

/-- Prefix state in front of the opcode. -/
structure Pfx where
  opsz16 : Bool := false
  w : Bool := false
  r3 : Bool := false
  b3 : Bool := false
  r4 : Bool := false
  b4 : Bool := false
  x : Bool := false   -- any index-extension bit set (irrelevant for the forms here, kept to reject)
  deriving DecidableEq, Repr

def tb (b : UInt8) (i : Nat) : Bool := b.toNat.testBit i

def regNo (lo3 : UInt8) (b3 b4 : Bool) : Reg :=
  ⟨(lo3.toNat % 8) + (if b3 then 8 else 0) + (if b4 then 16 else 0), by
    have : lo3.toNat % 8 < 8 := Nat.mod_lt _ (by decide)
    split <;> split <;> omega⟩

def szOf (p : Pfx) : Sz := if p.w then .w64 else if p.opsz16 then .w16 else .w32

def aluOfOpcode (op : UInt8) : Option Alu :=
  if op = 0x03 then some .add else if op = 0x2b then some .sub else if op = 0x3b then some .cmp else none
def aluOfExt (ext : UInt8) : Option Alu :=
  if ext = 0 then some .add else if ext = 5 then some .sub else if ext = 7 then some .cmp else none

/-- opcode + ModRM (+ nothing else) after the prefixes. -/
def decodeOp (p : Pfx) (op modrm : UInt8) : Option Form :=
  let mod_ := modrm >>> 6
  let regf := (modrm >>> 3) &&& 7
  let rm := modrm &&& 7
  let ripRel := mod_ = 0 ∧ rm = 5
  if op = 0x8b ∧ ripRel then some (.movRip (szOf p) (regNo regf p.r3 p.r4))
  else if op = 0x8d ∧ ripRel then some (.leaRip (szOf p) (regNo regf p.r3 p.r4))
  else if p.w ∧ ripRel ∧ (aluOfOpcode op).isSome then (aluOfOpcode op).map (fun a => .aluRip a (regNo regf p.r3 p.r4))
  else if op = 0xc7 ∧ mod_ = 3 ∧ regf = 0 ∧ !p.opsz16 then some (.movImm (szOf p) (regNo rm p.b3 p.b4))
  else if op = 0x81 ∧ mod_ = 3 ∧ p.w ∧ (aluOfExt regf).isSome then (aluOfExt regf).map (fun a => .aluImm a (regNo rm p.b3 p.b4))
  else if op = 0xff ∧ modrm = 0x15 then some .callRip
  else if op = 0xff ∧ modrm = 0x25 then some .jmpRip
  else if op = 0x8d ∧ mod_ = 2 ∧ rm ≠ 4 ∧ p.w then some (.leaBase (regNo regf p.r3 p.r4) (regNo rm p.b3 p.b4))
  else none

/-- Decode an instruction head (all bytes in front of the 32-bit field).
Legacy prefixes 0x66 (operand size) and 0x67 (address size; only accepted in front of `call rel32`,
where it has no effect), then optionally REX (0x40..0x4f) or REX2 (0xd5 payload), then the opcode. -/
def decodeHead : List UInt8 → Option Form
  | [op, modrm] => decodeOp {} op modrm
  | [a] => if a = 0xe8 then some .callRel else if a = 0xe9 then some .jmpRel else none
  | [a, b, modrm] =>
    if a = 0x66 then decodeOp { opsz16 := true } b modrm
    else if a &&& 0xf0 = 0x40 then
      decodeOp { w := tb a 3, r3 := tb a 2, x := tb a 1, b3 := tb a 0 } b modrm
    else none
  | [a, pl, op, modrm] =>
    if a = 0xd5 ∧ !tb pl 7 then   -- REX2, map 0
      decodeOp { w := tb pl 3, r3 := tb pl 2, x := tb pl 1 || tb pl 5, b3 := tb pl 0, r4 := tb pl 6, b4 := tb pl 4 } op modrm
    else none
  | _ => none

/-- `addr32 call rel32` (0x67 0xe8): the address-size prefix does not change a relative call. -/
def decodeHeadCall : List UInt8 → Option Form
  | [a, b] => if a = 0x67 ∧ b = 0xe8 then some .callRel else decodeHead [a, b]
  | l => decodeHead l

end Wild.X86Sem
