/-
A small x86-64 semantics, sufficient for the instruction forms touched by wild's GOT/TLS
relaxations.  An instruction is split into its *head* (prefixes, opcode, ModRM, SIB: everything in
front of the 32-bit field that a relocation fills) and the 32-bit *field* (disp32 / imm32 / rel32),
which is the last part of every instruction considered here.  `decodeHead` decodes the head bytes
into a `Form`; `exec` gives the architectural effect of `Form` + field in a state.

Spec side of C14: written from the Intel SDM (vol. 2: MOV 8B /r, C7 /0; LEA 8D /r; ADD 03 /r, 81 /0;
SUB 2B /r, 81 /5; CMP 3B /r, 81 /7; CALL E8, FF /2; JMP E9, FF /4; REX; APX REX2 prefix D5),
independently of the linker.  Core-only imports.
-/
namespace Wild.X86Sem

/-- General purpose registers r0..r31 (r16..r31 exist with APX only). -/
abbrev Reg := Fin 32

inductive Sz where | w16 | w32 | w64
  deriving DecidableEq, Repr

inductive Alu where | add | sub | cmp
  deriving DecidableEq, Repr

/-- Arithmetic status flags. -/
structure Flags where
  cf : Bool
  zf : Bool
  sf : Bool
  of : Bool
  pf : Bool
  af : Bool
  deriving DecidableEq, Repr

def parityEven (v : BitVec 64) : Bool :=
  let b := v.truncate 8
  let x := b ^^^ (b >>> 4)
  let x := x ^^^ (x >>> 2)
  let x := x ^^^ (x >>> 1)
  !(x.getLsbD 0)

def flagsAdd (a b : BitVec 64) : Flags :=
  let r := a + b
  { cf := decide (r < a), zf := decide (r = 0), sf := r.msb,
    of := (a.msb == b.msb) && (r.msb != a.msb), pf := parityEven r,
    af := ((a ^^^ b ^^^ r).getLsbD 4) }

def flagsSub (a b : BitVec 64) : Flags :=
  let r := a - b
  { cf := decide (a < b), zf := decide (r = 0), sf := r.msb,
    of := (a.msb != b.msb) && (r.msb != a.msb), pf := parityEven r,
    af := ((a ^^^ b ^^^ r).getLsbD 4) }

structure State where
  reg : Reg → BitVec 64
  /-- 64-bit little-endian load. -/
  mem : BitVec 64 → BitVec 64
  /-- address of the first byte of the instruction being executed -/
  rip : BitVec 64
  /-- `%fs` base; the TLS ABI guarantees `mem[fsBase] = fsBase` (used only by the TLS theorems) -/
  fsBase : BitVec 64

/-- Architectural effect of one instruction (what the property observes). -/
inductive Effect where
  /-- register write, with the arithmetic flags if the instruction sets them -/
  | reg (r : Reg) (v : BitVec 64) (fl : Option Flags)
  /-- only flags are written (`cmp`) -/
  | flags (fl : Flags)
  | jump (target : BitVec 64)
  /-- control transfer pushing a return address -/
  | call (target : BitVec 64) (ret : BitVec 64)
  | nop
  deriving DecidableEq

/-- Instruction forms (head only). `len` = number of head bytes. -/
inductive Form where
  | movRip (sz : Sz) (r : Reg)      -- mov r, [rip+disp32]
  | leaRip (sz : Sz) (r : Reg)      -- lea r, [rip+disp32]
  | aluRip (op : Alu) (r : Reg)     -- add/sub/cmp r64, [rip+disp32]
  | movImm (sz : Sz) (r : Reg)      -- mov r, imm32 (C7 /0, mod=11): sign-extended with REX.W, else zero-extending 32-bit
  | aluImm (op : Alu) (r : Reg)     -- add/sub/cmp r64, imm32 sign-extended (81 /0 /5 /7, mod=11)
  | callRip | jmpRip                -- call/jmp [rip+disp32]
  | callRel | jmpRel                -- call/jmp rel32
  | leaBase (r base : Reg)          -- lea r, [base+disp32]  (64-bit)
  deriving DecidableEq, Repr

def sext32 (v : BitVec 32) : BitVec 64 := v.signExtend 64
def zext32 (v : BitVec 32) : BitVec 64 := v.zeroExtend 64

/-- Destination write of the given operand size into a 64-bit register holding `old`. -/
def writeSz (sz : Sz) (old v : BitVec 64) : BitVec 64 :=
  match sz with
  | .w64 => v
  | .w32 => (v.truncate 32).zeroExtend 64
  | .w16 => (old &&& ~~~0xffff#64) ||| (v &&& 0xffff#64)

def aluEffect (op : Alu) (r : Reg) (a b : BitVec 64) : Effect :=
  match op with
  | .add => .reg r (a + b) (some (flagsAdd a b))
  | .sub => .reg r (a - b) (some (flagsSub a b))
  | .cmp => .flags (flagsSub a b)

/-- Effect of the instruction `head ++ field` (head is `hlen` bytes long) in state `σ`. -/
def exec (f : Form) (hlen : Nat) (field : BitVec 32) (σ : State) : Effect :=
  let next := σ.rip + BitVec.ofNat 64 (hlen + 4)
  let ea := next + sext32 field
  match f with
  | .movRip sz r => .reg r (writeSz sz (σ.reg r) (σ.mem ea)) none
  | .leaRip sz r => .reg r (writeSz sz (σ.reg r) ea) none
  | .aluRip op r => aluEffect op r (σ.reg r) (σ.mem ea)
  | .movImm sz r =>
      .reg r (writeSz sz (σ.reg r) (match sz with | .w64 => sext32 field | _ => zext32 field)) none
  | .aluImm op r => aluEffect op r (σ.reg r) (sext32 field)
  | .callRip => .call (σ.mem ea) next
  | .jmpRip => .jump (σ.mem ea)
  | .callRel => .call ea next
  | .jmpRel => .jump ea
  | .leaBase r base => .reg r (σ.reg base + sext32 field) none

/-! ### decoding of heads -/

/-- Prefix state in front of the opcode. -/
structure Pfx where
  opsz16 : Bool := false
  w : Bool := false
  r3 : Bool := false
  b3 : Bool := false
  r4 : Bool := false
  b4 : Bool := false
  x : Bool := false   -- any index-extension bit set (irrelevant for the forms here, kept to reject)
  deriving DecidableEq, Repr

def tb (b : UInt8) (i : Nat) : Bool := b.toNat.testBit i

def regNo (lo3 : UInt8) (b3 b4 : Bool) : Reg :=
  ⟨(lo3.toNat % 8) + (if b3 then 8 else 0) + (if b4 then 16 else 0), by
    have : lo3.toNat % 8 < 8 := Nat.mod_lt _ (by decide)
    split <;> split <;> omega⟩

def szOf (p : Pfx) : Sz := if p.w then .w64 else if p.opsz16 then .w16 else .w32

def aluOfOpcode (op : UInt8) : Option Alu :=
  if op = 0x03 then some .add else if op = 0x2b then some .sub else if op = 0x3b then some .cmp else none
def aluOfExt (ext : UInt8) : Option Alu :=
  if ext = 0 then some .add else if ext = 5 then some .sub else if ext = 7 then some .cmp else none

/-- opcode + ModRM (+ nothing else) after the prefixes. -/
def decodeOp (p : Pfx) (op modrm : UInt8) : Option Form :=
  let mod_ := modrm >>> 6
  let regf := (modrm >>> 3) &&& 7
  let rm := modrm &&& 7
  let ripRel := mod_ = 0 ∧ rm = 5
  if op = 0x8b ∧ ripRel then some (.movRip (szOf p) (regNo regf p.r3 p.r4))
  else if op = 0x8d ∧ ripRel then some (.leaRip (szOf p) (regNo regf p.r3 p.r4))
  else if p.w ∧ ripRel ∧ (aluOfOpcode op).isSome then (aluOfOpcode op).map (fun a => .aluRip a (regNo regf p.r3 p.r4))
  else if op = 0xc7 ∧ mod_ = 3 ∧ regf = 0 ∧ !p.opsz16 then some (.movImm (szOf p) (regNo rm p.b3 p.b4))
  else if op = 0x81 ∧ mod_ = 3 ∧ p.w ∧ (aluOfExt regf).isSome then (aluOfExt regf).map (fun a => .aluImm a (regNo rm p.b3 p.b4))
  else if op = 0xff ∧ modrm = 0x15 then some .callRip
  else if op = 0xff ∧ modrm = 0x25 then some .jmpRip
  else if op = 0x8d ∧ mod_ = 2 ∧ rm ≠ 4 ∧ p.w then some (.leaBase (regNo regf p.r3 p.r4) (regNo rm p.b3 p.b4))
  else none

/-- Decode an instruction head (all bytes in front of the 32-bit field).
Legacy prefixes 0x66 (operand size) and 0x67 (address size; only accepted in front of `call rel32`,
where it has no effect), then optionally REX (0x40..0x4f) or REX2 (0xd5 payload), then the opcode. -/
def decodeHead : List UInt8 → Option Form
  | [op, modrm] => decodeOp {} op modrm
  | [a] => if a = 0xe8 then some .callRel else if a = 0xe9 then some .jmpRel else none
  | [a, b, modrm] =>
    if a = 0x66 then decodeOp { opsz16 := true } b modrm
    else if a &&& 0xf0 = 0x40 then
      decodeOp { w := tb a 3, r3 := tb a 2, x := tb a 1, b3 := tb a 0 } b modrm
    else none
  | [a, pl, op, modrm] =>
    if a = 0xd5 ∧ !tb pl 7 then   -- REX2, map 0
      decodeOp { w := tb pl 3, r3 := tb pl 2, x := tb pl 1 || tb pl 5, b3 := tb pl 0, r4 := tb pl 6, b4 := tb pl 4 } op modrm
    else none
  | _ => none

/-- `addr32 call rel32` (0x67 0xe8): the address-size prefix does not change a relative call. -/
def decodeHeadCall : List UInt8 → Option Form
  | [a, b] => if a = 0x67 ∧ b = 0xe8 then some .callRel else decodeHead [a, b]
  | l => decodeHead l


/-! ### instruction SEQUENCES (the TLS code sequences)

The TLS relaxations replace a sequence of two (or four) instructions by another sequence, so the
single-instruction `Effect` above is not enough.  This part is a byte-level decoder for complete
instructions (`decodeIns`, consuming legacy prefixes, REX, opcode, ModRM, SIB, disp32/imm32/imm64) and a
state-transformer semantics (`stepIns`, `runSeq`).  All forms here are 64-bit (REX.W) forms; with REX.W
the 0x66 prefixes that the TLS ABI uses as padding have no effect (SDM vol. 2, 2.2.1.2).

`call __tls_get_addr` is ABSTRACTED: a near call whose target is `TlsEnv.getAddr` returns to the next
instruction with `%rax = tlsBase(ti.module) + ti.offset` where `%rdi` points at the `tls_index` pair in
memory (ELF TLS ABI, Drepper, "ELF Handling For Thread-Local Storage", 3.4.2 / 4.1.6: the x86-64 GD/LD sequences); the registers the
SysV ABI lets a callee clobber get unspecified values `TlsEnv.clob` (the status flags are
call-clobbered too and are therefore not part of the sequence-level state); memory visible to the caller is unchanged.
A call to any other target is outside the model (`none`). -/

/-- little-endian 32-bit field from four bytes -/
def le32 (b0 b1 b2 b3 : UInt8) : BitVec 32 := b3.toBitVec ++ b2.toBitVec ++ b1.toBitVec ++ b0.toBitVec

/-- the four little-endian bytes of a 32-bit field (what applying a 4-byte relocation stores) -/
def bytes32 (v : BitVec 32) : List UInt8 :=
  [UInt8.ofBitVec (v.extractLsb' 0 8), UInt8.ofBitVec (v.extractLsb' 8 8),
   UInt8.ofBitVec (v.extractLsb' 16 8), UInt8.ofBitVec (v.extractLsb' 24 8)]

/-- Store a relocated 32-bit value at `off` (the section is long enough in every use). -/
def patch32 (bs : List UInt8) (off : Nat) (v : BitVec 32) : List UInt8 :=
  bs.take off ++ bytes32 v ++ bs.drop (off + 4)

/-- the eight little-endian bytes of a 64-bit field -/
def bytes64 (v : BitVec 64) : List UInt8 := bytes32 (v.truncate 32) ++ bytes32 ((v >>> 32).truncate 32)

/-- Store a relocated 64-bit value at `off`. -/
def patch64 (bs : List UInt8) (off : Nat) (v : BitVec 64) : List UInt8 :=
  bs.take off ++ bytes64 v ++ bs.drop (off + 8)

def le64 (b0 b1 b2 b3 b4 b5 b6 b7 : UInt8) : BitVec 64 := le32 b4 b5 b6 b7 ++ le32 b0 b1 b2 b3

/-- Complete instructions (64-bit operand size). -/
inductive Ins where
  | movRip (r : Reg) (d : BitVec 32)          -- mov  d(%rip), r
  | leaRip (r : Reg) (d : BitVec 32)          -- lea  d(%rip), r
  | addRip (r : Reg) (d : BitVec 32)          -- add  d(%rip), r
  | movFs (r : Reg) (d : BitVec 32)           -- mov  %fs:d, r      (absolute disp32: ModRM 00 reg 100, SIB 0x25)
  | leaBase (r base : Reg) (d : BitVec 32)    -- lea  d(base), r
  | movImm (r : Reg) (imm : BitVec 32)        -- mov  $imm32, r     (sign-extended)
  | addImm (r : Reg) (imm : BitVec 32)        -- add  $imm32, r     (sign-extended)
  | movAbs (r : Reg) (imm : BitVec 64)        -- movabs $imm64, r
  | addRR (dst src : Reg)                     -- add  src, dst      (01 /r, mod = 11)
  | callRel (d : BitVec 32)                   -- call rel32
  | callRip (d : BitVec 32)                   -- call *d(%rip)
  | callReg (r : Reg)                         -- call *r
  | nop
  deriving DecidableEq, Repr

/-- Legacy prefixes in front of REX/opcode: operand size 0x66, `%fs` 0x64, `%cs` 0x2e (no effect in
64-bit mode).  Returns (number of prefix bytes, saw 0x66, saw 0x64, rest). -/
def legacyPfx : List UInt8 → Nat × Bool × Bool × List UInt8
  | [] => (0, false, false, [])
  | b :: rest =>
    if b = 0x66 then let (n, _, f, r) := legacyPfx rest; (n + 1, true, f, r)
    else if b = 0x64 then let (n, o, _, r) := legacyPfx rest; (n + 1, o, true, r)
    else if b = 0x2e then let (n, o, f, r) := legacyPfx rest; (n + 1, o, f, r)
    else (0, false, false, b :: rest)

def take32 : List UInt8 → Option (BitVec 32)
  | a :: b :: c :: d :: _ => some (le32 a b c d)
  | _ => none

def take64 : List UInt8 → Option (BitVec 64)
  | a :: b :: c :: d :: e :: f :: g :: h :: _ => some (le64 a b c d e f g h)
  | _ => none

/-- Length of a ModRM-addressed memory operand's SIB + displacement bytes (for the multi-byte NOP). -/
def memOperandExtra (modrm : UInt8) : Nat :=
  let mod_ := modrm >>> 6
  let rm := modrm &&& 7
  (if rm = 4 then 1 else 0) + (if mod_ = 1 then 1 else if mod_ = 2 then 4 else 0)

/-- Opcode part (after legacy prefixes and REX). `n` = bytes consumed so far. -/
def decodeOpc (n : Nat) (o16 fs w r3 b3 : Bool) : List UInt8 → Option (Ins × Nat)
  | [] => none
  | op :: tl =>
    if op = 0x90 ∧ !fs then some (.nop, n + 1)                      -- nop / xchg %ax,%ax (66 90)
    else if op = 0xe8 ∧ !fs ∧ (w ∨ !o16) then (take32 tl).map fun d => (.callRel d, n + 5)
    else if op &&& 0xf8 = 0xb8 ∧ w ∧ !fs then (take64 tl).map fun v => (.movAbs (regNo op b3 false) v, n + 9)
    else match tl with
    | [] => none
    | m :: tl2 =>
      let mod_ := m >>> 6
      let regf := (m >>> 3) &&& 7
      let rm := m &&& 7
      let r := regNo regf r3 false
      let b := regNo rm b3 false
      if op = 0x0f then
        -- 0f 1f /0: multi-byte NOP with a memory operand (not accessed)
        match tl2 with
        | m2 :: _ =>
          if m = 0x1f ∧ (m2 >>> 3) &&& 7 = 0 ∧ m2 >>> 6 ≠ 3 ∧ !(m2 >>> 6 = 0 ∧ m2 &&& 7 = 5) then
            some (.nop, n + 3 + memOperandExtra m2)
          else none
        | [] => none
      else if fs then
        -- the only %fs-prefixed form: mov %fs:disp32, r64
        match tl2 with
        | sib :: tl3 =>
          if op = 0x8b ∧ w ∧ mod_ = 0 ∧ rm = 4 ∧ sib = 0x25 then (take32 tl3).map fun d => (.movFs r d, n + 7)
          else none
        | [] => none
      else if op = 0xff ∧ m = 0x15 ∧ (w ∨ !o16) then (take32 tl2).map fun d => (.callRip d, n + 6)
      else if op = 0xff ∧ mod_ = 3 ∧ regf = 2 ∧ (w ∨ !o16) then some (.callReg b, n + 2)
      else if !w then none
      else if mod_ = 0 ∧ rm = 5 then
        if op = 0x8b then (take32 tl2).map fun d => (.movRip r d, n + 6)
        else if op = 0x8d then (take32 tl2).map fun d => (.leaRip r d, n + 6)
        else if op = 0x03 then (take32 tl2).map fun d => (.addRip r d, n + 6)
        else none
      else if op = 0x8d ∧ mod_ = 2 ∧ rm ≠ 4 then (take32 tl2).map fun d => (.leaBase r b d, n + 6)
      else if op = 0xc7 ∧ mod_ = 3 ∧ regf = 0 then (take32 tl2).map fun d => (.movImm b d, n + 6)
      else if op = 0x81 ∧ mod_ = 3 ∧ regf = 0 then (take32 tl2).map fun d => (.addImm b d, n + 6)
      else if op = 0x01 ∧ mod_ = 3 then some (.addRR b r, n + 2)
      else none

/-- Decode one complete instruction from the front of a byte stream: instruction and its length. -/
def decodeIns (bs : List UInt8) : Option (Ins × Nat) :=
  match legacyPfx bs with
  | (n, o16, fs, rest) =>
    match rest with
    | [] => none
    | b :: rest' =>
      if b &&& 0xf0 = 0x40 then
        -- REX.X must be clear for the forms here (no index register is ever used)
        if tb b 1 then none else decodeOpc (n + 1) o16 fs (tb b 3) (tb b 2) (tb b 0) rest'
      else decodeOpc n o16 fs false false false (b :: rest')

/-- Run-time TLS environment of the current thread. -/
structure TlsEnv where
  /-- address of `__tls_get_addr` -/
  getAddr : BitVec 64
  /-- module id ↦ address of that module's TLS block for the current thread -/
  tlsBase : BitVec 64 → BitVec 64
  /-- unspecified values left in call-clobbered registers by `__tls_get_addr` -/
  clob : Reg → BitVec 64

/-- Registers a callee may clobber (SysV x86-64 psABI: all but rbx, rsp, rbp, r12–r15; APX r16–r31 are
caller-saved). -/
def volatile (r : Reg) : Bool :=
  !(r.val = 3 || r.val = 4 || r.val = 5 || r.val = 12 || r.val = 13 || r.val = 14 || r.val = 15)

def setReg (σ : State) (r : Reg) (v : BitVec 64) (next : BitVec 64) : State :=
  { σ with reg := fun x => if x = r then v else σ.reg x, rip := next }

/-- `__tls_get_addr(tls_index *ti)` with `ti = %rdi`, returning to `ret`. -/
def tlsGetAddr (e : TlsEnv) (σ : State) (ret : BitVec 64) : State :=
  let ti := σ.reg 7
  let res := e.tlsBase (σ.mem ti) + σ.mem (ti + 8#64)
  { σ with reg := fun x => if x = 0 then res else if volatile x then e.clob x else σ.reg x, rip := ret }

/-- One instruction of length `len` at `σ.rip`. -/
def stepIns (e : TlsEnv) (i : Ins) (len : Nat) (σ : State) : Option State :=
  let next := σ.rip + BitVec.ofNat 64 len
  match i with
  | .movRip r d => some (setReg σ r (σ.mem (next + sext32 d)) next)
  | .leaRip r d => some (setReg σ r (next + sext32 d) next)
  | .addRip r d => some (setReg σ r (σ.reg r + σ.mem (next + sext32 d)) next)
  | .movFs r d => some (setReg σ r (σ.mem (σ.fsBase + sext32 d)) next)
  | .leaBase r b d => some (setReg σ r (σ.reg b + sext32 d) next)
  | .movImm r d => some (setReg σ r (sext32 d) next)
  | .addImm r d => some (setReg σ r (σ.reg r + sext32 d) next)
  | .movAbs r v => some (setReg σ r v next)
  | .addRR dst src => some (setReg σ dst (σ.reg dst + σ.reg src) next)
  | .callRel d => if next + sext32 d = e.getAddr then some (tlsGetAddr e σ next) else none
  | .callRip d => if σ.mem (next + sext32 d) = e.getAddr then some (tlsGetAddr e σ next) else none
  | .callReg r => if σ.reg r = e.getAddr then some (tlsGetAddr e σ next) else none
  | .nop => some { σ with rip := next }

/-- Execute `n` consecutive instructions of straight-line code `code` located at `σ.rip`. -/
def runSeq (e : TlsEnv) : Nat → List UInt8 → State → Option State
  | 0, _, σ => some σ
  | n + 1, code, σ =>
    match decodeIns code with
    | none => none
    | some (i, len) =>
      match stepIns e i len σ with
      | none => none
      | some σ' => runSeq e n (code.drop len) σ'

/-- What the code after a TLS sequence can observe: `%rax`, every callee-saved register, memory, the
thread pointer and where execution continues. -/
def ObsEq (σ₁ σ₂ : State) : Prop :=
  σ₁.rip = σ₂.rip ∧ σ₁.mem = σ₂.mem ∧ σ₁.fsBase = σ₂.fsBase ∧ σ₁.reg 0 = σ₂.reg 0 ∧
  ∀ r, volatile r = false → σ₁.reg r = σ₂.reg r

end Wild.X86Sem
