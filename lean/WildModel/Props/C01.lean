import WildModel.Model.RelocValue
import WildModel.Gen.RelocTables
import WildModel.Props.C01Spec
import WildModel.Props.C01Bridge
import Std.Tactic.BVDecide
/-!
C01 — Relocated values are correct at run time.

* `c01_static`  : for every row of the REGENERATED x86-64 and AArch64 relocation tables whose kind is
  not `Absolute`, and ALL environments, the value computed by the model of `apply_relocation` equals the
  psABI formula of `Props/C01Spec.lean` (under the row-specific side conditions `Pre`, each of which is
  a stated fact about the input, e.g. "R_X86_64_GOTPC32 is only used with `_GLOBAL_OFFSET_TABLE_`").
* `c01_dynamic` : `write_absolute_relocation`'s decision tree composed with the loader yields
  `S + A (+ base)` (resp. the run-time binding of an interposable symbol, the IFUNC result) at the place,
  with at most one dynamic relocation covering the place.
* `c01_got_slot`: for all symbol classes × output kinds the GOT slot(s) filled by `process_resolution`
  hold, after the loader ran, the run-time address (resp. TP offset / module id / block offset), each slot
  covered by at most one dynamic relocation.
* TLS composition: `c01_tlsld_exe` (the `tls_index` pair wild fabricates for executables + the `DtpOff`
  value give the psABI address), `tp_geometry_x86`, `tp_geometry_aarch64`.

The field-encoding step (`write_to_buffer`) is C12/C13's `Wild.Reloc.*` theorems; relaxed forms are
C14's.  They are NOT re-proved here: `c01_static` is about the 64-bit `value` handed to the encoder.
-/
namespace Wild.C01
open Wild.RelocValue Wild.C01Spec Wild.Gen

/-- Side conditions under which a (kind, formula) pair is claimed. -/
def Pre (k : Kind) (f : Formula) (e : Env) : Prop :=
  -- string-merge redirection of `section symbol + addend` is C07's subject
  e.mergedString = Option.none ∧
  (match k, f with
   -- R_X86_64_GOTPC32/64: the assembler only emits them against `_GLOBAL_OFFSET_TABLE_`
   | .relative, .addr .got .pcrel => e.isIfunc = false ∧ e.S = e.gotBase
   -- `PltRelGotBase` does not add the addend (psABI: L − GOT + A)
   | .pltRelGotBase, _ => e.A = 0
   -- `Got` does not add the addend; `G(GDAT(S+A))` is the entry of `S` when `A = 0`.
   -- (`needs_got_tls_module` redirects to the TLSGD pair: a LoongArch64 convention)
   | .got, _ => e.A = 0 ∧ e.gotTlsModule = false
   -- `DtpOff` is the module-relative offset only in shared objects (see `c01_tlsld_exe`)
   | .dtpOff, _ => e.sharedObject = true ∧ e.isIfunc = false
   -- `resolution.value()`: a TLS symbol is never an IFUNC
   | .tpOff, _ => e.isIfunc = false
   | _, _ => True)

/-- The (kind, page mask, formula) combinations claimed; bias must be 0 (it is for both tables). -/
def table : List (Kind × PageMask × Formula) := [
  (.none, .nomask, .nothing),
  (.tlsDescCall, .nomask, .nothing),
  (.relative, .nomask, .addr .sym .pcrel),
  (.relative, .nomask, .addr .got .pcrel),
  (.relative, .symbolPlusAddendAndPosition 0xfff, .addr .sym .pagePcrel),
  (.absoluteLowPart, .nomask, .addr .sym .abs),
  (.symRelGotBase, .nomask, .addr .sym .gotRel),
  (.gotRelGotBase, .nomask, .addr .gotEntry .gotRel),
  (.gotRelGotBase, .gotBase 0xfff, .addr .gotEntry .gotPageRel),
  (.got, .nomask, .addr .gotEntry .abs),
  (.pltRelGotBase, .nomask, .addr .plt .gotRel),
  (.pltRelative, .nomask, .addr .plt .pcrel),
  (.gotRelative, .nomask, .addr .gotEntry .pcrel),
  (.gotRelative, .gotEntryAndPosition 0xfff, .addr .gotEntry .pagePcrel),
  (.tlsGd, .nomask, .addr .tlsgd .pcrel),
  (.tlsGd, .gotEntryAndPosition 0xfff, .addr .tlsgd .pagePcrel),
  (.tlsGdGot, .nomask, .addr .tlsgd .abs),
  (.tlsGdGotBase, .nomask, .addr .tlsgd .gotRel),
  (.tlsLd, .nomask, .addr .tlsld .pcrel),
  (.tlsLd, .gotEntryAndPosition 0xfff, .addr .tlsld .pagePcrel),
  (.tlsLdGot, .nomask, .addr .tlsld .abs),
  (.tlsLdGotBase, .nomask, .addr .tlsld .gotRel),
  (.dtpOff, .nomask, .dtprel),
  (.gotTpOff, .nomask, .addr .gottp .pcrel),
  (.gotTpOff, .gotEntryAndPosition 0xfff, .addr .gottp .pagePcrel),
  (.gotTpOffGot, .nomask, .addr .gottp .abs),
  (.gotTpOffGotBase, .nomask, .addr .gottp .gotRel),
  (.tpOff, .nomask, .tprel),
  (.tlsDesc, .nomask, .addr .tlsdesc .pcrel),
  (.tlsDesc, .gotEntryAndPosition 0xfff, .addr .tlsdesc .pagePcrel),
  (.tlsDescGot, .nomask, .addr .tlsdesc .abs),
  (.tlsDescGotBase, .nomask, .addr .tlsdesc .gotRel)]

theorem valueWithAddend_eq (e : Env) (h : e.mergedString = Option.none) :
    valueWithAddend e = (toLetters e).S + (toLetters e).A := by
  unfold valueWithAddend toLetters
  by_cases hi : e.isIfunc <;> by_cases hs : e.S = 0 <;> simp [hi, hs, h]

/-- Every claimed combination is sound for ALL environments. -/
theorem table_sound : ∀ t ∈ table, ∀ e : Env, Pre t.1 t.2.2 e →
    relocValueCore t.1 t.2.1 0 e = some (eval (toLetters e) t.2.2) := by
  intro t ht e hp
  simp only [table, List.mem_cons, List.mem_nil_iff, or_false] at ht
  obtain ⟨hm, hp⟩ := hp
  have hv := valueWithAddend_eq e hm
  rcases ht with h|h|h|h|h|h|h|h|h|h|h|h|h|h|h|h|h|h|h|h|h|h|h|h|h|h|h|h|h|h|h|h <;> subst h <;>
    simp only [Pre] at hp <;>
    simp only [relocValueCore, getPageMask, eval, objAddr, page, hv, Option.some.injEq] <;>
    simp only [toLetters] at * <;>
    (try simp only [hp]) <;>
    (try (obtain ⟨h1, h2⟩ := hp; simp only [h1, h2])) <;>
    (try simp) <;>
    (try bv_decide)

/-- `Absolute` in a non-relocatable output, for a symbol that is not bound at run time: the value is
`S + A` and no dynamic relocation is written. -/
theorem absolute_static (relr : Bool) (sec : SecInfo) (f : Flags) (dynsym : Nat) (e : Env)
    (ok : OutputKind) (hok : ok.isRelocatable = false)
    (hm : e.mergedString = Option.none)
    (hw : (f.interposable && sec.writable) = false)
    (hu : (f.dynamic && f.absolute && !sec.writable) = false) :
    absoluteWrite ok relr sec f dynsym e = ⟨eval (toLetters e) (.addr .sym .abs), []⟩ := by
  have hv := valueWithAddend_eq e hm
  unfold absoluteWrite
  simp only [hw, hu, hok, eval, objAddr, hv]
  cases sec.alloc <;> simp

/-- Row-level claim: kind, mask and formula of the row are a claimed combination and the bias is 0. -/
def rowOk (spec : Nat → Option Formula) (r : RelocRow) : Bool :=
  match spec r.rtype, Kind.ofString r.kind, PageMask.ofString r.pageMask with
  | some f, some k, some pm => r.bias == 0 && (k == .absolute && pm == .nomask && f == .addr .sym .abs || table.contains (k, pm, f))
  | _, _, _ => false

/-- Every row of the regenerated x86-64 table has a psABI formula and is a claimed combination. -/
theorem rows_x86_64_ok : rows_x86_64.all (rowOk C01Spec.x86_64) = true := by decide +kernel

/-- Every row of the regenerated AArch64 table has an AAELF64 formula and is a claimed combination. -/
theorem rows_aarch64_ok : rows_aarch64.all (rowOk C01Spec.aarch64) = true := by decide +kernel

def specOf : Arch → Nat → Option Formula
  | .x86_64 => C01Spec.x86_64
  | .aarch64 => C01Spec.aarch64
  | _ => fun _ => Option.none

/-- **c01_static.** For every relocation type of the regenerated x86-64 and AArch64 tables and ALL
environments: the value `apply_relocation` hands to the field encoder is the psABI formula.
(`Absolute` rows: in a non-relocatable output, for symbols not bound at run time; the relocatable and
run-time-bound cases are `c01_dynamic`.) -/
theorem c01_static (r : RelocRow) (hr : r ∈ rows_x86_64 ++ rows_aarch64) :
    ∃ f k pm, specOf r.arch r.rtype = some f ∧ Kind.ofString r.kind = some k ∧
      PageMask.ofString r.pageMask = some pm ∧ r.bias = 0 ∧
      (k ≠ .absolute → ∀ e : Env, Pre k f e →
        relocValue k pm (BitVec.ofNat 64 r.bias) e = some (eval (toLetters e) f)) ∧
      (k = .absolute → f = .addr .sym .abs ∧
        ∀ (e : Env) (ok : OutputKind) (relr : Bool) (sec : SecInfo) (fl : Flags) (dynsym : Nat),
          ok.isRelocatable = false → e.mergedString = Option.none →
          (fl.interposable && sec.writable) = false →
          (fl.dynamic && fl.absolute && !sec.writable) = false →
          relocValue k pm (BitVec.ofNat 64 r.bias) e {} ok relr sec fl dynsym = some (eval (toLetters e) f)) := by
  have hx := rows_x86_64_ok
  have ha := rows_aarch64_ok
  rw [List.all_eq_true] at hx ha
  have hrow : rowOk (specOf r.arch) r = true ∧ True := by
    rcases List.mem_append.mp hr with h | h
    · have := hx r h
      have harch : r.arch = .x86_64 := by
        have : rows_x86_64.all (fun r => r.arch == .x86_64) = true := by decide +kernel
        simpa using (List.all_eq_true.mp this) r h
      simp [specOf, harch, this]
    · have := ha r h
      have harch : r.arch = .aarch64 := by
        have : rows_aarch64.all (fun r => r.arch == .aarch64) = true := by decide +kernel
        simpa using (List.all_eq_true.mp this) r h
      simp [specOf, harch, this]
  obtain ⟨hrow, -⟩ := hrow
  unfold rowOk at hrow
  split at hrow
  · rename_i f k pm hf hk hpm
    simp only [Bool.and_eq_true, Bool.or_eq_true, beq_iff_eq, List.contains_iff_mem] at hrow
    obtain ⟨hb, hc⟩ := hrow
    refine ⟨f, k, pm, hf, hk, hpm, hb, ?_, ?_⟩
    · intro hne e hp
      rcases hc with ⟨⟨hk', _⟩, _⟩ | hc
      · exact absurd hk' hne
      · have := table_sound _ hc e hp
        cases k <;> simp_all [relocValue, hb]
    · intro hk'
      subst hk'
      have hfa : f = .addr .sym .abs := by
        rcases hc with ⟨⟨_, _⟩, hf'⟩ | hc
        · exact hf'
        · simp [table] at hc
      refine ⟨hfa, ?_⟩
      intro e ok relr sec fl dynsym hok hm hw hu
      subst hfa
      simp [relocValue, absolute_static relr sec fl dynsym e ok hok hm hw hu]
  · simp at hrow


/-! ## Dynamic side: decision trees composed with the loader -/

/-- load bias seen by an output kind: non-relocatable outputs are mapped where they were linked -/
def LoaderOk (ok : OutputKind) (ld : Loader) : Prop := ok.isRelocatable = false → ld.base = 0

theorem coverCount_single (a : BitVec 64) (r : DynReloc) : coverCount a [r] ≤ 1 := by
  unfold coverCount; by_cases h : (r.offset == a) <;> simp [List.filter, h]

/-- **c01_dynamic.** `write_absolute_relocation` composed with the loader: at the place of an
absolute 8-byte relocation in an allocated section the program reads
* the run-time binding of the symbol + A when the symbol is bound at run time (writable section),
* 0 for an undefined weak symbol referenced from read-only data,
* the IFUNC resolver's result for an IFUNC referenced from writable data of a relocatable output,
* `S + A` for absolute symbols, `S + A + load bias` for addresses (`S` = PLT entry for an IFUNC),
and at most one dynamic relocation covers the place, all of them AT the place. -/
theorem c01_dynamic (ok : OutputKind) (relr : Bool) (sec : SecInfo) (f : Flags) (dynsym : Nat) (e : Env)
    (ld : Loader) (hal : sec.alloc = true) (hm : e.mergedString = Option.none) (hi : e.isIfunc = f.ifunc)
    (hld : LoaderOk ok ld) :
    let s := absoluteWrite ok relr sec f dynsym e
    coverCount e.P s.dyn ≤ 1 ∧ (∀ r ∈ s.dyn, r.offset = e.P) ∧
    runtimeWord ld e.P s.stored s.dyn =
      (if f.dynamic && f.absolute && !sec.writable then 0
       else if f.interposable && sec.writable then ld.symAddr dynsym + e.A
       else if f.ifunc && sec.writable && ok.isRelocatable then ld.ifuncResolve (ld.base + (e.S + e.A))
       else if f.absolute then (toLetters e).S + e.A
       else (toLetters e).S + e.A + ld.base) := by
  have hv := valueWithAddend_eq e hm
  simp only [toLetters] at hv
  have hb : ok.isRelocatable = false → ld.base = 0 := hld
  simp only [absoluteWrite, hal, Bool.not_true, Bool.false_eq_true, ↓reduceIte]
  by_cases h1 : (f.dynamic && f.absolute && !sec.writable) = true
  · simp [h1, coverCount, runtimeWord]
  · simp only [h1, Bool.false_eq_true, ↓reduceIte]
    by_cases h2 : (f.interposable && sec.writable) = true
    · simp [h2, coverCount, runtimeWord, loaderApply]
    · simp only [h2, Bool.false_eq_true, ↓reduceIte]
      by_cases h3 : (f.ifunc && sec.writable && ok.isRelocatable) = true
      · simp [h3, coverCount, runtimeWord, loaderApply]
      · simp only [h3, Bool.false_eq_true, ↓reduceIte]
        by_cases h4 : (ok.isRelocatable && !f.absolute) = true
        · simp only [h4, ↓reduceIte]
          have hna : f.absolute = false := by
            cases hfa : f.absolute <;> simp_all
          rcases war_cases relr e.P (valueWithAddend e) with w | w
          · simp [w, hna, coverCount, runtimeWord, loaderApply, hv, toLetters]
          · simp [w, hna, coverCount, runtimeWord, loaderApply, hv, toLetters, BitVec.add_comm]
        · simp only [h4, Bool.false_eq_true, ↓reduceIte]
          by_cases hfa : f.absolute = true
          · simp [hfa, coverCount, runtimeWord, hv, toLetters]
          · have hr : ok.isRelocatable = false := by
              cases hr : ok.isRelocatable <;> simp_all
            simp [hfa, coverCount, runtimeWord, hv, toLetters, hb hr]

theorem war_cases (relr : Bool) (p a : BitVec 64) :
    writeAddressRelocation relr p a = ⟨a, [⟨p, .relr, 0, 0⟩]⟩ ∨
    writeAddressRelocation relr p a = ⟨0, [⟨p, .relative, 0, a⟩]⟩ := by
  unfold writeAddressRelocation; split <;> simp

/-- no TLS GOT flags -/
def PlainFlags (f : Flags) : Prop :=
  f.gotTlsOffset = false ∧ f.gotTlsModule = false ∧ f.gotTlsDescriptor = false

/-- **c01_got_slot.** For ALL flag combinations (symbol classes) × output kinds: the (first) GOT slot of
a non-TLS symbol filled by `process_resolution` holds after loading
* the run-time binding of the symbol when it is bound at run time (GLOB_DAT),
* the IFUNC resolver's result for an IFUNC (IRELATIVE),
* `S + load bias` for an address, `S` for an absolute value,
and is covered by at most one dynamic relocation, which is AT the slot. -/
theorem c01_got_slot (ok : OutputKind) (relr : Bool) (f : Flags) (dynsym : Nat) (tls : TlsInfo)
    (raw got plt : BitVec 64) (ld : Loader) (hp : PlainFlags f) (hld : LoaderOk ok ld) :
    ∃ fill, processResolution ok relr f dynsym tls raw got plt = some fill ∧
      coverCount got fill.dyn ≤ 1 ∧
      runtimeWord ld got (fill.words.headD 0) fill.dyn =
        (if f.dynamic || ((f.exportDynamic && f.interposable) && !f.ifunc) then ld.symAddr dynsym
         else if f.ifunc then ld.ifuncResolve (ld.base + raw)
         else if f.isAddress then raw + ld.base
         else raw) := by
  obtain ⟨h1, h2, h3⟩ := hp
  have hb : ok.isRelocatable = false → ld.base = 0 := hld
  have hne : (got + 8 == got) = false := beq_eq_false_iff_ne.mpr (by bv_decide)
  simp only [processResolution, h1, h2, h3, Bool.or_self, Bool.false_eq_true, ↓reduceIte]
  rcases war_cases relr got raw with w1 | w1 <;> rcases war_cases relr (got + 8) plt with w2 | w2 <;>
    by_cases c1 : (f.dynamic || ((f.exportDynamic && f.interposable) && !f.ifunc)) = true <;>
    by_cases c2 : f.ifunc = true <;> by_cases c3 : f.isAddress = true <;>
    by_cases ca : f.ifuncGotForAddress = true <;> by_cases cr : ok.isRelocatable = true <;>
    simp_all [coverCount, runtimeWord, loaderApply, List.filter, List.find?, BitVec.add_comm]

/-- The extra GOT slot of an IFUNC whose address is taken through the GOT
(`IFUNC_GOT_FOR_ADDRESS`) holds the run-time address of the PLT entry: the same value direct
references get (`toLetters`: `S` of an IFUNC is its PLT entry). -/
theorem c01_got_slot_ifunc_address (ok : OutputKind) (relr : Bool) (f : Flags) (dynsym : Nat) (tls : TlsInfo)
    (raw got plt : BitVec 64) (ld : Loader) (hp : PlainFlags f) (hld : LoaderOk ok ld)
    (ha : f.ifuncGotForAddress = true) :
    ∃ fill, processResolution ok relr f dynsym tls raw got plt = some fill ∧
      fill.words.length = 2 ∧ coverCount (got + 8) fill.dyn ≤ 1 ∧
      runtimeWord ld (got + 8) (fill.words.getD 1 0) fill.dyn = plt + ld.base := by
  obtain ⟨h1, h2, h3⟩ := hp
  have hb : ok.isRelocatable = false → ld.base = 0 := hld
  have hne : (got == got + 8) = false := beq_eq_false_iff_ne.mpr (by bv_decide)
  simp only [processResolution, h1, h2, h3, Bool.or_self, Bool.false_eq_true, ↓reduceIte, ha]
  rcases war_cases relr got raw with w1 | w1 <;> rcases war_cases relr (got + 8) plt with w2 | w2 <;>
    by_cases c1 : (f.dynamic || ((f.exportDynamic && f.interposable) && !f.ifunc)) = true <;>
    by_cases c2 : f.ifunc = true <;> by_cases c3 : f.isAddress = true <;>
    by_cases cr : ok.isRelocatable = true <;>
    simp_all [coverCount, runtimeWord, loaderApply, List.filter, List.find?, BitVec.add_comm]

/-- **GOT slot of an initial-exec TLS reference** (`GOT_TLS_OFFSET`): after loading it holds the TP
offset of the variable: `tpOffsetOf S tlsImage blockTp` with the executable's static block offset
`tls.start − tp_offset_start` (see `tp_geometry_*`) resp. the loader-assigned block offset of a
shared object; for run-time-bound symbols the TP offset of the definition the loader found;
0 for an undefined (weak) TLS symbol. -/
theorem c01_got_tls_offset (ok : OutputKind) (f : Flags) (dynsym : Nat) (tls : TlsInfo)
    (raw got : BitVec 64) (ld : Loader) :
    let fill := gotTlsOffsetFill ok f dynsym tls raw got
    coverCount got fill.dyn ≤ 1 ∧
    runtimeWord ld got (fill.words.headD 0) fill.dyn =
      (if f.dynamic || (f.exportDynamic && f.interposable) then
         (if dynsym = 0 then ld.selfTlsBlockTp else ld.symTlsBlockTp dynsym + ld.symTlsOff dynsym)
       else if raw = 0 then 0
       else tpOffsetOf raw tls.start (if ok.isExecutable then tls.start - tls.tpStart else ld.selfTlsBlockTp)) := by
  simp only [gotTlsOffsetFill, tpOffsetOf]
  by_cases c1 : (f.dynamic || (f.exportDynamic && f.interposable)) = true
  · by_cases c0 : dynsym = 0 <;> simp [c1, c0, coverCount, runtimeWord, loaderApply]
  · simp only [c1, Bool.false_eq_true, ↓reduceIte]
    by_cases c2 : raw = 0
    · simp [c2, coverCount, runtimeWord]
    · by_cases c3 : ok.isExecutable = true
      · simp only [c2, c3, ↓reduceIte, coverCount, runtimeWord, List.filter, List.find?, List.headD]
        refine ⟨by simp, ?_⟩
        bv_decide
      · have c3' : ok.isExecutable = false := by cases h : ok.isExecutable <;> simp_all
        simp only [c2, c3', Bool.false_eq_true, ↓reduceIte, coverCount, runtimeWord, List.filter, List.find?, beq_self_eq_true, loaderApply]
        refine ⟨by simp, ?_⟩
        bv_decide

/-- **`tls_index` pair of a general-dynamic TLS reference** (`GOT_TLS_MODULE`, after fix
c01-tlsgd-protected-offset): the module word identifies the defining module, the offset word is
`dtpOffsetOf` of the variable in that module; each word is covered by at most one relocation. -/
theorem c01_got_tls_module (ok : OutputKind) (f : Flags) (dynsym : Nat) (tls : TlsInfo)
    (raw got : BitVec 64) (ld : Loader) (hdtv : tls.dtvOffset = 0)
    (hdyn : f.dynamic = true → dynsym ≠ 0 ∧ f.interposable = true) :
    let fill := gotTlsModFill ok f dynsym tls raw got
    fill.words.length = 2 ∧ coverCount got fill.dyn ≤ 1 ∧ coverCount (got + 8) fill.dyn ≤ 1 ∧
    runtimeWord ld got (fill.words.getD 0 0) fill.dyn =
      (if ok.isExecutable && !f.dynamic then CURRENT_EXE_TLS_MOD
       else if dynsym = 0 then ld.selfMod else ld.symTlsMod dynsym) ∧
    runtimeWord ld (got + 8) (fill.words.getD 1 0) fill.dyn =
      (if dynsym ≠ 0 ∧ f.interposable = true then ld.symTlsOff dynsym
       else dtpOffsetOf raw tls.start) := by
  have hne : (got == got + 8) = false := beq_eq_false_iff_ne.mpr (by bv_decide)
  have hne' : (got + 8 == got) = false := beq_eq_false_iff_ne.mpr (by bv_decide)
  simp only [gotTlsModFill, dtpOffsetOf, hdtv]
  by_cases c1 : (ok.isExecutable && !f.dynamic) = true <;> by_cases c0 : dynsym = 0 <;>
    by_cases ci : f.interposable = true <;> by_cases cd : f.dynamic = true <;>
    simp_all [coverCount, runtimeWord, loaderApply, List.filter, List.find?, hne, hne']

/-- **TLS descriptor pair** (`GOT_TLS_DESCRIPTOR`): one TLSDESC relocation at the first word whose
resolver yields the TP offset of the variable (own module: block offset + `S − tlsImage`). -/
theorem c01_got_tls_descriptor (ok : OutputKind) (dynsym : Nat) (tls : TlsInfo) (raw got : BitVec 64)
    (ld : Loader) (hs : ok.isStaticExecutable = false) :
    ∃ fill, gotTlsDescFill ok dynsym tls raw got = some fill ∧ coverCount got fill.dyn = 1 ∧
      coverCount (got + 8) fill.dyn = 0 ∧
      runtimeWord ld got (fill.words.headD 0) fill.dyn =
        (if dynsym = 0 then tpOffsetOf raw tls.start ld.selfTlsBlockTp
         else ld.symTlsBlockTp dynsym + ld.symTlsOff dynsym) := by
  have hne : (got == got + 8) = false := beq_eq_false_iff_ne.mpr (by bv_decide)
  simp only [gotTlsDescFill, hs, Bool.false_eq_true, ↓reduceIte, tpOffsetOf]
  by_cases c0 : dynsym = 0
  · refine ⟨_, rfl, by simp [coverCount], by simp [coverCount, hne], ?_⟩
    simp only [c0, ↓reduceIte, runtimeWord, List.find?, beq_self_eq_true, loaderApply, List.headD]
    bv_decide
  · refine ⟨_, rfl, by simp [coverCount], by simp [coverCount, hne], ?_⟩
    simp [c0, runtimeWord, loaderApply]

/-- **Local-dynamic TLS in an executable.** wild fabricates the module's `tls_index` pair as
`{1, tp_offset_start − tls_start}` and writes `DtpOff` fields as `S + A − tls_end`: when
`tp_offset_start = tls_end` (x86-64) the address `__tls_get_addr(pair) + field` is the psABI one:
block start + `DTPREL(S + A)`. -/
theorem c01_tlsld_exe (ok : OutputKind) (tls : TlsInfo) (got blockTp : BitVec 64) (e : Env)
    (hx : ok.isExecutable = true) (hs : e.sharedObject = false)
    (ht1 : tls.start = e.tlsStart) (ht2 : tls.tpStart = e.tlsEnd) :
    ∃ v, relocValueCore .dtpOff .nomask 0 e = some v ∧
      tlsGetAddrTp blockTp ((tlsldFill ok tls got).words.getD 1 0) + v
        = blockTp + (e.S + e.A - e.tlsStart) := by
  refine ⟨e.S + e.A + 0 - e.tlsEnd, by simp [relocValueCore, hs], ?_⟩
  simp only [tlsldFill, hx, ↓reduceIte, tlsGetAddrTp, ht1, ht2, List.getD_cons_succ, List.getD_cons_zero]
  bv_decide

/-- On AArch64 `tp_offset_start` is `align_down(tls_start − 16)`, not `tls_end`: the same composition
misses the variable by `tls_end − tp_offset_start` whenever the two differ (un-relaxed local-dynamic
code in an AArch64 executable; compilers use TLSDESC there, so this needs hand-written assembly). -/
theorem c01_tlsld_aarch64_exe_witness :
    ∃ (e : Env) (tls : TlsInfo) (blockTp got : BitVec 64),
      e.sharedObject = false ∧ tls.start = e.tlsStart ∧ tls.tpStart = e.tpStart ∧
      e.tpStart = (e.tlsStart - 16) &&& ~~~(0xf#64) ∧
      (∀ v, relocValueCore .dtpOff .nomask 0 e = some v →
        tlsGetAddrTp blockTp ((tlsldFill .dynamicExecutableRelocatable tls got).words.getD 1 0) + v
          ≠ blockTp + (e.S + e.A - e.tlsStart)) := by
  refine ⟨{ S := 0x1000, A := 0, P := 0, G := 0, L := 0, gotBase := 0, tlsStart := 0x1000, tlsEnd := 0x1010,
            tpStart := 0xff0, tlsldGot := 0 }, { start := 0x1000, tpStart := 0xff0 }, 0, 0, rfl, rfl, rfl, by decide, ?_⟩
  intro v hv
  simp [relocValueCore] at hv
  subst hv
  decide

/-- `PltRelGotBase` (R_X86_64_PLTOFF64) ignores the addend: with `A ≠ 0` the value differs from the
psABI's `L − GOT + A` (assemblers emit `A = 0` for `f@PLTOFF`). -/
theorem c01_pltoff_addend_witness (e : Env) (hA : e.A ≠ 0) :
    relocValueCore .pltRelGotBase .nomask 0 e ≠ some (eval (toLetters e) (.addr .plt .gotRel)) := by
  simp only [relocValueCore, getPageMask, eval, objAddr, toLetters, ne_eq, Option.some.injEq]
  intro h
  apply hA
  bv_decide

/-! ## TLS geometry: wild's `tp_offset_start` against the loader's static TLS layout -/

/-- x86-64: `tls_end_address() = align_up(start + memsz)`; with an aligned `start` the executable's
block starts `roundUp(memsz)` below TP, as glibc lays it out. -/
theorem tp_geometry_x86 (e : Nat) (he : e ≤ 16) (start memsz : BitVec 64)
    (hal : start &&& ((1#64 <<< e) - 1) = 0)
    (hsz : memsz.toNat < 2 ^ 48) (hst : start.toNat < 2 ^ 48) :
    let m : BitVec 64 := (1#64 <<< e) - 1
    let tlsEnd := (start + memsz + m) &&& ~~~m
    start - tlsEnd = x86ExeBlockTp e memsz := by
  have hb1 : BitVec.ult memsz 0x1000000000000#64 = true := by
    simp only [BitVec.ult, decide_eq_true_eq]; simpa using hsz
  have hb2 : BitVec.ult start 0x1000000000000#64 = true := by
    simp only [BitVec.ult, decide_eq_true_eq]; simpa using hst
  simp only [x86ExeBlockTp, roundUp]
  have : e = 0 ∨ e = 1 ∨ e = 2 ∨ e = 3 ∨ e = 4 ∨ e = 5 ∨ e = 6 ∨ e = 7 ∨ e = 8 ∨ e = 9 ∨ e = 10 ∨
      e = 11 ∨ e = 12 ∨ e = 13 ∨ e = 14 ∨ e = 15 ∨ e = 16 := by omega
  rcases this with h|h|h|h|h|h|h|h|h|h|h|h|h|h|h|h|h <;> subst h <;> bv_decide

/-- AArch64: `tls_start_address_aarch64() = align_down(start − 16)`; with an aligned `start` the
block starts `roundUp(16)` above TP (variant I, 16-byte TCB). -/
theorem tp_geometry_aarch64 (e : Nat) (he : e ≤ 16) (start : BitVec 64)
    (hal : start &&& ((1#64 <<< e) - 1) = 0) :
    let m : BitVec 64 := (1#64 <<< e) - 1
    let tpStart := (start - 16) &&& ~~~m
    start - tpStart = aarch64ExeBlockTp e := by
  simp only [aarch64ExeBlockTp, roundUp]
  have : e = 0 ∨ e = 1 ∨ e = 2 ∨ e = 3 ∨ e = 4 ∨ e = 5 ∨ e = 6 ∨ e = 7 ∨ e = 8 ∨ e = 9 ∨ e = 10 ∨
      e = 11 ∨ e = 12 ∨ e = 13 ∨ e = 14 ∨ e = 15 ∨ e = 16 := by omega
  rcases this with h|h|h|h|h|h|h|h|h|h|h|h|h|h|h|h|h <;> subst h <;> bv_decide

/-! ## Non-vacuity -/

example : Pre .relative (.addr .sym .pcrel)
    { S := 0x401000, A := (-4 : BitVec 64), P := 0x402000, G := 0, L := 0, gotBase := 0x403000, tlsStart := 0,
      tlsEnd := 0, tpStart := 0, tlsldGot := 0 } := by simp [Pre]

example : relocValue .gotRelative .nomask 0
    { S := 0x401000, A := (-4 : BitVec 64), P := 0x402000, G := 0x403010, L := 0, gotBase := 0x403000,
      tlsStart := 0, tlsEnd := 0, tpStart := 0, tlsldGot := 0 } = some 0x100c := by decide

example : LoaderOk .dynamicExecutableRelocatable
    { base := 0x10000000, symAddr := fun _ => 0, symTlsOff := fun _ => 0, symTlsMod := fun _ => 0,
      symTlsBlockTp := fun _ => 0, ifuncResolve := id, selfMod := 1, selfTlsBlockTp := 0 } := by
  intro h; simp [OutputKind.isRelocatable] at h

end Wild.C01
