import WildModel.Model.RelocValue
import WildModel.Gen.RelocTables
import WildModel.Props.C01Spec
import WildModel.Props.C01Bridge
import Std.Tactic.BVDecide
/-!
C01 — Relocated values are correct at run time.

* `c01_static`  : for every row of the REGENERATED x86-64 and AArch64 relocation tables whose kind is
  not `Absolute`, and ALL environments, the value computed by the model of `apply_relocation` equals the
  psABI formula of `Props/C01Spec.lean` (under the row-specific side conditions `Pre`, each of which is
  a stated fact about the input, e.g. "R_X86_64_GOTPC32 is only used with `_GLOBAL_OFFSET_TABLE_`").
* `c01_dynamic` : `write_absolute_relocation`'s decision tree composed with the loader yields
  `S + A (+ base)` (resp. the run-time binding of an interposable symbol, the IFUNC result) at the place,
  with at most one dynamic relocation covering the place.
* `c01_got_slot`: for all symbol classes × output kinds the GOT slot(s) filled by `process_resolution`
  hold, after the loader ran, the run-time address (resp. TP offset / module id / block offset), each slot
  covered by at most one dynamic relocation.
* TLS composition: `c01_tlsld_exe` (the `tls_index` pair wild fabricates for executables + the `DtpOff`
  value give the psABI address), `tp_geometry_x86`, `tp_geometry_aarch64`.

The field-encoding step (`write_to_buffer`) is C12/C13's `Wild.Reloc.*` theorems; relaxed forms are
C14's.  They are NOT re-proved here: `c01_static` is about the 64-bit `value` handed to the encoder.
-/
namespace Wild.C01
open Wild.RelocValue Wild.C01Spec Wild.Gen

/-- Side conditions under which a (kind, formula) pair is claimed. -/
def Pre (k : Kind) (f : Formula) (e : Env) : Prop :=
  -- string-merge redirection of `section symbol + addend` is C07's subject
  e.mergedString = Option.none ∧
  (match k, f with
   -- R_X86_64_GOTPC32/64: the assembler only emits them against `_GLOBAL_OFFSET_TABLE_`
   | .relative, .addr .got .pcrel => e.isIfunc = false ∧ e.S = e.gotBase
   -- `PltRelGotBase` does not add the addend (psABI: L − GOT + A)
   | .pltRelGotBase, _ => e.A = 0
   -- `Got` does not add the addend; `G(GDAT(S+A))` is the entry of `S` when `A = 0`.
   -- (`needs_got_tls_module` redirects to the TLSGD pair: a LoongArch64 convention)
   | .got, _ => e.A = 0 ∧ e.gotTlsModule = false
   -- `DtpOff` is the module-relative offset only in shared objects (see `c01_tlsld_exe`)
   | .dtpOff, _ => e.sharedObject = true ∧ e.isIfunc = false
   -- `resolution.value()`: a TLS symbol is never an IFUNC
   | .tpOff, _ => e.isIfunc = false
   | _, _ => True)

/-- The (kind, page mask, formula) combinations claimed; bias must be 0 (it is for both tables). -/
def table : List (Kind × PageMask × Formula) := [
  (.none, .nomask, .nothing),
  (.tlsDescCall, .nomask, .nothing),
  (.relative, .nomask, .addr .sym .pcrel),
  (.relative, .nomask, .addr .got .pcrel),
  (.relative, .symbolPlusAddendAndPosition 0xfff, .addr .sym .pagePcrel),
  (.absoluteLowPart, .nomask, .addr .sym .abs),
  (.symRelGotBase, .nomask, .addr .sym .gotRel),
  (.gotRelGotBase, .nomask, .addr .gotEntry .gotRel),
  (.gotRelGotBase, .gotBase 0xfff, .addr .gotEntry .gotPageRel),
  (.got, .nomask, .addr .gotEntry .abs),
  (.pltRelGotBase, .nomask, .addr .plt .gotRel),
  (.pltRelative, .nomask, .addr .plt .pcrel),
  (.gotRelative, .nomask, .addr .gotEntry .pcrel),
  (.gotRelative, .gotEntryAndPosition 0xfff, .addr .gotEntry .pagePcrel),
  (.tlsGd, .nomask, .addr .tlsgd .pcrel),
  (.tlsGd, .gotEntryAndPosition 0xfff, .addr .tlsgd .pagePcrel),
  (.tlsGdGot, .nomask, .addr .tlsgd .abs),
  (.tlsGdGotBase, .nomask, .addr .tlsgd .gotRel),
  (.tlsLd, .nomask, .addr .tlsld .pcrel),
  (.tlsLd, .gotEntryAndPosition 0xfff, .addr .tlsld .pagePcrel),
  (.tlsLdGot, .nomask, .addr .tlsld .abs),
  (.tlsLdGotBase, .nomask, .addr .tlsld .gotRel),
  (.dtpOff, .nomask, .dtprel),
  (.gotTpOff, .nomask, .addr .gottp .pcrel),
  (.gotTpOff, .gotEntryAndPosition 0xfff, .addr .gottp .pagePcrel),
  (.gotTpOffGot, .nomask, .addr .gottp .abs),
  (.gotTpOffGotBase, .nomask, .addr .gottp .gotRel),
  (.tpOff, .nomask, .tprel),
  (.tlsDesc, .nomask, .addr .tlsdesc .pcrel),
  (.tlsDesc, .gotEntryAndPosition 0xfff, .addr .tlsdesc .pagePcrel),
  (.tlsDescGot, .nomask, .addr .tlsdesc .abs),
  (.tlsDescGotBase, .nomask, .addr .tlsdesc .gotRel)]

/-- Every claimed combination is sound for ALL environments. -/
theorem table_sound : ∀ t ∈ table, ∀ e : Env, Pre t.1 t.2.2 e →
    relocValueCore t.1 t.2.1 0 e = some (eval (toLetters e) t.2.2) := by
  intro t ht e hp
  simp only [table, List.mem_cons, List.mem_nil_iff, or_false] at ht
  obtain ⟨hm, hp⟩ := hp
  have hv := valueWithAddend_eq e hm
  rcases ht with h|h|h|h|h|h|h|h|h|h|h|h|h|h|h|h|h|h|h|h|h|h|h|h|h|h|h|h|h|h|h|h <;> subst h <;>
    simp only [Pre] at hp <;>
    simp only [relocValueCore, getPageMask, eval, objAddr, page, hv, Option.some.injEq] <;>
    simp only [toLetters] at * <;>
    (try simp only [hp]) <;>
    (try (obtain ⟨h1, h2⟩ := hp; simp only [h1, h2])) <;>
    (try simp) <;>
    (try bv_omega) <;>
    (try bv_decide)

/-- `Absolute` in a non-relocatable output, for a symbol that is not bound at run time: the value is
`S + A` and no dynamic relocation is written. -/
theorem absolute_static (relr : Bool) (sec : SecInfo) (f : Flags) (dynsym : Nat) (e : Env)
    (ok : OutputKind) (hok : ok.isRelocatable = false)
    (hm : e.mergedString = Option.none)
    (hw : (f.interposable && sec.writable) = false)
    (hu : (f.dynamic && f.absolute && !sec.writable) = false) :
    absoluteWrite ok relr sec f dynsym e = ⟨eval (toLetters e) (.addr .sym .abs), []⟩ := by
  have hv := valueWithAddend_eq e hm
  unfold absoluteWrite
  simp only [hw, hu, hok, eval, objAddr, hv]
  cases sec.alloc <;> simp

/-- Row-level claim: kind, mask and formula of the row are a claimed combination and the bias is 0. -/
def rowOk (spec : Nat → Option Formula) (r : RelocRow) : Bool :=
  match spec r.rtype, Kind.ofString r.kind, PageMask.ofString r.pageMask with
  | some f, some k, some pm => r.bias == 0 && (k == .absolute && pm == .nomask && f == .addr .sym .abs || table.contains (k, pm, f))
  | _, _, _ => false

/-- Every row of the regenerated x86-64 table has a psABI formula and is a claimed combination. -/
theorem rows_x86_64_ok : rows_x86_64.all (rowOk C01Spec.x86_64) = true := by decide +kernel

/-- Every row of the regenerated AArch64 table has an AAELF64 formula and is a claimed combination. -/
theorem rows_aarch64_ok : rows_aarch64.all (rowOk C01Spec.aarch64) = true := by decide +kernel

def specOf : Arch → Nat → Option Formula
  | .x86_64 => C01Spec.x86_64
  | .aarch64 => C01Spec.aarch64
  | _ => fun _ => Option.none

/-- **c01_static.** For every relocation type of the regenerated x86-64 and AArch64 tables and ALL
environments: the value `apply_relocation` hands to the field encoder is the psABI formula.
(`Absolute` rows: in a non-relocatable output, for symbols not bound at run time; the relocatable and
run-time-bound cases are `c01_dynamic`.) -/
theorem c01_static (r : RelocRow) (hr : r ∈ rows_x86_64 ++ rows_aarch64) :
    ∃ f k pm, specOf r.arch r.rtype = some f ∧ Kind.ofString r.kind = some k ∧
      PageMask.ofString r.pageMask = some pm ∧ r.bias = 0 ∧
      (k ≠ .absolute → ∀ e : Env, Pre k f e →
        relocValue k pm (BitVec.ofNat 64 r.bias) e = some (eval (toLetters e) f)) ∧
      (k = .absolute → f = .addr .sym .abs ∧
        ∀ (e : Env) (ok : OutputKind) (relr : Bool) (sec : SecInfo) (fl : Flags) (dynsym : Nat),
          ok.isRelocatable = false → e.mergedString = Option.none →
          (fl.interposable && sec.writable) = false →
          (fl.dynamic && fl.absolute && !sec.writable) = false →
          relocValue k pm (BitVec.ofNat 64 r.bias) e {} ok relr sec fl dynsym = some (eval (toLetters e) f)) := by
  have hx := rows_x86_64_ok
  have ha := rows_aarch64_ok
  rw [List.all_eq_true] at hx ha
  have hrow : rowOk (specOf r.arch) r = true ∧ True := by
    rcases List.mem_append.mp hr with h | h
    · have := hx r h
      have harch : r.arch = .x86_64 := by
        have : rows_x86_64.all (fun r => r.arch == .x86_64) = true := by decide +kernel
        simpa using (List.all_eq_true.mp this) r h
      simp [specOf, harch, this]
    · have := ha r h
      have harch : r.arch = .aarch64 := by
        have : rows_aarch64.all (fun r => r.arch == .aarch64) = true := by decide +kernel
        simpa using (List.all_eq_true.mp this) r h
      simp [specOf, harch, this]
  obtain ⟨hrow, -⟩ := hrow
  unfold rowOk at hrow
  split at hrow
  · rename_i f k pm hf hk hpm
    simp only [Bool.and_eq_true, Bool.or_eq_true, beq_iff_eq, List.contains_iff_mem] at hrow
    obtain ⟨hb, hc⟩ := hrow
    refine ⟨f, k, pm, hf, hk, hpm, hb, ?_, ?_⟩
    · intro hne e hp
      rcases hc with ⟨⟨hk', _⟩, _⟩ | hc
      · exact absurd hk' hne
      · have := table_sound _ hc e hp
        cases k <;> simp_all [relocValue, hb]
    · intro hk'
      subst hk'
      have hfa : f = .addr .sym .abs := by
        rcases hc with ⟨⟨_, _⟩, hf'⟩ | hc
        · exact hf'
        · simp [table] at hc
      refine ⟨hfa, ?_⟩
      intro e ok relr sec fl dynsym hok hm hw hu
      subst hfa
      simp [relocValue, absolute_static relr sec fl dynsym e ok hok hm hw hu]
  · simp at hrow


/-! ## Non-vacuity -/

example : Pre .relative (.addr .sym .pcrel)
    { S := 0x401000, A := (-4 : BitVec 64), P := 0x402000, G := 0, L := 0, gotBase := 0x403000, tlsStart := 0,
      tlsEnd := 0, tpStart := 0, tlsldGot := 0 } := by simp [Pre]

example : relocValue .gotRelative .nomask 0
    { S := 0x401000, A := (-4 : BitVec 64), P := 0x402000, G := 0x403010, L := 0, gotBase := 0x403000,
      tlsStart := 0, tlsEnd := 0, tpStart := 0, tlsldGot := 0 } = some 0x100c := by decide

end Wild.C01
