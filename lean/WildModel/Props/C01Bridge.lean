import WildModel.Model.RelocValue
import WildModel.Props.C01Spec
/-! Bridge between the model environment of `apply_relocation` and the psABI letters (core-only, so
that the driver can evaluate the spec side on the same environment). -/
namespace Wild.C01
open Wild.RelocValue Wild.C01Spec

/-- Bridge: the psABI letters denoted by a model environment. An IFUNC symbol's value `S` in an
executable is the address of its PLT entry (so that all references agree: C38). -/
def toLetters (e : Env) : Letters where
  S := if e.isIfunc then e.L else e.S
  A := e.A
  P := e.P
  GOT := e.gotBase
  GE := gotAddressForRelocation e
  L := e.L
  TLSGD := tlsgdGotAddress e
  TLSLD := e.tlsldGot
  GTP := e.G
  GDESC := tlsDescriptorGotAddress e
  tlsImage := e.tlsStart
  blockTp := e.tlsStart - e.tpStart

theorem valueWithAddend_eq (e : Env) (h : e.mergedString = Option.none) :
    valueWithAddend e = (toLetters e).S + (toLetters e).A := by
  unfold valueWithAddend toLetters
  by_cases hi : e.isIfunc <;> by_cases hs : e.S = 0 <;> simp [hi, hs, h]

end Wild.C01
