import WildModel.Model.RelocValue
import WildModel.Props.C01Spec
import WildModel.Props.C01Bridge
import Std.Tactic.BVDecide
/-!
C01, dynamic side — `write_absolute_relocation` and `process_resolution` composed with the loader
(`c01_dynamic`, `c01_got_slot*`, `c01_got_tls_*`), the local-dynamic TLS composition and the TLS geometry
lemmas.  See Props/C01.lean for the static side and the overview.
-/
namespace Wild.C01
open Wild.RelocValue Wild.C01Spec

theorem war_cases (relr : Bool) (p a : BitVec 64) :
    writeAddressRelocation relr p a = ⟨a, [⟨p, .relr, 0, 0⟩]⟩ ∨
    writeAddressRelocation relr p a = ⟨0, [⟨p, .relative, 0, a⟩]⟩ := by
  unfold writeAddressRelocation; split <;> simp

/-- no TLS GOT flags -/
def PlainFlags (f : Flags) : Prop :=
  f.gotTlsOffset = false ∧ f.gotTlsModule = false ∧ f.gotTlsDescriptor = false

/-! ## Dynamic side: decision trees composed with the loader -/

/-- load bias seen by an output kind: non-relocatable outputs are mapped where they were linked -/
def LoaderOk (ok : OutputKind) (ld : Loader) : Prop := ok.isRelocatable = false → ld.base = 0

theorem coverCount_single (a : BitVec 64) (r : DynReloc) : coverCount a [r] ≤ 1 := by
  unfold coverCount; by_cases h : (r.offset == a) <;> simp [List.filter, h]

/-- **c01_dynamic.** `write_absolute_relocation` composed with the loader: at the place of an
absolute 8-byte relocation in an allocated section the program reads
* the run-time binding of the symbol + A when the symbol is bound at run time (writable section),
* 0 for an undefined weak symbol referenced from read-only data,
* the IFUNC resolver's result for an IFUNC referenced from writable data of a relocatable output,
* `S + A` for absolute symbols, `S + A + load bias` for addresses (`S` = PLT entry for an IFUNC),
and at most one dynamic relocation covers the place, all of them AT the place. -/
theorem c01_dynamic (ok : OutputKind) (relr : Bool) (sec : SecInfo) (f : Flags) (dynsym : Nat) (e : Env)
    (ld : Loader) (hal : sec.alloc = true) (hm : e.mergedString = Option.none) (hi : e.isIfunc = f.ifunc)
    (hld : LoaderOk ok ld) :
    let s := absoluteWrite ok relr sec f dynsym e
    coverCount e.P s.dyn ≤ 1 ∧ (∀ r ∈ s.dyn, r.offset = e.P) ∧
    runtimeWord ld e.P s.stored s.dyn =
      (if f.dynamic && f.absolute && !sec.writable then 0
       else if f.interposable && sec.writable then ld.symAddr dynsym + e.A
       else if f.ifunc && sec.writable && ok.isRelocatable then ld.ifuncResolve (ld.base + (e.S + e.A))
       else if f.absolute then (toLetters e).S + e.A
       else (toLetters e).S + e.A + ld.base) := by
  have hv := valueWithAddend_eq e hm
  simp only [toLetters] at hv
  have hb : ok.isRelocatable = false → ld.base = 0 := hld
  simp only [absoluteWrite, hal, Bool.not_true, Bool.false_eq_true, ↓reduceIte]
  by_cases h1 : (f.dynamic && f.absolute && !sec.writable) = true
  · simp [h1, coverCount, runtimeWord]
  · simp only [h1, Bool.false_eq_true, ↓reduceIte]
    by_cases h2 : (f.interposable && sec.writable) = true
    · simp [h2, coverCount, runtimeWord, loaderApply]
    · simp only [h2, Bool.false_eq_true, ↓reduceIte]
      by_cases h3 : (f.ifunc && sec.writable && ok.isRelocatable) = true
      · simp [h3, coverCount, runtimeWord, loaderApply]
      · simp only [h3, Bool.false_eq_true, ↓reduceIte]
        by_cases h4 : (ok.isRelocatable && !f.absolute) = true
        · simp only [h4, ↓reduceIte]
          have hna : f.absolute = false := by
            cases hfa : f.absolute <;> simp_all
          rcases war_cases relr e.P (valueWithAddend e) with w | w
          · rw [w]; simp [hna, coverCount, runtimeWord, loaderApply, hv, toLetters]
          · rw [w]; simp [hna, coverCount, runtimeWord, loaderApply, hv, toLetters, BitVec.add_comm]
        · simp only [h4, Bool.false_eq_true, ↓reduceIte]
          by_cases hfa : f.absolute = true
          · simp [hfa, coverCount, runtimeWord, hv, toLetters]
          · have hr : ok.isRelocatable = false := by
              cases hr : ok.isRelocatable <;> simp_all
            simp [hfa, coverCount, runtimeWord, hv, toLetters, hb hr]

theorem first_fill (ok : OutputKind) (relr : Bool) (f : Flags) (dynsym : Nat) (raw got : BitVec 64)
    (ld : Loader) (hld : LoaderOk ok ld) :
    let fill := gotFirstFill ok relr f dynsym raw got
    fill.words.length = 1 ∧ fill.dyn.length ≤ 1 ∧ (∀ r ∈ fill.dyn, r.offset = got) ∧
    runtimeWord ld got (fill.words.headD 0) fill.dyn =
      (if f.dynamic || ((f.exportDynamic && f.interposable) && !f.ifunc) then ld.symAddr dynsym
       else if f.ifunc then ld.ifuncResolve (ld.base + raw)
       else if f.isAddress then raw + ld.base
       else raw) := by
  have hb : ok.isRelocatable = false → ld.base = 0 := hld
  simp only [gotFirstFill]
  by_cases c1 : (f.dynamic || ((f.exportDynamic && f.interposable) && !f.ifunc)) = true
  · simp [c1, runtimeWord, loaderApply]
  · simp only [c1, Bool.false_eq_true, ↓reduceIte]
    by_cases c2 : f.ifunc = true
    · simp [c2, runtimeWord, loaderApply]
    · simp only [c2, Bool.false_eq_true, ↓reduceIte]
      by_cases c3 : f.isAddress = true
      · by_cases cr : ok.isRelocatable = true
        · rcases war_cases relr got raw with w | w <;>
            simp [c3, cr, w, runtimeWord, loaderApply, BitVec.add_comm]
        · have hr : ok.isRelocatable = false := by cases h : ok.isRelocatable <;> simp_all
          simp [c3, hr, runtimeWord, hb hr]
      · simp [c3, runtimeWord]

theorem addr_fill (ok : OutputKind) (relr : Bool) (got plt : BitVec 64) (ld : Loader) (hld : LoaderOk ok ld) :
    let s := gotIfuncAddrFill ok relr got plt
    s.dyn.length ≤ 1 ∧ (∀ r ∈ s.dyn, r.offset = got + 8) ∧
    runtimeWord ld (got + 8) s.stored s.dyn = plt + ld.base := by
  have hb : ok.isRelocatable = false → ld.base = 0 := hld
  simp only [gotIfuncAddrFill]
  generalize got + 8 = g
  by_cases cr : ok.isRelocatable = true
  · rcases war_cases relr g plt with w | w <;> simp [cr, w, runtimeWord, loaderApply, BitVec.add_comm]
  · have hr : ok.isRelocatable = false := by cases h : ok.isRelocatable <;> simp_all
    simp [hr, runtimeWord, hb hr]

theorem coverCount_le_of_offsets (a : BitVec 64) (d : List DynReloc) (h : d.length ≤ 1) : coverCount a d ≤ 1 :=
  Nat.le_trans (List.length_filter_le _ _) h

theorem coverCount_append (a : BitVec 64) (d1 d2 : List DynReloc) :
    coverCount a (d1 ++ d2) = coverCount a d1 + coverCount a d2 := by
  simp [coverCount, List.filter_append]

theorem coverCount_zero_of_ne (a b : BitVec 64) (d : List DynReloc) (h : ∀ r ∈ d, r.offset = b) (hab : b ≠ a) :
    coverCount a d = 0 := by
  simp only [coverCount, List.length_eq_zero_iff, List.filter_eq_nil_iff]
  intro r hr; simp [h r hr, hab]

theorem runtimeWord_append_right (ld : Loader) (a b st : BitVec 64) (d1 d2 : List DynReloc)
    (h : ∀ r ∈ d2, r.offset = b) (hab : b ≠ a) : runtimeWord ld a st (d1 ++ d2) = runtimeWord ld a st d1 := by
  unfold runtimeWord
  rw [List.find?_append]
  have : d2.find? (fun r => r.offset == a) = Option.none := by
    rw [List.find?_eq_none]; intro r hr; simp [h r hr, hab]
  rw [this]; cases d1.find? (fun r => r.offset == a) <;> simp

theorem runtimeWord_append_left (ld : Loader) (a b st : BitVec 64) (d1 d2 : List DynReloc)
    (h : ∀ r ∈ d1, r.offset = b) (hab : b ≠ a) : runtimeWord ld a st (d1 ++ d2) = runtimeWord ld a st d2 := by
  unfold runtimeWord
  rw [List.find?_append]
  have : d1.find? (fun r => r.offset == a) = Option.none := by
    rw [List.find?_eq_none]; intro r hr; simp [h r hr, hab]
  rw [this]; simp

/-- **c01_got_slot.** For ALL flag combinations (symbol classes) × output kinds: the (first) GOT slot of
a non-TLS symbol filled by `process_resolution` holds after loading
* the run-time binding of the symbol when it is bound at run time (GLOB_DAT),
* the IFUNC resolver's result for an IFUNC (IRELATIVE),
* `S + load bias` for an address, `S` for an absolute value,
and is covered by at most one dynamic relocation. -/
theorem c01_got_slot (ok : OutputKind) (relr : Bool) (f : Flags) (dynsym : Nat) (tls : TlsInfo)
    (raw got plt : BitVec 64) (ld : Loader) (hp : PlainFlags f) (hld : LoaderOk ok ld) :
    ∃ fill, processResolution ok relr f dynsym tls raw got plt = some fill ∧
      coverCount got fill.dyn ≤ 1 ∧
      runtimeWord ld got (fill.words.headD 0) fill.dyn =
        (if f.dynamic || ((f.exportDynamic && f.interposable) && !f.ifunc) then ld.symAddr dynsym
         else if f.ifunc then ld.ifuncResolve (ld.base + raw)
         else if f.isAddress then raw + ld.base
         else raw) := by
  obtain ⟨h1, h2, h3⟩ := hp
  have hne : got + 8 ≠ got := by bv_decide
  obtain ⟨fl, fd, fo, fr⟩ := first_fill ok relr f dynsym raw got ld hld
  obtain ⟨ad, ao, _⟩ := addr_fill ok relr got plt ld hld
  simp only [processResolution, h1, h2, h3, Bool.or_self, Bool.false_eq_true, ↓reduceIte]
  by_cases ca : f.ifuncGotForAddress = true
  · simp only [ca, ↓reduceIte]
    refine ⟨_, rfl, ?_, ?_⟩
    · rw [coverCount_append, coverCount_zero_of_ne got (got + 8) _ ao hne]
      exact coverCount_le_of_offsets _ _ fd
    · rw [runtimeWord_append_right ld got (got + 8) _ _ _ ao hne]
      have : ((gotFirstFill ok relr f dynsym raw got).words ++ [(gotIfuncAddrFill ok relr got plt).stored]).headD 0
          = (gotFirstFill ok relr f dynsym raw got).words.headD 0 := by
        cases hw : (gotFirstFill ok relr f dynsym raw got).words <;> simp_all
      rw [this]; exact fr
  · simp only [ca, Bool.false_eq_true, ↓reduceIte]
    exact ⟨_, rfl, coverCount_le_of_offsets _ _ fd, fr⟩

/-- The extra GOT slot of an IFUNC whose address is taken through the GOT
(`IFUNC_GOT_FOR_ADDRESS`) holds the run-time address of the PLT entry: the same value direct
references get (`toLetters`: `S` of an IFUNC is its PLT entry). -/
theorem c01_got_slot_ifunc_address (ok : OutputKind) (relr : Bool) (f : Flags) (dynsym : Nat) (tls : TlsInfo)
    (raw got plt : BitVec 64) (ld : Loader) (hp : PlainFlags f) (hld : LoaderOk ok ld)
    (ha : f.ifuncGotForAddress = true) :
    ∃ fill, processResolution ok relr f dynsym tls raw got plt = some fill ∧
      fill.words.length = 2 ∧ coverCount (got + 8) fill.dyn ≤ 1 ∧
      runtimeWord ld (got + 8) (fill.words.getD 1 0) fill.dyn = plt + ld.base := by
  obtain ⟨h1, h2, h3⟩ := hp
  have hne : got ≠ got + 8 := by bv_decide
  obtain ⟨fl, fd, fo, _⟩ := first_fill ok relr f dynsym raw got ld hld
  obtain ⟨ad, ao, ar⟩ := addr_fill ok relr got plt ld hld
  simp only [processResolution, h1, h2, h3, Bool.or_self, Bool.false_eq_true, ↓reduceIte, ha]
  refine ⟨_, rfl, by simp [fl], ?_, ?_⟩
  · rw [coverCount_append, coverCount_zero_of_ne (got + 8) got _ fo hne]
    simpa using coverCount_le_of_offsets _ _ ad
  · rw [runtimeWord_append_left ld (got + 8) got _ _ _ fo hne]
    have : ((gotFirstFill ok relr f dynsym raw got).words ++ [(gotIfuncAddrFill ok relr got plt).stored]).getD 1 0
        = (gotIfuncAddrFill ok relr got plt).stored := by
      match hw : (gotFirstFill ok relr f dynsym raw got).words, fl with
      | [x], _ => simp
    rw [this]; exact ar

/-- **GOT slot of an initial-exec TLS reference** (`GOT_TLS_OFFSET`): after loading it holds the TP
offset of the variable: `tpOffsetOf S tlsImage blockTp` with the executable's static block offset
`tls.start − tp_offset_start` (see `tp_geometry_*`) resp. the loader-assigned block offset of a
shared object; for run-time-bound symbols the TP offset of the definition the loader found;
0 for an undefined (weak) TLS symbol. -/
theorem c01_got_tls_offset (ok : OutputKind) (f : Flags) (dynsym : Nat) (tls : TlsInfo)
    (raw got : BitVec 64) (ld : Loader) :
    let fill := gotTlsOffsetFill ok f dynsym tls raw got
    coverCount got fill.dyn ≤ 1 ∧
    runtimeWord ld got (fill.words.headD 0) fill.dyn =
      (if f.dynamic || (f.exportDynamic && f.interposable) then
         (if dynsym = 0 then ld.selfTlsBlockTp else ld.symTlsBlockTp dynsym + ld.symTlsOff dynsym)
       else if raw = 0 then 0
       else tpOffsetOf raw tls.start (if ok.isExecutable then tls.start - tls.tpStart else ld.selfTlsBlockTp)) := by
  simp only [gotTlsOffsetFill, tpOffsetOf]
  by_cases c1 : (f.dynamic || (f.exportDynamic && f.interposable)) = true
  · by_cases c0 : dynsym = 0 <;> simp [c1, c0, coverCount, runtimeWord, loaderApply]
  · simp only [c1, Bool.false_eq_true, ↓reduceIte]
    by_cases c2 : raw = 0
    · simp [c2, coverCount, runtimeWord]
    · by_cases c3 : ok.isExecutable = true
      · simp only [c2, c3, ↓reduceIte, coverCount, runtimeWord, List.filter, List.find?, List.headD]
        refine ⟨by simp, ?_⟩
        bv_omega
      · have c3' : ok.isExecutable = false := by cases h : ok.isExecutable <;> simp_all
        simp only [c2, c3', Bool.false_eq_true, ↓reduceIte, coverCount, runtimeWord, List.filter, List.find?, beq_self_eq_true, loaderApply]
        refine ⟨by simp, ?_⟩
        bv_omega

/-- **`tls_index` pair of a general-dynamic TLS reference** (`GOT_TLS_MODULE`, after fix
c01-tlsgd-protected-offset): the module word identifies the defining module, the offset word is
`dtpOffsetOf` of the variable in that module; each word is covered by at most one relocation. -/
theorem c01_got_tls_module (ok : OutputKind) (f : Flags) (dynsym : Nat) (tls : TlsInfo)
    (raw got : BitVec 64) (ld : Loader) (hdtv : tls.dtvOffset = 0)
    (hdyn : f.dynamic = true → dynsym ≠ 0 ∧ f.interposable = true) :
    let fill := gotTlsModFill ok f dynsym tls raw got
    fill.words.length = 2 ∧ coverCount got fill.dyn ≤ 1 ∧ coverCount (got + 8) fill.dyn ≤ 1 ∧
    runtimeWord ld got (fill.words.getD 0 0) fill.dyn =
      (if ok.isExecutable && !f.dynamic then CURRENT_EXE_TLS_MOD
       else if dynsym = 0 then ld.selfMod else ld.symTlsMod dynsym) ∧
    runtimeWord ld (got + 8) (fill.words.getD 1 0) fill.dyn =
      (if dynsym ≠ 0 ∧ f.interposable = true then ld.symTlsOff dynsym
       else dtpOffsetOf raw tls.start) := by
  have hne : (got == got + 8) = false := beq_eq_false_iff_ne.mpr (by bv_decide)
  have hne' : (got + 8#64 == got) = false := beq_eq_false_iff_ne.mpr (by bv_decide)
  simp only [gotTlsModFill, dtpOffsetOf, hdtv]
  by_cases c1 : (ok.isExecutable && !f.dynamic) = true <;> by_cases c0 : dynsym = 0 <;>
    by_cases ci : f.interposable = true <;> by_cases cd : f.dynamic = true <;>
    simp_all [coverCount, runtimeWord, loaderApply, List.filter, List.find?] <;>
    (have h8 : (got + 8#64 == got) = false := beq_eq_false_iff_ne.mpr (by bv_decide)
     simp only [h8])

/-- **TLS descriptor pair** (`GOT_TLS_DESCRIPTOR`): one TLSDESC relocation at the first word whose
resolver yields the TP offset of the variable (own module: block offset + `S − tlsImage`). -/
theorem c01_got_tls_descriptor (ok : OutputKind) (dynsym : Nat) (tls : TlsInfo) (raw got : BitVec 64)
    (ld : Loader) (hs : ok.isStaticExecutable = false) :
    ∃ fill, gotTlsDescFill ok dynsym tls raw got = some fill ∧ coverCount got fill.dyn = 1 ∧
      coverCount (got + 8) fill.dyn = 0 ∧
      runtimeWord ld got (fill.words.headD 0) fill.dyn =
        (if dynsym = 0 then tpOffsetOf raw tls.start ld.selfTlsBlockTp
         else ld.symTlsBlockTp dynsym + ld.symTlsOff dynsym) := by
  have hne : (got == got + 8) = false := beq_eq_false_iff_ne.mpr (by bv_decide)
  simp only [gotTlsDescFill, hs, Bool.false_eq_true, ↓reduceIte, tpOffsetOf]
  by_cases c0 : dynsym = 0
  · refine ⟨_, rfl, by simp [coverCount], by simp [coverCount, hne], ?_⟩
    simp only [c0, ↓reduceIte, runtimeWord, List.find?, beq_self_eq_true, loaderApply, List.headD]
    bv_omega
  · refine ⟨_, rfl, by simp [coverCount], by simp [coverCount, hne], ?_⟩
    simp [c0, runtimeWord, loaderApply]

/-- **Local-dynamic TLS in an executable.** wild fabricates the module's `tls_index` pair as
`{1, tp_offset_start − tls_start}` and writes `DtpOff` fields as `S + A − tls_end`: when
`tp_offset_start = tls_end` (x86-64) the address `__tls_get_addr(pair) + field` is the psABI one:
block start + `DTPREL(S + A)`. -/
theorem c01_tlsld_exe (ok : OutputKind) (tls : TlsInfo) (got blockTp : BitVec 64) (e : Env)
    (hx : ok.isExecutable = true) (hs : e.sharedObject = false)
    (ht1 : tls.start = e.tlsStart) (ht2 : tls.tpStart = e.tlsEnd) :
    ∃ v, relocValueCore .dtpOff .nomask 0 e = some v ∧
      tlsGetAddrTp blockTp ((tlsldFill ok tls got).words.getD 1 0) + v
        = blockTp + (e.S + e.A - e.tlsStart) := by
  refine ⟨e.S + e.A + 0 - e.tlsEnd, by simp [relocValueCore, hs], ?_⟩
  simp only [tlsldFill, hx, ↓reduceIte, tlsGetAddrTp, ht1, ht2, List.getD_cons_succ, List.getD_cons_zero]
  generalize e.S + e.A = sa
  bv_omega

/-- On AArch64 `tp_offset_start` is `align_down(tls_start − 16)`, not `tls_end`: the same composition
misses the variable by `tls_end − tp_offset_start` whenever the two differ (un-relaxed local-dynamic
code in an AArch64 executable; compilers use TLSDESC there, so this needs hand-written assembly). -/
theorem c01_tlsld_aarch64_exe_witness :
    ∃ (e : Env) (tls : TlsInfo) (blockTp got : BitVec 64),
      e.sharedObject = false ∧ tls.start = e.tlsStart ∧ tls.tpStart = e.tpStart ∧
      e.tpStart = (e.tlsStart - 16) &&& ~~~(0xf#64) ∧
      (∀ v, relocValueCore .dtpOff .nomask 0 e = some v →
        tlsGetAddrTp blockTp ((tlsldFill .dynamicExecutableRelocatable tls got).words.getD 1 0) + v
          ≠ blockTp + (e.S + e.A - e.tlsStart)) := by
  refine ⟨{ S := 0x1000, A := 0, P := 0, G := 0, L := 0, gotBase := 0, tlsStart := 0x1000, tlsEnd := 0x1010,
            tpStart := 0xff0, tlsldGot := 0 }, { start := 0x1000, tpStart := 0xff0 }, 0, 0, rfl, rfl, rfl, by decide, ?_⟩
  intro v hv
  simp [relocValueCore] at hv
  subst hv
  decide

/-- `PltRelGotBase` (R_X86_64_PLTOFF64) ignores the addend: with `A ≠ 0` the value differs from the
psABI's `L − GOT + A` (assemblers emit `A = 0` for `f@PLTOFF`). -/
theorem c01_pltoff_addend_witness (e : Env) (hA : e.A ≠ 0) :
    relocValueCore .pltRelGotBase .nomask 0 e ≠ some (eval (toLetters e) (.addr .plt .gotRel)) := by
  simp only [relocValueCore, getPageMask, eval, objAddr, toLetters, ne_eq, Option.some.injEq]
  intro h
  apply hA
  bv_decide

/-! ## TLS geometry: wild's `tp_offset_start` against the loader's static TLS layout -/

/-- x86-64: `tls_end_address() = align_up(start + memsz)`; with an aligned `start` the executable's
block starts `roundUp(memsz)` below TP, as glibc lays it out. -/
theorem tp_geometry_x86 (e : Nat) (he : e ≤ 16) (start memsz : BitVec 64)
    (hal : start &&& ((1#64 <<< e) - 1) = 0)
    (hsz : memsz.toNat < 2 ^ 48) (hst : start.toNat < 2 ^ 48) :
    let m : BitVec 64 := (1#64 <<< e) - 1
    let tlsEnd := (start + memsz + m) &&& ~~~m
    start - tlsEnd = x86ExeBlockTp e memsz := by
  have hb1 : BitVec.ult memsz 0x1000000000000#64 = true := by
    simp only [BitVec.ult, decide_eq_true_eq]; simpa using hsz
  have hb2 : BitVec.ult start 0x1000000000000#64 = true := by
    simp only [BitVec.ult, decide_eq_true_eq]; simpa using hst
  simp only [x86ExeBlockTp, roundUp]
  have : e = 0 ∨ e = 1 ∨ e = 2 ∨ e = 3 ∨ e = 4 ∨ e = 5 ∨ e = 6 ∨ e = 7 ∨ e = 8 ∨ e = 9 ∨ e = 10 ∨
      e = 11 ∨ e = 12 ∨ e = 13 ∨ e = 14 ∨ e = 15 ∨ e = 16 := by omega
  rcases this with h|h|h|h|h|h|h|h|h|h|h|h|h|h|h|h|h <;> subst h <;> bv_decide

/-- AArch64: `tls_start_address_aarch64() = align_down(start − 16)`; with an aligned `start` the
block starts `roundUp(16)` above TP (variant I, 16-byte TCB). -/
theorem tp_geometry_aarch64 (e : Nat) (he : e ≤ 16) (start : BitVec 64)
    (hal : start &&& ((1#64 <<< e) - 1) = 0) :
    let m : BitVec 64 := (1#64 <<< e) - 1
    let tpStart := (start - 16) &&& ~~~m
    start - tpStart = aarch64ExeBlockTp e := by
  simp only [aarch64ExeBlockTp, roundUp]
  have : e = 0 ∨ e = 1 ∨ e = 2 ∨ e = 3 ∨ e = 4 ∨ e = 5 ∨ e = 6 ∨ e = 7 ∨ e = 8 ∨ e = 9 ∨ e = 10 ∨
      e = 11 ∨ e = 12 ∨ e = 13 ∨ e = 14 ∨ e = 15 ∨ e = 16 := by omega
  rcases this with h|h|h|h|h|h|h|h|h|h|h|h|h|h|h|h|h <;> subst h <;> bv_decide

example : LoaderOk .dynamicExecutableRelocatable
    { base := 0x10000000, symAddr := fun _ => 0, symTlsOff := fun _ => 0, symTlsMod := fun _ => 0,
      symTlsBlockTp := fun _ => 0, ifuncResolve := id, selfMod := 1, selfTlsBlockTp := 0 } := by
  intro h; simp [OutputKind.isRelocatable] at h

end Wild.C01
