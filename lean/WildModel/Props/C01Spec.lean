/-
C01 specification side, written independently of the model: the relocation formulas of
* System V ABI, AMD64 supplement, Table 4.10 "Relocation Types" (+ "ELF Handling For Thread-Local
  Storage" for the @tlsgd/@tlsld/@dtpoff/@gottpoff/@tpoff operators), and
* ELF for the Arm 64-bit Architecture (AAELF64), tables 5.7.x (static data/instruction relocations,
  GOT-relative, TLS descriptor / IE / LE models),
as VALUE formulas over the psABI letters.  The truncation of the value into the field (width, signedness,
`[hi:lo]` bit selection, scaling of LDST offsets) is the subject of C12/C13; here a formula denotes the
64-bit value `X` of the psABI's "X" column before field extraction.

Also: what the dynamic loader (glibc `elf_machine_rela`, `elf_dynamic_do_Relr`, `__tls_get_addr`,
static TLS layout of variant II (x86-64) and variant I (AArch64)) makes of a word, as the run-time
meaning each GOT-indirect formula relies on.
-/
namespace Wild.C01Spec

/-- The psABI letters for one relocation site. -/
structure Letters where
  /-- `S`: value of the symbol = final link-time address of the definition it resolved to -/
  S : BitVec 64
  /-- `A`: addend -/
  A : BitVec 64
  /-- `P`: place (address of the storage unit being relocated) -/
  P : BitVec 64
  /-- `GOT`: address of the global offset table (`_GLOBAL_OFFSET_TABLE_`) -/
  GOT : BitVec 64
  /-- address of the symbol's GOT entry: x86-64 `G + GOT`; AAELF64 `G(GDAT(S))` -/
  GE : BitVec 64
  /-- `L`: address of the symbol's PLT entry -/
  L : BitVec 64
  /-- address of the symbol's `tls_index` pair: x86-64 `@tlsgd`; AAELF64 `G(GTLSIDX(S))` -/
  TLSGD : BitVec 64
  /-- address of the module's `tls_index` pair: x86-64 `@tlsld`; AAELF64 `G(GLDM(S))` -/
  TLSLD : BitVec 64
  /-- address of the GOT entry holding the symbol's TP offset: `@gottpoff`; `G(GTPREL(S))` -/
  GTP : BitVec 64
  /-- address of the symbol's TLS descriptor pair: `@tlsdesc`; `G(GTLSDESC(S))` -/
  GDESC : BitVec 64
  /-- link-time address of the first byte of the module's TLS initialisation image (PT_TLS p_vaddr) -/
  tlsImage : BitVec 64
  /-- TP-relative offset, at run time, of the first byte of this module's TLS block (static TLS) -/
  blockTp : BitVec 64

/-- The object whose address a formula refers to. -/
inductive Obj where
  | sym      -- S + A
  | gotEntry -- G + GOT (+ A)
  | plt      -- L (+ A)
  | got      -- GOT (+ A)
  | tlsgd | tlsld | gottp | tlsdesc
  deriving DecidableEq, Repr

/-- How the address enters the value. -/
inductive Shape where
  | abs          -- X
  | pcrel        -- X − P
  | pagePcrel    -- Page(X) − Page(P)
  | gotRel       -- X − GOT
  | gotPageRel   -- X − Page(GOT)
  deriving DecidableEq, Repr

inductive Formula where
  | addr (o : Obj) (s : Shape)
  /-- `@dtpoff`, `DTPREL(S+A)`: offset in the module's TLS block -/
  | dtprel
  /-- `@tpoff`, `TPREL(S+A)`: offset from the thread pointer -/
  | tprel
  /-- no field written -/
  | nothing
  deriving DecidableEq, Repr

/-- AAELF64 `Page(expr) = expr & ~0xFFF` -/
def page (x : BitVec 64) : BitVec 64 := x &&& ~~~(0xFFF#64)

def objAddr (l : Letters) : Obj → BitVec 64
  | .sym => l.S + l.A
  | .gotEntry => l.GE + l.A
  | .plt => l.L + l.A
  | .got => l.GOT + l.A
  | .tlsgd => l.TLSGD + l.A
  | .tlsld => l.TLSLD + l.A
  | .gottp => l.GTP + l.A
  | .tlsdesc => l.GDESC + l.A

def eval (l : Letters) : Formula → BitVec 64
  | .addr o .abs => objAddr l o
  | .addr o .pcrel => objAddr l o - l.P
  | .addr o .pagePcrel => page (objAddr l o) - page l.P
  | .addr o .gotRel => objAddr l o - l.GOT
  | .addr o .gotPageRel => objAddr l o - page l.GOT
  | .dtprel => l.S + l.A - l.tlsImage
  | .tprel => l.S + l.A - l.tlsImage + l.blockTp
  | .nothing => 0

/-- x86-64 psABI Table 4.10 (r_type number → calculation). Types a static linker never sees in a
relocatable input (COPY, GLOB_DAT, JUMP_SLOT, RELATIVE, DTPMOD64, TPOFF64, IRELATIVE, …) and SIZE32/64
are not listed. The CODE_4/5/6 (APX) variants have the calculation of their base type. -/
def x86_64 : Nat → Option Formula
  | 0 => some .nothing                          -- R_X86_64_NONE
  | 1 => some (.addr .sym .abs)                 -- R_X86_64_64        S + A
  | 2 => some (.addr .sym .pcrel)               -- R_X86_64_PC32      S + A − P
  | 3 => some (.addr .gotEntry .gotRel)         -- R_X86_64_GOT32     G + A
  | 4 => some (.addr .plt .pcrel)               -- R_X86_64_PLT32     L + A − P
  | 9 => some (.addr .gotEntry .pcrel)          -- R_X86_64_GOTPCREL  G + GOT + A − P
  | 10 => some (.addr .sym .abs)                -- R_X86_64_32
  | 11 => some (.addr .sym .abs)                -- R_X86_64_32S
  | 12 => some (.addr .sym .abs)                -- R_X86_64_16
  | 13 => some (.addr .sym .pcrel)              -- R_X86_64_PC16
  | 14 => some (.addr .sym .abs)                -- R_X86_64_8
  | 15 => some (.addr .sym .pcrel)              -- R_X86_64_PC8
  | 17 => some .dtprel                          -- R_X86_64_DTPOFF64
  | 19 => some (.addr .tlsgd .pcrel)            -- R_X86_64_TLSGD
  | 20 => some (.addr .tlsld .pcrel)            -- R_X86_64_TLSLD
  | 21 => some .dtprel                          -- R_X86_64_DTPOFF32
  | 22 => some (.addr .gottp .pcrel)            -- R_X86_64_GOTTPOFF
  | 23 => some .tprel                           -- R_X86_64_TPOFF32
  | 24 => some (.addr .sym .pcrel)              -- R_X86_64_PC64
  | 25 => some (.addr .sym .gotRel)             -- R_X86_64_GOTOFF64  S + A − GOT
  | 26 => some (.addr .got .pcrel)              -- R_X86_64_GOTPC32   GOT + A − P
  | 27 => some (.addr .gotEntry .gotRel)        -- R_X86_64_GOT64     G + A
  | 29 => some (.addr .got .pcrel)              -- R_X86_64_GOTPC64   GOT + A − P
  | 31 => some (.addr .plt .gotRel)             -- R_X86_64_PLTOFF64  L − GOT + A
  | 34 => some (.addr .tlsdesc .pcrel)          -- R_X86_64_GOTPC32_TLSDESC
  | 35 => some .nothing                         -- R_X86_64_TLSDESC_CALL
  | 41 => some (.addr .gotEntry .pcrel)         -- R_X86_64_GOTPCRELX
  | 42 => some (.addr .gotEntry .pcrel)         -- R_X86_64_REX_GOTPCRELX
  | 43 => some (.addr .gotEntry .pcrel)         -- R_X86_64_CODE_4_GOTPCRELX
  | 44 => some (.addr .gottp .pcrel)            -- R_X86_64_CODE_4_GOTTPOFF
  | 45 => some (.addr .tlsdesc .pcrel)          -- R_X86_64_CODE_4_GOTPC32_TLSDESC
  | 46 => some (.addr .gotEntry .pcrel)         -- R_X86_64_CODE_5_GOTPCRELX
  | 47 => some (.addr .gottp .pcrel)            -- R_X86_64_CODE_5_GOTTPOFF
  | 48 => some (.addr .tlsdesc .pcrel)          -- R_X86_64_CODE_5_GOTPC32_TLSDESC
  | 49 => some (.addr .gotEntry .pcrel)         -- R_X86_64_CODE_6_GOTPCRELX
  | 50 => some (.addr .gottp .pcrel)            -- R_X86_64_CODE_6_GOTTPOFF
  | 51 => some (.addr .tlsdesc .pcrel)          -- R_X86_64_CODE_6_GOTPC32_TLSDESC
  | _ => none

/-- AAELF64 (r_type number → operation). -/
def aarch64 (t : Nat) : Option Formula :=
  if t = 0 ∨ t = 569 then some .nothing                      -- NONE, TLSDESC_CALL
  else if 257 ≤ t ∧ t ≤ 259 then some (.addr .sym .abs)      -- ABS64/32/16            S + A
  else if 260 ≤ t ∧ t ≤ 262 then some (.addr .sym .pcrel)    -- PREL64/32/16           S + A − P
  else if 263 ≤ t ∧ t ≤ 272 then some (.addr .sym .abs)      -- MOVW_UABS_G*, SABS_G*  S + A
  else if t = 273 ∨ t = 274 then some (.addr .sym .pcrel)    -- LD_PREL_LO19, ADR_PREL_LO21
  else if t = 275 ∨ t = 276 then some (.addr .sym .pagePcrel) -- ADR_PREL_PG_HI21(_NC)  Page(S+A) − Page(P)
  else if t = 277 ∨ t = 278 then some (.addr .sym .abs)      -- ADD/LDST8_ABS_LO12_NC  S + A
  else if t = 279 ∨ t = 280 then some (.addr .sym .pcrel)    -- TSTBR14, CONDBR19
  else if t = 282 ∨ t = 283 then some (.addr .plt .pcrel)    -- JUMP26, CALL26          S + A − P via PLT
  else if 284 ≤ t ∧ t ≤ 286 then some (.addr .sym .abs)      -- LDST16/32/64_ABS_LO12_NC
  else if 287 ≤ t ∧ t ≤ 293 then some (.addr .sym .pcrel)    -- MOVW_PREL_G*
  else if t = 299 then some (.addr .sym .abs)                -- LDST128_ABS_LO12_NC
  else if 300 ≤ t ∧ t ≤ 306 then some (.addr .gotEntry .gotRel) -- MOVW_GOTOFF_G*      G(GDAT(S+A)) − GOT
  else if t = 307 ∨ t = 308 then some (.addr .sym .gotRel)   -- GOTREL64/32            S + A − GOT
  else if t = 309 then some (.addr .gotEntry .pcrel)         -- GOT_LD_PREL19          G(GDAT(S+A)) − P
  else if t = 310 then some (.addr .gotEntry .gotRel)        -- LD64_GOTOFF_LO15       G(GDAT(S+A)) − GOT
  else if t = 311 then some (.addr .gotEntry .pagePcrel)     -- ADR_GOT_PAGE           Page(G(GDAT(S+A))) − Page(P)
  else if t = 312 then some (.addr .gotEntry .abs)           -- LD64_GOT_LO12_NC       G(GDAT(S+A))
  else if t = 313 then some (.addr .gotEntry .gotPageRel)    -- LD64_GOTPAGE_LO15      G(GDAT(S+A)) − Page(GOT)
  else if t = 314 then some (.addr .plt .pcrel)              -- PLT32
  else if t = 315 then some (.addr .gotEntry .pcrel)         -- GOTPCREL32
  else if t = 512 then some (.addr .tlsgd .pcrel)            -- TLSGD_ADR_PREL21       G(GTLSIDX(S+A)) − P
  else if t = 513 then some (.addr .tlsgd .pagePcrel)        -- TLSGD_ADR_PAGE21
  else if t = 514 then some (.addr .tlsgd .abs)              -- TLSGD_ADD_LO12_NC
  else if t = 515 ∨ t = 516 then some (.addr .tlsgd .gotRel) -- TLSGD_MOVW_G1/G0_NC    G(GTLSIDX(S+A)) − GOT
  else if t = 517 then some (.addr .tlsld .pcrel)            -- TLSLD_ADR_PREL21       G(GLDM(S)) − P
  else if t = 518 then some (.addr .tlsld .pagePcrel)        -- TLSLD_ADR_PAGE21
  else if t = 519 then some (.addr .tlsld .abs)              -- TLSLD_ADD_LO12_NC
  else if t = 520 ∨ t = 521 then some (.addr .tlsld .gotRel) -- TLSLD_MOVW_G1/G0_NC
  else if t = 522 then some (.addr .tlsld .pcrel)            -- TLSLD_LD_PREL19
  else if 523 ≤ t ∧ t ≤ 538 then some .dtprel                -- TLSLD_*_DTPREL_*       DTPREL(S+A)
  else if t = 539 ∨ t = 540 then some (.addr .gottp .gotRel) -- TLSIE_MOVW_GOTTPREL_G1/G0_NC
  else if t = 541 then some (.addr .gottp .pagePcrel)        -- TLSIE_ADR_GOTTPREL_PAGE21
  else if t = 542 then some (.addr .gottp .abs)              -- TLSIE_LD64_GOTTPREL_LO12_NC
  else if t = 543 then some (.addr .gottp .pcrel)            -- TLSIE_LD_GOTTPREL_PREL19
  else if 544 ≤ t ∧ t ≤ 559 then some .tprel                 -- TLSLE_*                TPREL(S+A)
  else if t = 560 ∨ t = 561 then some (.addr .tlsdesc .pcrel) -- TLSDESC_LD_PREL19, ADR_PREL21
  else if t = 562 then some (.addr .tlsdesc .pagePcrel)      -- TLSDESC_ADR_PAGE21
  else if t = 563 ∨ t = 564 then some (.addr .tlsdesc .abs)  -- TLSDESC_LD64_LO12, ADD_LO12
  else if t = 565 ∨ t = 566 then some (.addr .tlsdesc .gotRel) -- TLSDESC_OFF_G1/G0_NC
  else if t = 570 ∨ t = 571 then some .tprel                 -- TLSLE_LDST128_TPREL_LO12(_NC)
  else if t = 572 ∨ t = 573 then some .dtprel                -- TLSLD_LDST128_DTPREL_LO12(_NC)
  else none

/-! ## Run-time meaning of the GOT-resident objects (what the loader must make true) -/

/-- What a correct GOT slot holds at run time for an address symbol: `S + base`. -/
def gotSlotAddr (S base : BitVec 64) : BitVec 64 := S + base

/-- TP offset of a TLS variable at link-time address `S` in a module whose TLS block starts at TP
offset `blockTp` and whose image starts at `tlsImage`. -/
def tpOffsetOf (S tlsImage blockTp : BitVec 64) : BitVec 64 := S - tlsImage + blockTp

/-- Offset of the variable within its module's block (`dtpoff`, second word of a `tls_index`). -/
def dtpOffsetOf (S tlsImage : BitVec 64) : BitVec 64 := S - tlsImage

/-- `__tls_get_addr({m, off})` for a module with static TLS, as a TP offset: block start + off. -/
def tlsGetAddrTp (blockTp off : BitVec 64) : BitVec 64 := blockTp + off

/-- `size` rounded up to a multiple of `2^e` (the TLS block alignment), written with `/`. -/
def roundUp (e : Nat) (x : BitVec 64) : BitVec 64 :=
  ((x + ((1#64 <<< e) - 1)) / (1#64 <<< e)) * (1#64 <<< e)

/-- x86-64 (TLS variant II), main executable: the block ends at TP (its size rounded up to its
alignment): `blockTp = −roundUp(memsz)`. glibc `_dl_determine_tlsoffset`/`__libc_setup_tls`. -/
def x86ExeBlockTp (e : Nat) (memsz : BitVec 64) : BitVec 64 := - roundUp e memsz

/-- AArch64 (variant I), main executable: the block starts at TP + the 16-byte TCB rounded up to the
block's alignment. -/
def aarch64ExeBlockTp (e : Nat) : BitVec 64 := roundUp e 16

end Wild.C01Spec
