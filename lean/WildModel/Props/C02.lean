import WildModel.Model.Link
/-!
# C02 — Symbol references bind to the definition the ELF rules select

Model: `Wild.Link.selectSymbol` (mirror of `select_symbol` + `SymbolPrioritySelector`).
Spec (written independently, as the ELF rules named by the property):
* a strong definition in a regular object beats everything; the first one in command-line order;
* otherwise the largest common symbol, the first among equally large ones;
* otherwise the first weak / GNU-unique definition;
* definitions in shared objects are considered only if no regular object defines the name; then
  the first one;
* two strong definitions in regular objects that are not both in COMDAT groups are an error unless
  multiple definitions are allowed;
* an undefined non-weak reference from a loaded file is an error; a weak one is not.
All theorems quantify over every candidate list (any length, any order).
-/
namespace Wild.Link

/-! ## The declarative rule set -/

def Cand.isStrong (c : Cand) : Bool := c.strength == .strong
def Cand.isWeakish (c : Cand) : Bool := c.strength == .weak || c.strength == .gnuUnique
def Cand.isDefined (c : Cand) : Bool := c.strength != .undefined
def Cand.commonSize (c : Cand) : Option Nat :=
  match c.strength with
  | .common s => some s
  | _ => none

def nonDyn (cs : List Cand) : List Cand := cs.filter (fun c => !c.dynamic)

/-- Largest common, the earliest among the largest: defined by recursion from the right (the
head wins ties), independently of the implementation's left-to-right scan. -/
def bestCommon : List Cand → Option (Nat × Nat)
  | [] => none
  | c :: cs =>
    match c.commonSize, bestCommon cs with
    | some s, some (m, f) => if m ≤ s then some (s, c.file) else some (m, f)
    | some s, none => some (s, c.file)
    | none, r => r

/-- The definition the ELF rules select. -/
def specSelect (cs : List Cand) : Nat :=
  match (nonDyn cs).find? Cand.isStrong with
  | some c => c.file
  | none =>
    match bestCommon (nonDyn cs) with
    | some (_, f) => f
    | none =>
      match (nonDyn cs).find? Cand.isWeakish with
      | some c => c.file
      | none =>
        match cs.find? Cand.isDefined with
        | some c => c.file
        | none => (cs.head?.map (·.file)).getD 0

/-- Duplicate-definition rule: among the strong definitions in regular objects some pair is not
entirely inside COMDAT groups. -/
def DupSpec (allowMulti : Bool) (cs : List Cand) : Prop :=
  allowMulti = false ∧
    ¬ ((nonDyn cs).filter Cand.isStrong).Pairwise (fun a b => a.comdat = true ∧ b.comdat = true)

/-! ## Helper lemmas about the implementation model -/

theorem selectGo_nonDyn (am : Bool) (cs : List Cand) (sel : Selector) (fs : Option (Nat × Bool)) :
    selectGo am cs sel fs = selectGo am (nonDyn cs) sel fs := by
  induction cs generalizing sel fs with
  | nil => rfl
  | cons c cs ih =>
    unfold nonDyn at *
    by_cases hd : c.dynamic = true
    · simp only [selectGo, hd, if_true, List.filter_cons, Bool.not_true, Bool.false_eq_true, if_false]
      exact ih sel fs
    · have hd' : c.dynamic = false := by simpa using hd
      simp only [List.filter_cons, hd', Bool.not_false, if_true]
      simp only [selectGo, hd', Bool.false_eq_true, if_false]
      split <;> (try split) <;> simp only [ih]

/-- The selector state after considering a list (no error case). -/
def considerAll (sel : Selector) (l : List Cand) : Selector :=
  l.foldl (fun s c => s.consider c.file c.strength) sel

/-- Error detection separated from the selector state. `fs` = first strong seen so far. -/
def dupAfter (am : Bool) (fs : Nat × Bool) (l : List Cand) : Option (Nat × Nat) :=
  match l.find? (fun c => c.isStrong && ((!fs.2 || !c.comdat) && !am)) with
  | some c => some (fs.1, c.file)
  | none => none

theorem selectGo_some (am : Bool) (l : List Cand) (hnd : ∀ c ∈ l, c.dynamic = false)
    (sel : Selector) (fs : Nat × Bool) :
    selectGo am l sel (some fs) =
      match dupAfter am fs l with
      | some e => .error e
      | none => .ok (considerAll sel l) := by
  induction l generalizing sel with
  | nil => simp [selectGo, dupAfter, considerAll]
  | cons c l ih =>
    have hc : c.dynamic = false := hnd c (by simp)
    have hl : ∀ d ∈ l, d.dynamic = false := fun d hd => hnd d (by simp [hd])
    obtain ⟨e, ec⟩ := fs
    simp only [selectGo, hc, Bool.false_eq_true, if_false]
    cases hs : c.strength with
    | strong =>
      simp only
      by_cases hcond : ((!ec || !c.comdat) && !am) = true
      · simp [hcond, dupAfter, List.find?_cons, Cand.isStrong, hs]
      · have hcond' : ((!ec || !c.comdat) && !am) = false := by simpa using hcond
        simp only [hcond', Bool.false_eq_true, if_false]
        rw [ih hl]
        simp [dupAfter, List.find?_cons, Cand.isStrong, hs, hcond', considerAll, List.foldl_cons]
    | undefined | weak | gnuUnique =>
      simp only
      rw [ih hl]
      simp [dupAfter, List.find?_cons, Cand.isStrong, hs, considerAll, List.foldl_cons]
    | common s =>
      simp only
      rw [ih hl]
      simp [dupAfter, List.find?_cons, Cand.isStrong, hs, considerAll, List.foldl_cons]

theorem selectGo_none (am : Bool) (l : List Cand) (hnd : ∀ c ∈ l, c.dynamic = false)
    (sel : Selector) :
    selectGo am l sel none =
      match l.find? Cand.isStrong with
      | none => .ok (considerAll sel l)
      | some c0 =>
        match dupAfter am (c0.file, c0.comdat) ((l.dropWhile (fun c => !c.isStrong)).tail) with
        | some e => .error e
        | none => .ok (considerAll sel l) := by
  induction l generalizing sel with
  | nil => simp [selectGo, considerAll]
  | cons c l ih =>
    have hc : c.dynamic = false := hnd c (by simp)
    have hl : ∀ d ∈ l, d.dynamic = false := fun d hd => hnd d (by simp [hd])
    simp only [selectGo, hc, Bool.false_eq_true, if_false]
    cases hs : c.strength with
    | strong =>
      simp only
      rw [selectGo_some am l hl]
      simp [List.find?_cons, Cand.isStrong, hs, List.dropWhile_cons, considerAll, List.foldl_cons]
    | undefined | weak | gnuUnique =>
      simp only
      rw [ih hl]
      simp [List.find?_cons, Cand.isStrong, hs, List.dropWhile_cons, considerAll, List.foldl_cons]
    | common s =>
      simp only
      rw [ih hl]
      simp [List.find?_cons, Cand.isStrong, hs, List.dropWhile_cons, considerAll, List.foldl_cons]

/-! ### What the selector holds after a scan -/

/-- `a` if present, else `b`. -/
def optOr {α : Type} (a b : Option α) : Option α :=
  match a with
  | some x => some x
  | none => b

theorem orElse_eq_optOr {α : Type} (a b : Option α) : a.orElse (fun _ => b) = optOr a b := by
  cases a <;> rfl

theorem consider_firstStrong (sel : Selector) (id : Nat) (s : Strength) :
    (sel.consider id s).firstStrong =
      optOr sel.firstStrong (if s = .strong then some id else none) := by
  cases s <;> cases hf : sel.firstStrong <;> simp [Selector.consider, optOr, hf]
  all_goals (repeat' split) <;> simp_all

theorem consider_firstWeak (sel : Selector) (id : Nat) (s : Strength) :
    (sel.consider id s).firstWeak =
      optOr sel.firstWeak (if s = .weak ∨ s = .gnuUnique then some id else none) := by
  cases s <;> cases hf : sel.firstWeak <;> simp [Selector.consider, optOr, hf]
  all_goals (repeat' split) <;> simp_all

theorem considerAll_firstStrong (sel : Selector) (l : List Cand) :
    (considerAll sel l).firstStrong =
      optOr sel.firstStrong ((l.find? Cand.isStrong).map (·.file)) := by
  induction l generalizing sel with
  | nil => cases h : sel.firstStrong <;> simp [considerAll, optOr, h]
  | cons c l ih =>
    simp only [considerAll, List.foldl_cons] at ih ⊢
    rw [ih, consider_firstStrong]
    cases hf : sel.firstStrong <;> cases hs : c.strength <;>
      simp [optOr, List.find?_cons, Cand.isStrong, hs]

theorem considerAll_firstWeak (sel : Selector) (l : List Cand) :
    (considerAll sel l).firstWeak =
      optOr sel.firstWeak ((l.find? Cand.isWeakish).map (·.file)) := by
  induction l generalizing sel with
  | nil => cases h : sel.firstWeak <;> simp [considerAll, optOr, h]
  | cons c l ih =>
    simp only [considerAll, List.foldl_cons] at ih ⊢
    rw [ih, consider_firstWeak]
    cases hf : sel.firstWeak <;> cases hs : c.strength <;>
      simp [optOr, List.find?_cons, Cand.isWeakish, hs]

/-- Combine a running maximum (seen earlier, wins ties) with the best of the rest. -/
def combineCommon (acc : Option (Nat × Nat)) (rest : Option (Nat × Nat)) : Option (Nat × Nat) :=
  match acc, rest with
  | some (p, fp), some (m, f) => if m ≤ p then some (p, fp) else some (m, f)
  | some a, none => some a
  | none, r => r

theorem consider_maxCommon (sel : Selector) (id : Nat) (s : Strength) :
    (sel.consider id s).maxCommon =
      combineCommon sel.maxCommon (match s with | .common z => some (z, id) | _ => none) := by
  cases s <;> cases hm : sel.maxCommon <;> simp [Selector.consider, combineCommon, hm]
  all_goals (repeat' split) <;> simp_all

theorem combine_step (acc : Option (Nat × Nat)) (c : Cand) (l : List Cand) :
    combineCommon (combineCommon acc
        (match c.strength with | .common z => some (z, c.file) | _ => none)) (bestCommon l)
      = combineCommon acc (bestCommon (c :: l)) := by
  simp only [bestCommon, Cand.commonSize]
  cases hs : c.strength <;> cases acc <;> cases hb : bestCommon l <;> simp [combineCommon]
  all_goals (repeat' split) <;> (try simp_all) <;> (try omega)
  all_goals grind

theorem considerAll_maxCommon (sel : Selector) (l : List Cand) :
    (considerAll sel l).maxCommon = combineCommon sel.maxCommon (bestCommon l) := by
  induction l generalizing sel with
  | nil => cases h : sel.maxCommon <;> simp [considerAll, combineCommon, bestCommon, h]
  | cons c l ih =>
    simp only [considerAll, List.foldl_cons] at ih ⊢
    rw [ih, consider_maxCommon, combine_step]

theorem considerAll_best (l : List Cand) :
    (considerAll {} l).best =
      optOr (optOr ((l.find? Cand.isStrong).map (·.file)) ((bestCommon l).map (·.2)))
        ((l.find? Cand.isWeakish).map (·.file)) := by
  unfold Selector.best
  rw [orElse_eq_optOr, orElse_eq_optOr, considerAll_firstStrong, considerAll_firstWeak,
    considerAll_maxCommon]
  simp [combineCommon, optOr]

/-! ## Main theorems -/

theorem nonDyn_all (cs : List Cand) : ∀ c ∈ nonDyn cs, c.dynamic = false := by
  intro c hc
  unfold nonDyn at hc
  simp at hc
  exact hc.2

/-- **C02 (selection).** Whenever the model's `select_symbol` chooses a definition, it is the one
the ELF rules select. -/
theorem select_eq_spec (am : Bool) (cs : List Cand) (f : Nat)
    (h : selectSymbol am cs = .chosen f) : f = specSelect cs := by
  unfold selectSymbol at h
  rw [selectGo_nonDyn, selectGo_none am _ (nonDyn_all cs)] at h
  unfold specSelect
  have hb := considerAll_best (nonDyn cs)
  cases hst : (nonDyn cs).find? Cand.isStrong with
  | some c0 =>
    rw [hst] at h hb
    simp only at h
    cases hd : dupAfter am (c0.file, c0.comdat) ((nonDyn cs).dropWhile (fun c => !c.isStrong)).tail with
    | some e => rw [hd] at h; simp at h
    | none =>
      rw [hd] at h
      simp only [hb, Option.map_some, optOr] at h
      injection h with h
      exact h.symm
  | none =>
    rw [hst] at h hb
    simp only [Option.map_none, optOr] at hb
    simp only at h
    rw [hb] at h
    cases hc : bestCommon (nonDyn cs) with
    | some mf =>
      obtain ⟨m, f'⟩ := mf
      simp only [hc, Option.map_some, optOr] at h
      injection h with h
      exact h.symm
    | none =>
      simp only [hc, Option.map_none, optOr] at h
      cases hw : (nonDyn cs).find? Cand.isWeakish with
      | some c =>
        simp only [hw, Option.map_some] at h
        injection h with h
        exact h.symm
      | none =>
        simp only [hw, Option.map_none] at h
        have hfind : cs.find? (fun c => c.strength != .undefined) = cs.find? Cand.isDefined := rfl
        rw [hfind] at h
        cases hdz : cs.find? Cand.isDefined with
        | some c => simp only [hdz] at h; injection h with h; exact h.symm
        | none => simp only [hdz] at h; injection h with h; exact h.symm

theorem pairwise_comdat_cons (c0 : Cand) (rest : List Cand) :
    (c0 :: rest).Pairwise (fun a b => a.comdat = true ∧ b.comdat = true) ↔
      ∀ c ∈ rest, c0.comdat = true ∧ c.comdat = true := by
  constructor
  · intro h
    exact (List.pairwise_cons.1 h).1
  · intro h
    apply List.pairwise_cons.2
    refine ⟨h, ?_⟩
    apply List.pairwise_of_forall_mem_list
    intro a ha b hb
    exact ⟨(h a ha).2, (h b hb).2⟩

theorem filter_strong_eq (l : List Cand) (c0 : Cand) (h : l.find? Cand.isStrong = some c0) :
    l.filter Cand.isStrong = c0 :: ((l.dropWhile (fun c => !c.isStrong)).tail).filter Cand.isStrong := by
  induction l with
  | nil => simp at h
  | cons c l ih =>
    by_cases hs : c.isStrong = true
    · simp [List.find?_cons, hs] at h
      subst h
      simp [List.filter_cons, hs, List.dropWhile_cons]
    · have hs' : c.isStrong = false := by simpa using hs
      simp only [List.find?_cons, hs'] at h
      simp [List.filter_cons, hs', List.dropWhile_cons, ih h]

/-- **C02 (duplicates).** The link fails with a duplicate-symbol error exactly when two strong
definitions in regular objects are not both in COMDAT groups and multiple definitions are not
allowed. -/
theorem select_dup_iff (am : Bool) (cs : List Cand) :
    (∃ a b, selectSymbol am cs = .dup a b) ↔ DupSpec am cs := by
  unfold selectSymbol DupSpec
  rw [selectGo_nonDyn, selectGo_none am _ (nonDyn_all cs)]
  cases hst : (nonDyn cs).find? Cand.isStrong with
  | none =>
    have : (nonDyn cs).filter Cand.isStrong = [] := by
      apply List.filter_eq_nil_iff.2
      intro c hc
      have := List.find?_eq_none.1 hst c hc
      simpa using this
    simp only [this, List.Pairwise.nil, not_true_eq_false, and_false, iff_false]
    rintro ⟨a, b, h⟩
    split at h <;> (try split at h) <;> simp at h
  | some c0 =>
    simp only
    rw [filter_strong_eq _ c0 hst, pairwise_comdat_cons]
    generalize ((nonDyn cs).dropWhile (fun c => !c.isStrong)).tail = rest
    unfold dupAfter
    cases hf : rest.find? (fun c => c.isStrong && ((!(c0.file, c0.comdat).2 || !c.comdat) && !am)) with
    | some c =>
      have hp := List.find?_some hf
      have hm := List.mem_of_find?_eq_some hf
      simp only [Bool.and_eq_true, Bool.or_eq_true, Bool.not_eq_true'] at hp
      simp only
      constructor
      · intro _
        refine ⟨by simpa using hp.2.2, ?_⟩
        intro hall
        have := hall c (by simp [hm, hp.1])
        rcases hp.2.1 with h1 | h1 <;> simp_all
      · intro _
        exact ⟨_, _, rfl⟩
    | none =>
      simp only
      constructor
      · rintro ⟨a, b, h⟩
        split at h <;> (try split at h) <;> simp at h
      · rintro ⟨ham, hnot⟩
        exfalso
        apply hnot
        intro c hc
        simp only [List.mem_filter] at hc
        have := List.find?_eq_none.1 hf c hc.1
        simp only [hc.2, ham, Bool.not_false, Bool.and_true, Bool.true_and, Bool.or_eq_true,
          Bool.not_eq_true', not_or, Bool.not_eq_false] at this
        exact this

/-! ## Reading the rule set: each clause of the property as a consequence of `specSelect` -/

/-- A strong definition in a regular object wins, and among several the first in command-line
order (`pre` holds no such definition). -/
theorem spec_strong_first (pre post : List Cand) (c : Cand)
    (hc : c.dynamic = false ∧ c.isStrong = true)
    (hpre : ∀ d ∈ pre, ¬ (d.dynamic = false ∧ d.isStrong = true)) :
    specSelect (pre ++ c :: post) = c.file := by
  unfold specSelect
  have : (nonDyn (pre ++ c :: post)).find? Cand.isStrong = some c := by
    unfold nonDyn
    rw [List.filter_append, List.find?_append]
    have h1 : (pre.filter (fun c => !c.dynamic)).find? Cand.isStrong = none := by
      apply List.find?_eq_none.2
      intro d hd
      simp only [List.mem_filter, Bool.not_eq_true'] at hd
      have := hpre d hd.1
      simp_all
    rw [h1]
    simp [List.filter_cons, hc.1, hc.2]
  rw [this]

/-- Without a strong definition the largest common symbol is chosen (`m` bounds every common size)
… -/
theorem bestCommon_max (l : List Cand) (m f : Nat) (h : bestCommon l = some (m, f)) :
    ∀ c ∈ l, ∀ s, c.commonSize = some s → s ≤ m := by
  induction l generalizing m f with
  | nil => simp
  | cons c l ih =>
    intro d hd s hs
    simp only [bestCommon] at h
    cases hcs : c.commonSize with
    | none =>
      simp only [hcs] at h
      rcases List.mem_cons.1 hd with rfl | hd
      · rw [hcs] at hs; cases hs
      · exact ih m f h d hd s hs
    | some sc =>
      cases hb : bestCommon l with
      | none =>
        simp only [hcs, hb] at h
        injection h with h; injection h with h1 h2
        rcases List.mem_cons.1 hd with rfl | hd
        · rw [hcs] at hs; injection hs with hs; omega
        · exfalso
          -- no common in l at all
          have : ∀ (l : List Cand), bestCommon l = none → ∀ d ∈ l, d.commonSize = none := by
            intro l
            induction l with
            | nil => simp
            | cons x xs ihx =>
              intro hx d hd
              simp only [bestCommon] at hx
              cases hxs : x.commonSize with
              | none =>
                simp only [hxs] at hx
                rcases List.mem_cons.1 hd with rfl | hd
                · exact hxs
                · exact ihx hx d hd
              | some v =>
                simp only [hxs] at hx
                split at hx <;> (try split at hx) <;> simp_all
          have := this l hb d hd
          rw [this] at hs; cases hs
      | some mf =>
        obtain ⟨m', f'⟩ := mf
        simp only [hcs, hb] at h
        have ih' := ih m' f' hb
        by_cases hle : m' ≤ sc
        · simp only [hle, if_true] at h
          injection h with h; injection h with h1 h2
          rcases List.mem_cons.1 hd with rfl | hd
          · rw [hcs] at hs; injection hs with hs; omega
          · have := ih' d hd s hs; omega
        · simp only [hle, if_false] at h
          injection h with h; injection h with h1 h2
          rcases List.mem_cons.1 hd with rfl | hd
          · rw [hcs] at hs; injection hs with hs; omega
          · have := ih' d hd s hs; omega

/-- … and it is the first one of that size: every common before it is strictly smaller. -/
theorem bestCommon_first (l : List Cand) (m f : Nat) (h : bestCommon l = some (m, f)) :
    ∃ pre c post, l = pre ++ c :: post ∧ c.commonSize = some m ∧ c.file = f ∧
      ∀ d ∈ pre, ∀ s, d.commonSize = some s → s < m := by
  induction l generalizing m f with
  | nil => simp [bestCommon] at h
  | cons c l ih =>
    simp only [bestCommon] at h
    cases hcs : c.commonSize with
    | none =>
      simp only [hcs] at h
      obtain ⟨pre, x, post, hl, hx, hf, hp⟩ := ih m f h
      refine ⟨c :: pre, x, post, by simp [hl], hx, hf, ?_⟩
      intro d hd s hs
      rcases List.mem_cons.1 hd with rfl | hd
      · rw [hcs] at hs; cases hs
      · exact hp d hd s hs
    | some sc =>
      cases hb : bestCommon l with
      | none =>
        simp only [hcs, hb] at h
        injection h with h; injection h with h1 h2
        exact ⟨[], c, l, rfl, by rw [hcs, h1], h2, by simp⟩
      | some mf =>
        obtain ⟨m', f'⟩ := mf
        simp only [hcs, hb] at h
        by_cases hle : m' ≤ sc
        · simp only [hle, if_true] at h
          injection h with h; injection h with h1 h2
          exact ⟨[], c, l, rfl, by rw [hcs, h1], h2, by simp⟩
        · simp only [hle, if_false] at h
          injection h with h; injection h with h1 h2
          obtain ⟨pre, x, post, hl, hx, hf, hp⟩ := ih m' f' hb
          refine ⟨c :: pre, x, post, by simp [hl], by rw [hx, h1], by rw [hf, h2], ?_⟩
          intro d hd s hs
          rcases List.mem_cons.1 hd with rfl | hd
          · rw [hcs] at hs; injection hs with hs; omega
          · have := hp d hd s hs; omega

/-- With no strong definition in a regular object, the chosen definition is the first largest
common one. -/
theorem spec_common_largest_first (cs : List Cand) (m f : Nat)
    (hns : (nonDyn cs).find? Cand.isStrong = none) (hb : bestCommon (nonDyn cs) = some (m, f)) :
    specSelect cs = f ∧ (∀ c ∈ nonDyn cs, ∀ s, c.commonSize = some s → s ≤ m) ∧
      ∃ pre c post, nonDyn cs = pre ++ c :: post ∧ c.commonSize = some m ∧ c.file = f ∧
        ∀ d ∈ pre, ∀ s, d.commonSize = some s → s < m := by
  refine ⟨?_, bestCommon_max _ m f hb, bestCommon_first _ m f hb⟩
  unfold specSelect
  rw [hns, hb]

/-- With neither strong nor common definitions in regular objects, the first weak / GNU-unique
definition in a regular object is chosen. -/
theorem spec_weak_first (cs : List Cand) (c : Cand)
    (hns : (nonDyn cs).find? Cand.isStrong = none) (hnc : bestCommon (nonDyn cs) = none)
    (hw : (nonDyn cs).find? Cand.isWeakish = some c) : specSelect cs = c.file := by
  unfold specSelect
  rw [hns, hnc, hw]

theorem bestCommon_none_iff (l : List Cand) :
    bestCommon l = none ↔ ∀ c ∈ l, c.commonSize = none := by
  induction l with
  | nil => simp [bestCommon]
  | cons c l ih =>
    simp only [bestCommon, List.mem_cons, forall_eq_or_imp]
    cases hcs : c.commonSize with
    | none => simp [ih]
    | some s =>
      constructor
      · intro h; split at h <;> (try split at h) <;> simp_all
      · intro h; simp at h

/-- **Shared-library definitions never override definitions from objects**: if some regular
object defines the name (any strength), the chosen definition comes from a regular object. -/
theorem spec_dynamic_never_overrides (cs : List Cand)
    (h : ∃ c ∈ cs, c.dynamic = false ∧ c.isDefined = true) :
    ∃ c ∈ cs, c.dynamic = false ∧ c.file = specSelect cs := by
  obtain ⟨c, hc, hd, hdef⟩ := h
  have hcm : c ∈ nonDyn cs := by unfold nonDyn; simp [hc, hd]
  have hsub : ∀ x ∈ nonDyn cs, x ∈ cs ∧ x.dynamic = false := by
    intro x hx; unfold nonDyn at hx; simp at hx; exact hx
  unfold specSelect
  cases hst : (nonDyn cs).find? Cand.isStrong with
  | some c0 =>
    have := hsub c0 (List.mem_of_find?_eq_some hst)
    exact ⟨c0, this.1, this.2, rfl⟩
  | none =>
    cases hb : bestCommon (nonDyn cs) with
    | some mf =>
      obtain ⟨m, f⟩ := mf
      obtain ⟨pre, x, post, hl, _, hf, _⟩ := bestCommon_first _ m f hb
      have := hsub x (by rw [hl]; simp)
      exact ⟨x, this.1, this.2, hf⟩
    | none =>
      cases hw : (nonDyn cs).find? Cand.isWeakish with
      | some cw =>
        have := hsub cw (List.mem_of_find?_eq_some hw)
        exact ⟨cw, this.1, this.2, rfl⟩
      | none =>
        exfalso
        -- c is defined and non-dynamic: it is strong, common or weakish
        have h1 := List.find?_eq_none.1 hst c hcm
        have h2 := (bestCommon_none_iff _).1 hb c hcm
        have h3 := List.find?_eq_none.1 hw c hcm
        unfold Cand.isDefined at hdef
        unfold Cand.isStrong at h1
        unfold Cand.isWeakish at h3
        unfold Cand.commonSize at h2
        cases hs : c.strength <;> simp_all

/-- If no regular object defines the name, the first definition found in a (loaded) shared
object is chosen. -/
theorem spec_dynamic_first (cs : List Cand) (c : Cand)
    (hnone : ∀ x ∈ cs, x.dynamic = false → x.isDefined = false)
    (hd : cs.find? Cand.isDefined = some c) : specSelect cs = c.file := by
  have hsub : ∀ x ∈ nonDyn cs, x.strength = .undefined := by
    intro x hx
    unfold nonDyn at hx
    simp at hx
    have := hnone x hx.1 hx.2
    unfold Cand.isDefined at this
    simpa using this
  unfold specSelect
  have h1 : (nonDyn cs).find? Cand.isStrong = none := by
    apply List.find?_eq_none.2
    intro x hx; simp [Cand.isStrong, hsub x hx]
  have h2 : bestCommon (nonDyn cs) = none := by
    apply (bestCommon_none_iff _).2
    intro x hx; simp [Cand.commonSize, hsub x hx]
  have h3 : (nonDyn cs).find? Cand.isWeakish = none := by
    apply List.find?_eq_none.2
    intro x hx; simp [Cand.isWeakish, hsub x hx]
  rw [h1, h2, h3, hd]

/-- **First in command-line order wins among equals**: the choice depends only on the ordered
candidate list — two definitions with the same strength, dynamic-ness and COMDAT flag are told
apart by position only, and inserting candidates from files that were not loaded
(`strength = undefined`, regular object) anywhere changes nothing as long as a defined one exists. -/
theorem select_order_of_equals (pre post : List Cand) (u : Cand)
    (hu : u.dynamic = false ∧ u.strength = .undefined)
    (hdef : ∃ c ∈ pre ++ post, c.isDefined = true) :
    specSelect (pre ++ u :: post) = specSelect (pre ++ post) := by
  have hnd : nonDyn (pre ++ u :: post) = nonDyn pre ++ u :: nonDyn post := by
    unfold nonDyn; simp [List.filter_append, List.filter_cons, hu.1]
  have hnd' : nonDyn (pre ++ post) = nonDyn pre ++ nonDyn post := by
    unfold nonDyn; simp [List.filter_append]
  have hus : u.isStrong = false := by simp [Cand.isStrong, hu.2]
  have huw : u.isWeakish = false := by simp [Cand.isWeakish, hu.2]
  have hud : u.isDefined = false := by simp [Cand.isDefined, hu.2]
  have huc : u.commonSize = none := by simp [Cand.commonSize, hu.2]
  have hbc : ∀ a b : List Cand, bestCommon (a ++ u :: b) = bestCommon (a ++ b) := by
    intro a b
    induction a with
    | nil => simp [bestCommon, huc]
    | cons x xs ih => simp only [List.cons_append, bestCommon, ih]
  unfold specSelect
  rw [hnd, hnd', hbc]
  simp only [List.find?_append, List.find?_cons, hus, huw, hud]
  -- the final fallback (`head?`) is never reached because a defined candidate exists
  obtain ⟨c, hc, hcd⟩ := hdef
  have hsome : ((pre.find? Cand.isDefined).or (post.find? Cand.isDefined)).isSome = true := by
    rcases List.mem_append.1 hc with h | h
    · have : (pre.find? Cand.isDefined).isSome = true := List.find?_isSome.2 ⟨c, h, hcd⟩
      cases hp : pre.find? Cand.isDefined <;> simp_all
    · have : (post.find? Cand.isDefined).isSome = true := List.find?_isSome.2 ⟨c, h, hcd⟩
      cases hp : pre.find? Cand.isDefined <;> cases hq : post.find? Cand.isDefined <;> simp_all
  cases hp : pre.find? Cand.isDefined <;> cases hq : post.find? Cand.isDefined <;> simp_all

/-- **Undefined references.** `undefinedErrors` reports `(i, n)` exactly when file `i` is loaded,
references `n` non-weakly, and `n` is bound to no definition taking part in the link; a weak
reference is never reported (it resolves to zero). -/
theorem undefined_error_iff (am : Bool) (fs : List File) (i n : Nat) :
    (i, n) ∈ undefinedErrors am fs ↔
      ∃ f, fs[i]? = some f ∧ isLoaded fs i = true ∧ n ∈ f.strongUndefs ∧ isBoundFrom am fs f.dynamic n = false := by
  unfold undefinedErrors
  simp only [List.mem_flatMap, List.mem_range]
  constructor
  · rintro ⟨j, hj, hmem⟩
    cases hf : fs[j]? with
    | none => simp [hf] at hmem
    | some f =>
      simp only [hf] at hmem
      by_cases hl : isLoaded fs j = true
      · simp only [hl, if_true, List.mem_map, List.mem_filter] at hmem
        obtain ⟨m, ⟨hm1, hm2⟩, heq⟩ := hmem
        injection heq with h1 h2
        subst h1; subst h2
        exact ⟨f, hf, hl, hm1, by simpa using hm2⟩
      · simp [hl] at hmem
  · rintro ⟨f, hf, hl, hn, hb⟩
    have hi : i < fs.length := by
      have := List.getElem?_eq_some_iff.1 hf
      exact this.1
    refine ⟨i, hi, ?_⟩
    simp only [hf, hl, if_true, List.mem_map, List.mem_filter]
    exact ⟨n, ⟨hn, by simp [hb]⟩, rfl⟩

/-- The same for a REGULAR object (the executable's own references, which is what the property speaks about): reported
exactly when the name is bound to no definition taking part in the link. -/
theorem undefined_error_iff_regular (am : Bool) (fs : List File) (i n : Nat) (f : File)
    (hf : fs[i]? = some f) (hreg : f.dynamic = false) :
    (i, n) ∈ undefinedErrors am fs ↔ isLoaded fs i = true ∧ n ∈ f.strongUndefs ∧ isBound am fs n = false := by
  rw [undefined_error_iff]
  constructor
  · rintro ⟨f', hf', hl, hn, hb⟩
    rw [hf] at hf'; injection hf' with hf'; subst hf'
    rw [hreg, isBoundFrom_false] at hb
    exact ⟨hl, hn, hb⟩
  · rintro ⟨hl, hn, hb⟩
    exact ⟨f, hf, hl, hn, by rw [hreg, isBoundFrom_false]; exact hb⟩

theorem weak_reference_never_error (am : Bool) (fs : List File) (i n : Nat) (f : File)
    (hf : fs[i]? = some f) (hw : n ∉ f.strongUndefs) : (i, n) ∉ undefinedErrors am fs := by
  intro h
  obtain ⟨f', hf', _, hn, _⟩ := (undefined_error_iff am fs i n).1 h
  rw [hf] at hf'; injection hf' with hf'; subst hf'
  exact hw hn

/-! ## Non-vacuity -/

example :
    selectSymbol false
      [⟨0, false, .weak, false⟩, ⟨1, true, .strong, false⟩, ⟨2, false, .common 8, false⟩,
       ⟨3, false, .common 16, false⟩, ⟨4, false, .common 16, false⟩] = .chosen 3 := by decide
example :
    selectSymbol false [⟨0, false, .strong, true⟩, ⟨1, false, .strong, true⟩] = .chosen 0 ∧
    selectSymbol false [⟨0, false, .strong, true⟩, ⟨1, false, .strong, false⟩] = .dup 0 1 ∧
    selectSymbol true [⟨0, false, .strong, false⟩, ⟨1, false, .strong, false⟩] = .chosen 0 := by decide
example : selectSymbol false [⟨0, false, .undefined, false⟩, ⟨1, true, .strong, false⟩] = .chosen 1 := by
  decide

end Wild.Link
