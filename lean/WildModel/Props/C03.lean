import WildModel.Model.Link
/-!
# C03 — Archive members are loaded exactly when needed

`Reach fs` is the declarative statement of the property: a file takes part in the link iff it is
mandatory (a plain object, a member of a `--whole-archive` archive, a shared object outside
`--as-needed`) or it holds the first definition of a name that a file taking part references
non-weakly — transitively (least fixpoint).

* `loaded_iff_reach`   : the model's loaded set (`loadedMask`, the fixpoint iteration mirroring
  the request/activate loop of `resolution.rs`) is exactly `Reach`.
* `any_order_is_reach` : ANY set that contains the mandatory files, is closed under requests and
  only contains requested files equals `Reach` — so the result does not depend on the order in
  which the parallel work list processes files or on who wins a `try_request` race.
* `worklist_*`         : small-step semantics of the work list with the test-and-set
  (`AtomicTake`) guard: every schedule terminates with exactly the `Reach` files processed, each
  exactly once.
* `reach_perm` / `reach_perm_iff`: position independence — any reordering of the command line
  that keeps each file's content and the relative order of the definers of every name (so that
  `firstDef` commutes with the reordering) loads exactly the same files. (The correspondence
  additionally moves archives around on real link lines.)
-/
namespace Wild.Link

/-- The declarative closure. -/
inductive Reach (fs : List File) : Nat → Prop
  | mandatory (i : Nat) (f : File) : fs[i]? = some f → f.optional = false → Reach fs i
  | request (i d : Nat) : Reach fs i → d ∈ requestsOf fs i → d < fs.length → Reach fs d

theorem Reach.lt {fs : List File} {i : Nat} (h : Reach fs i) : i < fs.length := by
  cases h with
  | mandatory i f hf _ => exact (List.getElem?_eq_some_iff.1 hf).1
  | request i d _ _ hd => exact hd

/-! ## The fixpoint iteration computes the closure -/

theorem next_length (fs : List File) (S : List Bool) : (next fs S).length = fs.length := by
  simp [next]

theorem next_getD (fs : List File) (S : List Bool) (d : Nat) :
    (next fs S).getD d false =
      (decide (d < fs.length) &&
        (S.getD d false || !((fs[d]?.map (·.optional)).getD true) || requestedBy fs S d)) := by
  unfold next
  by_cases h : d < fs.length
  · simp [List.getD_eq_getElem?_getD, h]
  · simp [List.getD_eq_getElem?_getD, h]

/-- Pointwise order on masks. -/
def Le (S T : List Bool) : Prop := ∀ i, S.getD i false = true → T.getD i false = true

theorem count_cons (a : Bool) (S : List Bool) : count (a :: S) = count S + (if a then 1 else 0) := by
  cases a <;> simp [count, List.countP_cons]

theorem le_tail {a b : Bool} {S T : List Bool} (h : Le (a :: S) (b :: T)) : Le S T := by
  intro i hi
  have := h (i + 1) (by simpa using hi)
  simpa using this

theorem le_head {a b : Bool} {S T : List Bool} (h : Le (a :: S) (b :: T)) : a = true → b = true := by
  intro ha
  have := h 0 (by simpa using ha)
  simpa using this

theorem count_le_of_le : ∀ (S T : List Bool), S.length = T.length → Le S T → count S ≤ count T := by
  intro S
  induction S with
  | nil => intro T _ _; simp [count]
  | cons x S ih =>
    intro T hl hle
    cases T with
    | nil => simp at hl
    | cons y T =>
      have h1 := ih T (by simpa using hl) (le_tail hle)
      have hxy := le_head hle
      rw [count_cons, count_cons]
      cases x <;> cases y <;> simp_all <;> omega

theorem count_lt_of_le_ne : ∀ (S T : List Bool), S.length = T.length → Le S T → S ≠ T →
    count S < count T := by
  intro S
  induction S with
  | nil =>
    intro T hl _ hne
    cases T with
    | nil => exact absurd rfl hne
    | cons _ _ => simp at hl
  | cons a S ih =>
    intro T hl hle hne
    cases T with
    | nil => simp at hl
    | cons b T =>
      have hl' : S.length = T.length := by simpa using hl
      have hab := le_head hle
      rw [count_cons, count_cons]
      by_cases hST : S = T
      · subst hST
        have : a ≠ b := by intro h; apply hne; rw [h]
        cases a <;> cases b <;> simp_all
      · have h1 := ih T hl' (le_tail hle) hST
        cases a <;> cases b <;> simp_all <;> omega

theorem count_le_length (S : List Bool) : count S ≤ S.length := by
  unfold count; exact List.countP_le_length

theorem le_next (fs : List File) (S : List Bool) (hl : S.length = fs.length) : Le S (next fs S) := by
  intro i hi
  rw [next_getD]
  have hlt : i < fs.length := by
    rw [← hl]
    apply Nat.lt_of_not_ge
    intro hge
    have : S.getD i false = false := by
      simp [List.getD_eq_getElem?_getD, List.getElem?_eq_none hge]
    rw [this] at hi; cases hi
  rw [List.getD_eq_getElem?_getD] at hi
  simp [hlt, hi]

theorem iterate_fix (fs : List File) : ∀ (fuel : Nat) (S : List Bool), S.length = fs.length →
    fs.length - count S < fuel → next fs (iterate fs fuel S) = iterate fs fuel S := by
  intro fuel
  induction fuel with
  | zero => intro S _ h; omega
  | succ n ih =>
    intro S hl hf
    simp only [iterate]
    by_cases heq : (next fs S == S) = true
    · simp only [heq, if_true]
      exact eq_of_beq heq
    · simp only [heq, if_false]
      have hne : next fs S ≠ S := by
        intro h; apply heq; rw [h]; exact beq_self_eq_true _
      have hlt := count_lt_of_le_ne S (next fs S) (by rw [next_length, hl]) (le_next fs S hl)
        (fun h => hne h.symm)
      have hb := count_le_length (next fs S)
      rw [next_length] at hb
      apply ih (next fs S) (next_length fs S)
      omega

theorem iterate_length (fs : List File) : ∀ (fuel : Nat) (S : List Bool), S.length = fs.length →
    (iterate fs fuel S).length = fs.length := by
  intro fuel
  induction fuel with
  | zero => intro S h; simpa [iterate] using h
  | succ n ih =>
    intro S h
    simp only [iterate]
    split
    · exact h
    · exact ih _ (next_length fs S)

theorem loadedMask_fix (fs : List File) : next fs (loadedMask fs) = loadedMask fs := by
  unfold loadedMask
  apply iterate_fix
  · simp
  · have : count (List.replicate fs.length false) = 0 := by simp [count]
    omega

/-- Soundness invariant: every set bit is in the closure. -/
def Sound (fs : List File) (S : List Bool) : Prop := ∀ i, S.getD i false = true → Reach fs i

theorem requestedBy_iff (fs : List File) (S : List Bool) (d : Nat) :
    requestedBy fs S d = true ↔ ∃ i, i < fs.length ∧ S.getD i false = true ∧ d ∈ requestsOf fs i := by
  unfold requestedBy
  simp [List.any_eq_true]

theorem next_sound (fs : List File) (S : List Bool) (h : Sound fs S) : Sound fs (next fs S) := by
  intro d hd
  rw [next_getD] at hd
  simp only [Bool.and_eq_true, decide_eq_true_eq, Bool.or_eq_true, Bool.not_eq_true'] at hd
  obtain ⟨hlt, hor⟩ := hd
  rcases hor with (h1 | h2) | h3
  · exact h d h1
  · have hf : fs[d]? = some fs[d] := List.getElem?_eq_getElem hlt
    rw [hf] at h2
    exact Reach.mandatory d fs[d] hf (by simpa using h2)
  · obtain ⟨i, _, hi, hreq⟩ := (requestedBy_iff fs S d).1 h3
    exact Reach.request i d (h i hi) hreq hlt

theorem iterate_sound (fs : List File) : ∀ (fuel : Nat) (S : List Bool), Sound fs S →
    Sound fs (iterate fs fuel S) := by
  intro fuel
  induction fuel with
  | zero => intro S h; simpa [iterate] using h
  | succ n ih =>
    intro S h
    simp only [iterate]
    split
    · exact h
    · exact ih _ (next_sound fs S h)

theorem fix_complete (fs : List File) (F : List Bool) (hfix : next fs F = F) (i : Nat)
    (h : Reach fs i) : F.getD i false = true := by
  induction h with
  | mandatory i f hf hopt =>
    rw [← hfix, next_getD]
    have hlt : i < fs.length := (List.getElem?_eq_some_iff.1 hf).1
    have hfi : fs[i] = f := (List.getElem?_eq_some_iff.1 hf).2
    simp [hlt, hfi, hopt]
  | request i d _ hreq hd ih =>
    rw [← hfix, next_getD]
    have : requestedBy fs F d = true :=
      (requestedBy_iff fs F d).2 ⟨i, by
        -- i is a valid index because F has a set bit there and F = next fs F
        have := ih
        rw [← hfix, next_getD] at this
        simp only [Bool.and_eq_true, decide_eq_true_eq] at this
        exact this.1, ih, hreq⟩
    simp [hd, this]

/-- **C03 (exactness).** A file is loaded iff it is in the declarative closure: mandatory, or
holding the first definition of a name referenced non-weakly by a loaded file, transitively. -/
theorem loaded_iff_reach (fs : List File) (i : Nat) : isLoaded fs i = true ↔ Reach fs i := by
  unfold isLoaded
  constructor
  · intro h
    have : Sound fs (loadedMask fs) := by
      unfold loadedMask
      apply iterate_sound
      intro j hj
      simp [List.getD_eq_getElem?_getD, List.getElem?_replicate] at hj
      split at hj <;> simp at hj
    exact this i h
  · exact fix_complete fs _ (loadedMask_fix fs) i

/-- **C03 (any order).** Whatever order the work list is processed in and whoever wins the
`try_request` races: a final set that (a) contains every mandatory file, (b) is closed under the
requests of its members and (c) contains only files that were mandatory or requested by a member
that was itself legitimately added (i.e. is included in the closure) is exactly the closure. -/
theorem any_order_is_reach (fs : List File) (L : Nat → Prop)
    (hmand : ∀ i f, fs[i]? = some f → f.optional = false → L i)
    (hclosed : ∀ i d, L i → d ∈ requestsOf fs i → d < fs.length → L d)
    (hsound : ∀ i, L i → Reach fs i) :
    ∀ i, L i ↔ Reach fs i := by
  intro i
  constructor
  · exact hsound i
  · intro h
    induction h with
    | mandatory i f hf ho => exact hmand i f hf ho
    | request i d _ hr hd ih => exact hclosed i d ih hr hd

/-! ## Work-list semantics with the test-and-set guard (`AtomicTake`) -/

/-- `taken`: files whose definitions slice was taken (test-and-set fired); `pending`: spawned,
not yet processed tasks; `processed`: files whose symbols were resolved. -/
structure WState where
  taken : List Nat
  pending : List Nat
  processed : List Nat
  deriving Repr

/-- Initial state: the mandatory files are queued (`initial_work`), their slots are empty. -/
def winit (fs : List File) : WState :=
  let m := (List.range fs.length).filter fun i => !((fs[i]?.map (·.optional)).getD true)
  { taken := m, pending := m, processed := [] }

/-- Keep the first occurrence of each element (a second request for the same file loses the
test-and-set against the first). -/
def dedup : List Nat → List Nat
  | [] => []
  | x :: xs => if x ∈ dedup xs then dedup xs else x :: dedup xs

theorem mem_dedup (l : List Nat) (x : Nat) : x ∈ dedup l ↔ x ∈ l := by
  induction l with
  | nil => simp [dedup]
  | cons y ys ih =>
    simp only [dedup]
    split <;> simp_all
    · intro h; subst h; exact ih.1 (by assumption)

theorem nodup_dedup (l : List Nat) : (dedup l).Nodup := by
  induction l with
  | nil => simp [dedup]
  | cons y ys ih =>
    simp only [dedup]
    split
    · exact ih
    · exact List.nodup_cons.2 ⟨by assumption, ih⟩

/-- Requests of `p` that win the test-and-set (not yet taken), without duplicates. -/
def newlyTaken (fs : List File) (taken : List Nat) (p : Nat) : List Nat :=
  dedup ((requestsOf fs p).filter fun d => !taken.contains d && decide (d < fs.length))

/-- One step: any pending task `p` may run next (the scheduler's choice). -/
def wstep (fs : List File) (s : WState) (p : Nat) : WState :=
  let nt := newlyTaken fs s.taken p
  { taken := s.taken ++ nt, pending := s.pending.erase p ++ nt, processed := p :: s.processed }

/-- Reachable states: any schedule (any choice of the pending task at each step). -/
inductive WReach (fs : List File) : WState → Prop
  | init : WReach fs (winit fs)
  | step (s : WState) (p : Nat) : WReach fs s → p ∈ s.pending → WReach fs (wstep fs s p)

structure WInv (fs : List File) (s : WState) : Prop where
  nodup : (s.processed ++ s.pending).Nodup
  perm : ∀ x, x ∈ s.taken ↔ x ∈ s.processed ∨ x ∈ s.pending
  sound : ∀ x ∈ s.taken, Reach fs x
  mand : ∀ i f, fs[i]? = some f → f.optional = false → i ∈ s.taken
  closed : ∀ i ∈ s.processed, ∀ d ∈ requestsOf fs i, d < fs.length → d ∈ s.taken
  takenNodup : s.taken.Nodup

theorem winit_inv (fs : List File) : WInv fs (winit fs) := by
  refine ⟨?_, ?_, ?_, ?_, ?_, ?_⟩
  · simp only [winit, List.nil_append]
    exact List.Pairwise.filter _ List.nodup_range
  · intro x; simp [winit]
  · intro x hx
    simp only [winit, List.mem_filter, List.mem_range, Bool.not_eq_true'] at hx
    have hf : fs[x]? = some fs[x] := List.getElem?_eq_getElem hx.1
    rw [hf] at hx
    exact Reach.mandatory x fs[x] hf (by simpa using hx.2)
  · intro i f hf ho
    have hlt : i < fs.length := (List.getElem?_eq_some_iff.1 hf).1
    have hfi : fs[i] = f := (List.getElem?_eq_some_iff.1 hf).2
    simp [winit, hlt, hfi, ho]
  · intro i hi; simp [winit] at hi
  · simp only [winit]
    exact List.Pairwise.filter _ List.nodup_range

theorem mem_newlyTaken (fs : List File) (taken : List Nat) (p d : Nat) :
    d ∈ newlyTaken fs taken p ↔ d ∈ requestsOf fs p ∧ d ∉ taken ∧ d < fs.length := by
  unfold newlyTaken
  rw [mem_dedup]
  simp [List.mem_filter]

theorem wstep_inv (fs : List File) (s : WState) (p : Nat) (h : WInv fs s) (hp : p ∈ s.pending) :
    WInv fs (wstep fs s p) := by
  obtain ⟨hnd, hperm, hsound, hmand, hclosed, htnd⟩ := h
  have hnt := mem_newlyTaken fs s.taken p
  have hnd_nt : (newlyTaken fs s.taken p).Nodup := by unfold newlyTaken; exact nodup_dedup _
  have hnd_proc : s.processed.Nodup := (List.nodup_append.1 hnd).1
  have hnd_pend : s.pending.Nodup := (List.nodup_append.1 hnd).2.1
  have hdisj : ∀ a ∈ s.processed, ∀ b ∈ s.pending, a ≠ b := (List.nodup_append.1 hnd).2.2
  have hp_taken : p ∈ s.taken := (hperm p).2 (Or.inr hp)
  have hp_notproc : p ∉ s.processed := fun hpp => hdisj p hpp p hp rfl
  refine ⟨?_, ?_, ?_, ?_, ?_, ?_⟩
  · -- nodup of (p :: processed) ++ (pending.erase p ++ nt)
    simp only [wstep]
    rw [List.cons_append, List.nodup_cons]
    constructor
    · simp only [List.mem_append, not_or]
      refine ⟨hp_notproc, ?_, ?_⟩
      · exact fun hmem => (List.Nodup.mem_erase_iff hnd_pend).1 hmem |>.1 rfl
      · intro hmem; exact ((hnt p).1 hmem).2.1 hp_taken
    · rw [List.nodup_append]
      refine ⟨hnd_proc, ?_, ?_⟩
      · rw [List.nodup_append]
        refine ⟨hnd_pend.erase p, hnd_nt, ?_⟩
        intro a ha b hb hab
        subst hab
        have : a ∈ s.pending := List.mem_of_mem_erase ha
        exact ((hnt a).1 hb).2.1 ((hperm a).2 (Or.inr this))
      · intro a ha b hb hab
        subst hab
        rcases List.mem_append.1 hb with h1 | h1
        · exact hdisj a ha a (List.mem_of_mem_erase h1) rfl
        · exact ((hnt a).1 h1).2.1 ((hperm a).2 (Or.inl ha))
  · intro x
    simp only [wstep, List.mem_append, List.mem_cons]
    constructor
    · rintro (hx | hx)
      · by_cases hxp : x = p
        · exact Or.inl (Or.inl hxp)
        · rcases (hperm x).1 hx with h1 | h1
          · exact Or.inl (Or.inr h1)
          · exact Or.inr (Or.inl ((List.mem_erase_of_ne hxp).2 h1))
      · exact Or.inr (Or.inr hx)
    · rintro ((hx | hx) | (hx | hx))
      · subst hx; exact Or.inl hp_taken
      · exact Or.inl ((hperm x).2 (Or.inl hx))
      · exact Or.inl ((hperm x).2 (Or.inr (List.mem_of_mem_erase hx)))
      · exact Or.inr hx
  · intro x hx
    simp only [wstep, List.mem_append] at hx
    rcases hx with hx | hx
    · exact hsound x hx
    · have := (hnt x).1 hx
      exact Reach.request p x (hsound p hp_taken) this.1 this.2.2
  · intro i f hf ho
    simp only [wstep, List.mem_append]
    exact Or.inl (hmand i f hf ho)
  · intro i hi d hd hlt
    simp only [wstep, List.mem_cons] at hi
    simp only [wstep, List.mem_append]
    rcases hi with hi | hi
    · subst hi
      by_cases hdt : d ∈ s.taken
      · exact Or.inl hdt
      · exact Or.inr ((hnt d).2 ⟨hd, hdt, hlt⟩)
    · exact Or.inl (hclosed i hi d hd hlt)
  · simp only [wstep]
    rw [List.nodup_append]
    refine ⟨htnd, hnd_nt, ?_⟩
    intro a ha b hb hab
    subst hab
    exact ((hnt a).1 hb).2.1 ha

theorem wreach_inv (fs : List File) (s : WState) (h : WReach fs s) : WInv fs s := by
  induction h with
  | init => exact winit_inv fs
  | step s p _ hp ih => exact wstep_inv fs s p ih hp

/-- **C03 (exactly once, every schedule).** In every reachable state no file has been processed
twice. -/
theorem worklist_processed_once (fs : List File) (s : WState) (h : WReach fs s) :
    s.processed.Nodup :=
  (List.nodup_append.1 (wreach_inv fs s h).nodup).1

/-- **C03 (every schedule ends in the closure).** When the work list is empty, the processed
files are exactly the closure. -/
theorem worklist_terminal_is_reach (fs : List File) (s : WState) (h : WReach fs s)
    (hterm : s.pending = []) : ∀ i, i ∈ s.processed ↔ Reach fs i := by
  have inv := wreach_inv fs s h
  have hpt : ∀ x, x ∈ s.taken ↔ x ∈ s.processed := by
    intro x; rw [inv.perm x, hterm]; simp
  apply any_order_is_reach fs (fun i => i ∈ s.processed)
  · intro i f hf ho; exact (hpt i).1 (inv.mand i f hf ho)
  · intro i d hi hd hlt; exact (hpt d).1 (inv.closed i hi d hd hlt)
  · intro i hi; exact inv.sound i ((hpt i).2 hi)

/-- **C03 (termination of every schedule).** Each step strictly decreases
`2 * (#files not yet taken) + #pending`, so no schedule is infinite. -/
def wmeasure (fs : List File) (s : WState) : Nat :=
  2 * (fs.length - s.taken.length) + s.pending.length

theorem wstep_measure (fs : List File) (s : WState) (p : Nat) (h : WInv fs s) (hp : p ∈ s.pending) :
    wmeasure fs (wstep fs s p) < wmeasure fs s := by
  have h' := wstep_inv fs s p h hp
  have hb : (wstep fs s p).taken.length ≤ fs.length := by
    have hsub : (wstep fs s p).taken ⊆ List.range fs.length := by
      intro x hx
      simp only [List.mem_range]
      exact (h'.sound x hx).lt
    have := List.Nodup.length_le_of_subset h'.takenNodup hsub
    simpa using this
  have hpl : (s.pending.erase p).length = s.pending.length - 1 := List.length_erase_of_mem hp
  have hpos : 0 < s.pending.length := List.length_pos_of_mem hp
  simp only [wmeasure, wstep, List.length_append] at hb ⊢
  omega

/-! ## Position independence -/

theorem mem_requestsOf (fs : List File) (i d : Nat) :
    d ∈ requestsOf fs i ↔ ∃ f n, fs[i]? = some f ∧ n ∈ f.strongUndefs ∧ firstDef fs n = some d ∧
      d ≠ i ∧ ¬ (f.dynamic = true ∧ (fs[d]?.map (·.dynamic)).getD false = true) := by
  unfold requestsOf
  cases hf : fs[i]? with
  | none => simp
  | some f =>
    simp only [List.mem_filterMap]
    constructor
    · rintro ⟨n, hn, h⟩
      cases hfd : firstDef fs n with
      | none => simp [hfd] at h
      | some d' =>
        simp only [hfd] at h
        split at h
        · rename_i hc
          injection h with h; subst h
          simp only [Bool.and_eq_true, bne_iff_ne, ne_eq, Bool.not_eq_true', Bool.and_eq_false_iff] at hc
          refine ⟨f, n, rfl, hn, hfd, hc.1, ?_⟩
          rintro ⟨h1, h2⟩
          rcases hc.2 with h3 | h3 <;> simp_all
        · cases h
    · rintro ⟨f', n, hf', hn, hfd, hne, hnd⟩
      injection hf' with hf'; subst hf'
      refine ⟨n, hn, ?_⟩
      simp only [hfd]
      have : (d != i && !(f.dynamic && (fs[d]?.map (·.dynamic)).getD false)) = true := by
        simp only [Bool.and_eq_true, bne_iff_ne, ne_eq, Bool.not_eq_true', Bool.and_eq_false_iff]
        refine ⟨hne, ?_⟩
        by_cases h1 : f.dynamic = true
        · right
          by_cases h2 : (fs[d]?.map (·.dynamic)).getD false = true
          · exact absurd ⟨h1, h2⟩ hnd
          · simpa using h2
        · left; simpa using h1
      rw [if_pos this]


/-- **C03 (position independence).** Reorder the command line by any index map `π` that keeps
every file's content (`hfile`) and commutes with "first definer of a name" (`hfirst`) — i.e. moves
archives anywhere relative to the objects that reference them while keeping the relative order of
the definers of each name. Then the loaded set is the same set of files. -/
theorem reach_perm (fs fs' : List File) (π : Nat → Nat)
    (hfile : ∀ i f, fs[i]? = some f → fs'[π i]? = some f)
    (hfirst : ∀ n, firstDef fs' n = (firstDef fs n).map π)
    (hinj : ∀ i j, i < fs.length → j < fs.length → π i = π j → i = j)
    (i : Nat) (h : Reach fs i) : Reach fs' (π i) := by
  induction h with
  | mandatory i f hf ho => exact Reach.mandatory (π i) f (hfile i f hf) ho
  | request i d hi hreq hlt ih =>
    obtain ⟨f, n, hf, hn, hfd, hne, hnd⟩ := (mem_requestsOf fs i d).1 hreq
    have hfd' : fs[d]? = some fs[d] := List.getElem?_eq_getElem hlt
    have hd' := hfile d fs[d] hfd'
    have hlt' : π d < fs'.length := (List.getElem?_eq_some_iff.1 hd').1
    apply Reach.request (π i) (π d) ih _ hlt'
    apply (mem_requestsOf fs' (π i) (π d)).2
    refine ⟨f, n, hfile i f hf, hn, ?_, ?_, ?_⟩
    · rw [hfirst, hfd]; rfl
    · intro heq
      apply hne
      exact hinj d i hlt (List.getElem?_eq_some_iff.1 hf).1 heq
    · rw [hd']
      rw [hfd'] at hnd
      exact hnd

/-- With an inverse reordering the statement is an equivalence: exactly the same files load. -/
theorem reach_perm_iff (fs fs' : List File) (π σ : Nat → Nat)
    (hfile : ∀ i f, fs[i]? = some f → fs'[π i]? = some f)
    (hfile' : ∀ i f, fs'[i]? = some f → fs[σ i]? = some f)
    (hfirst : ∀ n, firstDef fs' n = (firstDef fs n).map π)
    (hfirst' : ∀ n, firstDef fs n = (firstDef fs' n).map σ)
    (hinj : ∀ i j, i < fs.length → j < fs.length → π i = π j → i = j)
    (hinj' : ∀ i j, i < fs'.length → j < fs'.length → σ i = σ j → i = j)
    (hσπ : ∀ i, i < fs.length → σ (π i) = i)
    (i : Nat) (hi : i < fs.length) : Reach fs' (π i) ↔ Reach fs i := by
  constructor
  · intro h
    have := reach_perm fs' fs σ hfile' hfirst' hinj' (π i) h
    rw [hσπ i hi] at this
    exact this
  · exact reach_perm fs fs' π hfile hfirst hinj i

/-- Non-vacuity: `main.o liba.a(member)` versus `liba.a(member) main.o`. -/
example :
    let m : File := { dynamic := false, optional := false, entries := [.undef 0 false] }
    let a : File := { dynamic := false, optional := true, entries := [.defn 0 .strong false] }
    isLoaded [m, a] 1 = true ∧ isLoaded [a, m] 0 = true := by decide

end Wild.Link
