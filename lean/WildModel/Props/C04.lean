import WildModel.Model.Layout
import WildModel.Model.LayoutCheck
import WildModel.Props.C29
/-!
# C04 — Output ELF files are structurally well-formed

Theorems over the layout model (`Model/Layout.lean`), for ALL section lists / sizes / alignments / page
sizes / locations (numbers are naturals: "no overflow of the 64-bit address space" is the standing hypothesis
under which the `Nat` model describes the `u64` code; the bridge lemmas below make that precise for the two
alignment kernels).
-/
namespace Wild.Layout

/-! ## Alignment kernels on naturals -/

theorem alignUpN_ge (e v : Nat) : v ≤ alignUpN e v := by
  unfold alignUpN; split <;> omega

theorem alignUpN_mod (e v : Nat) : alignUpN e v % 2 ^ e = 0 := by
  unfold alignUpN
  have hpos : 0 < 2 ^ e := Nat.two_pow_pos e
  split
  · assumption
  · have hlt : v % 2 ^ e < 2 ^ e := Nat.mod_lt _ hpos
    have hdm := Nat.div_add_mod v (2 ^ e)
    have : v + (2 ^ e - v % 2 ^ e) = 2 ^ e * (v / 2 ^ e + 1) := by
      rw [Nat.mul_add, Nat.mul_one]; omega
    rw [this]; exact Nat.mul_mod_right _ _

theorem alignUpN_lt (e v : Nat) : alignUpN e v < v + 2 ^ e := by
  unfold alignUpN
  have hpos : 0 < 2 ^ e := Nat.two_pow_pos e
  split <;> omega

/-- **`alignUpN` is the least multiple of `2^e` that is `≥ v`.** -/
theorem alignUpN_spec (e v : Nat) : Wild.Align.IsLeastMultipleGE (2 ^ e) v (alignUpN e v) := by
  have hpos : 0 < 2 ^ e := Nat.two_pow_pos e
  apply Wild.Align.least_of_close hpos
  · exact Nat.dvd_of_mod_eq_zero (alignUpN_mod e v)
  · exact alignUpN_ge e v
  · have := alignUpN_lt e v; have := alignUpN_ge e v; omega

theorem alignUpN_of_aligned (e v : Nat) (h : v % 2 ^ e = 0) : alignUpN e v = v := by
  unfold alignUpN; rw [if_pos h]

/-- Aligning to a coarser-or-equal power of two preserves residues modulo a finer one: if `a ≤ S` and
`x ≡ y (mod 2^S)` then `alignUpN a` advances both by the same amount. -/
theorem alignUpN_delta (a x y : Nat) (h : x % 2 ^ a = y % 2 ^ a) :
    alignUpN a x + y = alignUpN a y + x := by
  unfold alignUpN
  rw [h]
  split <;> omega

theorem mod_pow_of_mod_pow {a S x y : Nat} (haS : a ≤ S) (h : x % 2 ^ S = y % 2 ^ S) :
    x % 2 ^ a = y % 2 ^ a := by
  have hd : 2 ^ a ∣ 2 ^ S := Nat.pow_dvd_pow 2 haS
  have hx := Nat.mod_mod_of_dvd x hd
  have hy := Nat.mod_mod_of_dvd y hd
  rw [← hx, ← hy, h]

/-- **`alignModuloN r o` is the least value `≥ alignUpN o` congruent to `r` modulo `2^e`.** -/
theorem alignModuloN_spec (e r o : Nat) :
    Wild.Align.IsLeastCongruentGE (2 ^ e) r (alignUpN e o) (alignModuloN e r o) := by
  have hpos : 0 < 2 ^ e := Nat.two_pow_pos e
  have hu := alignUpN_mod e o
  have hr : r % 2 ^ e < 2 ^ e := Nat.mod_lt _ hpos
  unfold alignModuloN
  simp only [hu]
  by_cases h0 : 0 = r % 2 ^ e
  · rw [if_pos h0]
    refine ⟨Nat.le_refl _, by rw [hu]; exact h0, fun x hx _ => hx⟩
  · rw [if_neg h0]
    have hadj : (if r % 2 ^ e + 2 ^ e - 0 > 2 ^ e then r % 2 ^ e + 2 ^ e - 0 - 2 ^ e else r % 2 ^ e + 2 ^ e - 0)
        = r % 2 ^ e := by
      split <;> omega
    rw [hadj]
    obtain ⟨k, hk⟩ := Nat.dvd_of_mod_eq_zero hu
    refine ⟨by omega, ?_, ?_⟩
    · rw [hk, Nat.mul_add_mod]; exact Nat.mod_mod _ _
    · intro x hx hxm
      have hdx := Nat.div_add_mod x (2 ^ e)
      rw [hxm] at hdx
      rw [hk] at hx ⊢
      apply Nat.le_of_not_gt
      intro hgt
      have hq : x / 2 ^ e < k := by
        apply Nat.lt_of_not_ge
        intro hge2
        have := Nat.mul_le_mul_left (2 ^ e) hge2
        omega
      have := Nat.mul_le_mul_left (2 ^ e) (Nat.succ_le_of_lt hq)
      rw [Nat.mul_succ] at this
      omega

theorem alignModuloN_ge (e r o : Nat) : o ≤ alignModuloN e r o := by
  have := (alignModuloN_spec e r o).1
  have := alignUpN_ge e o
  omega

theorem alignModuloN_mod (e r o : Nat) : alignModuloN e r o % 2 ^ e = r % 2 ^ e :=
  (alignModuloN_spec e r o).2.1

/-! ## Bridge to the `BitVec 64` kernels of C29 (`Model/Align.lean`, tied to `alignment.rs`) -/

theorem least_multiple_unique {a v u u' : Nat} (h : Wild.Align.IsLeastMultipleGE a v u)
    (h' : Wild.Align.IsLeastMultipleGE a v u') : u = u' :=
  Nat.le_antisymm (h.2.2 _ h'.1 h'.2.1) (h'.2.2 _ h.1 h.2.1)

/-- Outside the overflow region the `u64` `align_up` is the `Nat` model. -/
theorem alignUp_bridge (e : Nat) (he : e ≤ 16) (v : BitVec 64) (hno : v.toNat + 2 ^ e ≤ 2 ^ 64) :
    (Wild.Align.alignUp e v).toNat = alignUpN e v.toNat :=
  least_multiple_unique (Wild.Align.align_up_spec e he v hno) (alignUpN_spec e v.toNat)

/-- Outside the overflow region the `u64` `align_modulo` is the `Nat` model. -/
theorem alignModulo_bridge (e : Nat) (he : e ≤ 16) (r o : BitVec 64)
    (hno : o.toNat + 2 ^ e + 2 ^ e ≤ 2 ^ 64) :
    (Wild.Align.alignModulo e r o).toNat = alignModuloN e r.toNat o.toNat := by
  have h1 := Wild.Align.align_modulo_spec e he r o hno
  have h2 := alignModuloN_spec e r.toNat o.toNat
  rw [alignUp_bridge e he o (by omega)] at h1
  exact Nat.le_antisymm (h1.2.2 _ h2.1 h2.2.1) (h2.2.2 _ h1.1 h1.2.1)

/-! ## `layout_section_parts`: alignment of every part -/

def RecAligned (r : Rec) : Prop := r.fileOff % 2 ^ r.align = 0 ∧ r.memOff % 2 ^ r.align = 0

theorem placePart_aligned (cfg : Config) (s : Sec) (rp : Bool) (m : Nat) (st : PartState) (p : PartIn) :
    RecAligned (placePart cfg s rp m st p).2 := by
  unfold placePart RecAligned
  simp only
  split
  · split <;> exact ⟨alignUpN_mod _ _, alignUpN_mod _ _⟩
  · exact ⟨alignUpN_mod _ _, alignUpN_mod _ _⟩

theorem placeParts_aligned (cfg : Config) (s : Sec) (rp : Bool) (m : Nat) (st : PartState) (ps : List PartIn) :
    ∀ r ∈ (placeParts cfg s rp m st ps).2, RecAligned r := by
  induction ps generalizing st with
  | nil => intro r hr; simp [placeParts] at hr
  | cons p ps ih =>
    intro r hr
    simp only [placeParts, List.mem_cons] at hr
    rcases hr with h | h
    · rw [h]; exact placePart_aligned cfg s rp m st p
    · exact ih _ r h

/-- all part records of a walk, in layout order -/
def allRecs (out : List (Nat × List Rec)) : List Rec := out.flatMap (·.2)

theorem layoutStep_recs_aligned (cfg : Config) (il : Nat → Bool) (sa : List (Nat × Nat)) (secs : Nat → Sec)
    (c : Cursor) (e : Event) (sid : Nat) (rs : List Rec)
    (h : (layoutStep cfg il sa secs c e).2 = some (sid, rs)) : ∀ r ∈ rs, RecAligned r := by
  unfold layoutStep at h
  split at h
  · simp at h
  · simp at h
  · split at h
    · split at h <;> simp at h
    · simp at h
  · simp only [Option.some.injEq, Prod.mk.injEq] at h
    obtain ⟨_, rfl⟩ := h
    exact placeParts_aligned _ _ _ _ _ _

theorem layoutWalk_aligned (cfg : Config) (il : Nat → Bool) (sa : List (Nat × Nat)) (secs : Nat → Sec)
    (c : Cursor) (evs : List Event) : ∀ r ∈ allRecs (layoutWalk cfg il sa secs c evs).2, RecAligned r := by
  induction evs generalizing c with
  | nil => intro r hr; simp [layoutWalk, allRecs] at hr
  | cons e es ih =>
    intro r hr
    simp only [layoutWalk] at hr
    cases ho : (layoutStep cfg il sa secs c e).2 with
    | none =>
      rw [ho] at hr
      exact ih _ r hr
    | some pr =>
      rw [ho] at hr
      obtain ⟨sid, rs⟩ := pr
      simp only [allRecs, List.flatMap_cons, List.mem_append] at hr
      rcases hr with h | h
      · exact layoutStep_recs_aligned cfg il sa secs c e sid rs ho r h
      · exact ih _ r h

/-- **C04 `parts_aligned`.** For every event list, section table, sizes, alignments, page size, locations and
output kind: every part record produced by `layout_section_parts` has its file offset and its address at a
multiple of its alignment. -/
theorem parts_aligned (cfg : Config) (il : Nat → Bool) (secs : Nat → Sec) (evs : List Event) :
    ∀ r ∈ allRecs (layoutParts cfg il secs evs), RecAligned r := by
  unfold layoutParts
  exact layoutWalk_aligned _ _ _ _ _ _

/-! ## Monotone file cursor: file ranges of all parts are disjoint -/

/-- `l` is laid out in ascending, non-overlapping file ranges inside `[lo, hi]`. -/
def FileSorted (lo hi : Nat) (l : List Rec) : Prop :=
  lo ≤ hi ∧ (∀ r ∈ l, lo ≤ r.fileOff ∧ r.fileOff + r.fileSize ≤ hi) ∧
    l.Pairwise (fun a b => a.fileOff + a.fileSize ≤ b.fileOff)

theorem FileSorted.nil (lo hi : Nat) (h : lo ≤ hi) : FileSorted lo hi [] :=
  ⟨h, by simp, List.Pairwise.nil⟩

theorem FileSorted.append {a b c : Nat} {l1 l2 : List Rec} (h1 : FileSorted a b l1) (h2 : FileSorted b c l2) :
    FileSorted a c (l1 ++ l2) := by
  obtain ⟨hab, hb1, hp1⟩ := h1
  obtain ⟨hbc, hb2, hp2⟩ := h2
  refine ⟨by omega, ?_, ?_⟩
  · intro r hr
    rcases List.mem_append.1 hr with h | h
    · have := hb1 r h; omega
    · have := hb2 r h; omega
  · rw [List.pairwise_append]
    refine ⟨hp1, hp2, ?_⟩
    intro x hx y hy
    have := hb1 x hx; have := hb2 y hy; omega

theorem FileSorted.widen {a a' b b' : Nat} {l : List Rec} (h : FileSorted a b l) (ha : a' ≤ a) (hb : b ≤ b') :
    FileSorted a' b' l := by
  obtain ⟨hab, hb1, hp1⟩ := h
  exact ⟨by omega, fun r hr => by have := hb1 r hr; omega, hp1⟩

theorem placePart_file (cfg : Config) (s : Sec) (rp : Bool) (m : Nat) (st : PartState) (p : PartIn) :
    st.file ≤ (placePart cfg s rp m st p).2.fileOff ∧
    (placePart cfg s rp m st p).1.file = (placePart cfg s rp m st p).2.fileOff + (placePart cfg s rp m st p).2.fileSize := by
  unfold placePart
  simp only
  split
  · split <;> exact ⟨alignUpN_ge _ _, rfl⟩
  · exact ⟨alignUpN_ge _ _, rfl⟩

theorem placeParts_file (cfg : Config) (s : Sec) (rp : Bool) (m : Nat) (st : PartState) (ps : List PartIn) :
    FileSorted st.file (placeParts cfg s rp m st ps).1.file (placeParts cfg s rp m st ps).2 := by
  induction ps generalizing st with
  | nil => simp only [placeParts]; exact FileSorted.nil _ _ (Nat.le_refl _)
  | cons p ps ih =>
    simp only [placeParts]
    have h := placePart_file cfg s rp m st p
    have hs : FileSorted st.file (placePart cfg s rp m st p).1.file [(placePart cfg s rp m st p).2] := by
      refine ⟨by omega, ?_, List.pairwise_singleton _ _⟩
      intro r hr
      rw [List.mem_singleton.1 hr]; omega
    exact FileSorted.append hs (ih _)

theorem layoutStep_file (cfg : Config) (il : Nat → Bool) (sa : List (Nat × Nat)) (secs : Nat → Sec)
    (c : Cursor) (e : Event) :
    FileSorted c.file (layoutStep cfg il sa secs c e).1.file
      (match (layoutStep cfg il sa secs c e).2 with | some pr => pr.2 | none => []) := by
  unfold layoutStep
  split
  · exact FileSorted.nil _ _ (Nat.le_refl _)
  · exact FileSorted.nil _ _ (Nat.le_refl _)
  · split
    · split
      · exact FileSorted.nil _ _ (alignModuloN_ge _ _ _)
      · exact FileSorted.nil _ _ (Nat.le_refl _)
    · exact FileSorted.nil _ _ (Nat.le_refl _)
  · exact placeParts_file cfg _ _ _ ⟨c.file, _, 0, 0⟩ _

theorem layoutWalk_file (cfg : Config) (il : Nat → Bool) (sa : List (Nat × Nat)) (secs : Nat → Sec)
    (c : Cursor) (evs : List Event) :
    FileSorted c.file (layoutWalk cfg il sa secs c evs).1.file (allRecs (layoutWalk cfg il sa secs c evs).2) := by
  induction evs generalizing c with
  | nil => simp only [layoutWalk, allRecs, List.flatMap_nil]; exact FileSorted.nil _ _ (Nat.le_refl _)
  | cons e es ih =>
    simp only [layoutWalk]
    have h1 := layoutStep_file cfg il sa secs c e
    have h2 := ih (layoutStep cfg il sa secs c e).1
    cases ho : (layoutStep cfg il sa secs c e).2 with
    | none =>
      rw [ho] at h1
      exact FileSorted.widen h2 h1.1 (Nat.le_refl _)
    | some pr =>
      rw [ho] at h1
      simp only [allRecs, List.flatMap_cons]
      exact FileSorted.append h1 h2

/-- **C04 `parts_disjoint_file`.** For every input of `layout_section_parts` (any output kind, any locations):
the file ranges of all parts — allocated or not — are pairwise disjoint and ascending in layout order
(monotone file cursor). -/
theorem parts_disjoint_file (cfg : Config) (il : Nat → Bool) (secs : Nat → Sec) (evs : List Event) :
    (allRecs (layoutParts cfg il secs evs)).Pairwise (fun a b => a.fileOff + a.fileSize ≤ b.fileOff) := by
  unfold layoutParts
  exact (layoutWalk_file _ _ _ _ _ _).2.2

/-! ## Monotone address cursor: allocated parts are disjoint in memory (locations forward) -/

/-- `l` is laid out in ascending, non-overlapping address ranges inside `[lo, hi]`. -/
def MemSorted (lo hi : Nat) (l : List Rec) : Prop :=
  lo ≤ hi ∧ (∀ r ∈ l, lo ≤ r.memOff ∧ r.memOff + r.memSize ≤ hi) ∧
    l.Pairwise (fun a b => a.memOff + a.memSize ≤ b.memOff)

theorem MemSorted.nil (lo hi : Nat) (h : lo ≤ hi) : MemSorted lo hi [] :=
  ⟨h, by simp, List.Pairwise.nil⟩

theorem MemSorted.append {a b c : Nat} {l1 l2 : List Rec} (h1 : MemSorted a b l1) (h2 : MemSorted b c l2) :
    MemSorted a c (l1 ++ l2) := by
  obtain ⟨hab, hb1, hp1⟩ := h1
  obtain ⟨hbc, hb2, hp2⟩ := h2
  refine ⟨by omega, ?_, ?_⟩
  · intro r hr
    rcases List.mem_append.1 hr with h | h
    · have := hb1 r h; omega
    · have := hb2 r h; omega
  · rw [List.pairwise_append]
    refine ⟨hp1, hp2, ?_⟩
    intro x hx y hy
    have := hb1 x hx; have := hb2 y hy; omega

theorem MemSorted.widen {a a' b b' : Nat} {l : List Rec} (h : MemSorted a b l) (ha : a' ≤ a) (hb : b ≤ b') :
    MemSorted a' b' l := by
  obtain ⟨hab, hb1, hp1⟩ := h
  exact ⟨by omega, fun r hr => by have := hb1 r hr; omega, hp1⟩


theorem placePart_mem (cfg : Config) (s : Sec) (rp : Bool) (m : Nat) (st : PartState) (p : PartIn)
    (hp : cfg.partialObj = false) (ha : s.alloc = true) :
    st.mem ≤ (placePart cfg s rp m st p).2.memOff ∧
    (placePart cfg s rp m st p).1.mem = (placePart cfg s rp m st p).2.memOff + (placePart cfg s rp m st p).2.memSize := by
  unfold placePart
  simp only [ha, hp, if_true, Bool.false_eq_true, if_false]
  exact ⟨alignUpN_ge _ _, trivial⟩

theorem placePart_mem_nonalloc (cfg : Config) (s : Sec) (rp : Bool) (m : Nat) (st : PartState) (p : PartIn)
    (ha : s.alloc = false) : (placePart cfg s rp m st p).1.mem = st.mem := by
  unfold placePart
  simp only [ha, Bool.false_eq_true, if_false]

theorem placeParts_mem (cfg : Config) (s : Sec) (rp : Bool) (m : Nat) (st : PartState) (ps : List PartIn)
    (hp : cfg.partialObj = false) (ha : s.alloc = true) :
    MemSorted st.mem (placeParts cfg s rp m st ps).1.mem (placeParts cfg s rp m st ps).2 := by
  induction ps generalizing st with
  | nil => simp only [placeParts]; exact MemSorted.nil _ _ (Nat.le_refl _)
  | cons p ps ih =>
    simp only [placeParts]
    have h := placePart_mem cfg s rp m st p hp ha
    have hs : MemSorted st.mem (placePart cfg s rp m st p).1.mem [(placePart cfg s rp m st p).2] := by
      refine ⟨by omega, ?_, List.pairwise_singleton _ _⟩
      intro r hr
      rw [List.mem_singleton.1 hr]; omega
    exact MemSorted.append hs (ih _)

theorem placeParts_mem_nonalloc (cfg : Config) (s : Sec) (rp : Bool) (m : Nat) (st : PartState) (ps : List PartIn)
    (ha : s.alloc = false) : (placeParts cfg s rp m st ps).1.mem = st.mem := by
  induction ps generalizing st with
  | nil => simp only [placeParts]
  | cons p ps ih =>
    simp only [placeParts]
    rw [ih, placePart_mem_nonalloc cfg s rp m st p ha]

/-- the records of allocated sections, in layout order -/
def allocRecs (secs : Nat → Sec) (out : List (Nat × List Rec)) : List Rec :=
  allRecs (out.filter fun p => (secs p.1).alloc)

theorem locsForward_cons (cfg : Config) (il : Nat → Bool) (sa : List (Nat × Nat)) (secs : Nat → Sec)
    (c : Cursor) (e : Event) (es : List Event) :
    locsForward cfg il sa secs c (e :: es) =
      (stepFwd il secs c e && locsForward cfg il sa secs (layoutStep cfg il sa secs c e).1 es) := by
  rfl

theorem layoutStep_mem (cfg : Config) (il : Nat → Bool) (sa : List (Nat × Nat)) (secs : Nat → Sec)
    (c : Cursor) (e : Event) (hp : cfg.partialObj = false) (hf : stepFwd il secs c e = true) :
    MemSorted c.mem (layoutStep cfg il sa secs c e).1.mem
      (match (layoutStep cfg il sa secs c e).2 with
        | some pr => if (secs pr.1).alloc then pr.2 else []
        | none => []) := by
  unfold layoutStep
  unfold stepFwd at hf
  split
  · exact MemSorted.nil _ _ (Nat.le_refl _)
  · exact MemSorted.nil _ _ (Nat.le_refl _)
  · rename_i id
    simp only at hf
    by_cases hl : il id = true
    · simp only [hl, if_true] at hf ⊢
      split
      · rename_i a hpend
        rw [hpend] at hf
        exact MemSorted.nil _ _ (by simpa using hf)
      · exact MemSorted.nil _ _ (alignModuloN_ge _ _ _)
    · simp only [hl, Bool.false_eq_true, if_false]
      exact MemSorted.nil _ _ (Nat.le_refl _)
  · rename_i sid
    simp only at hf ⊢
    have hstart : c.mem ≤ (match (secs sid).loc with | some a => a | none => c.mem) := by
      cases hloc : (secs sid).loc with
      | none => simp
      | some a => rw [hloc] at hf; simpa using hf
    by_cases ha : (secs sid).alloc = true
    · simp only [ha, if_true]
      exact MemSorted.widen
        (placeParts_mem cfg (secs sid) _ _ ⟨c.file, _, 0, 0⟩ _ hp ha) hstart (Nat.le_refl _)
    · have ha' : (secs sid).alloc = false := by simpa using ha
      simp only [ha', Bool.false_eq_true, if_false]
      rw [placeParts_mem_nonalloc cfg (secs sid) _ _ ⟨c.file, _, 0, 0⟩ _ ha']
      exact MemSorted.nil _ _ hstart

theorem layoutWalk_mem (cfg : Config) (il : Nat → Bool) (sa : List (Nat × Nat)) (secs : Nat → Sec)
    (c : Cursor) (evs : List Event) (hp : cfg.partialObj = false)
    (hf : locsForward cfg il sa secs c evs = true) :
    MemSorted c.mem (layoutWalk cfg il sa secs c evs).1.mem
      (allocRecs secs (layoutWalk cfg il sa secs c evs).2) := by
  induction evs generalizing c with
  | nil => simp only [layoutWalk, allocRecs, allRecs, List.filter_nil, List.flatMap_nil]; exact MemSorted.nil _ _ (Nat.le_refl _)
  | cons e es ih =>
    rw [locsForward_cons, Bool.and_eq_true] at hf
    simp only [layoutWalk]
    have h1 := layoutStep_mem cfg il sa secs c e hp hf.1
    have h2 := ih (layoutStep cfg il sa secs c e).1 hf.2
    cases ho : (layoutStep cfg il sa secs c e).2 with
    | none =>
      rw [ho] at h1
      exact MemSorted.widen h2 h1.1 (Nat.le_refl _)
    | some pr =>
      rw [ho] at h1
      simp only at h1
      by_cases ha : (secs pr.1).alloc = true
      · simp only [ha, if_true] at h1
        simp only [allocRecs, allRecs, List.filter_cons, ha, if_true, List.flatMap_cons]
        exact MemSorted.append h1 h2
      · have ha' : (secs pr.1).alloc = false := by simpa using ha
        simp only [ha', Bool.false_eq_true, if_false] at h1
        simp only [allocRecs, List.filter_cons, ha', Bool.false_eq_true, if_false]
        exact MemSorted.widen h2 h1.1 (Nat.le_refl _)

/-- **C04 `parts_disjoint_mem`.** For executables and shared objects (`partialObj = false`), if every user
location (`--section-start`, script `. = X`, `name ADDR :`) is at or above the address cursor when it is
applied (`locsForward`), the address ranges of all parts of allocated sections are pairwise disjoint and
ascending in layout order. -/
theorem parts_disjoint_mem (cfg : Config) (il : Nat → Bool) (secs : Nat → Sec) (evs : List Event)
    (hp : cfg.partialObj = false)
    (hf : locsForward cfg il (segmentAlignments il secs cfg.page evs) secs
      { file := 0, mem := cfg.base, pending := none } evs = true) :
    (allocRecs secs (layoutParts cfg il secs evs)).Pairwise (fun a b => a.memOff + a.memSize ≤ b.memOff) := by
  unfold layoutParts
  exact (layoutWalk_mem _ _ _ _ _ _ hp hf).2.2

/-- Without the hypothesis the statement is false in the model (and in wild: known finding
`layout:backwards-location`): a section whose `--section-start` lies inside the previous section. -/
theorem parts_disjoint_mem_witness :
    ¬ (allocRecs (fun sid => if sid = 0 then { (default : Sec) with alloc := true, hasData := true, parts := [⟨0, 0x3000⟩] }
                      else { (default : Sec) with alloc := true, hasData := true, loc := some 0x1000, parts := [⟨0, 0x100⟩] })
        (layoutParts ⟨false, 0, 12, 0, 99⟩ (fun _ => false)
          (fun sid => if sid = 0 then { (default : Sec) with alloc := true, hasData := true, parts := [⟨0, 0x3000⟩] }
                      else { (default : Sec) with alloc := true, hasData := true, loc := some 0x1000, parts := [⟨0, 0x100⟩] })
          [.section 0, .section 1])).Pairwise (fun a b => a.memOff + a.memSize ≤ b.memOff) := by
  decide

/-! ## LOAD segments: `p_offset ≡ p_vaddr (mod p_align)` -/

/-- **C04 `load_congruent`, step 1.** Whatever the cursor is, after the `SegmentStart` of a LOAD segment
(`align_load_segment_start`, or the pending-location branch) file offset and address are congruent modulo the
segment alignment `2^S` computed by `compute_segment_alignments` (`S` = page exponent if absent). -/
theorem load_start_congruent (cfg : Config) (il : Nat → Bool) (sa : List (Nat × Nat)) (secs : Nat → Sec)
    (c : Cursor) (id : Nat) (hl : il id = true) :
    (layoutStep cfg il sa secs c (.segStart id)).1.file % 2 ^ ((sa.lookup id).getD cfg.page) =
    (layoutStep cfg il sa secs c (.segStart id)).1.mem % 2 ^ ((sa.lookup id).getD cfg.page) := by
  unfold layoutStep
  simp only [hl, if_true]
  split
  · exact alignModuloN_mod _ _ _
  · exact (alignModuloN_mod _ _ _).symm

theorem cong_of_disp {x y F M n : Nat} (hn : 0 < n) (h : x + F = y + M) (hc : F % n = M % n) : x % n = y % n := by
  have h1 : (x + F) % n = (y + M) % n := by rw [h]
  rw [Nat.add_mod x F n, Nat.add_mod y M n, hc] at h1
  have hx := Nat.mod_lt x hn
  have hy := Nat.mod_lt y hn
  have hm := Nat.mod_lt M hn
  generalize x % n = a at *
  generalize y % n = b at *
  generalize M % n = r at *
  by_cases ha : a + r < n
  · by_cases hb : b + r < n
    · rw [Nat.mod_eq_of_lt ha, Nat.mod_eq_of_lt hb] at h1; omega
    · rw [Nat.mod_eq_of_lt ha, Nat.mod_eq_sub_mod (by omega), Nat.mod_eq_of_lt (by omega)] at h1; omega
  · by_cases hb : b + r < n
    · rw [Nat.mod_eq_of_lt hb, Nat.mod_eq_sub_mod (by omega), Nat.mod_eq_of_lt (by omega)] at h1; omega
    · rw [Nat.mod_eq_sub_mod (by omega), Nat.mod_eq_of_lt (by omega), Nat.mod_eq_sub_mod (Nat.le_of_not_lt hb),
        Nat.mod_eq_of_lt (by omega)] at h1; omega

/-- One part of an allocated section with file contents keeps the displacement between address and file
offset that the reference point `(F, M)` (the cursor after the LOAD start) has, provided its alignment does
not exceed the segment alignment `2^S` to which `F ≡ M`. -/
theorem placePart_displacement (cfg : Config) (s : Sec) (rp : Bool) (m S F M : Nat) (st : PartState) (p : PartIn)
    (hp : cfg.partialObj = false) (ha : s.alloc = true) (hd : s.hasData = true)
    (hS : min p.align m ≤ S) (hFM : F % 2 ^ S = M % 2 ^ S) (hst : st.mem + F = st.file + M) :
    (placePart cfg s rp m st p).2.memOff + F = (placePart cfg s rp m st p).2.fileOff + M ∧
    (placePart cfg s rp m st p).1.mem + F = (placePart cfg s rp m st p).1.file + M := by
  have hfm : F % 2 ^ (min p.align m) = M % 2 ^ (min p.align m) := mod_pow_of_mod_pow hS hFM
  have hc : st.mem % 2 ^ (min p.align m) = st.file % 2 ^ (min p.align m) :=
    cong_of_disp (Nat.two_pow_pos _) hst hfm
  have hdl := alignUpN_delta (min p.align m) st.mem st.file hc
  unfold placePart
  simp only [ha, hp, hd, if_true, Bool.false_eq_true, if_false]
  constructor <;> omega

/-- **C04 `load_congruent`, step 2 (`load_run_displacement`).** From a cursor with `file ≡ mem (mod 2^S)`
(the state after a LOAD start), all parts of an allocated section with file contents (PROGBITS, or TLS NOBITS
which wild backs with zero bytes) whose alignments are `≤ S` are placed at the SAME displacement
`address - file offset`; the cursor keeps it. Hence `sh_offset - p_offset = sh_addr - p_vaddr` for every such
section of the segment and `p_offset ≡ p_vaddr (mod 2^S)`. The hypothesis `hasData` is necessary: see
`load_offsets_witness` (known finding `layout:nobits-not-last-in-load`). -/
theorem load_run_displacement (cfg : Config) (s : Sec) (rp : Bool) (m S F M : Nat) (st : PartState) (ps : List PartIn)
    (hp : cfg.partialObj = false) (ha : s.alloc = true) (hd : s.hasData = true)
    (hS : ∀ p ∈ ps, min p.align m ≤ S) (hFM : F % 2 ^ S = M % 2 ^ S) (hst : st.mem + F = st.file + M) :
    (∀ r ∈ (placeParts cfg s rp m st ps).2, r.memOff + F = r.fileOff + M) ∧
    (placeParts cfg s rp m st ps).1.mem + F = (placeParts cfg s rp m st ps).1.file + M := by
  induction ps generalizing st with
  | nil => simp only [placeParts]; exact ⟨by simp, hst⟩
  | cons p ps ih =>
    simp only [placeParts]
    have h1 := placePart_displacement cfg s rp m S F M st p hp ha hd (hS p (List.mem_cons_self ..)) hFM hst
    have h2 := ih (placePart cfg s rp m st p).1 (fun q hq => hS q (List.mem_cons_of_mem _ hq)) h1.2
    refine ⟨?_, h2.2⟩
    intro r hr
    rcases List.mem_cons.1 hr with h | h
    · rw [h]; exact h1.1
    · exact h2.1 r h

/-- The hull (`min` of starts) of records that share one displacement has that displacement: what
`layout_sections` / `compute_segment_layout` compute as `p_offset`, `p_vaddr` is again congruent. -/
theorem hull_congruent (F M : Nat) (l : List Rec) (f0 m0 : Nat) (h0 : m0 + F = f0 + M)
    (h : ∀ r ∈ l, r.memOff + F = r.fileOff + M) :
    l.foldl (fun a p => min a p.memOff) m0 + F = l.foldl (fun a p => min a p.fileOff) f0 + M := by
  induction l generalizing f0 m0 with
  | nil => simpa using h0
  | cons r rs ih =>
    simp only [List.foldl_cons]
    apply ih
    · have := h r (List.mem_cons_self ..)
      omega
    · intro q hq; exact h q (List.mem_cons_of_mem _ hq)

/-- A NOBITS section (no file contents) followed by a PROGBITS one inside the same LOAD: the second section's
displacement differs from the first one's (model of the `layout:nobits-not-last-in-load` defect). -/
theorem load_offsets_witness :
    let secs : Nat → Sec := fun sid =>
      if sid = 0 then { (default : Sec) with alloc := true, hasData := true, parts := [⟨0, 0x10⟩] }
      else if sid = 1 then { (default : Sec) with alloc := true, nobits := true, hasData := false, parts := [⟨0, 0x100⟩] }
      else { (default : Sec) with alloc := true, hasData := true, parts := [⟨0, 0x10⟩] }
    let out := allRecs (layoutParts ⟨false, 0x400000, 12, 0, 99⟩ (fun _ => true) secs
      [.segStart 0, .section 0, .section 1, .section 2, .segEnd 0])
    ¬ (∀ r ∈ out, r.fileSize = 0 ∨ r.memOff + 0 = r.fileOff + 0x400000) := by
  decide

/-! ## Output order automaton: which segments are open at a section -/

theorem startStopLoop_active (s : Sec) (ds : List SegDef) (as : List (Option Nat)) (k : Nat) (sd : List Nat)
    (hlen : as.length = ds.length) :
    (startStopLoop s ds as k sd).1.map Option.isSome = (ds.zipIdx k).map (fun p => includes p.1 p.2 s) := by
  induction ds generalizing as k sd with
  | nil =>
    cases as with
    | nil => simp [startStopLoop]
    | cons a as => simp at hlen
  | cons d ds ih =>
    cases as with
    | nil => simp at hlen
    | cons a as =>
      have hl : as.length = ds.length := by simpa using hlen
      cases a with
      | none =>
        cases hinc : includes d k s with
        | false => simp [startStopLoop, hinc, ih as (k + 1) sd hl]
        | true => simp [startStopLoop, hinc, ih as (k + 1) (sd ++ [k]) hl]
      | some id =>
        cases hinc : includes d k s with
        | false => simp [startStopLoop, hinc, ih as (k + 1) sd hl]
        | true => simp [startStopLoop, hinc, ih as (k + 1) sd hl]

theorem endRwLoad_length (defs : List SegDef) (st : OState) :
    (endRwLoad defs st).active.length = st.active.length := by
  unfold endRwLoad
  split
  · rfl
  · split
    · rfl
    · simp

/-- **C04 `aux_segments_cover` / `load_flags_match` (order automaton).** For executables and shared objects,
after `add_section` of a primary section the open segment kinds are EXACTLY the definitions whose
`should_include_section` accepts the section — for every table of segment definitions and every history:
slot `k` is open iff `includes defs[k] k sec`. Instantiated with the LOAD rows this is `load_flags_match`
(the open LOAD segment has exactly the section's W and X, and one is open iff the section is allocated and
such a row exists); with the TLS / GNU_RELRO / DYNAMIC / INTERP / PHDR / GNU_EH_FRAME / NOTE rows it says the
auxiliary segment is open over exactly the sections it describes. -/
theorem aux_segments_cover (defs : List SegDef) (secs : Nat → Sec) (st : OState) (sid : Nat) (secondaries : List Nat)
    (hprim : (secs sid).primary = none) (hlen : st.active.length = defs.length) :
    (addSection defs false secs st sid secondaries).active.map Option.isSome =
      defs.zipIdx.map (fun p => includes p.1 p.2 (secs sid)) := by
  unfold addSection
  simp only [Bool.false_eq_true, if_false, hprim, Option.isSome_none]
  have hl1 : (if shouldEndRw defs st (secs sid) = true then endRwLoad defs st else st).active.length = defs.length := by
    split
    · rw [endRwLoad_length]; exact hlen
    · exact hlen
  generalize (if shouldEndRw defs st (secs sid) = true then endRwLoad defs st else st) = st1 at hl1 ⊢
  by_cases hloc : (secs sid).loc.isSome = true
  · simp only [hloc, if_true]
    exact startStopLoop_active (secs sid) defs _ 0 _ (by simp [hl1])
  · simp only [hloc, Bool.false_eq_true, if_false]
    exact startStopLoop_active (secs sid) defs _ 0 _ hl1

/-- `load_flags_match`, spelled out for one LOAD row. -/
theorem load_flags_match (defs : List SegDef) (secs : Nat → Sec) (st : OState) (sid : Nat) (secondaries : List Nat)
    (hprim : (secs sid).primary = none) (hlen : st.active.length = defs.length)
    (k : Nat) (d : SegDef) (hk : defs[k]? = some d) (hload : d.load = true) :
    ((addSection defs false secs st sid secondaries).active[k]?).map Option.isSome =
      some ((secs sid).alloc && ((secs sid).w == d.w) && ((secs sid).x == d.x)) := by
  have h := aux_segments_cover defs secs st sid secondaries hprim hlen
  have h2 := congrArg (fun l => l[k]?) h
  simp only [List.getElem?_map, List.getElem?_zipIdx, hk, Option.map_some, Nat.zero_add] at h2
  rw [h2]
  simp [includes, hload]

/-- **C04 `no_wx_load`.** No row of `PROGRAM_SEGMENT_DEFS` is a LOAD that is both writable and executable, and a
section needing W and X is included in no LOAD row (so `compute_segment_layout` rejects it). -/
theorem no_wx_load : noWxB elfDefs = true ∧
    ∀ s : Sec, s.w = true → s.x = true → ∀ p ∈ elfDefs.zipIdx, p.1.load = true → includes p.1 p.2 s = false := by
  refine ⟨by decide, ?_⟩
  intro s hw hx p hp hl
  simp only [elfDefs, List.zipIdx_cons, List.zipIdx_nil, List.mem_cons, List.not_mem_nil, or_false] at hp
  rcases hp with h|h|h|h|h|h|h|h|h|h|h|h|h <;> subst h <;> simp_all [includes]

/-! ## `compute_segment_layout`: a segment record is the hull of what it absorbed -/

/-- **C04 `segment_hull_contains`.** Absorbing a section layout into a segment record (`compute_segment_layout`
does this for every open segment at every non-skipped section) makes the record contain the section's file and
address ranges, only ever grows the record, and the record's alignment dominates the section's. -/
theorem segment_hull_contains (r : SegRec) (l : Rec) :
    (r.absorb l).fileStart ≤ l.fileOff ∧ l.fileOff + l.fileSize ≤ (r.absorb l).fileEnd ∧
    (r.absorb l).memStart ≤ l.memOff ∧ l.memOff + l.memSize ≤ (r.absorb l).memEnd ∧
    (r.absorb l).fileStart ≤ r.fileStart ∧ r.fileEnd ≤ (r.absorb l).fileEnd ∧
    (r.absorb l).memStart ≤ r.memStart ∧ r.memEnd ≤ (r.absorb l).memEnd ∧
    l.align ≤ (r.absorb l).align ∧ r.align ≤ (r.absorb l).align := by
  unfold SegRec.absorb
  simp only
  omega

/-- Model of the `tls:segment-start-misaligned` defect: `.tdata` (alignment 4) placed at an address that is
4- but not 512-aligned, followed by a TLS section of alignment 512: the TLS segment (hull of both) starts at a
non-multiple of its alignment 512. -/
theorem tls_start_aligned_witness :
    let secs : Nat → Sec := fun sid =>
      if sid = 0 then { (default : Sec) with alloc := true, hasData := true, parts := [⟨0, 0x14⟩] }
      else if sid = 1 then { (default : Sec) with alloc := true, tls := true, hasData := true, parts := [⟨2, 4⟩] }
      else { (default : Sec) with alloc := true, tls := true, hasData := true, parts := [⟨9, 0x200⟩] }
    let out := layoutParts ⟨false, 0x400000, 12, 0, 99⟩ (fun id => id == 0) secs
      [.segStart 0, .section 0, .segStart 1, .section 1, .section 2, .segEnd 1, .segEnd 0]
    let tls := ((⟨1, u64Max, 0, u64Max, 0, 0⟩ : SegRec).absorb (sectionLayout 0 ((out.lookup 1).getD []))).absorb
      (sectionLayout 0 ((out.lookup 2).getD []))
    tls.align = 9 ∧ tls.memStart % 2 ^ tls.align ≠ 0 := by
  decide

/-! ## Output order automaton: the event list is well bracketed -/

/-- What event `e` says about segment `id`: `some true` = its start, `some false` = its end. -/
def evTag (id : Nat) (e : Event) : Option Bool :=
  match e with
  | .segStart j => if j = id then some true else none
  | .segEnd j => if j = id then some false else none
  | _ => none

/-- The start/end history of segment `id` in an event list. -/
def trace (id : Nat) (evs : List Event) : List Bool := evs.filterMap (evTag id)

/-- Ids held by the active slots. -/
def activeIds (as : List (Option Nat)) : List Nat := as.filterMap id

theorem trace_append (id : Nat) (a b : List Event) : trace id (a ++ b) = trace id a ++ trace id b := by
  simp [trace, List.filterMap_append]

theorem trace_ends (id : Nat) (l : List Nat) :
    trace id (l.map Event.segEnd) = List.replicate (l.count id) false := by
  induction l with
  | nil => rfl
  | cons j l ih =>
    simp only [List.map_cons, trace, List.filterMap_cons, evTag] at ih ⊢
    by_cases h : j = id
    · subst h; simp [ih, List.replicate_succ]
    · have h' : (j == id) = false := by simpa using h
      simp [h, ih]

theorem trace_starts (id : Nat) (l : List Nat) :
    trace id (l.map Event.segStart) = List.replicate (l.count id) true := by
  induction l with
  | nil => rfl
  | cons j l ih =>
    simp only [List.map_cons, trace, List.filterMap_cons, evTag] at ih ⊢
    by_cases h : j = id
    · subst h; simp [ih, List.replicate_succ]
    · have h' : (j == id) = false := by simpa using h
      simp [h, ih]

theorem trace_sections (id : Nat) (l : List Nat) : trace id (l.map Event.section) = [] := by
  induction l with
  | nil => rfl
  | cons j l ih => simp [trace, evTag] at ih ⊢

/-- Per-id invariant of the builder state: `c` = number of active slots holding `id`, `t` = its history,
`n` = number of segment ids created so far. -/
def IdInv (n id c : Nat) (t : List Bool) : Prop :=
  (c = 1 ∧ t = [true] ∧ id < n) ∨ (c = 0 ∧ t = [true, false] ∧ id < n) ∨ (c = 0 ∧ t = [] ∧ n ≤ id)

def OInv (st : OState) : Prop :=
  ∀ id, IdInv st.segDefs.length id ((activeIds st.active).count id) (trace id st.events)

/-- One builder step seen from one id: `a` ends then `b` starts are appended. -/
theorem IdInv.step {n n' id c c' a b : Nat} {t : List Bool} (h : IdInv n id c t)
    (ha : a ≤ c) (hc : c' + a = c + b) (hb : b = if n ≤ id ∧ id < n' then 1 else 0) (hn : n ≤ n') :
    IdInv n' id c' (t ++ (List.replicate a false ++ List.replicate b true)) := by
  rcases h with ⟨h1, h2, h3⟩ | ⟨h1, h2, h3⟩ | ⟨h1, h2, h3⟩
  · have hb0 : b = 0 := by rw [hb, if_neg (by omega)]
    subst hb0
    have : a = 0 ∨ a = 1 := by omega
    rcases this with rfl | rfl
    · left; exact ⟨by omega, by simp [h2], by omega⟩
    · right; left; exact ⟨by omega, by simp [h2], by omega⟩
  · have hb0 : b = 0 := by rw [hb, if_neg (by omega)]
    subst hb0
    have : a = 0 := by omega
    subst this
    right; left; exact ⟨by omega, by simp [h2], by omega⟩
  · have : a = 0 := by omega
    subst this
    by_cases hlt : id < n'
    · have hb1 : b = 1 := by rw [hb, if_pos ⟨h3, hlt⟩]
      subst hb1
      left; exact ⟨by omega, by simp [h2], hlt⟩
    · have hb0 : b = 0 := by rw [hb, if_neg (by omega)]
      subst hb0
      right; right; exact ⟨by omega, by simp [h2], by omega⟩

/-- Conservation law of the zip loop of `start_stop_segments_for_section`, per id. -/
theorem startStopLoop_counts (s : Sec) (id : Nat) (ds : List SegDef) (as : List (Option Nat)) (k : Nat)
    (sd : List Nat) (as' : List (Option Nat)) (stop start sd' : List Nat)
    (h : startStopLoop s ds as k sd = (as', stop, start, sd')) :
    stop.count id ≤ (activeIds as).count id ∧
    (activeIds as').count id + stop.count id = (activeIds as).count id + start.count id ∧
    start.count id = (if sd.length ≤ id ∧ id < sd'.length then 1 else 0) ∧
    sd.length ≤ sd'.length := by
  induction ds generalizing as k sd as' stop start sd' with
  | nil =>
    simp only [startStopLoop, Prod.mk.injEq] at h
    obtain ⟨rfl, rfl, rfl, rfl⟩ := h
    refine ⟨by simp, by simp, ?_, Nat.le_refl _⟩
    rw [if_neg (by omega)]; simp
  | cons d ds ih =>
    cases as with
    | nil =>
      simp only [startStopLoop, Prod.mk.injEq] at h
      obtain ⟨rfl, rfl, rfl, rfl⟩ := h
      refine ⟨by simp, by simp, ?_, Nat.le_refl _⟩
      rw [if_neg (by omega)]; simp
    | cons a as =>
      cases a with
      | none =>
        cases hinc : includes d k s with
        | false =>
          simp only [startStopLoop, hinc] at h
          generalize hr : startStopLoop s ds as (k + 1) sd = r at h
          obtain ⟨as1, stop1, start1, sd1⟩ := r
          simp only [Prod.mk.injEq] at h
          obtain ⟨rfl, rfl, rfl, rfl⟩ := h
          have := ih as (k + 1) sd _ _ _ _ hr
          simpa [activeIds] using this
        | true =>
          simp only [startStopLoop, hinc] at h
          generalize hr : startStopLoop s ds as (k + 1) (sd ++ [k]) = r at h
          obtain ⟨as1, stop1, start1, sd1⟩ := r
          simp only [Prod.mk.injEq] at h
          obtain ⟨rfl, rfl, rfl, rfl⟩ := h
          obtain ⟨h1, h2, h3, h4⟩ := ih as (k + 1) (sd ++ [k]) _ _ _ _ hr
          simp only [List.length_append, List.length_cons, List.length_nil, Nat.zero_add] at h3 h4
          simp only [activeIds, List.filterMap_cons, id_eq, List.count_cons] at h1 h2 ⊢
          by_cases hid : sd.length = id
          · subst hid
            rw [if_neg (by omega)] at h3
            simp only [beq_self_eq_true, if_true]
            rw [if_pos ⟨Nat.le_refl _, by omega⟩]
            omega
          · have hb : (sd.length == id) = false := by simpa using hid
            simp only [hb, Bool.false_eq_true, if_false, Nat.add_zero]
            refine ⟨h1, h2, ?_, by omega⟩
            rw [h3]
            by_cases hc : sd.length + 1 ≤ id ∧ id < sd1.length
            · rw [if_pos hc, if_pos ⟨by omega, hc.2⟩]
            · rw [if_neg hc, if_neg (by omega)]
      | some j =>
        cases hinc : includes d k s with
        | false =>
          simp only [startStopLoop, hinc] at h
          generalize hr : startStopLoop s ds as (k + 1) sd = r at h
          obtain ⟨as1, stop1, start1, sd1⟩ := r
          simp only [Prod.mk.injEq] at h
          obtain ⟨rfl, rfl, rfl, rfl⟩ := h
          obtain ⟨h1, h2, h3, h4⟩ := ih as (k + 1) sd _ _ _ _ hr
          simp only [activeIds, List.filterMap_cons, id_eq, List.count_cons] at h1 h2 ⊢
          exact ⟨by omega, by omega, h3, h4⟩
        | true =>
          simp only [startStopLoop, hinc] at h
          generalize hr : startStopLoop s ds as (k + 1) sd = r at h
          obtain ⟨as1, stop1, start1, sd1⟩ := r
          simp only [Prod.mk.injEq] at h
          obtain ⟨rfl, rfl, rfl, rfl⟩ := h
          obtain ⟨h1, h2, h3, h4⟩ := ih as (k + 1) sd _ _ _ _ hr
          simp only [activeIds, List.filterMap_cons, id_eq, List.count_cons] at h1 h2 ⊢
          exact ⟨by omega, by omega, h3, h4⟩

theorem count_set_none (as : List (Option Nat)) (i j id : Nat) (h : as.getD i none = some j) :
    (activeIds (as.set i none)).count id + (if j = id then 1 else 0) = (activeIds as).count id := by
  induction as generalizing i with
  | nil => simp at h
  | cons a as ih =>
    cases i with
    | zero =>
      simp only [List.getD_cons_zero] at h
      subst h
      simp only [List.set_cons_zero, activeIds, List.filterMap_cons, id_eq, List.count_cons, beq_iff_eq]
    | succ i =>
      simp only [List.getD_cons_succ] at h
      have := ih i h
      cases a with
      | none => simpa [activeIds] using this
      | some x =>
        simp only [List.set_cons_succ, activeIds, List.filterMap_cons, id_eq, List.count_cons] at this ⊢
        omega

/-- A builder step that appends `stop` ends, neutral events, `start` starts, neutral events keeps the
invariant if the per-id conservation law holds. -/
theorem OInv.extend {st st' : OState} {stop start : List Nat} {mid tail : List Event} (h : OInv st)
    (hev : st'.events = st.events ++ stop.map Event.segEnd ++ mid ++ start.map Event.segStart ++ tail)
    (hmid : ∀ id, trace id mid = []) (htail : ∀ id, trace id tail = [])
    (hn : st.segDefs.length ≤ st'.segDefs.length)
    (hcnt : ∀ id, stop.count id ≤ (activeIds st.active).count id ∧
      (activeIds st'.active).count id + stop.count id = (activeIds st.active).count id + start.count id ∧
      start.count id = (if st.segDefs.length ≤ id ∧ id < st'.segDefs.length then 1 else 0)) :
    OInv st' := by
  intro id
  obtain ⟨h1, h2, h3⟩ := hcnt id
  have := IdInv.step (h id) h1 h2 h3 hn
  rw [hev]
  simp only [trace_append, hmid, htail, trace_ends, trace_starts, List.append_nil, List.append_assoc] at this ⊢
  exact this

theorem endRwLoad_inv (defs : List SegDef) (st : OState) (h : OInv st) : OInv (endRwLoad defs st) := by
  unfold endRwLoad
  split
  · exact h
  · rename_i i _
    split
    · exact h
    · rename_i j hj
      apply OInv.extend (stop := [j]) (start := []) (mid := []) (tail := []) h
      · simp
      · intro id; rfl
      · intro id; rfl
      · exact Nat.le_refl _
      · intro id
        have hc := count_set_none st.active i j id hj
        simp only [List.count_cons, List.count_nil, beq_iff_eq, Nat.zero_add, Nat.add_zero]
        refine ⟨by omega, by omega, ?_⟩
        rw [if_neg (by omega)]

/-- The `(active, stop, start, segDefs)` selection inside `add_section`. -/
def addSel (defs : List SegDef) (partialObj : Bool) (s : Sec) (st : OState) :
    List (Option Nat) × List Nat × List Nat × List Nat :=
  if partialObj then (st.active, [], [], st.segDefs)
  else if s.primary.isSome then (st.active, [], [], st.segDefs)
  else
    let p := if s.loc.isSome then (st.active.filterMap id, st.active.map (fun _ => (none : Option Nat))) else ([], st.active)
    let r := startStopLoop s defs p.2 0 st.segDefs
    (r.1, p.1 ++ r.2.1, r.2.2.1, r.2.2.2)

def locEvents (s : Sec) : List Event :=
  match s.loc with
  | some a => if s.alloc then [Event.setLoc a] else []
  | none => []

theorem addSection_eq (defs : List SegDef) (partialObj : Bool) (secs : Nat → Sec) (st : OState) (sid : Nat)
    (secondaries : List Nat) :
    addSection defs partialObj secs st sid secondaries =
      let s := secs sid
      let st1 := if shouldEndRw defs st s then endRwLoad defs st else st
      let q := addSel defs partialObj s st1
      { events := st1.events ++ q.2.1.map Event.segEnd ++ locEvents s ++ q.2.2.1.map Event.segStart ++
          ([Event.section sid] ++ secondaries.map Event.section),
        segDefs := q.2.2.2, active := q.1 } := by
  unfold addSection addSel locEvents
  generalize secs sid = s
  rcases s with ⟨primary, alloc, w, x, tls, nobits, hasData, emitted, noteLike, minAlign, loc, aux, parts⟩
  cases loc <;> cases alloc <;> simp

theorem activeIds_map_none (as : List (Option Nat)) : activeIds (as.map (fun _ => (none : Option Nat))) = [] := by
  induction as with
  | nil => rfl
  | cons a as ih => simpa [activeIds] using ih

theorem addSel_counts (defs : List SegDef) (partialObj : Bool) (s : Sec) (st : OState) (id : Nat)
    (as' : List (Option Nat)) (stop start sd' : List Nat)
    (h : addSel defs partialObj s st = (as', stop, start, sd')) :
    stop.count id ≤ (activeIds st.active).count id ∧
    (activeIds as').count id + stop.count id = (activeIds st.active).count id + start.count id ∧
    start.count id = (if st.segDefs.length ≤ id ∧ id < sd'.length then 1 else 0) ∧
    st.segDefs.length ≤ sd'.length := by
  unfold addSel at h
  by_cases hp : partialObj = true
  · simp only [hp, if_true, Prod.mk.injEq] at h
    obtain ⟨rfl, rfl, rfl, rfl⟩ := h
    refine ⟨by simp, by simp, ?_, Nat.le_refl _⟩
    rw [if_neg (by omega)]; rfl
  · simp only [hp, Bool.false_eq_true, if_false] at h
    by_cases hpr : s.primary.isSome = true
    · simp only [hpr, if_true, Prod.mk.injEq] at h
      obtain ⟨rfl, rfl, rfl, rfl⟩ := h
      refine ⟨by simp, by simp, ?_, Nat.le_refl _⟩
      rw [if_neg (by omega)]; rfl
    · simp only [hpr, Bool.false_eq_true, if_false] at h
      by_cases hloc : s.loc.isSome = true
      · simp only [hloc, if_true] at h
        generalize hr : startStopLoop s defs (st.active.map (fun _ => (none : Option Nat))) 0 st.segDefs = r at h
        obtain ⟨as1, stop1, start1, sd1⟩ := r
        simp only [Prod.mk.injEq] at h
        obtain ⟨rfl, rfl, rfl, rfl⟩ := h
        obtain ⟨h1, h2, h3, h4⟩ := startStopLoop_counts s id defs _ 0 st.segDefs _ _ _ _ hr
        rw [activeIds_map_none] at h1 h2
        simp only [List.count_nil, Nat.zero_add] at h1 h2
        refine ⟨?_, ?_, h3, h4⟩
        · rw [List.count_append]; unfold activeIds at *; omega
        · rw [List.count_append]; unfold activeIds at *; omega
      · simp only [hloc, Bool.false_eq_true, if_false, List.nil_append] at h
        generalize hr : startStopLoop s defs st.active 0 st.segDefs = r at h
        obtain ⟨as1, stop1, start1, sd1⟩ := r
        simp only [Prod.mk.injEq] at h
        obtain ⟨rfl, rfl, rfl, rfl⟩ := h
        exact startStopLoop_counts s id defs st.active 0 st.segDefs _ _ _ _ hr

theorem locEvents_trace (s : Sec) (id : Nat) : trace id (locEvents s) = [] := by
  unfold locEvents
  cases s.loc with
  | none => rfl
  | some a => cases s.alloc <;> rfl

theorem addSection_inv (defs : List SegDef) (partialObj : Bool) (secs : Nat → Sec) (st : OState) (sid : Nat)
    (secondaries : List Nat) (h : OInv st) : OInv (addSection defs partialObj secs st sid secondaries) := by
  rw [addSection_eq]
  simp only
  have h1 : OInv (if shouldEndRw defs st (secs sid) = true then endRwLoad defs st else st) := by
    split
    · exact endRwLoad_inv defs st h
    · exact h
  generalize (if shouldEndRw defs st (secs sid) = true then endRwLoad defs st else st) = st1 at h1 ⊢
  apply OInv.extend h1 rfl (locEvents_trace _)
  · intro id
    rw [show [Event.section sid] ++ secondaries.map Event.section = (sid :: secondaries).map Event.section from rfl]
    exact trace_sections id _
  · exact (addSel_counts defs partialObj (secs sid) st1 0 _ _ _ _ rfl).2.2.2
  · intro id
    obtain ⟨a, b, c, _⟩ := addSel_counts defs partialObj (secs sid) st1 id _ _ _ _ rfl
    exact ⟨a, b, c⟩

theorem init_inv (n : Nat) : OInv (OState.init n) := by
  intro id
  right; right
  refine ⟨?_, rfl, Nat.zero_le _⟩
  simp only [OState.init, activeIds]
  induction n with
  | zero => rfl
  | succ n ih => simpa [List.replicate_succ] using ih

theorem foldl_inv (defs : List SegDef) (partialObj : Bool) (secs : Nat → Sec) (calls : List (Nat × List Nat))
    (st : OState) (h : OInv st) :
    OInv (calls.foldl (fun st c => addSection defs partialObj secs st c.1 c.2) st) := by
  induction calls generalizing st with
  | nil => exact h
  | cons c cs ih => exact ih _ (addSection_inv defs partialObj secs st c.1 c.2 h)

/-- Every segment id `< n` was started once and ended once afterwards; ids `≥ n` do not occur. -/
def Closed (evs : List Event) (n : Nat) : Prop :=
  ∀ id, (trace id evs = [true, false] ∧ id < n) ∨ (trace id evs = [] ∧ n ≤ id)

theorem trace_pair (id k : Nat) :
    trace id [Event.segStart k, Event.segEnd k] = if k = id then [true, false] else [] := by
  by_cases h : k = id <;> simp [trace, evTag, h]

theorem buildOrder_go_closed (nCond : Nat) (n j : Nat) (ev : List Event) (sd : List Nat) (h : Closed ev sd.length) :
    Closed (buildOrder.go nCond j n ev sd).1 (buildOrder.go nCond j n ev sd).2.length := by
  induction n generalizing j ev sd with
  | zero => exact h
  | succ n ih =>
    simp only [buildOrder.go]
    apply ih
    intro id
    rw [trace_append, trace_pair]
    simp only [List.length_append, List.length_cons, List.length_nil, Nat.zero_add]
    rcases h id with ⟨h1, h2⟩ | ⟨h1, h2⟩
    · left
      rw [if_neg (by omega), h1]
      exact ⟨rfl, by omega⟩
    · by_cases hid : sd.length = id
      · left; rw [if_pos hid, h1]; exact ⟨rfl, by omega⟩
      · right; rw [if_neg hid, h1]; exact ⟨rfl, by omega⟩

theorem buildOrder_closed (st : OState) (partialObj : Bool) (nCond nUncond : Nat) (h : OInv st) :
    Closed (buildOrder st partialObj nCond nUncond).1 (buildOrder st partialObj nCond nUncond).2.length := by
  have hc : Closed (st.events ++ (st.active.filterMap id).map Event.segEnd) st.segDefs.length := by
    intro id
    rw [trace_append, trace_ends]
    rcases h id with ⟨h1, h2, h3⟩ | ⟨h1, h2, h3⟩ | ⟨h1, h2, h3⟩
    · left; unfold activeIds at h1; rw [h1, h2]; exact ⟨rfl, h3⟩
    · left; unfold activeIds at h1; rw [h1, h2]; exact ⟨rfl, h3⟩
    · right; unfold activeIds at h1; rw [h1, h2]; exact ⟨rfl, h3⟩
  unfold buildOrder
  simp only
  split
  · exact hc
  · exact buildOrder_go_closed _ _ _ _ _ hc

theorem evTag_start (id : Nat) (e : Event) : evTag id e = some true ↔ e = Event.segStart id := by
  cases e <;> simp [evTag]

theorem evTag_end (id : Nat) (e : Event) : evTag id e = some false ↔ e = Event.segEnd id := by
  cases e <;> simp [evTag]

theorem starts_length (id : Nat) (evs : List Event) :
    (evs.filter (· == Event.segStart id)).length = (trace id evs).count true := by
  induction evs with
  | nil => rfl
  | cons e es ih =>
    by_cases h : e = Event.segStart id
    · subst h; simp [trace, evTag] at ih ⊢; omega
    · have hb : (e == Event.segStart id) = false := by simpa using h
      have ht : evTag id e ≠ some true := fun hh => h ((evTag_start id e).1 hh)
      simp only [List.filter_cons, hb, Bool.false_eq_true, if_false, trace, List.filterMap_cons] at ih ⊢
      cases hv : evTag id e with
      | none => simpa using ih
      | some b =>
        cases b with
        | true => exact absurd hv ht
        | false => simpa [List.count_cons] using ih

theorem ends_length (id : Nat) (evs : List Event) :
    (evs.filter (· == Event.segEnd id)).length = (trace id evs).count false := by
  induction evs with
  | nil => rfl
  | cons e es ih =>
    by_cases h : e = Event.segEnd id
    · subst h; simp [trace, evTag] at ih ⊢; omega
    · have hb : (e == Event.segEnd id) = false := by simpa using h
      have ht : evTag id e ≠ some false := fun hh => h ((evTag_end id e).1 hh)
      simp only [List.filter_cons, hb, Bool.false_eq_true, if_false, trace, List.filterMap_cons] at ih ⊢
      cases hv : evTag id e with
      | none => simpa using ih
      | some b =>
        cases b with
        | false => exact absurd hv ht
        | true => simpa [List.count_cons] using ih

theorem findIdx_end_isSome (id : Nat) (evs : List Event) (h : false ∈ trace id evs) :
    ∃ j, evs.findIdx? (· == Event.segEnd id) = some j := by
  have hm : Event.segEnd id ∈ evs := by
    simp only [trace, List.mem_filterMap] at h
    obtain ⟨e, he, ht⟩ := h
    rw [(evTag_end id e).1 ht] at he; exact he
  cases hf : evs.findIdx? (· == Event.segEnd id) with
  | some j => exact ⟨j, rfl⟩
  | none =>
    rw [List.findIdx?_eq_none_iff] at hf
    have := hf _ hm
    simp at this

/-- The first start of `id` precedes its first end when the history of `id` is start, end. -/
theorem start_before_end (id : Nat) (evs : List Event) (h : trace id evs = [true, false]) :
    ∃ i j, evs.findIdx? (· == Event.segStart id) = some i ∧ evs.findIdx? (· == Event.segEnd id) = some j ∧
      i < j := by
  induction evs with
  | nil => simp [trace] at h
  | cons e es ih =>
    simp only [trace, List.filterMap_cons] at h
    cases hv : evTag id e with
    | none =>
      rw [hv] at h
      obtain ⟨i, j, h1, h2, h3⟩ := ih h
      have hs : (e == Event.segStart id) = false := by
        cases hb : (e == Event.segStart id) with
        | false => rfl
        | true => rw [(evTag_start id e).2 (by simpa using hb)] at hv; cases hv
      have he : (e == Event.segEnd id) = false := by
        cases hb : (e == Event.segEnd id) with
        | false => rfl
        | true => rw [(evTag_end id e).2 (by simpa using hb)] at hv; cases hv
      refine ⟨i + 1, j + 1, ?_, ?_, by omega⟩
      · rw [List.findIdx?_cons, hs, h1]; rfl
      · rw [List.findIdx?_cons, he, h2]; rfl
    | some b =>
      rw [hv] at h
      simp only [List.cons.injEq] at h
      obtain ⟨hb, ht⟩ := h
      subst hb
      have hes : e = Event.segStart id := (evTag_start id e).1 hv
      subst hes
      obtain ⟨j, hj⟩ := findIdx_end_isSome id es (by rw [show trace id es = _ from ht]; simp)
      refine ⟨0, j + 1, ?_, ?_, by omega⟩
      · simp [List.findIdx?_cons]
      · rw [List.findIdx?_cons, hj]; simp

theorem closed_wellBracketed (evs : List Event) (n : Nat) (h : Closed evs n) : wellBracketedB evs n = true := by
  unfold wellBracketedB
  rw [List.all_eq_true]
  intro id hid
  have hid' : id < n := by simpa using hid
  have ht : trace id evs = [true, false] := by
    rcases h id with ⟨h1, _⟩ | ⟨_, h2⟩
    · exact h1
    · omega
  obtain ⟨i, j, hi, hj, hij⟩ := start_before_end id evs ht
  simp only [starts_length, ends_length, ht, hi, hj, Option.getD_some, Bool.and_eq_true, beq_iff_eq,
    decide_eq_true_eq, List.all_eq_true]
  refine ⟨⟨⟨by simp, by simp⟩, hij⟩, ?_⟩
  intro e he
  cases e with
  | segStart k =>
    simp only [decide_eq_true_eq]
    rcases h k with ⟨_, h2⟩ | ⟨h1, _⟩
    · exact h2
    · have : true ∈ trace k evs := by
        simp only [trace, List.mem_filterMap]
        exact ⟨_, he, (evTag_start k _).2 rfl⟩
      rw [h1] at this; simp at this
  | segEnd k =>
    simp only [decide_eq_true_eq]
    rcases h k with ⟨_, h2⟩ | ⟨h1, _⟩
    · exact h2
    · have : false ∈ trace k evs := by
        simp only [trace, List.mem_filterMap]
        exact ⟨_, he, (evTag_end k _).2 rfl⟩
      rw [h1] at this; simp at this
  | «section» _ => rfl
  | setLoc _ => rfl

/-- **C04 `order_wellbracketed`.** For every table of segment definitions, every section table, output kind and
every sequence of `add_section` calls, the event list produced by the model's `OutputOrderBuilder`
(`outputOrder` = `add_section`* then `build`) is well bracketed in the sense of `wellBracketedB`: every segment
id below the number of created program segments is started exactly once and ended exactly once, the start
precedes the end, and no start/end event mentions any other id. -/
theorem order_wellbracketed (defs : List SegDef) (nUncond : Nat) (partialObj : Bool) (secs : Nat → Sec)
    (calls : List (Nat × List Nat)) :
    wellBracketedB (outputOrder defs nUncond partialObj secs calls).1
      (outputOrder defs nUncond partialObj secs calls).2.length = true := by
  unfold outputOrder
  exact closed_wellBracketed _ _
    (buildOrder_closed _ _ _ _ (foldl_inv defs partialObj secs calls _ (init_inv _)))

/-- Sanity / non-vacuity: the ELF table, `.text`-like, `.data`-like and a non-allocated section. -/
example :
    let secs : Nat → Sec := fun sid =>
      if sid = 0 then { (default : Sec) with alloc := true, x := true, aux := List.replicate 13 false }
      else if sid = 1 then { (default : Sec) with alloc := true, w := true, aux := List.replicate 13 false }
      else { (default : Sec) with aux := List.replicate 13 false }
    outputOrder elfDefs 1 false secs [(0, []), (1, []), (2, [])] =
      ([.segStart 0, .section 0, .segEnd 0, .segStart 1, .section 1, .segEnd 1, .section 2, .segStart 2, .segEnd 2],
       [5, 6, 13]) := by
  decide

/-! ## LOAD segments over the whole event walk: `p_offset ≡ p_vaddr (mod p_align)` -/

theorem layoutWalk_append (cfg : Config) (il : Nat → Bool) (sa : List (Nat × Nat)) (secs : Nat → Sec)
    (c : Cursor) (a b : List Event) :
    layoutWalk cfg il sa secs c (a ++ b) =
      ((layoutWalk cfg il sa secs (layoutWalk cfg il sa secs c a).1 b).1,
       (layoutWalk cfg il sa secs c a).2 ++ (layoutWalk cfg il sa secs (layoutWalk cfg il sa secs c a).1 b).2) := by
  induction a generalizing c with
  | nil => simp [layoutWalk]
  | cons e es ih =>
    simp only [List.cons_append, layoutWalk, ih]
    cases (layoutStep cfg il sa secs c e).2 <;> simp

/-- What may happen between the start and the end of a LOAD segment for the congruence argument: no other LOAD
segment starts; every section is allocated, has file contents (`hasData`, the hypothesis of
`load_run_displacement`; false for `.bss`-like NOBITS sections), carries no user location and its alignment does
not exceed the segment alignment exponent `S`. -/
def bodyOk (il : Nat → Bool) (secs : Nat → Sec) (S : Nat) (e : Event) : Bool :=
  match e with
  | .segStart j => !il j
  | .section sid =>
    (secs sid).alloc && (secs sid).hasData && (secs sid).loc.isNone && decide (maxAlignment (secs sid) ≤ S)
  | _ => true

theorem placeParts_align_le (cfg : Config) (s : Sec) (rp : Bool) (m : Nat) (st : PartState) (ps : List PartIn) :
    ∀ r ∈ (placeParts cfg s rp m st ps).2, r.align ≤ m := by
  induction ps generalizing st with
  | nil => intro r hr; simp [placeParts] at hr
  | cons p ps ih =>
    intro r hr
    simp only [placeParts, List.mem_cons] at hr
    rcases hr with h | h
    · rw [h]; unfold placePart; simp only; split
      · split <;> exact Nat.min_le_right _ _
      · exact Nat.min_le_right _ _
    · exact ih _ r h

/-- **Whole-run composition of `load_run_displacement`.** Walking any event list satisfying `bodyOk` from a
cursor with displacement `(F, M)` (`mem + F = file + M`, `F ≡ M (mod 2^S)`): every part record produced has
that displacement and alignment `≤ S`, and the cursor keeps it. -/
theorem region_displacement (cfg : Config) (il : Nat → Bool) (sa : List (Nat × Nat)) (secs : Nat → Sec)
    (S F M : Nat) (hp : cfg.partialObj = false) (hFM : F % 2 ^ S = M % 2 ^ S)
    (body : List Event) (c : Cursor) (hc : c.mem + F = c.file + M)
    (hb : ∀ e ∈ body, bodyOk il secs S e = true) :
    (∀ pr ∈ (layoutWalk cfg il sa secs c body).2, ∀ r ∈ pr.2, r.memOff + F = r.fileOff + M ∧ r.align ≤ S) ∧
    (layoutWalk cfg il sa secs c body).1.mem + F = (layoutWalk cfg il sa secs c body).1.file + M := by
  induction body generalizing c with
  | nil => exact ⟨by simp [layoutWalk], hc⟩
  | cons e es ih =>
    have he := hb e List.mem_cons_self
    have hes : ∀ e' ∈ es, bodyOk il secs S e' = true := fun e' h' => hb e' (List.mem_cons_of_mem _ h')
    simp only [layoutWalk]
    cases e with
    | setLoc a =>
      simp only [layoutStep]
      exact ih _ hc hes
    | segEnd j =>
      simp only [layoutStep]
      exact ih _ hc hes
    | segStart j =>
      have hj : il j = false := by simpa [bodyOk] using he
      simp only [layoutStep, hj, Bool.false_eq_true, if_false]
      exact ih _ hc hes
    | «section» sid =>
      simp only [bodyOk, Bool.and_eq_true, decide_eq_true_eq, Option.isNone_iff_eq_none] at he
      obtain ⟨⟨⟨ha, hd⟩, hloc⟩, hm⟩ := he
      simp only [layoutStep, hloc]
      have hrun := load_run_displacement cfg (secs sid) (sid == cfg.relroPad) (maxAlignment (secs sid)) S F M
        { file := c.file, mem := c.mem, nonalloc := 0, reloc := 0 } (secs sid).parts hp ha hd
        (fun p _ => Nat.le_trans (Nat.min_le_right _ _) hm) hFM hc
      have hal := placeParts_align_le cfg (secs sid) (sid == cfg.relroPad) (maxAlignment (secs sid))
        { file := c.file, mem := c.mem, nonalloc := 0, reloc := 0 } (secs sid).parts
      have hrest := ih { c with file := _, mem := _ } hrun.2 hes
      refine ⟨?_, hrest.2⟩
      intro pr hpr
      rcases List.mem_cons.1 hpr with rfl | h
      · intro r hr
        exact ⟨hrun.1 r hr, Nat.le_trans (hal r hr) hm⟩
      · exact hrest.1 pr h

/-- "Good or top": a pair (file start, address start) is either the initial `(u64::MAX, u64::MAX)` of a hull
computation or has the displacement `(F, M)` and is in range. -/
def GT (F M x y : Nat) : Prop :=
  (x = u64Max ∧ y = u64Max) ∨ (y + F = x + M ∧ x ≤ u64Max ∧ y ≤ u64Max)

theorem GT.min {F M x y x' y' : Nat} (h : GT F M x y) (h' : GT F M x' y') :
    GT F M (min x x') (min y y') := by
  unfold GT at *
  rcases h with ⟨h1, h2⟩ | ⟨h1, h2, h3⟩ <;> rcases h' with ⟨h1', h2'⟩ <;> omega

/-- Whole-section composition of `hull_congruent`: the `layout_sections` hull of parts that share a
displacement is good or top, and its alignment is bounded by `S`. -/
theorem sectionLayout_good (F M S minAlign : Nat) (parts : List Rec) (hmin : minAlign ≤ S)
    (h : ∀ r ∈ parts, (r.memOff + F = r.fileOff + M ∧ r.align ≤ S) ∧ r.fileOff ≤ u64Max ∧ r.memOff ≤ u64Max) :
    GT F M (sectionLayout minAlign parts).fileOff (sectionLayout minAlign parts).memOff ∧
    (sectionLayout minAlign parts).align ≤ S := by
  unfold sectionLayout
  simp only
  have key : ∀ (l : List Rec) (f0 m0 a0 : Nat), GT F M f0 m0 → a0 ≤ S →
      (∀ r ∈ l, (r.memOff + F = r.fileOff + M ∧ r.align ≤ S) ∧ r.fileOff ≤ u64Max ∧ r.memOff ≤ u64Max) →
      GT F M (l.foldl (fun a p => min a p.fileOff) f0) (l.foldl (fun a p => min a p.memOff) m0) ∧
      l.foldl (fun a p => if p.memSize > 0 then max a p.align else a) a0 ≤ S := by
    intro l
    induction l with
    | nil => intro f0 m0 a0 h0 ha _; exact ⟨h0, ha⟩
    | cons r rs ih =>
      intro f0 m0 a0 h0 ha hl
      simp only [List.foldl_cons]
      have hr := hl r List.mem_cons_self
      apply ih
      · exact GT.min h0 (Or.inr ⟨hr.1.1, hr.2.1, hr.2.2⟩)
      · split
        · exact Nat.max_le.2 ⟨ha, hr.1.2⟩
        · exact ha
      · intro q hq; exact hl q (List.mem_cons_of_mem _ hq)
  exact key parts u64Max u64Max minAlign (Or.inl ⟨rfl, rfl⟩) hmin h

/-! ### `compute_segment_layout`: the record of a LOAD segment over its whole run -/

def RecInv (F M S : Nat) (r : SegRec) : Prop := GT F M r.fileStart r.memStart ∧ r.align ≤ S

theorem RecInv.absorb {F M S : Nat} {r : SegRec} {l : Rec} (h : RecInv F M S r)
    (hl : GT F M l.fileOff l.memOff ∧ l.align ≤ S) : RecInv F M S (r.absorb l) := by
  unfold RecInv SegRec.absorb
  exact ⟨GT.min h.1 hl.1, Nat.max_le.2 ⟨h.2, hl.2⟩⟩

/-- the record that `SegmentEnd id` would complete -/
def cur (id : Nat) (st : SegState) : Option SegRec := st.active.find? (·.id == id)

theorem find?_filter_ne (id j : Nat) (hne : j ≠ id) (l : List SegRec) :
    (l.filter (·.id != j)).find? (·.id == id) = l.find? (·.id == id) := by
  induction l with
  | nil => rfl
  | cons a l ih =>
    by_cases ha : a.id = j
    · have h1 : (a.id != j) = false := by simp [ha]
      have h2 : (a.id == id) = false := by simp [ha, hne]
      simp only [List.filter_cons, h1, Bool.false_eq_true, if_false, List.find?_cons, h2, ih]
    · have h1 : (a.id != j) = true := by simp [ha]
      simp only [List.filter_cons, h1, if_true, List.find?_cons, ih]

theorem find?_filter_self (id : Nat) (l : List SegRec) :
    (l.filter (·.id != id)).find? (·.id == id) = none := by
  rw [List.find?_eq_none]
  intro a ha
  have := (List.mem_filter.1 ha).2
  simpa using this

theorem find?_map_absorb (id : Nat) (x : Rec) (l : List SegRec) :
    (l.map (·.absorb x)).find? (·.id == id) = (l.find? (·.id == id)).map (·.absorb x) := by
  induction l with
  | nil => rfl
  | cons a l ih =>
    simp only [List.map_cons, List.find?_cons]
    have : (a.absorb x).id = a.id := rfl
    rw [this]
    cases a.id == id <;> simp [ih]

/-- events inside the run of LOAD segment `id` as far as `compute_segment_layout` is concerned: not a start or
end of `id` itself, and every section's layout is good-or-top with alignment `≤ S` -/
def SegBodyOk (F M S id : Nat) (lay : Nat → Rec) (e : Event) : Prop :=
  e ≠ Event.segStart id ∧ e ≠ Event.segEnd id ∧
    ∀ sid, e = Event.section sid → GT F M (lay sid).fileOff (lay sid).memOff ∧ (lay sid).align ≤ S

theorem segStep_track (cfg : Config) (isStack : Nat → Bool) (secs : Nat → Sec) (lay : Nat → Rec) (fh : Nat)
    (F M S id : Nat) (st st' : SegState) (e : Event) (he : SegBodyOk F M S id lay e)
    (hs : segStep cfg isStack secs lay fh st e = .ok st') (r : SegRec)
    (hr : cur id st = some r) (hi : RecInv F M S r) :
    ∃ r', cur id st' = some r' ∧ RecInv F M S r' := by
  obtain ⟨h1, h2, h3⟩ := he
  cases e with
  | setLoc a =>
    simp only [segStep, Except.ok.injEq] at hs
    subst hs; exact ⟨r, hr, hi⟩
  | segStart j =>
    have hj : j ≠ id := fun h => h1 (by rw [h])
    simp only [segStep, Except.ok.injEq] at hs
    subst hs
    refine ⟨r, ?_, hi⟩
    unfold cur at hr ⊢
    simp only [List.find?_append, find?_filter_ne id j hj, hr, Option.some_or]
  | segEnd j =>
    have hj : j ≠ id := fun h => h2 (by rw [h])
    simp only [segStep] at hs
    split at hs
    · cases hs
    · simp only [Except.ok.injEq] at hs
      subst hs
      refine ⟨r, ?_, hi⟩
      unfold cur at hr ⊢
      simp only [find?_filter_ne id j hj, hr]
  | «section» sid =>
    have hl := h3 sid rfl
    simp only [segStep] at hs
    split at hs
    · simp only [Except.ok.injEq] at hs; subst hs; exact ⟨r, hr, hi⟩
    · split at hs
      · split at hs
        · cases hs
        · split at hs
          · cases hs
          · simp only [Except.ok.injEq] at hs; subst hs; exact ⟨r, hr, hi⟩
      · split at hs
        · cases hs
        · split at hs
          · cases hs
          · simp only [Except.ok.injEq] at hs
            subst hs
            refine ⟨r.absorb (lay sid), ?_, hi.absorb hl⟩
            unfold cur at hr ⊢
            simp only [find?_map_absorb, hr, Option.map_some]

theorem segLoop_cons_ok (cfg : Config) (isStack : Nat → Bool) (secs : Nat → Sec) (lay : Nat → Rec) (fh : Nat)
    (st st' : SegState) (e : Event) (es : List Event) :
    segLoop cfg isStack secs lay fh st (e :: es) = .ok st' ↔
      ∃ st1, segStep cfg isStack secs lay fh st e = .ok st1 ∧ segLoop cfg isStack secs lay fh st1 es = .ok st' := by
  simp only [segLoop]
  cases segStep cfg isStack secs lay fh st e with
  | error err => simp
  | ok st1 => simp

theorem segLoop_append_ok (cfg : Config) (isStack : Nat → Bool) (secs : Nat → Sec) (lay : Nat → Rec) (fh : Nat)
    (st st' : SegState) (a b : List Event) :
    segLoop cfg isStack secs lay fh st (a ++ b) = .ok st' ↔
      ∃ st1, segLoop cfg isStack secs lay fh st a = .ok st1 ∧ segLoop cfg isStack secs lay fh st1 b = .ok st' := by
  induction a generalizing st with
  | nil => simp [segLoop]
  | cons e es ih =>
    simp only [List.cons_append, segLoop_cons_ok, ih]
    constructor
    · rintro ⟨s1, h1, s2, h2, h3⟩; exact ⟨s2, ⟨s1, h1, h2⟩, h3⟩
    · rintro ⟨s2, ⟨s1, h1, h2⟩, h3⟩; exact ⟨s1, h1, s2, h2, h3⟩

theorem segLoop_track (cfg : Config) (isStack : Nat → Bool) (secs : Nat → Sec) (lay : Nat → Rec) (fh : Nat)
    (F M S id : Nat) (body : List Event) (st st' : SegState)
    (hb : ∀ e ∈ body, SegBodyOk F M S id lay e)
    (hs : segLoop cfg isStack secs lay fh st body = .ok st') (r : SegRec)
    (hr : cur id st = some r) (hi : RecInv F M S r) :
    ∃ r', cur id st' = some r' ∧ RecInv F M S r' := by
  induction body generalizing st r with
  | nil =>
    simp only [segLoop, Except.ok.injEq] at hs
    subst hs; exact ⟨r, hr, hi⟩
  | cons e es ih =>
    obtain ⟨st1, h1, h2⟩ := (segLoop_cons_ok ..).1 hs
    obtain ⟨r1, hr1, hi1⟩ := segStep_track cfg isStack secs lay fh F M S id st st1 e
      (hb e List.mem_cons_self) h1 r hr hi
    exact ih st1 (fun e' h' => hb e' (List.mem_cons_of_mem _ h')) h2 r1 hr1 hi1

theorem segStep_complete_mono (cfg : Config) (isStack : Nat → Bool) (secs : Nat → Sec) (lay : Nat → Rec) (fh : Nat)
    (st st' : SegState) (e : Event) (hs : segStep cfg isStack secs lay fh st e = .ok st') :
    ∀ r ∈ st.complete, r ∈ st'.complete := by
  intro r hr
  cases e with
  | setLoc a => simp only [segStep, Except.ok.injEq] at hs; subst hs; exact hr
  | segStart j => simp only [segStep, Except.ok.injEq] at hs; subst hs; exact hr
  | segEnd j =>
    simp only [segStep] at hs
    split at hs
    · cases hs
    · simp only [Except.ok.injEq] at hs; subst hs; exact List.mem_append_left _ hr
  | «section» sid =>
    simp only [segStep] at hs
    repeat' split at hs
    all_goals (cases hs; try exact hr)

theorem segLoop_complete_mono (cfg : Config) (isStack : Nat → Bool) (secs : Nat → Sec) (lay : Nat → Rec) (fh : Nat)
    (es : List Event) (st st' : SegState) (hs : segLoop cfg isStack secs lay fh st es = .ok st') :
    ∀ r ∈ st.complete, r ∈ st'.complete := by
  induction es generalizing st with
  | nil => simp only [segLoop, Except.ok.injEq] at hs; subst hs; exact fun r h => h
  | cons e es ih =>
    obtain ⟨st1, h1, h2⟩ := (segLoop_cons_ok ..).1 hs
    intro r hr
    exact ih st1 h2 r (segStep_complete_mono cfg isStack secs lay fh st st1 e h1 r hr)

/-- **The record completed for a LOAD run.** If the event list is `pre ++ SegmentStart id :: body ++ SegmentEnd id
:: post`, `id` is not the stack segment, and inside `body` neither `id` is started/ended again nor a section
layout is off the displacement `(F, M)`, then `compute_segment_layout`'s main loop completes a record for `id`
whose start pair is good-or-top and whose alignment is `≤ S`. -/
theorem segLoop_region (cfg : Config) (isStack : Nat → Bool) (secs : Nat → Sec) (lay : Nat → Rec) (fh : Nat)
    (F M S id : Nat) (pre body post : List Event) (stf : SegState) (hstack : isStack id = false)
    (hb : ∀ e ∈ body, SegBodyOk F M S id lay e)
    (hs : segLoop cfg isStack secs lay fh ⟨[], []⟩ (pre ++ Event.segStart id :: (body ++ Event.segEnd id :: post)) = .ok stf) :
    ∃ r ∈ stf.complete, r.id = id ∧ RecInv F M S r := by
  obtain ⟨st0, _, h1⟩ := (segLoop_append_ok ..).1 hs
  obtain ⟨st1, h2, h3⟩ := (segLoop_cons_ok ..).1 h1
  obtain ⟨st2, h4, h5⟩ := (segLoop_append_ok ..).1 h3
  obtain ⟨st3, h6, h7⟩ := (segLoop_cons_ok ..).1 h5
  simp only [segStep, hstack, Bool.false_eq_true, if_false, Except.ok.injEq] at h2
  have hcur1 : cur id st1 = some ⟨id, u64Max, 0, u64Max, 0, 0⟩ := by
    subst h2
    unfold cur
    rw [List.find?_append, find?_filter_self]
    simp
  have hinv1 : RecInv F M S ⟨id, u64Max, 0, u64Max, 0, 0⟩ := ⟨Or.inl ⟨rfl, rfl⟩, Nat.zero_le _⟩
  obtain ⟨r, hr, hi⟩ := segLoop_track cfg isStack secs lay fh F M S id body st1 st2 hb h4 _ hcur1 hinv1
  have hid : r.id = id := by
    unfold cur at hr
    have := List.find?_some hr
    simpa using this
  simp only [segStep] at h6
  unfold cur at hr
  rw [hr] at h6
  simp only [Except.ok.injEq] at h6
  have hmem : r ∈ st3.complete := by subst h6; simp
  exact ⟨r, segLoop_complete_mono cfg isStack secs lay fh post st3 stf h7 r hmem, hid, hi⟩

/-- A good-or-top record is congruent modulo every power of two up to `2^S`. -/
theorem RecInv.congruent {F M S : Nat} {r : SegRec} (h : RecInv F M S r) (hFM : F % 2 ^ S = M % 2 ^ S)
    (e : Nat) (he : e ≤ S) : r.fileStart % 2 ^ e = r.memStart % 2 ^ e := by
  rcases h.1 with ⟨h1, h2⟩ | ⟨h1, _, _⟩
  · rw [h1, h2]
  · exact (cong_of_disp (Nat.two_pow_pos e) h1 (mod_pow_of_mod_pow he hFM)).symm

/-! ### Gluing the two passes -/

def secId (e : Event) : Option Nat :=
  match e with
  | .section sid => some sid
  | _ => none

theorem layoutWalk_cons_none (cfg : Config) (il : Nat → Bool) (sa : List (Nat × Nat)) (secs : Nat → Sec)
    (c : Cursor) (e : Event) (es : List Event) (h : (layoutStep cfg il sa secs c e).2 = none) :
    layoutWalk cfg il sa secs c (e :: es) = layoutWalk cfg il sa secs (layoutStep cfg il sa secs c e).1 es := by
  simp only [layoutWalk, h]

theorem layoutStep_key (cfg : Config) (il : Nat → Bool) (sa : List (Nat × Nat)) (secs : Nat → Sec)
    (c : Cursor) (e : Event) : (layoutStep cfg il sa secs c e).2.map (·.1) = secId e := by
  cases e with
  | setLoc a => rfl
  | segEnd j => rfl
  | segStart j =>
    simp only [layoutStep, secId]
    split
    · split <;> rfl
    · rfl
  | «section» sid => rfl

theorem layoutWalk_keys (cfg : Config) (il : Nat → Bool) (sa : List (Nat × Nat)) (secs : Nat → Sec)
    (c : Cursor) (es : List Event) :
    (layoutWalk cfg il sa secs c es).2.map (·.1) = es.filterMap secId := by
  induction es generalizing c with
  | nil => rfl
  | cons e es ih =>
    simp only [layoutWalk]
    have hk := layoutStep_key cfg il sa secs c e
    cases ho : (layoutStep cfg il sa secs c e).2 with
    | none =>
      rw [ho] at hk
      simp only [Option.map_none] at hk
      rw [List.filterMap_cons_none hk.symm]
      exact ih _
    | some pr =>
      rw [ho] at hk
      simp only [Option.map_some] at hk
      rw [List.filterMap_cons_some hk.symm]
      simp only [List.map_cons, ih]

theorem lookup_of_mem_nodup {β : Type} (l : List (Nat × β)) (k : Nat) (v : β)
    (hnd : (l.map (·.1)).Nodup) (hm : (k, v) ∈ l) : l.lookup k = some v := by
  induction l with
  | nil => cases hm
  | cons a l ih =>
    obtain ⟨k', v'⟩ := a
    simp only [List.map_cons, List.nodup_cons] at hnd
    rcases List.mem_cons.1 hm with h | h
    · injection h with h1 h2; subst h1; subst h2; simp [List.lookup_cons]
    · have hne : k ≠ k' := by
        intro heq; subst heq
        exact hnd.1 (List.mem_map.2 ⟨(k, v), h, rfl⟩)
      have : (k == k') = false := by simpa using hne
      simp only [List.lookup_cons, this]
      exact ih hnd.2 h

/-- the section layouts that `layout_sections` derives from the part records -/
def layOf (secs : Nat → Sec) (parts : List (Nat × List Rec)) (sid : Nat) : Rec :=
  sectionLayout (secs sid).minAlign ((parts.lookup sid).getD [])

theorem minAlign_le_maxAlignment (s : Sec) : s.minAlign ≤ maxAlignment s := by
  unfold maxAlignment; exact Nat.le_max_right _ _

/-- **C04 `load_congruent` over the whole event walk** (composition of `load_start_congruent`,
`load_run_displacement`, `hull_congruent`). Let the event list be
`pre ++ SegmentStart id :: body ++ SegmentEnd id :: post` with `id` a LOAD segment (not the stack segment), let
`S` be the alignment exponent `compute_segment_alignments` assigns to `id`. Hypotheses:
* `hp` executable / shared object (not `-r`);
* `hbody` inside the run (`bodyOk`): no other LOAD segment starts, every section is allocated, has file contents
  (`hasData`; necessary, see `load_offsets_witness`), has no user location, and `max_alignment ≤ S`; `id` itself
  is not started or ended again;
* `hpage` `page ≤ S` (both this and `max_alignment ≤ S` are what `compute_segment_alignments` is meant to
  establish; they are hypotheses here);
* `hnodup` every section id occurs in at most one `Section` event;
* `hfits` no part offset exceeds `u64::MAX` (the standing no-overflow hypothesis of the `Nat` model);
* `hs` the main loop of `compute_segment_layout` succeeds on the section layouts derived from the parts.
Then the loop completes a record for `id`, and that record satisfies
`p_offset % p_align = p_vaddr % p_align` with `p_align = 2^max(record alignment, page)` (`phdrAlign`). -/
theorem load_segment_congruent (cfg : Config) (il isStack : Nat → Bool) (secs : Nat → Sec) (fh id : Nat)
    (pre body post : List Event) (stf : SegState)
    (hp : cfg.partialObj = false) (hl : il id = true) (hstack : isStack id = false)
    (hpage : cfg.page ≤ ((segmentAlignments il secs cfg.page
      (pre ++ Event.segStart id :: (body ++ Event.segEnd id :: post))).lookup id).getD cfg.page)
    (hbody : ∀ e ∈ body, bodyOk il secs (((segmentAlignments il secs cfg.page
        (pre ++ Event.segStart id :: (body ++ Event.segEnd id :: post))).lookup id).getD cfg.page) e = true ∧
      e ≠ Event.segStart id ∧ e ≠ Event.segEnd id)
    (hnodup : ((pre ++ Event.segStart id :: (body ++ Event.segEnd id :: post)).filterMap secId).Nodup)
    (hfits : ∀ r ∈ allRecs (layoutParts cfg il secs (pre ++ Event.segStart id :: (body ++ Event.segEnd id :: post))),
      r.fileOff ≤ u64Max ∧ r.memOff ≤ u64Max)
    (hs : segLoop cfg isStack secs
      (layOf secs (layoutParts cfg il secs (pre ++ Event.segStart id :: (body ++ Event.segEnd id :: post)))) fh
      ⟨[], []⟩ (pre ++ Event.segStart id :: (body ++ Event.segEnd id :: post)) = .ok stf) :
    ∃ r ∈ stf.complete, r.id = id ∧
      r.fileStart % 2 ^ (max r.align cfg.page) = r.memStart % 2 ^ (max r.align cfg.page) := by
  generalize hevs : pre ++ Event.segStart id :: (body ++ Event.segEnd id :: post) = evs at *
  generalize hsa : segmentAlignments il secs cfg.page evs = sa at *
  generalize hS : (sa.lookup id).getD cfg.page = S at *
  -- the walk, split at the LOAD start
  obtain ⟨c0, hc0⟩ : ∃ c0, (layoutWalk cfg il sa secs { file := 0, mem := cfg.base, pending := none } pre).1 = c0 :=
    ⟨_, rfl⟩
  obtain ⟨c1, hc1⟩ : ∃ c1, (layoutStep cfg il sa secs c0 (Event.segStart id)).1 = c1 := ⟨_, rfl⟩
  have hFM : c1.file % 2 ^ S = c1.mem % 2 ^ S := by
    have := load_start_congruent cfg il sa secs c0 id hl
    rw [hS, hc1] at this; exact this
  have hreg := region_displacement cfg il sa secs S c1.file c1.mem hp hFM body c1 (Nat.add_comm _ _)
    (fun e he => (hbody e he).1)
  have hparts : layoutParts cfg il secs evs =
      (layoutWalk cfg il sa secs { file := 0, mem := cfg.base, pending := none } pre).2 ++
      ((layoutWalk cfg il sa secs c1 body).2 ++
        (layoutWalk cfg il sa secs (layoutWalk cfg il sa secs c1 body).1 (Event.segEnd id :: post)).2) := by
    have hnone : (layoutStep cfg il sa secs c0 (Event.segStart id)).2 = none := by
      simp only [layoutStep, hl, if_true]; split <;> rfl
    unfold layoutParts
    simp only [hsa]
    rw [← hevs, layoutWalk_append]
    simp only [hc0]
    rw [layoutWalk_cons_none cfg il sa secs c0 _ _ hnone, hc1, layoutWalk_append]
  have hkeys : ((layoutParts cfg il secs evs).map (·.1)).Nodup := by
    unfold layoutParts
    rw [layoutWalk_keys]; exact hnodup
  -- every section of the body has a good-or-top layout
  have hlay : ∀ e ∈ body, SegBodyOk c1.file c1.mem S id (layOf secs (layoutParts cfg il secs evs)) e := by
    intro e he
    obtain ⟨hok, hne1, hne2⟩ := hbody e he
    refine ⟨hne1, hne2, ?_⟩
    intro sid hsid
    subst hsid
    have hmemk : sid ∈ ((layoutWalk cfg il sa secs c1 body).2.map (·.1)) := by
      rw [layoutWalk_keys]
      exact List.mem_filterMap.2 ⟨_, he, rfl⟩
    obtain ⟨pr, hpr, hprk⟩ := List.mem_map.1 hmemk
    obtain ⟨k, rs⟩ := pr
    simp only at hprk
    subst hprk
    have hin : (k, rs) ∈ layoutParts cfg il secs evs := by
      rw [hparts]; exact List.mem_append_right _ (List.mem_append_left _ hpr)
    have hlook := lookup_of_mem_nodup _ k rs hkeys hin
    unfold layOf
    rw [hlook]
    simp only [Option.getD_some]
    simp only [bodyOk, Bool.and_eq_true, decide_eq_true_eq] at hok
    apply sectionLayout_good c1.file c1.mem S _ rs (Nat.le_trans (minAlign_le_maxAlignment _) hok.2)
    intro r hr
    refine ⟨hreg.1 (k, rs) hpr r hr, ?_⟩
    apply hfits r
    unfold allRecs
    exact List.mem_flatMap.2 ⟨(k, rs), hin, hr⟩
  rw [← hevs] at hs
  obtain ⟨r, hr, hid, hinv⟩ := segLoop_region cfg isStack secs _ fh c1.file c1.mem S id pre body post stf hstack
    (by rw [hevs]; exact hlay) hs
  refine ⟨r, hr, hid, ?_⟩
  exact hinv.congruent hFM _ (Nat.max_le.2 ⟨hinv.2, hpage⟩)

/-! ### `compute_segment_alignments` dominates the page size and every section of the run -/

theorem lookup_map_val (g : Nat → Nat → Nat) (id : Nat) (t : List (Nat × Nat)) :
    (t.map (fun p => (p.1, g p.1 p.2))).lookup id = (t.lookup id).map (g id) := by
  induction t with
  | nil => rfl
  | cons a t ih =>
    obtain ⟨k, v⟩ := a
    simp only [List.map_cons, List.lookup_cons]
    by_cases h : id = k
    · subst h; simp
    · have : (id == k) = false := by simpa using h
      simp only [this, ih]

theorem segAlignStep_section (il : Nat → Bool) (secs : Nat → Sec) (page : Nat) (st : List (Nat × Nat) × List Nat)
    (sid : Nat) :
    segAlignStep il secs page st (.section sid) =
      (st.1.map (fun p => (p.1, if st.2.contains p.1 then max p.2 (maxAlignment (secs sid)) else p.2)), st.2) := by
  simp only [segAlignStep]
  congr 1
  apply List.map_congr_left
  intro p _
  obtain ⟨k, v⟩ := p
  simp only
  split <;> rfl

/-- entries never decrease -/
theorem segAlignStep_mono (il : Nat → Bool) (secs : Nat → Sec) (page : Nat) (st : List (Nat × Nat) × List Nat)
    (e : Event) (id v : Nat) (h : st.1.lookup id = some v) :
    ∃ v', (segAlignStep il secs page st e).1.lookup id = some v' ∧ v ≤ v' := by
  cases e with
  | setLoc a => exact ⟨v, h, Nat.le_refl _⟩
  | segEnd j => exact ⟨v, h, Nat.le_refl _⟩
  | segStart j =>
    simp only [segAlignStep]
    split
    · split
      · exact ⟨v, h, Nat.le_refl _⟩
      · exact ⟨v, by simp [List.lookup_append, h], Nat.le_refl _⟩
    · exact ⟨v, h, Nat.le_refl _⟩
  | «section» sid =>
    rw [segAlignStep_section]
    simp only [lookup_map_val (fun k a => if st.2.contains k then max a (maxAlignment (secs sid)) else a), h,
      Option.map_some]
    refine ⟨_, rfl, ?_⟩
    split
    · exact Nat.le_max_left _ _
    · exact Nat.le_refl _

theorem segAlign_fold_mono (il : Nat → Bool) (secs : Nat → Sec) (page : Nat) (es : List Event)
    (st : List (Nat × Nat) × List Nat) (id v : Nat) (h : st.1.lookup id = some v) :
    ∃ v', (es.foldl (segAlignStep il secs page) st).1.lookup id = some v' ∧ v ≤ v' := by
  induction es generalizing st v with
  | nil => exact ⟨v, h, Nat.le_refl _⟩
  | cons e es ih =>
    obtain ⟨v1, h1, hle1⟩ := segAlignStep_mono il secs page st e id v h
    obtain ⟨v2, h2, hle2⟩ := ih _ v1 h1
    exact ⟨v2, h2, Nat.le_trans hle1 hle2⟩

/-- all entries are at least the page exponent -/
def AllGe (page : Nat) (t : List (Nat × Nat)) : Prop := ∀ k v, t.lookup k = some v → page ≤ v

theorem segAlignStep_allGe (il : Nat → Bool) (secs : Nat → Sec) (page : Nat) (st : List (Nat × Nat) × List Nat)
    (e : Event) (h : AllGe page st.1) : AllGe page (segAlignStep il secs page st e).1 := by
  cases e with
  | setLoc a => exact h
  | segEnd j => exact h
  | segStart j =>
    simp only [segAlignStep]
    split
    · split
      · exact h
      · intro k v hk
        simp only [List.lookup_append] at hk
        cases hl : st.1.lookup k with
        | some w => rw [hl] at hk; simp at hk; subst hk; exact h k w hl
        | none =>
          rw [hl] at hk
          simp only [Option.none_or, List.lookup_cons, List.lookup_nil] at hk
          split at hk
          · injection hk with hk; omega
          · cases hk
    · exact h
  | «section» sid =>
    rw [segAlignStep_section]
    intro k v hk
    simp only [lookup_map_val (fun k a => if st.2.contains k then max a (maxAlignment (secs sid)) else a)] at hk
    cases hl : st.1.lookup k with
    | none => rw [hl] at hk; cases hk
    | some w =>
      rw [hl] at hk
      simp only [Option.map_some, Option.some.injEq] at hk
      have := h k w hl
      split at hk <;> omega

theorem segAlign_fold_allGe (il : Nat → Bool) (secs : Nat → Sec) (page : Nat) (es : List Event)
    (st : List (Nat × Nat) × List Nat) (h : AllGe page st.1) :
    AllGe page (es.foldl (segAlignStep il secs page) st).1 := by
  induction es generalizing st with
  | nil => exact h
  | cons e es ih => exact ih _ (segAlignStep_allGe il secs page st e h)

/-- while `id` is active and not ended, it stays active and keeps an entry -/
theorem segAlign_fold_active (il : Nat → Bool) (secs : Nat → Sec) (page : Nat) (id : Nat) (es : List Event)
    (st : List (Nat × Nat) × List Nat) (hne : ∀ e ∈ es, e ≠ Event.segEnd id) (hact : id ∈ st.2) :
    id ∈ (es.foldl (segAlignStep il secs page) st).2 := by
  induction es generalizing st with
  | nil => exact hact
  | cons e es ih =>
    apply ih _ (fun e' h' => hne e' (List.mem_cons_of_mem _ h'))
    have he := hne e List.mem_cons_self
    cases e with
    | setLoc a => exact hact
    | segEnd j =>
      simp only [segAlignStep, List.mem_filter]
      refine ⟨hact, ?_⟩
      have : id ≠ j := fun h => he (by rw [h])
      simpa using this
    | segStart j =>
      simp only [segAlignStep]
      split
      · exact List.mem_append_left _ hact
      · exact hact
    | «section» sid => rw [segAlignStep_section]; exact hact

/-- **`compute_segment_alignments` establishes the two alignment hypotheses of `load_segment_congruent`.** -/
theorem segmentAlignments_ge (il : Nat → Bool) (secs : Nat → Sec) (page id : Nat) (pre body rest : List Event)
    (hl : il id = true) (hne : ∀ e ∈ body, e ≠ Event.segEnd id) :
    let S := ((segmentAlignments il secs page (pre ++ Event.segStart id :: (body ++ rest))).lookup id).getD page
    page ≤ S ∧ ∀ sid, Event.section sid ∈ body → maxAlignment (secs sid) ≤ S := by
  intro S
  have hS : S = ((((body ++ rest).foldl (segAlignStep il secs page)
      (segAlignStep il secs page (pre.foldl (segAlignStep il secs page) ([], [])) (Event.segStart id))).1).lookup
        id).getD page := by
    show ((segmentAlignments il secs page _).lookup id).getD page = _
    unfold segmentAlignments
    rw [List.foldl_append, List.foldl_cons]
  generalize hst0 : pre.foldl (segAlignStep il secs page) ([], []) = st0 at hS
  have hge0 : AllGe page st0.1 := by
    rw [← hst0]; exact segAlign_fold_allGe il secs page pre _ (by intro k v h; cases h)
  generalize hst1 : segAlignStep il secs page st0 (Event.segStart id) = st1 at hS
  have hge1 : AllGe page st1.1 := by rw [← hst1]; exact segAlignStep_allGe il secs page st0 _ hge0
  have hact1 : id ∈ st1.2 := by
    rw [← hst1]; simp only [segAlignStep, hl, if_true]; simp
  obtain ⟨v1, hv1⟩ : ∃ v1, st1.1.lookup id = some v1 := by
    rw [← hst1]; simp only [segAlignStep, hl, if_true]
    split
    · rename_i h; exact Option.isSome_iff_exists.1 h
    · rename_i h
      have hnone : st0.1.lookup id = none := by
        cases hlk : st0.1.lookup id with
        | none => rfl
        | some w => rw [hlk] at h; simp at h
      exact ⟨page, by simp [List.lookup_append, hnone]⟩
  constructor
  · obtain ⟨v, hv, hle⟩ := segAlign_fold_mono il secs page (body ++ rest) st1 id v1 hv1
    rw [hS, hv]; simp only [Option.getD_some]
    exact Nat.le_trans (hge1 id v1 hv1) hle
  · intro sid hsid
    obtain ⟨b1, b2, hb⟩ := List.append_of_mem hsid
    rw [hS, hb, List.append_assoc, List.foldl_append, List.cons_append, List.foldl_cons]
    have hne1 : ∀ e ∈ b1, e ≠ Event.segEnd id := fun e he => hne e (by rw [hb]; exact List.mem_append_left _ he)
    have hact2 := segAlign_fold_active il secs page id b1 st1 hne1 hact1
    obtain ⟨v2, hv2, _⟩ := segAlign_fold_mono il secs page b1 st1 id v1 hv1
    generalize b1.foldl (segAlignStep il secs page) st1 = st2 at hact2 hv2
    have hv3 : (segAlignStep il secs page st2 (Event.section sid)).1.lookup id =
        some (max v2 (maxAlignment (secs sid))) := by
      rw [segAlignStep_section]
      simp only [lookup_map_val (fun k a => if st2.2.contains k then max a (maxAlignment (secs sid)) else a), hv2,
        Option.map_some]
      have : st2.2.contains id = true := by simpa using hact2
      rw [if_pos this]
    obtain ⟨v4, hv4, hle4⟩ := segAlign_fold_mono il secs page (b2 ++ rest) _ id _ hv3
    rw [hv4]; simp only [Option.getD_some]
    exact Nat.le_trans (Nat.le_max_right _ _) hle4

/-- `bodyOk` without the alignment clause (which `segmentAlignments_ge` supplies). -/
def bodyOk0 (il : Nat → Bool) (secs : Nat → Sec) (e : Event) : Bool :=
  match e with
  | .segStart j => !il j
  | .section sid => (secs sid).alloc && (secs sid).hasData && (secs sid).loc.isNone
  | _ => true

theorem bodyOk_of_bodyOk0 (il : Nat → Bool) (secs : Nat → Sec) (S : Nat) (e : Event)
    (h0 : bodyOk0 il secs e = true) (hS : ∀ sid, e = Event.section sid → maxAlignment (secs sid) ≤ S) :
    bodyOk il secs S e = true := by
  cases e with
  | «section» sid =>
    simp only [bodyOk0] at h0
    simp only [bodyOk, h0, Bool.true_and, decide_eq_true_eq]
    exact hS sid rfl
  | segStart j => exact h0
  | segEnd j => rfl
  | setLoc a => rfl

/-- **C04 `load_congruent` over the whole event walk, alignment hypotheses discharged.**
`load_segment_congruent` with `page ≤ S` and `max_alignment ≤ S` derived from the model of
`compute_segment_alignments` (`segmentAlignments_ge`). Remaining hypotheses: not `-r`; `id` is a LOAD and not
the stack segment; inside the run no other LOAD starts, `id` is not started/ended again, every section is
allocated, has file contents and no user location; section ids are not repeated; no offset exceeds `u64::MAX`;
the main loop of `compute_segment_layout` succeeds. -/
theorem load_segment_congruent_all (cfg : Config) (il isStack : Nat → Bool) (secs : Nat → Sec) (fh id : Nat)
    (pre body post : List Event) (stf : SegState)
    (hp : cfg.partialObj = false) (hl : il id = true) (hstack : isStack id = false)
    (hbody : ∀ e ∈ body, bodyOk0 il secs e = true ∧ e ≠ Event.segStart id ∧ e ≠ Event.segEnd id)
    (hnodup : ((pre ++ Event.segStart id :: (body ++ Event.segEnd id :: post)).filterMap secId).Nodup)
    (hfits : ∀ r ∈ allRecs (layoutParts cfg il secs (pre ++ Event.segStart id :: (body ++ Event.segEnd id :: post))),
      r.fileOff ≤ u64Max ∧ r.memOff ≤ u64Max)
    (hs : segLoop cfg isStack secs
      (layOf secs (layoutParts cfg il secs (pre ++ Event.segStart id :: (body ++ Event.segEnd id :: post)))) fh
      ⟨[], []⟩ (pre ++ Event.segStart id :: (body ++ Event.segEnd id :: post)) = .ok stf) :
    ∃ r ∈ stf.complete, r.id = id ∧
      r.fileStart % 2 ^ (max r.align cfg.page) = r.memStart % 2 ^ (max r.align cfg.page) := by
  have hge := segmentAlignments_ge il secs cfg.page id pre body (Event.segEnd id :: post) hl
    (fun e he => (hbody e he).2.2)
  exact load_segment_congruent cfg il isStack secs fh id pre body post stf hp hl hstack hge.1
    (fun e he => ⟨bodyOk_of_bodyOk0 il secs _ e (hbody e he).1
      (fun sid hsid => hge.2 sid (by rw [← hsid]; exact he)), (hbody e he).2⟩)
    hnodup hfits hs

/-! ### The records returned by `compute_segment_layout` -/

theorem mem_insertBy {α : Type} (key : α → Nat × Nat) (x y : α) (l : List α) :
    y ∈ insertBy key x l ↔ y = x ∨ y ∈ l := by
  induction l with
  | nil => simp [insertBy]
  | cons a l ih =>
    simp only [insertBy]
    split
    · simp
    · simp only [List.mem_cons, ih]
      constructor
      · rintro (h | h | h)
        · exact Or.inr (Or.inl h)
        · exact Or.inl h
        · exact Or.inr (Or.inr h)
      · rintro (h | h | h)
        · exact Or.inr (Or.inl h)
        · exact Or.inl h
        · exact Or.inr (Or.inr h)

theorem mem_sortBy {α : Type} (key : α → Nat × Nat) (y : α) (l : List α) : y ∈ sortBy key l ↔ y ∈ l := by
  unfold sortBy
  have key' : ∀ (l acc : List α), y ∈ l.foldl (fun acc x => insertBy key x acc) acc ↔ y ∈ acc ∨ y ∈ l := by
    intro l
    induction l with
    | nil => intro acc; simp
    | cons a l ih =>
      intro acc
      simp only [List.foldl_cons, ih, mem_insertBy, List.mem_cons]
      constructor
      · rintro ((h | h) | h)
        · exact Or.inr (Or.inl h)
        · exact Or.inl h
        · exact Or.inr (Or.inr h)
      · rintro (h | h | h)
        · exact Or.inl (Or.inr h)
        · exact Or.inl (Or.inl h)
        · exact Or.inr h
  simpa using key' l []

/-- Every `SegmentLayout` returned by `compute_segment_layout` is the (start, size, alignment) view of a record
completed by its main loop (or of the all-zero default record when the id is out of range). -/
theorem segmentLayout_records (cfg : Config) (segKey : Nat → Nat) (isStack : Nat → Bool) (nSegs : Nat)
    (secs : Nat → Sec) (lay : Nat → Rec) (fh : Nat) (activeIds : List Nat) (evs : List Event)
    (out : List (Nat × Rec))
    (h : segmentLayout cfg segKey isStack nSegs secs lay fh activeIds evs = .ok out) (hne : out ≠ []) :
    ∃ stf, segLoop cfg isStack secs lay fh ⟨[], []⟩ evs = .ok stf ∧
      ∀ p ∈ out, ∃ r, (r ∈ stf.complete ∨ r = default) ∧
        p.2.fileOff = r.fileStart ∧ p.2.memOff = r.memStart ∧ p.2.align = r.align := by
  unfold segmentLayout at h
  split at h
  · simp only [Except.ok.injEq] at h; exact absurd h.symm hne
  · split at h
    · cases h
    · rename_i stf hstf
      refine ⟨stf, hstf, ?_⟩
      simp only at h
      split at h
      · cases h
      · simp only [Except.ok.injEq] at h
        subst h
        intro p hp
        rw [mem_sortBy] at hp
        obtain ⟨id, _, rfl⟩ := List.mem_map.1 hp
        refine ⟨(sortBy (fun r => (r.id, 0)) stf.complete).getD id default, ?_, rfl, rfl, rfl⟩
        rw [List.getD_eq_getElem?_getD]
        cases hg : (sortBy (fun r => (r.id, 0)) stf.complete)[id]? with
        | none => right; rfl
        | some r =>
          left
          exact (mem_sortBy _ r _).1 (List.mem_of_getElem? hg)

/-- Non-vacuity of `load_segment_congruent`: one LOAD segment with two sections (alignments 16 and 64); all
hypotheses hold and the main loop of `compute_segment_layout` succeeds. -/
example :
    let cfg : Config := ⟨false, 0x400000, 12, 0, 99⟩
    let il : Nat → Bool := fun id => id == 0
    let secs : Nat → Sec := fun sid =>
      if sid = 0 then { (default : Sec) with alloc := true, hasData := true, parts := [⟨4, 0x30⟩] }
      else { (default : Sec) with alloc := true, hasData := true, parts := [⟨6, 0x100⟩] }
    let body : List Event := [.section 0, .section 1]
    let evs : List Event := [] ++ Event.segStart 0 :: (body ++ Event.segEnd 0 :: [])
    let S := ((segmentAlignments il secs cfg.page evs).lookup 0).getD cfg.page
    cfg.page ≤ S ∧
    (∀ e ∈ body, bodyOk il secs S e = true ∧ e ≠ Event.segStart 0 ∧ e ≠ Event.segEnd 0) ∧
    (evs.filterMap secId).Nodup ∧
    (∀ r ∈ allRecs (layoutParts cfg il secs evs), r.fileOff ≤ u64Max ∧ r.memOff ≤ u64Max) ∧
    (segLoop cfg (fun _ => false) secs (layOf secs (layoutParts cfg il secs evs)) 7 ⟨[], []⟩ evs).toBool = true := by
  decide

/-! ## Summary -/

/-- The property at full strength on the model: the conclusions below for ALL inputs, without the three
hypotheses. It is false (in the model and in wild). -/
def C04_full : Prop :=
  ∀ (cfg : Config) (il : Nat → Bool) (secs : Nat → Sec) (evs : List Event), cfg.partialObj = false →
    (allocRecs secs (layoutParts cfg il secs evs)).Pairwise (fun a b => a.memOff + a.memSize ≤ b.memOff)

theorem C04_full_witness : ¬ C04_full := by
  intro h
  exact parts_disjoint_mem_witness (h ⟨false, 0, 12, 0, 99⟩ (fun _ => false) _ [.section 0, .section 1] rfl)

/-- **C04, the part that holds for all inputs** (gaps: (1) memory disjointness needs `locsForward` — user
locations never move the address backwards; (2) equal file/address displacement inside a LOAD needs `hasData` —
no NOBITS section before a section with contents in the same LOAD; (3) PT_TLS start alignment does not hold;
(4) well-bracketing of the event list is proved separately: `order_wellbracketed`; (5) the LOAD congruence over a
whole run is `load_segment_congruent`, under the hypotheses listed there). -/
theorem C04_partial :
    (∀ cfg il secs evs, ∀ r ∈ allRecs (layoutParts cfg il secs evs), RecAligned r) ∧
    (∀ cfg il secs evs, (allRecs (layoutParts cfg il secs evs)).Pairwise (fun a b => a.fileOff + a.fileSize ≤ b.fileOff)) ∧
    (∀ (cfg : Config) il secs evs, cfg.partialObj = false →
      locsForward cfg il (segmentAlignments il secs cfg.page evs) secs { file := 0, mem := cfg.base, pending := none } evs = true →
      (allocRecs secs (layoutParts cfg il secs evs)).Pairwise (fun a b => a.memOff + a.memSize ≤ b.memOff)) ∧
    noWxB elfDefs = true :=
  ⟨parts_aligned, parts_disjoint_file, parts_disjoint_mem, no_wx_load.1⟩

-- Non-vacuity: a forward location satisfies the hypothesis of `parts_disjoint_mem`.
example : locsForward ⟨false, 0x400000, 12, 0, 99⟩ (fun _ => true) [] 
    (fun sid => if sid = 0 then { (default : Sec) with alloc := true, hasData := true, parts := [⟨4, 0x30⟩] }
                else { (default : Sec) with alloc := true, hasData := true, loc := some 0x800000, parts := [⟨0, 0x100⟩] })
    { file := 0, mem := 0x400000, pending := none } [.segStart 0, .section 0, .section 1, .segEnd 0] = true := by
  decide

end Wild.Layout
