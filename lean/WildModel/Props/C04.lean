import WildModel.Model.Layout
import WildModel.Model.LayoutCheck
import WildModel.Props.C29
/-!
# C04 — Output ELF files are structurally well-formed

Theorems over the layout model (`Model/Layout.lean`), for ALL section lists / sizes / alignments / page
sizes / locations (numbers are naturals: "no overflow of the 64-bit address space" is the standing hypothesis
under which the `Nat` model describes the `u64` code; the bridge lemmas below make that precise for the two
alignment kernels).
-/
namespace Wild.Layout

/-! ## Alignment kernels on naturals -/

theorem alignUpN_ge (e v : Nat) : v ≤ alignUpN e v := by
  unfold alignUpN; split <;> omega

theorem alignUpN_mod (e v : Nat) : alignUpN e v % 2 ^ e = 0 := by
  unfold alignUpN
  have hpos : 0 < 2 ^ e := Nat.two_pow_pos e
  split
  · assumption
  · have hlt : v % 2 ^ e < 2 ^ e := Nat.mod_lt _ hpos
    have hdm := Nat.div_add_mod v (2 ^ e)
    have : v + (2 ^ e - v % 2 ^ e) = 2 ^ e * (v / 2 ^ e + 1) := by
      rw [Nat.mul_add, Nat.mul_one]; omega
    rw [this]; exact Nat.mul_mod_right _ _

theorem alignUpN_lt (e v : Nat) : alignUpN e v < v + 2 ^ e := by
  unfold alignUpN
  have hpos : 0 < 2 ^ e := Nat.two_pow_pos e
  split <;> omega

/-- **`alignUpN` is the least multiple of `2^e` that is `≥ v`.** -/
theorem alignUpN_spec (e v : Nat) : Wild.Align.IsLeastMultipleGE (2 ^ e) v (alignUpN e v) := by
  have hpos : 0 < 2 ^ e := Nat.two_pow_pos e
  apply Wild.Align.least_of_close hpos
  · exact Nat.dvd_of_mod_eq_zero (alignUpN_mod e v)
  · exact alignUpN_ge e v
  · have := alignUpN_lt e v; have := alignUpN_ge e v; omega

theorem alignUpN_of_aligned (e v : Nat) (h : v % 2 ^ e = 0) : alignUpN e v = v := by
  unfold alignUpN; rw [if_pos h]

/-- Aligning to a coarser-or-equal power of two preserves residues modulo a finer one: if `a ≤ S` and
`x ≡ y (mod 2^S)` then `alignUpN a` advances both by the same amount. -/
theorem alignUpN_delta (a x y : Nat) (h : x % 2 ^ a = y % 2 ^ a) :
    alignUpN a x + y = alignUpN a y + x := by
  unfold alignUpN
  rw [h]
  split <;> omega

theorem mod_pow_of_mod_pow {a S x y : Nat} (haS : a ≤ S) (h : x % 2 ^ S = y % 2 ^ S) :
    x % 2 ^ a = y % 2 ^ a := by
  have hd : 2 ^ a ∣ 2 ^ S := Nat.pow_dvd_pow 2 haS
  have hx := Nat.mod_mod_of_dvd x hd
  have hy := Nat.mod_mod_of_dvd y hd
  rw [← hx, ← hy, h]

/-- **`alignModuloN r o` is the least value `≥ alignUpN o` congruent to `r` modulo `2^e`.** -/
theorem alignModuloN_spec (e r o : Nat) :
    Wild.Align.IsLeastCongruentGE (2 ^ e) r (alignUpN e o) (alignModuloN e r o) := by
  have hpos : 0 < 2 ^ e := Nat.two_pow_pos e
  have hu := alignUpN_mod e o
  have hr : r % 2 ^ e < 2 ^ e := Nat.mod_lt _ hpos
  unfold alignModuloN
  simp only [hu]
  by_cases h0 : 0 = r % 2 ^ e
  · rw [if_pos h0]
    refine ⟨Nat.le_refl _, by rw [hu]; exact h0, fun x hx _ => hx⟩
  · rw [if_neg h0]
    have hadj : (if r % 2 ^ e + 2 ^ e - 0 > 2 ^ e then r % 2 ^ e + 2 ^ e - 0 - 2 ^ e else r % 2 ^ e + 2 ^ e - 0)
        = r % 2 ^ e := by
      split <;> omega
    rw [hadj]
    obtain ⟨k, hk⟩ := Nat.dvd_of_mod_eq_zero hu
    refine ⟨by omega, ?_, ?_⟩
    · rw [hk, Nat.mul_add_mod]; exact Nat.mod_mod _ _
    · intro x hx hxm
      have hdx := Nat.div_add_mod x (2 ^ e)
      rw [hxm] at hdx
      rw [hk] at hx ⊢
      apply Nat.le_of_not_gt
      intro hgt
      have hq : x / 2 ^ e < k := by
        apply Nat.lt_of_not_ge
        intro hge2
        have := Nat.mul_le_mul_left (2 ^ e) hge2
        omega
      have := Nat.mul_le_mul_left (2 ^ e) (Nat.succ_le_of_lt hq)
      rw [Nat.mul_succ] at this
      omega

theorem alignModuloN_ge (e r o : Nat) : o ≤ alignModuloN e r o := by
  have := (alignModuloN_spec e r o).1
  have := alignUpN_ge e o
  omega

theorem alignModuloN_mod (e r o : Nat) : alignModuloN e r o % 2 ^ e = r % 2 ^ e :=
  (alignModuloN_spec e r o).2.1

/-! ## Bridge to the `BitVec 64` kernels of C29 (`Model/Align.lean`, tied to `alignment.rs`) -/

theorem least_multiple_unique {a v u u' : Nat} (h : Wild.Align.IsLeastMultipleGE a v u)
    (h' : Wild.Align.IsLeastMultipleGE a v u') : u = u' :=
  Nat.le_antisymm (h.2.2 _ h'.1 h'.2.1) (h'.2.2 _ h.1 h.2.1)

/-- Outside the overflow region the `u64` `align_up` is the `Nat` model. -/
theorem alignUp_bridge (e : Nat) (he : e ≤ 16) (v : BitVec 64) (hno : v.toNat + 2 ^ e ≤ 2 ^ 64) :
    (Wild.Align.alignUp e v).toNat = alignUpN e v.toNat :=
  least_multiple_unique (Wild.Align.align_up_spec e he v hno) (alignUpN_spec e v.toNat)

/-- Outside the overflow region the `u64` `align_modulo` is the `Nat` model. -/
theorem alignModulo_bridge (e : Nat) (he : e ≤ 16) (r o : BitVec 64)
    (hno : o.toNat + 2 ^ e + 2 ^ e ≤ 2 ^ 64) :
    (Wild.Align.alignModulo e r o).toNat = alignModuloN e r.toNat o.toNat := by
  have h1 := Wild.Align.align_modulo_spec e he r o hno
  have h2 := alignModuloN_spec e r.toNat o.toNat
  rw [alignUp_bridge e he o (by omega)] at h1
  exact Nat.le_antisymm (h1.2.2 _ h2.1 h2.2.1) (h2.2.2 _ h1.1 h1.2.1)

end Wild.Layout
