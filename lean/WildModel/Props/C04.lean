import WildModel.Model.Layout
import WildModel.Model.LayoutCheck
import WildModel.Props.C29
/-!
# C04 — Output ELF files are structurally well-formed

Theorems over the layout model (`Model/Layout.lean`), for ALL section lists / sizes / alignments / page
sizes / locations (numbers are naturals: "no overflow of the 64-bit address space" is the standing hypothesis
under which the `Nat` model describes the `u64` code; the bridge lemmas below make that precise for the two
alignment kernels).
-/
namespace Wild.Layout

/-! ## Alignment kernels on naturals -/

theorem alignUpN_ge (e v : Nat) : v ≤ alignUpN e v := by
  unfold alignUpN; split <;> omega

theorem alignUpN_mod (e v : Nat) : alignUpN e v % 2 ^ e = 0 := by
  unfold alignUpN
  have hpos : 0 < 2 ^ e := Nat.two_pow_pos e
  split
  · assumption
  · have hlt : v % 2 ^ e < 2 ^ e := Nat.mod_lt _ hpos
    have hdm := Nat.div_add_mod v (2 ^ e)
    have : v + (2 ^ e - v % 2 ^ e) = 2 ^ e * (v / 2 ^ e + 1) := by
      rw [Nat.mul_add, Nat.mul_one]; omega
    rw [this]; exact Nat.mul_mod_right _ _

theorem alignUpN_lt (e v : Nat) : alignUpN e v < v + 2 ^ e := by
  unfold alignUpN
  have hpos : 0 < 2 ^ e := Nat.two_pow_pos e
  split <;> omega

/-- **`alignUpN` is the least multiple of `2^e` that is `≥ v`.** -/
theorem alignUpN_spec (e v : Nat) : Wild.Align.IsLeastMultipleGE (2 ^ e) v (alignUpN e v) := by
  have hpos : 0 < 2 ^ e := Nat.two_pow_pos e
  apply Wild.Align.least_of_close hpos
  · exact Nat.dvd_of_mod_eq_zero (alignUpN_mod e v)
  · exact alignUpN_ge e v
  · have := alignUpN_lt e v; have := alignUpN_ge e v; omega

theorem alignUpN_of_aligned (e v : Nat) (h : v % 2 ^ e = 0) : alignUpN e v = v := by
  unfold alignUpN; rw [if_pos h]

/-- Aligning to a coarser-or-equal power of two preserves residues modulo a finer one: if `a ≤ S` and
`x ≡ y (mod 2^S)` then `alignUpN a` advances both by the same amount. -/
theorem alignUpN_delta (a x y : Nat) (h : x % 2 ^ a = y % 2 ^ a) :
    alignUpN a x + y = alignUpN a y + x := by
  unfold alignUpN
  rw [h]
  split <;> omega

theorem mod_pow_of_mod_pow {a S x y : Nat} (haS : a ≤ S) (h : x % 2 ^ S = y % 2 ^ S) :
    x % 2 ^ a = y % 2 ^ a := by
  have hd : 2 ^ a ∣ 2 ^ S := Nat.pow_dvd_pow 2 haS
  have hx := Nat.mod_mod_of_dvd x hd
  have hy := Nat.mod_mod_of_dvd y hd
  rw [← hx, ← hy, h]

/-- **`alignModuloN r o` is the least value `≥ alignUpN o` congruent to `r` modulo `2^e`.** -/
theorem alignModuloN_spec (e r o : Nat) :
    Wild.Align.IsLeastCongruentGE (2 ^ e) r (alignUpN e o) (alignModuloN e r o) := by
  have hpos : 0 < 2 ^ e := Nat.two_pow_pos e
  have hu := alignUpN_mod e o
  have hr : r % 2 ^ e < 2 ^ e := Nat.mod_lt _ hpos
  unfold alignModuloN
  simp only [hu]
  by_cases h0 : 0 = r % 2 ^ e
  · rw [if_pos h0]
    refine ⟨Nat.le_refl _, by rw [hu]; exact h0, fun x hx _ => hx⟩
  · rw [if_neg h0]
    have hadj : (if r % 2 ^ e + 2 ^ e - 0 > 2 ^ e then r % 2 ^ e + 2 ^ e - 0 - 2 ^ e else r % 2 ^ e + 2 ^ e - 0)
        = r % 2 ^ e := by
      split <;> omega
    rw [hadj]
    obtain ⟨k, hk⟩ := Nat.dvd_of_mod_eq_zero hu
    refine ⟨by omega, ?_, ?_⟩
    · rw [hk, Nat.mul_add_mod]; exact Nat.mod_mod _ _
    · intro x hx hxm
      have hdx := Nat.div_add_mod x (2 ^ e)
      rw [hxm] at hdx
      rw [hk] at hx ⊢
      apply Nat.le_of_not_gt
      intro hgt
      have hq : x / 2 ^ e < k := by
        apply Nat.lt_of_not_ge
        intro hge2
        have := Nat.mul_le_mul_left (2 ^ e) hge2
        omega
      have := Nat.mul_le_mul_left (2 ^ e) (Nat.succ_le_of_lt hq)
      rw [Nat.mul_succ] at this
      omega

theorem alignModuloN_ge (e r o : Nat) : o ≤ alignModuloN e r o := by
  have := (alignModuloN_spec e r o).1
  have := alignUpN_ge e o
  omega

theorem alignModuloN_mod (e r o : Nat) : alignModuloN e r o % 2 ^ e = r % 2 ^ e :=
  (alignModuloN_spec e r o).2.1

/-! ## Bridge to the `BitVec 64` kernels of C29 (`Model/Align.lean`, tied to `alignment.rs`) -/

theorem least_multiple_unique {a v u u' : Nat} (h : Wild.Align.IsLeastMultipleGE a v u)
    (h' : Wild.Align.IsLeastMultipleGE a v u') : u = u' :=
  Nat.le_antisymm (h.2.2 _ h'.1 h'.2.1) (h'.2.2 _ h.1 h.2.1)

/-- Outside the overflow region the `u64` `align_up` is the `Nat` model. -/
theorem alignUp_bridge (e : Nat) (he : e ≤ 16) (v : BitVec 64) (hno : v.toNat + 2 ^ e ≤ 2 ^ 64) :
    (Wild.Align.alignUp e v).toNat = alignUpN e v.toNat :=
  least_multiple_unique (Wild.Align.align_up_spec e he v hno) (alignUpN_spec e v.toNat)

/-- Outside the overflow region the `u64` `align_modulo` is the `Nat` model. -/
theorem alignModulo_bridge (e : Nat) (he : e ≤ 16) (r o : BitVec 64)
    (hno : o.toNat + 2 ^ e + 2 ^ e ≤ 2 ^ 64) :
    (Wild.Align.alignModulo e r o).toNat = alignModuloN e r.toNat o.toNat := by
  have h1 := Wild.Align.align_modulo_spec e he r o hno
  have h2 := alignModuloN_spec e r.toNat o.toNat
  rw [alignUp_bridge e he o (by omega)] at h1
  exact Nat.le_antisymm (h1.2.2 _ h2.1 h2.2.1) (h2.2.2 _ h1.1 h1.2.1)

/-! ## `layout_section_parts`: alignment of every part -/

def RecAligned (r : Rec) : Prop := r.fileOff % 2 ^ r.align = 0 ∧ r.memOff % 2 ^ r.align = 0

theorem placePart_aligned (cfg : Config) (s : Sec) (rp : Bool) (m : Nat) (st : PartState) (p : PartIn) :
    RecAligned (placePart cfg s rp m st p).2 := by
  unfold placePart RecAligned
  simp only
  split
  · split <;> exact ⟨alignUpN_mod _ _, alignUpN_mod _ _⟩
  · exact ⟨alignUpN_mod _ _, alignUpN_mod _ _⟩

theorem placeParts_aligned (cfg : Config) (s : Sec) (rp : Bool) (m : Nat) (st : PartState) (ps : List PartIn) :
    ∀ r ∈ (placeParts cfg s rp m st ps).2, RecAligned r := by
  induction ps generalizing st with
  | nil => intro r hr; simp [placeParts] at hr
  | cons p ps ih =>
    intro r hr
    simp only [placeParts, List.mem_cons] at hr
    rcases hr with h | h
    · rw [h]; exact placePart_aligned cfg s rp m st p
    · exact ih _ r h

/-- all part records of a walk, in layout order -/
def allRecs (out : List (Nat × List Rec)) : List Rec := out.flatMap (·.2)

theorem layoutStep_recs_aligned (cfg : Config) (il : Nat → Bool) (sa : List (Nat × Nat)) (secs : Nat → Sec)
    (c : Cursor) (e : Event) (sid : Nat) (rs : List Rec)
    (h : (layoutStep cfg il sa secs c e).2 = some (sid, rs)) : ∀ r ∈ rs, RecAligned r := by
  unfold layoutStep at h
  split at h
  · simp at h
  · simp at h
  · split at h
    · split at h <;> simp at h
    · simp at h
  · simp only [Option.some.injEq, Prod.mk.injEq] at h
    obtain ⟨_, rfl⟩ := h
    exact placeParts_aligned _ _ _ _ _ _

theorem layoutWalk_aligned (cfg : Config) (il : Nat → Bool) (sa : List (Nat × Nat)) (secs : Nat → Sec)
    (c : Cursor) (evs : List Event) : ∀ r ∈ allRecs (layoutWalk cfg il sa secs c evs).2, RecAligned r := by
  induction evs generalizing c with
  | nil => intro r hr; simp [layoutWalk, allRecs] at hr
  | cons e es ih =>
    intro r hr
    simp only [layoutWalk] at hr
    cases ho : (layoutStep cfg il sa secs c e).2 with
    | none =>
      rw [ho] at hr
      exact ih _ r hr
    | some pr =>
      rw [ho] at hr
      obtain ⟨sid, rs⟩ := pr
      simp only [allRecs, List.flatMap_cons, List.mem_append] at hr
      rcases hr with h | h
      · exact layoutStep_recs_aligned cfg il sa secs c e sid rs ho r h
      · exact ih _ r h

/-- **C04 `parts_aligned`.** For every event list, section table, sizes, alignments, page size, locations and
output kind: every part record produced by `layout_section_parts` has its file offset and its address at a
multiple of its alignment. -/
theorem parts_aligned (cfg : Config) (il : Nat → Bool) (secs : Nat → Sec) (evs : List Event) :
    ∀ r ∈ allRecs (layoutParts cfg il secs evs), RecAligned r := by
  unfold layoutParts
  exact layoutWalk_aligned _ _ _ _ _ _

/-! ## Monotone file cursor: file ranges of all parts are disjoint -/

/-- `l` is laid out in ascending, non-overlapping file ranges inside `[lo, hi]`. -/
def FileSorted (lo hi : Nat) (l : List Rec) : Prop :=
  lo ≤ hi ∧ (∀ r ∈ l, lo ≤ r.fileOff ∧ r.fileOff + r.fileSize ≤ hi) ∧
    l.Pairwise (fun a b => a.fileOff + a.fileSize ≤ b.fileOff)

theorem FileSorted.nil (lo hi : Nat) (h : lo ≤ hi) : FileSorted lo hi [] :=
  ⟨h, by simp, List.Pairwise.nil⟩

theorem FileSorted.append {a b c : Nat} {l1 l2 : List Rec} (h1 : FileSorted a b l1) (h2 : FileSorted b c l2) :
    FileSorted a c (l1 ++ l2) := by
  obtain ⟨hab, hb1, hp1⟩ := h1
  obtain ⟨hbc, hb2, hp2⟩ := h2
  refine ⟨by omega, ?_, ?_⟩
  · intro r hr
    rcases List.mem_append.1 hr with h | h
    · have := hb1 r h; omega
    · have := hb2 r h; omega
  · rw [List.pairwise_append]
    refine ⟨hp1, hp2, ?_⟩
    intro x hx y hy
    have := hb1 x hx; have := hb2 y hy; omega

theorem FileSorted.widen {a a' b b' : Nat} {l : List Rec} (h : FileSorted a b l) (ha : a' ≤ a) (hb : b ≤ b') :
    FileSorted a' b' l := by
  obtain ⟨hab, hb1, hp1⟩ := h
  exact ⟨by omega, fun r hr => by have := hb1 r hr; omega, hp1⟩

theorem placePart_file (cfg : Config) (s : Sec) (rp : Bool) (m : Nat) (st : PartState) (p : PartIn) :
    st.file ≤ (placePart cfg s rp m st p).2.fileOff ∧
    (placePart cfg s rp m st p).1.file = (placePart cfg s rp m st p).2.fileOff + (placePart cfg s rp m st p).2.fileSize := by
  unfold placePart
  simp only
  split
  · split <;> exact ⟨alignUpN_ge _ _, rfl⟩
  · exact ⟨alignUpN_ge _ _, rfl⟩

theorem placeParts_file (cfg : Config) (s : Sec) (rp : Bool) (m : Nat) (st : PartState) (ps : List PartIn) :
    FileSorted st.file (placeParts cfg s rp m st ps).1.file (placeParts cfg s rp m st ps).2 := by
  induction ps generalizing st with
  | nil => simp only [placeParts]; exact FileSorted.nil _ _ (Nat.le_refl _)
  | cons p ps ih =>
    simp only [placeParts]
    have h := placePart_file cfg s rp m st p
    have hs : FileSorted st.file (placePart cfg s rp m st p).1.file [(placePart cfg s rp m st p).2] := by
      refine ⟨by omega, ?_, List.pairwise_singleton _ _⟩
      intro r hr
      rw [List.mem_singleton.1 hr]; omega
    exact FileSorted.append hs (ih _)

theorem layoutStep_file (cfg : Config) (il : Nat → Bool) (sa : List (Nat × Nat)) (secs : Nat → Sec)
    (c : Cursor) (e : Event) :
    FileSorted c.file (layoutStep cfg il sa secs c e).1.file
      (match (layoutStep cfg il sa secs c e).2 with | some pr => pr.2 | none => []) := by
  unfold layoutStep
  split
  · exact FileSorted.nil _ _ (Nat.le_refl _)
  · exact FileSorted.nil _ _ (Nat.le_refl _)
  · split
    · split
      · exact FileSorted.nil _ _ (alignModuloN_ge _ _ _)
      · exact FileSorted.nil _ _ (Nat.le_refl _)
    · exact FileSorted.nil _ _ (Nat.le_refl _)
  · exact placeParts_file cfg _ _ _ ⟨c.file, _, 0, 0⟩ _

theorem layoutWalk_file (cfg : Config) (il : Nat → Bool) (sa : List (Nat × Nat)) (secs : Nat → Sec)
    (c : Cursor) (evs : List Event) :
    FileSorted c.file (layoutWalk cfg il sa secs c evs).1.file (allRecs (layoutWalk cfg il sa secs c evs).2) := by
  induction evs generalizing c with
  | nil => simp only [layoutWalk, allRecs, List.flatMap_nil]; exact FileSorted.nil _ _ (Nat.le_refl _)
  | cons e es ih =>
    simp only [layoutWalk]
    have h1 := layoutStep_file cfg il sa secs c e
    have h2 := ih (layoutStep cfg il sa secs c e).1
    cases ho : (layoutStep cfg il sa secs c e).2 with
    | none =>
      rw [ho] at h1
      exact FileSorted.widen h2 h1.1 (Nat.le_refl _)
    | some pr =>
      rw [ho] at h1
      simp only [allRecs, List.flatMap_cons]
      exact FileSorted.append h1 h2

/-- **C04 `parts_disjoint_file`.** For every input of `layout_section_parts` (any output kind, any locations):
the file ranges of all parts — allocated or not — are pairwise disjoint and ascending in layout order
(monotone file cursor). -/
theorem parts_disjoint_file (cfg : Config) (il : Nat → Bool) (secs : Nat → Sec) (evs : List Event) :
    (allRecs (layoutParts cfg il secs evs)).Pairwise (fun a b => a.fileOff + a.fileSize ≤ b.fileOff) := by
  unfold layoutParts
  exact (layoutWalk_file _ _ _ _ _ _).2.2

/-! ## Monotone address cursor: allocated parts are disjoint in memory (locations forward) -/

/-- `l` is laid out in ascending, non-overlapping address ranges inside `[lo, hi]`. -/
def MemSorted (lo hi : Nat) (l : List Rec) : Prop :=
  lo ≤ hi ∧ (∀ r ∈ l, lo ≤ r.memOff ∧ r.memOff + r.memSize ≤ hi) ∧
    l.Pairwise (fun a b => a.memOff + a.memSize ≤ b.memOff)

theorem MemSorted.nil (lo hi : Nat) (h : lo ≤ hi) : MemSorted lo hi [] :=
  ⟨h, by simp, List.Pairwise.nil⟩

theorem MemSorted.append {a b c : Nat} {l1 l2 : List Rec} (h1 : MemSorted a b l1) (h2 : MemSorted b c l2) :
    MemSorted a c (l1 ++ l2) := by
  obtain ⟨hab, hb1, hp1⟩ := h1
  obtain ⟨hbc, hb2, hp2⟩ := h2
  refine ⟨by omega, ?_, ?_⟩
  · intro r hr
    rcases List.mem_append.1 hr with h | h
    · have := hb1 r h; omega
    · have := hb2 r h; omega
  · rw [List.pairwise_append]
    refine ⟨hp1, hp2, ?_⟩
    intro x hx y hy
    have := hb1 x hx; have := hb2 y hy; omega

theorem MemSorted.widen {a a' b b' : Nat} {l : List Rec} (h : MemSorted a b l) (ha : a' ≤ a) (hb : b ≤ b') :
    MemSorted a' b' l := by
  obtain ⟨hab, hb1, hp1⟩ := h
  exact ⟨by omega, fun r hr => by have := hb1 r hr; omega, hp1⟩


theorem placePart_mem (cfg : Config) (s : Sec) (rp : Bool) (m : Nat) (st : PartState) (p : PartIn)
    (hp : cfg.partialObj = false) (ha : s.alloc = true) :
    st.mem ≤ (placePart cfg s rp m st p).2.memOff ∧
    (placePart cfg s rp m st p).1.mem = (placePart cfg s rp m st p).2.memOff + (placePart cfg s rp m st p).2.memSize := by
  unfold placePart
  simp only [ha, hp, if_true, Bool.false_eq_true, if_false]
  exact ⟨alignUpN_ge _ _, trivial⟩

theorem placePart_mem_nonalloc (cfg : Config) (s : Sec) (rp : Bool) (m : Nat) (st : PartState) (p : PartIn)
    (ha : s.alloc = false) : (placePart cfg s rp m st p).1.mem = st.mem := by
  unfold placePart
  simp only [ha, Bool.false_eq_true, if_false]

theorem placeParts_mem (cfg : Config) (s : Sec) (rp : Bool) (m : Nat) (st : PartState) (ps : List PartIn)
    (hp : cfg.partialObj = false) (ha : s.alloc = true) :
    MemSorted st.mem (placeParts cfg s rp m st ps).1.mem (placeParts cfg s rp m st ps).2 := by
  induction ps generalizing st with
  | nil => simp only [placeParts]; exact MemSorted.nil _ _ (Nat.le_refl _)
  | cons p ps ih =>
    simp only [placeParts]
    have h := placePart_mem cfg s rp m st p hp ha
    have hs : MemSorted st.mem (placePart cfg s rp m st p).1.mem [(placePart cfg s rp m st p).2] := by
      refine ⟨by omega, ?_, List.pairwise_singleton _ _⟩
      intro r hr
      rw [List.mem_singleton.1 hr]; omega
    exact MemSorted.append hs (ih _)

theorem placeParts_mem_nonalloc (cfg : Config) (s : Sec) (rp : Bool) (m : Nat) (st : PartState) (ps : List PartIn)
    (ha : s.alloc = false) : (placeParts cfg s rp m st ps).1.mem = st.mem := by
  induction ps generalizing st with
  | nil => simp only [placeParts]
  | cons p ps ih =>
    simp only [placeParts]
    rw [ih, placePart_mem_nonalloc cfg s rp m st p ha]

/-- the records of allocated sections, in layout order -/
def allocRecs (secs : Nat → Sec) (out : List (Nat × List Rec)) : List Rec :=
  allRecs (out.filter fun p => (secs p.1).alloc)

theorem locsForward_cons (cfg : Config) (il : Nat → Bool) (sa : List (Nat × Nat)) (secs : Nat → Sec)
    (c : Cursor) (e : Event) (es : List Event) :
    locsForward cfg il sa secs c (e :: es) =
      (stepFwd il secs c e && locsForward cfg il sa secs (layoutStep cfg il sa secs c e).1 es) := by
  rfl

theorem layoutStep_mem (cfg : Config) (il : Nat → Bool) (sa : List (Nat × Nat)) (secs : Nat → Sec)
    (c : Cursor) (e : Event) (hp : cfg.partialObj = false) (hf : stepFwd il secs c e = true) :
    MemSorted c.mem (layoutStep cfg il sa secs c e).1.mem
      (match (layoutStep cfg il sa secs c e).2 with
        | some pr => if (secs pr.1).alloc then pr.2 else []
        | none => []) := by
  unfold layoutStep
  unfold stepFwd at hf
  split
  · exact MemSorted.nil _ _ (Nat.le_refl _)
  · exact MemSorted.nil _ _ (Nat.le_refl _)
  · rename_i id
    simp only at hf
    by_cases hl : il id = true
    · simp only [hl, if_true] at hf ⊢
      split
      · rename_i a hpend
        rw [hpend] at hf
        exact MemSorted.nil _ _ (by simpa using hf)
      · exact MemSorted.nil _ _ (alignModuloN_ge _ _ _)
    · simp only [hl, Bool.false_eq_true, if_false]
      exact MemSorted.nil _ _ (Nat.le_refl _)
  · rename_i sid
    simp only at hf ⊢
    have hstart : c.mem ≤ (match (secs sid).loc with | some a => a | none => c.mem) := by
      cases hloc : (secs sid).loc with
      | none => simp
      | some a => rw [hloc] at hf; simpa using hf
    by_cases ha : (secs sid).alloc = true
    · simp only [ha, if_true]
      exact MemSorted.widen
        (placeParts_mem cfg (secs sid) _ _ ⟨c.file, _, 0, 0⟩ _ hp ha) hstart (Nat.le_refl _)
    · have ha' : (secs sid).alloc = false := by simpa using ha
      simp only [ha', Bool.false_eq_true, if_false]
      rw [placeParts_mem_nonalloc cfg (secs sid) _ _ ⟨c.file, _, 0, 0⟩ _ ha']
      exact MemSorted.nil _ _ hstart

theorem layoutWalk_mem (cfg : Config) (il : Nat → Bool) (sa : List (Nat × Nat)) (secs : Nat → Sec)
    (c : Cursor) (evs : List Event) (hp : cfg.partialObj = false)
    (hf : locsForward cfg il sa secs c evs = true) :
    MemSorted c.mem (layoutWalk cfg il sa secs c evs).1.mem
      (allocRecs secs (layoutWalk cfg il sa secs c evs).2) := by
  induction evs generalizing c with
  | nil => simp only [layoutWalk, allocRecs, allRecs, List.filter_nil, List.flatMap_nil]; exact MemSorted.nil _ _ (Nat.le_refl _)
  | cons e es ih =>
    rw [locsForward_cons, Bool.and_eq_true] at hf
    simp only [layoutWalk]
    have h1 := layoutStep_mem cfg il sa secs c e hp hf.1
    have h2 := ih (layoutStep cfg il sa secs c e).1 hf.2
    cases ho : (layoutStep cfg il sa secs c e).2 with
    | none =>
      rw [ho] at h1
      exact MemSorted.widen h2 h1.1 (Nat.le_refl _)
    | some pr =>
      rw [ho] at h1
      simp only at h1
      by_cases ha : (secs pr.1).alloc = true
      · simp only [ha, if_true] at h1
        simp only [allocRecs, allRecs, List.filter_cons, ha, if_true, List.flatMap_cons]
        exact MemSorted.append h1 h2
      · have ha' : (secs pr.1).alloc = false := by simpa using ha
        simp only [ha', Bool.false_eq_true, if_false] at h1
        simp only [allocRecs, List.filter_cons, ha', Bool.false_eq_true, if_false]
        exact MemSorted.widen h2 h1.1 (Nat.le_refl _)

/-- **C04 `parts_disjoint_mem`.** For executables and shared objects (`partialObj = false`), if every user
location (`--section-start`, script `. = X`, `name ADDR :`) is at or above the address cursor when it is
applied (`locsForward`), the address ranges of all parts of allocated sections are pairwise disjoint and
ascending in layout order. -/
theorem parts_disjoint_mem (cfg : Config) (il : Nat → Bool) (secs : Nat → Sec) (evs : List Event)
    (hp : cfg.partialObj = false)
    (hf : locsForward cfg il (segmentAlignments il secs cfg.page evs) secs
      { file := 0, mem := cfg.base, pending := none } evs = true) :
    (allocRecs secs (layoutParts cfg il secs evs)).Pairwise (fun a b => a.memOff + a.memSize ≤ b.memOff) := by
  unfold layoutParts
  exact (layoutWalk_mem _ _ _ _ _ _ hp hf).2.2

/-- Without the hypothesis the statement is false in the model (and in wild: known finding
`layout:backwards-location`): a section whose `--section-start` lies inside the previous section. -/
theorem parts_disjoint_mem_witness :
    ¬ (allocRecs (fun sid => if sid = 0 then { (default : Sec) with alloc := true, hasData := true, parts := [⟨0, 0x3000⟩] }
                      else { (default : Sec) with alloc := true, hasData := true, loc := some 0x1000, parts := [⟨0, 0x100⟩] })
        (layoutParts ⟨false, 0, 12, 0, 99⟩ (fun _ => false)
          (fun sid => if sid = 0 then { (default : Sec) with alloc := true, hasData := true, parts := [⟨0, 0x3000⟩] }
                      else { (default : Sec) with alloc := true, hasData := true, loc := some 0x1000, parts := [⟨0, 0x100⟩] })
          [.section 0, .section 1])).Pairwise (fun a b => a.memOff + a.memSize ≤ b.memOff) := by
  decide

/-! ## LOAD segments: `p_offset ≡ p_vaddr (mod p_align)` -/

/-- **C04 `load_congruent`, step 1.** Whatever the cursor is, after the `SegmentStart` of a LOAD segment
(`align_load_segment_start`, or the pending-location branch) file offset and address are congruent modulo the
segment alignment `2^S` computed by `compute_segment_alignments` (`S` = page exponent if absent). -/
theorem load_start_congruent (cfg : Config) (il : Nat → Bool) (sa : List (Nat × Nat)) (secs : Nat → Sec)
    (c : Cursor) (id : Nat) (hl : il id = true) :
    (layoutStep cfg il sa secs c (.segStart id)).1.file % 2 ^ ((sa.lookup id).getD cfg.page) =
    (layoutStep cfg il sa secs c (.segStart id)).1.mem % 2 ^ ((sa.lookup id).getD cfg.page) := by
  unfold layoutStep
  simp only [hl, if_true]
  split
  · exact alignModuloN_mod _ _ _
  · exact (alignModuloN_mod _ _ _).symm

theorem cong_of_disp {x y F M n : Nat} (hn : 0 < n) (h : x + F = y + M) (hc : F % n = M % n) : x % n = y % n := by
  have h1 : (x + F) % n = (y + M) % n := by rw [h]
  rw [Nat.add_mod x F n, Nat.add_mod y M n, hc] at h1
  have hx := Nat.mod_lt x hn
  have hy := Nat.mod_lt y hn
  have hm := Nat.mod_lt M hn
  generalize x % n = a at *
  generalize y % n = b at *
  generalize M % n = r at *
  by_cases ha : a + r < n
  · by_cases hb : b + r < n
    · rw [Nat.mod_eq_of_lt ha, Nat.mod_eq_of_lt hb] at h1; omega
    · rw [Nat.mod_eq_of_lt ha, Nat.mod_eq_sub_mod (by omega), Nat.mod_eq_of_lt (by omega)] at h1; omega
  · by_cases hb : b + r < n
    · rw [Nat.mod_eq_of_lt hb, Nat.mod_eq_sub_mod (by omega), Nat.mod_eq_of_lt (by omega)] at h1; omega
    · rw [Nat.mod_eq_sub_mod (by omega), Nat.mod_eq_of_lt (by omega), Nat.mod_eq_sub_mod (Nat.le_of_not_lt hb),
        Nat.mod_eq_of_lt (by omega)] at h1; omega

/-- One part of an allocated section with file contents keeps the displacement between address and file
offset that the reference point `(F, M)` (the cursor after the LOAD start) has, provided its alignment does
not exceed the segment alignment `2^S` to which `F ≡ M`. -/
theorem placePart_displacement (cfg : Config) (s : Sec) (rp : Bool) (m S F M : Nat) (st : PartState) (p : PartIn)
    (hp : cfg.partialObj = false) (ha : s.alloc = true) (hd : s.hasData = true)
    (hS : min p.align m ≤ S) (hFM : F % 2 ^ S = M % 2 ^ S) (hst : st.mem + F = st.file + M) :
    (placePart cfg s rp m st p).2.memOff + F = (placePart cfg s rp m st p).2.fileOff + M ∧
    (placePart cfg s rp m st p).1.mem + F = (placePart cfg s rp m st p).1.file + M := by
  have hfm : F % 2 ^ (min p.align m) = M % 2 ^ (min p.align m) := mod_pow_of_mod_pow hS hFM
  have hc : st.mem % 2 ^ (min p.align m) = st.file % 2 ^ (min p.align m) :=
    cong_of_disp (Nat.two_pow_pos _) hst hfm
  have hdl := alignUpN_delta (min p.align m) st.mem st.file hc
  unfold placePart
  simp only [ha, hp, hd, if_true, Bool.false_eq_true, if_false]
  constructor <;> omega

/-- **C04 `load_congruent`, step 2 (`load_run_displacement`).** From a cursor with `file ≡ mem (mod 2^S)`
(the state after a LOAD start), all parts of an allocated section with file contents (PROGBITS, or TLS NOBITS
which wild backs with zero bytes) whose alignments are `≤ S` are placed at the SAME displacement
`address - file offset`; the cursor keeps it. Hence `sh_offset - p_offset = sh_addr - p_vaddr` for every such
section of the segment and `p_offset ≡ p_vaddr (mod 2^S)`. The hypothesis `hasData` is necessary: see
`load_offsets_witness` (known finding `layout:nobits-not-last-in-load`). -/
theorem load_run_displacement (cfg : Config) (s : Sec) (rp : Bool) (m S F M : Nat) (st : PartState) (ps : List PartIn)
    (hp : cfg.partialObj = false) (ha : s.alloc = true) (hd : s.hasData = true)
    (hS : ∀ p ∈ ps, min p.align m ≤ S) (hFM : F % 2 ^ S = M % 2 ^ S) (hst : st.mem + F = st.file + M) :
    (∀ r ∈ (placeParts cfg s rp m st ps).2, r.memOff + F = r.fileOff + M) ∧
    (placeParts cfg s rp m st ps).1.mem + F = (placeParts cfg s rp m st ps).1.file + M := by
  induction ps generalizing st with
  | nil => simp only [placeParts]; exact ⟨by simp, hst⟩
  | cons p ps ih =>
    simp only [placeParts]
    have h1 := placePart_displacement cfg s rp m S F M st p hp ha hd (hS p (List.mem_cons_self ..)) hFM hst
    have h2 := ih (placePart cfg s rp m st p).1 (fun q hq => hS q (List.mem_cons_of_mem _ hq)) h1.2
    refine ⟨?_, h2.2⟩
    intro r hr
    rcases List.mem_cons.1 hr with h | h
    · rw [h]; exact h1.1
    · exact h2.1 r h

/-- The hull (`min` of starts) of records that share one displacement has that displacement: what
`layout_sections` / `compute_segment_layout` compute as `p_offset`, `p_vaddr` is again congruent. -/
theorem hull_congruent (F M : Nat) (l : List Rec) (f0 m0 : Nat) (h0 : m0 + F = f0 + M)
    (h : ∀ r ∈ l, r.memOff + F = r.fileOff + M) :
    l.foldl (fun a p => min a p.memOff) m0 + F = l.foldl (fun a p => min a p.fileOff) f0 + M := by
  induction l generalizing f0 m0 with
  | nil => simpa using h0
  | cons r rs ih =>
    simp only [List.foldl_cons]
    apply ih
    · have := h r (List.mem_cons_self ..)
      omega
    · intro q hq; exact h q (List.mem_cons_of_mem _ hq)

/-- A NOBITS section (no file contents) followed by a PROGBITS one inside the same LOAD: the second section's
displacement differs from the first one's (model of the `layout:nobits-not-last-in-load` defect). -/
theorem load_offsets_witness :
    let secs : Nat → Sec := fun sid =>
      if sid = 0 then { (default : Sec) with alloc := true, hasData := true, parts := [⟨0, 0x10⟩] }
      else if sid = 1 then { (default : Sec) with alloc := true, nobits := true, hasData := false, parts := [⟨0, 0x100⟩] }
      else { (default : Sec) with alloc := true, hasData := true, parts := [⟨0, 0x10⟩] }
    let out := allRecs (layoutParts ⟨false, 0x400000, 12, 0, 99⟩ (fun _ => true) secs
      [.segStart 0, .section 0, .section 1, .section 2, .segEnd 0])
    ¬ (∀ r ∈ out, r.fileSize = 0 ∨ r.memOff + 0 = r.fileOff + 0x400000) := by
  decide

/-! ## Output order automaton: which segments are open at a section -/

theorem startStopLoop_active (s : Sec) (ds : List SegDef) (as : List (Option Nat)) (k : Nat) (sd : List Nat)
    (hlen : as.length = ds.length) :
    (startStopLoop s ds as k sd).1.map Option.isSome = (ds.zipIdx k).map (fun p => includes p.1 p.2 s) := by
  induction ds generalizing as k sd with
  | nil =>
    cases as with
    | nil => simp [startStopLoop]
    | cons a as => simp at hlen
  | cons d ds ih =>
    cases as with
    | nil => simp at hlen
    | cons a as =>
      have hl : as.length = ds.length := by simpa using hlen
      cases a with
      | none =>
        cases hinc : includes d k s with
        | false => simp [startStopLoop, hinc, ih as (k + 1) sd hl]
        | true => simp [startStopLoop, hinc, ih as (k + 1) (sd ++ [k]) hl]
      | some id =>
        cases hinc : includes d k s with
        | false => simp [startStopLoop, hinc, ih as (k + 1) sd hl]
        | true => simp [startStopLoop, hinc, ih as (k + 1) sd hl]

theorem endRwLoad_length (defs : List SegDef) (st : OState) :
    (endRwLoad defs st).active.length = st.active.length := by
  unfold endRwLoad
  split
  · rfl
  · split
    · rfl
    · simp

/-- **C04 `aux_segments_cover` / `load_flags_match` (order automaton).** For executables and shared objects,
after `add_section` of a primary section the open segment kinds are EXACTLY the definitions whose
`should_include_section` accepts the section — for every table of segment definitions and every history:
slot `k` is open iff `includes defs[k] k sec`. Instantiated with the LOAD rows this is `load_flags_match`
(the open LOAD segment has exactly the section's W and X, and one is open iff the section is allocated and
such a row exists); with the TLS / GNU_RELRO / DYNAMIC / INTERP / PHDR / GNU_EH_FRAME / NOTE rows it says the
auxiliary segment is open over exactly the sections it describes. -/
theorem aux_segments_cover (defs : List SegDef) (secs : Nat → Sec) (st : OState) (sid : Nat) (secondaries : List Nat)
    (hprim : (secs sid).primary = none) (hlen : st.active.length = defs.length) :
    (addSection defs false secs st sid secondaries).active.map Option.isSome =
      defs.zipIdx.map (fun p => includes p.1 p.2 (secs sid)) := by
  unfold addSection
  simp only [Bool.false_eq_true, if_false, hprim, Option.isSome_none]
  have hl1 : (if shouldEndRw defs st (secs sid) = true then endRwLoad defs st else st).active.length = defs.length := by
    split
    · rw [endRwLoad_length]; exact hlen
    · exact hlen
  generalize (if shouldEndRw defs st (secs sid) = true then endRwLoad defs st else st) = st1 at hl1 ⊢
  by_cases hloc : (secs sid).loc.isSome = true
  · simp only [hloc, if_true]
    exact startStopLoop_active (secs sid) defs _ 0 _ (by simp [hl1])
  · simp only [hloc, Bool.false_eq_true, if_false]
    exact startStopLoop_active (secs sid) defs _ 0 _ hl1

/-- `load_flags_match`, spelled out for one LOAD row. -/
theorem load_flags_match (defs : List SegDef) (secs : Nat → Sec) (st : OState) (sid : Nat) (secondaries : List Nat)
    (hprim : (secs sid).primary = none) (hlen : st.active.length = defs.length)
    (k : Nat) (d : SegDef) (hk : defs[k]? = some d) (hload : d.load = true) :
    ((addSection defs false secs st sid secondaries).active[k]?).map Option.isSome =
      some ((secs sid).alloc && ((secs sid).w == d.w) && ((secs sid).x == d.x)) := by
  have h := aux_segments_cover defs secs st sid secondaries hprim hlen
  have h2 := congrArg (fun l => l[k]?) h
  simp only [List.getElem?_map, List.getElem?_zipIdx, hk, Option.map_some, Nat.zero_add] at h2
  rw [h2]
  simp [includes, hload]

/-- **C04 `no_wx_load`.** No row of `PROGRAM_SEGMENT_DEFS` is a LOAD that is both writable and executable, and a
section needing W and X is included in no LOAD row (so `compute_segment_layout` rejects it). -/
theorem no_wx_load : noWxB elfDefs = true ∧
    ∀ s : Sec, s.w = true → s.x = true → ∀ p ∈ elfDefs.zipIdx, p.1.load = true → includes p.1 p.2 s = false := by
  refine ⟨by decide, ?_⟩
  intro s hw hx p hp hl
  simp only [elfDefs, List.zipIdx_cons, List.zipIdx_nil, List.mem_cons, List.not_mem_nil, or_false] at hp
  rcases hp with h|h|h|h|h|h|h|h|h|h|h|h|h <;> subst h <;> simp_all [includes]

/-! ## `compute_segment_layout`: a segment record is the hull of what it absorbed -/

/-- **C04 `segment_hull_contains`.** Absorbing a section layout into a segment record (`compute_segment_layout`
does this for every open segment at every non-skipped section) makes the record contain the section's file and
address ranges, only ever grows the record, and the record's alignment dominates the section's. -/
theorem segment_hull_contains (r : SegRec) (l : Rec) :
    (r.absorb l).fileStart ≤ l.fileOff ∧ l.fileOff + l.fileSize ≤ (r.absorb l).fileEnd ∧
    (r.absorb l).memStart ≤ l.memOff ∧ l.memOff + l.memSize ≤ (r.absorb l).memEnd ∧
    (r.absorb l).fileStart ≤ r.fileStart ∧ r.fileEnd ≤ (r.absorb l).fileEnd ∧
    (r.absorb l).memStart ≤ r.memStart ∧ r.memEnd ≤ (r.absorb l).memEnd ∧
    l.align ≤ (r.absorb l).align ∧ r.align ≤ (r.absorb l).align := by
  unfold SegRec.absorb
  simp only
  omega

/-- Model of the `tls:segment-start-misaligned` defect: `.tdata` (alignment 4) placed at an address that is
4- but not 512-aligned, followed by a TLS section of alignment 512: the TLS segment (hull of both) starts at a
non-multiple of its alignment 512. -/
theorem tls_start_aligned_witness :
    let secs : Nat → Sec := fun sid =>
      if sid = 0 then { (default : Sec) with alloc := true, hasData := true, parts := [⟨0, 0x14⟩] }
      else if sid = 1 then { (default : Sec) with alloc := true, tls := true, hasData := true, parts := [⟨2, 4⟩] }
      else { (default : Sec) with alloc := true, tls := true, hasData := true, parts := [⟨9, 0x200⟩] }
    let out := layoutParts ⟨false, 0x400000, 12, 0, 99⟩ (fun id => id == 0) secs
      [.segStart 0, .section 0, .segStart 1, .section 1, .section 2, .segEnd 1, .segEnd 0]
    let tls := ((⟨1, u64Max, 0, u64Max, 0, 0⟩ : SegRec).absorb (sectionLayout 0 ((out.lookup 1).getD []))).absorb
      (sectionLayout 0 ((out.lookup 2).getD []))
    tls.align = 9 ∧ tls.memStart % 2 ^ tls.align ≠ 0 := by
  decide

/-! ## Summary -/

/-- The property at full strength on the model: the conclusions below for ALL inputs, without the three
hypotheses. It is false (in the model and in wild). -/
def C04_full : Prop :=
  ∀ (cfg : Config) (il : Nat → Bool) (secs : Nat → Sec) (evs : List Event), cfg.partialObj = false →
    (allocRecs secs (layoutParts cfg il secs evs)).Pairwise (fun a b => a.memOff + a.memSize ≤ b.memOff)

theorem C04_full_witness : ¬ C04_full := by
  intro h
  exact parts_disjoint_mem_witness (h ⟨false, 0, 12, 0, 99⟩ (fun _ => false) _ [.section 0, .section 1] rfl)

/-- **C04, the part that holds for all inputs** (gaps: (1) memory disjointness needs `locsForward` — user
locations never move the address backwards; (2) equal file/address displacement inside a LOAD needs `hasData` —
no NOBITS section before a section with contents in the same LOAD; (3) PT_TLS start alignment does not hold;
(4) well-bracketing of the event list is only tested (`wellBracketedB` on every dump and on synthetic inputs),
not proved). -/
theorem C04_partial :
    (∀ cfg il secs evs, ∀ r ∈ allRecs (layoutParts cfg il secs evs), RecAligned r) ∧
    (∀ cfg il secs evs, (allRecs (layoutParts cfg il secs evs)).Pairwise (fun a b => a.fileOff + a.fileSize ≤ b.fileOff)) ∧
    (∀ (cfg : Config) il secs evs, cfg.partialObj = false →
      locsForward cfg il (segmentAlignments il secs cfg.page evs) secs { file := 0, mem := cfg.base, pending := none } evs = true →
      (allocRecs secs (layoutParts cfg il secs evs)).Pairwise (fun a b => a.memOff + a.memSize ≤ b.memOff)) ∧
    noWxB elfDefs = true :=
  ⟨parts_aligned, parts_disjoint_file, parts_disjoint_mem, no_wx_load.1⟩

-- Non-vacuity: a forward location satisfies the hypothesis of `parts_disjoint_mem`.
example : locsForward ⟨false, 0x400000, 12, 0, 99⟩ (fun _ => true) [] 
    (fun sid => if sid = 0 then { (default : Sec) with alloc := true, hasData := true, parts := [⟨4, 0x30⟩] }
                else { (default : Sec) with alloc := true, hasData := true, loc := some 0x800000, parts := [⟨0, 0x100⟩] })
    { file := 0, mem := 0x400000, pending := none } [.segStart 0, .section 0, .section 1, .segEnd 0] = true := by
  decide

end Wild.Layout
