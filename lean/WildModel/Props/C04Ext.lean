import WildModel.Model.ShdrExt
/-!
# C04 — extended section numbering round-trips

For every section count `shnum ≥ 1` and every string-table index `0 < shstrndx < shnum` that fits the
32-bit fields, what a reader recovers from the written header fields is what the writer meant:
`decode_encode_shnum`, `decode_encode_shstrndx`; the fields fit their widths (`fields_fit`); below the
threshold header 0 stays all-zero (`small_is_plain`). `off_by_one_witness`: if the two places that
cooperate on `e_shstrndx` / `sh_link` disagree at exactly `SHN_LORESERVE`, the reader finds index 0.
-/
namespace Wild.ShdrExt

theorem decode_encode_shnum (shnum shstrndx : Nat) (h1 : 1 ≤ shnum) :
    decodeShnum (encode shnum shstrndx) = shnum := by
  unfold decodeShnum encode headerFields section0Fields SHN_LORESERVE
  by_cases h : shnum ≥ 0xff00
  · simp [h]
  · simp [h]; omega

theorem decode_encode_shstrndx (shnum shstrndx : Nat) :
    decodeShstrndx (encode shnum shstrndx) = shstrndx := by
  unfold decodeShstrndx encode headerFields section0Fields SHN_LORESERVE SHN_XINDEX
  by_cases h2 : shstrndx ≥ 0xff00
  · simp [h2]
  · have : shstrndx ≠ 0xffff := by omega
    simp [h2, this]

/-- The 16-bit header fields and the 32/64-bit section-0 fields are within range. -/
theorem fields_fit (shnum shstrndx : Nat) (h1 : shnum < 2 ^ 32) (h2 : shstrndx < 2 ^ 32) :
    (encode shnum shstrndx).eShnum < 2 ^ 16 ∧ (encode shnum shstrndx).eShstrndx < 2 ^ 16 ∧
    (encode shnum shstrndx).sh0Size < 2 ^ 64 ∧ (encode shnum shstrndx).sh0Link < 2 ^ 32 := by
  unfold encode headerFields section0Fields SHN_LORESERVE SHN_XINDEX
  refine ⟨?_, ?_, ?_, ?_⟩ <;> simp only [] <;> split <;> omega

/-- Below the threshold nothing is stored in section header 0 and the header holds the plain values. -/
theorem small_is_plain (shnum shstrndx : Nat) (h1 : shnum < 0xff00) (h2 : shstrndx < 0xff00) :
    encode shnum shstrndx = { eShnum := shnum, eShstrndx := shstrndx, sh0Size := 0, sh0Link := 0 } := by
  unfold encode headerFields section0Fields SHN_LORESERVE
  have a : ¬ shnum ≥ 0xff00 := by omega
  have b : ¬ shstrndx ≥ 0xff00 := by omega
  simp [a, b]

/-- With `>` in one of the two places the file says "index in sh_link" and sh_link says 0. -/
theorem off_by_one_witness :
    let h : Hdr := { eShnum := (headerFields 0xff04 0xff00).1, eShstrndx := (headerFields 0xff04 0xff00).2,
                     sh0Size := (section0FieldsOffByOne 0xff04 0xff00).1, sh0Link := (section0FieldsOffByOne 0xff04 0xff00).2 }
    decodeShstrndx h = 0 ∧ decodeShstrndx (encode 0xff04 0xff00) = 0xff00 := by
  decide

example : decodeShnum (encode 70000 69998) = 70000 ∧ decodeShstrndx (encode 70000 69998) = 69998 := by decide

end Wild.ShdrExt
