import WildModel.Model.Gc
import WildModel.Props.C03
/-!
# C05 — Garbage collection keeps everything reachable

`Reachable g` is the declarative statement: a section is reachable iff it is a root (must-load
section, or designated by a root reference: entry symbol, `-u`, exported symbol, CIE personality …)
or designated by a relocation of a reachable section (relocations of attached FDEs count when the
section is non-empty; a `__start_X/__stop_X` reference designates every section registered under X)
— least fixpoint, for graphs of ANY shape (cycles, self loops, dangling indices).

* `gc_sound`             : kept ⊇ Reachable, for all graphs and root sets.
* `kept_iff_reachable`   : it holds exactly (nothing unreachable is kept in the model).
* `keep_never_collected` : a must-load section (KEEP / SHF_GNU_RETAIN / note / init-fini rule) is kept.
* `root_ref_never_collected` : the section of the entry symbol / `-u` / exported symbol is kept.
* `start_stop_keeps_all` : a kept section referencing `__start_X` keeps every section registered under X.
* `any_order_is_reachable` : ANY set that contains the roots, is closed under the edges and only
  contains legitimately added sections is `Reachable` — independent of work-list order.
* `worklist_*`           : small-step semantics of the work list (any pending item may run next,
  test-and-set on the section slot = `SectionSlot::Loaded`): every schedule terminates, processes
  each section at most once and ends with exactly `Reachable` (the C03 pattern; C39 proves the
  same for the real message-passing protocol over an abstract edge relation).
The count/order lemmas on masks are reused from Props/C03.lean.
-/
namespace Wild.Gc
open Wild.Link (Le count count_lt_of_le_ne count_le_length dedup mem_dedup nodup_dedup)

/-- The declarative closure. -/
inductive Reachable (g : Graph) : Nat → Prop
  | root (i : Nat) : i < g.n → isRoot g i = true → Reachable g i
  | edge (i d : Nat) : Reachable g i → d ∈ edgesOf g i → d < g.n → Reachable g d

theorem Reachable.lt {g : Graph} {i : Nat} (h : Reachable g i) : i < g.n := by
  cases h with
  | root i hi _ => exact hi
  | edge i d _ _ hd => exact hd

theorem next_length (g : Graph) (S : List Bool) : (next g S).length = g.n := by
  simp [next]

theorem next_getD (g : Graph) (S : List Bool) (d : Nat) :
    (next g S).getD d false =
      (decide (d < g.n) && (S.getD d false || isRoot g d || reachedBy g S d)) := by
  unfold next
  by_cases h : d < g.n
  · simp [List.getD_eq_getElem?_getD, h]
  · simp [List.getD_eq_getElem?_getD, h]

theorem le_next (g : Graph) (S : List Bool) (hl : S.length = g.n) : Le S (next g S) := by
  intro i hi
  rw [next_getD]
  have hlt : i < g.n := by
    rw [← hl]
    apply Nat.lt_of_not_ge
    intro hge
    have : S.getD i false = false := by
      simp [List.getD_eq_getElem?_getD, List.getElem?_eq_none hge]
    rw [this] at hi; cases hi
  rw [List.getD_eq_getElem?_getD] at hi
  simp [hlt, hi]

theorem iterate_fix (g : Graph) : ∀ (fuel : Nat) (S : List Bool), S.length = g.n →
    g.n - count S < fuel → next g (iterate g fuel S) = iterate g fuel S := by
  intro fuel
  induction fuel with
  | zero => intro S _ h; omega
  | succ n ih =>
    intro S hl hf
    simp only [iterate]
    by_cases heq : (next g S == S) = true
    · simp only [heq, if_true]
      exact eq_of_beq heq
    · simp only [heq]
      have hne : next g S ≠ S := by
        intro h; apply heq; rw [h]; exact beq_self_eq_true _
      have hlt := count_lt_of_le_ne S (next g S) (by rw [next_length, hl]) (le_next g S hl)
        (fun h => hne h.symm)
      have hb := count_le_length (next g S)
      rw [next_length] at hb
      apply ih (next g S) (next_length g S)
      omega

theorem keptMask_fix (g : Graph) : next g (keptMask g) = keptMask g := by
  unfold keptMask
  apply iterate_fix
  · simp
  · have : count (List.replicate g.n false) = 0 := by simp [count]
    omega

/-- Soundness invariant: every set bit is in the closure. -/
def Sound (g : Graph) (S : List Bool) : Prop := ∀ i, S.getD i false = true → Reachable g i

theorem reachedBy_iff (g : Graph) (S : List Bool) (d : Nat) :
    reachedBy g S d = true ↔ ∃ i, i < g.n ∧ S.getD i false = true ∧ d ∈ edgesOf g i := by
  unfold reachedBy
  simp [List.any_eq_true]

theorem next_sound (g : Graph) (S : List Bool) (h : Sound g S) : Sound g (next g S) := by
  intro d hd
  rw [next_getD] at hd
  simp only [Bool.and_eq_true, decide_eq_true_eq, Bool.or_eq_true] at hd
  obtain ⟨hlt, hor⟩ := hd
  rcases hor with (h1 | h2) | h3
  · exact h d h1
  · exact Reachable.root d hlt h2
  · obtain ⟨i, _, hi, hreq⟩ := (reachedBy_iff g S d).1 h3
    exact Reachable.edge i d (h i hi) hreq hlt

theorem iterate_sound (g : Graph) : ∀ (fuel : Nat) (S : List Bool), Sound g S →
    Sound g (iterate g fuel S) := by
  intro fuel
  induction fuel with
  | zero => intro S h; simpa [iterate] using h
  | succ n ih =>
    intro S h
    simp only [iterate]
    split
    · exact h
    · exact ih _ (next_sound g S h)

theorem fix_complete (g : Graph) (F : List Bool) (hfix : next g F = F) (i : Nat)
    (h : Reachable g i) : F.getD i false = true := by
  induction h with
  | root i hlt hr =>
    rw [← hfix, next_getD]
    simp [hlt, hr]
  | edge i d _ hreq hd ih =>
    rw [← hfix, next_getD]
    have : reachedBy g F d = true :=
      (reachedBy_iff g F d).2 ⟨i, by
        have := ih
        rw [← hfix, next_getD] at this
        simp only [Bool.and_eq_true, decide_eq_true_eq] at this
        exact this.1, ih, hreq⟩
    simp [hd, this]

/-- **C05 (`gc_sound`).** For ALL graphs and root sets: everything reachable from the roots is kept. -/
theorem gc_sound (g : Graph) (i : Nat) (h : Reachable g i) : isKept g i = true :=
  fix_complete g _ (keptMask_fix g) i h

/-- **C05 (`kept_iff_reachable`).** The kept set is exactly the closure. -/
theorem kept_iff_reachable (g : Graph) (i : Nat) : isKept g i = true ↔ Reachable g i := by
  constructor
  · intro h
    have : Sound g (keptMask g) := by
      unfold keptMask
      apply iterate_sound
      intro j hj
      simp [List.getD_eq_getElem?_getD, List.getElem?_replicate] at hj
      split at hj <;> simp at hj
    exact this i h
  · exact gc_sound g i

/-- **C05 (`keep_never_collected`).** A section marked must-load by `resolve_section` (KEEP,
SHF_GNU_RETAIN, SHT_NOTE, `.init/.fini/.init_array/.ctors/...` rules) is kept, whatever the graph. -/
theorem keep_never_collected (g : Graph) (i : Nat) (s : Section) (hs : g.secs[i]? = some s)
    (hm : s.mustLoad = true) : isKept g i = true := by
  apply gc_sound
  have hlt : i < g.n := (List.getElem?_eq_some_iff.1 hs).1
  exact Reachable.root i hlt (by simp [isRoot, hs, hm])

/-- **C05 (`root_ref_never_collected`).** The section defining the entry symbol, a `-u` symbol or
an exported dynamic symbol is kept. -/
theorem root_ref_never_collected (g : Graph) (i : Nat) (hlt : i < g.n) (h : Target.sec i ∈ g.rootRefs) :
    isKept g i = true := by
  apply gc_sound
  apply Reachable.root i hlt
  simp only [isRoot, Bool.or_eq_true]
  right
  simp only [List.contains_iff_mem, List.mem_flatMap]
  exact ⟨Target.sec i, h, by simp [targets, hlt]⟩

/-- **C05 (`start_stop_keeps_all`).** If a kept section references `__start_X`/`__stop_X`, every
section registered under `X` is kept. -/
theorem start_stop_keeps_all (g : Graph) (i j x : Nat) (s t : Section) (hk : isKept g i = true)
    (hs : g.secs[i]? = some s) (href : Target.startStop x ∈ s.refs)
    (ht : g.secs[j]? = some t) (hset : t.startStopSet = some x) : isKept g j = true := by
  apply gc_sound
  have hj : j < g.n := (List.getElem?_eq_some_iff.1 ht).1
  apply Reachable.edge i j ((kept_iff_reachable g i).1 hk) _ hj
  simp only [edgesOf, hs, List.mem_append, List.mem_flatMap]
  left
  refine ⟨Target.startStop x, href, ?_⟩
  simp [targets, hj, ht, hset]

/-- **C05 (any order).** -/
theorem any_order_is_reachable (g : Graph) (L : Nat → Prop)
    (hroot : ∀ i, i < g.n → isRoot g i = true → L i)
    (hclosed : ∀ i d, L i → d ∈ edgesOf g i → d < g.n → L d)
    (hsound : ∀ i, L i → Reachable g i) :
    ∀ i, L i ↔ Reachable g i := by
  intro i
  constructor
  · exact hsound i
  · intro h
    induction h with
    | root i hlt hr => exact hroot i hlt hr
    | edge i d _ hr hd ih => exact hclosed i d ih hr hd

/-! ## Work-list semantics with the test-and-set guard (`SectionSlot::Unloaded` -> `Loaded`) -/

/-- `taken`: sections for which a LoadSection item was created (slot taken); `pending`: spawned,
not yet processed tasks; `processed`: sections whose relocations were processed (`load_section`). -/
structure WState where
  taken : List Nat
  pending : List Nat
  processed : List Nat
  deriving Repr

/-- Initial state: the root sections are queued (`activate`), their slots are empty. -/
def winit (g : Graph) : WState :=
  let m := (List.range g.n).filter fun i => isRoot g i
  { taken := m, pending := m, processed := [] }

/-- Requests of `p` that win the test-and-set (not yet taken), without duplicates. -/
def newlyTaken (g : Graph) (taken : List Nat) (p : Nat) : List Nat :=
  dedup ((edgesOf g p).filter fun d => !taken.contains d && decide (d < g.n))

/-- One step: any pending task `p` may run next (the scheduler's choice). -/
def wstep (g : Graph) (s : WState) (p : Nat) : WState :=
  let nt := newlyTaken g s.taken p
  { taken := s.taken ++ nt, pending := s.pending.erase p ++ nt, processed := p :: s.processed }

/-- Reachable states: any schedule (any choice of the pending task at each step). -/
inductive WReach (g : Graph) : WState → Prop
  | init : WReach g (winit g)
  | step (s : WState) (p : Nat) : WReach g s → p ∈ s.pending → WReach g (wstep g s p)

structure WInv (g : Graph) (s : WState) : Prop where
  nodup : (s.processed ++ s.pending).Nodup
  perm : ∀ x, x ∈ s.taken ↔ x ∈ s.processed ∨ x ∈ s.pending
  sound : ∀ x ∈ s.taken, Reachable g x
  mand : ∀ i, i < g.n → isRoot g i = true → i ∈ s.taken
  closed : ∀ i ∈ s.processed, ∀ d ∈ edgesOf g i, d < g.n → d ∈ s.taken
  takenNodup : s.taken.Nodup

theorem winit_inv (g : Graph) : WInv g (winit g) := by
  refine ⟨?_, ?_, ?_, ?_, ?_, ?_⟩
  · simp only [winit, List.nil_append]
    exact List.Pairwise.filter _ List.nodup_range
  · intro x; simp [winit]
  · intro x hx
    simp only [winit, List.mem_filter, List.mem_range] at hx
    exact Reachable.root x hx.1 hx.2
  · intro i hlt hr
    simp [winit, hlt, hr]
  · intro i hi; simp [winit] at hi
  · simp only [winit]
    exact List.Pairwise.filter _ List.nodup_range

theorem mem_newlyTaken (g : Graph) (taken : List Nat) (p d : Nat) :
    d ∈ newlyTaken g taken p ↔ d ∈ edgesOf g p ∧ d ∉ taken ∧ d < g.n := by
  unfold newlyTaken
  rw [mem_dedup]
  simp [List.mem_filter]

theorem wstep_inv (g : Graph) (s : WState) (p : Nat) (h : WInv g s) (hp : p ∈ s.pending) :
    WInv g (wstep g s p) := by
  obtain ⟨hnd, hperm, hsound, hmand, hclosed, htnd⟩ := h
  have hnt := mem_newlyTaken g s.taken p
  have hnd_nt : (newlyTaken g s.taken p).Nodup := by unfold newlyTaken; exact nodup_dedup _
  have hnd_proc : s.processed.Nodup := (List.nodup_append.1 hnd).1
  have hnd_pend : s.pending.Nodup := (List.nodup_append.1 hnd).2.1
  have hdisj : ∀ a ∈ s.processed, ∀ b ∈ s.pending, a ≠ b := (List.nodup_append.1 hnd).2.2
  have hp_taken : p ∈ s.taken := (hperm p).2 (Or.inr hp)
  have hp_notproc : p ∉ s.processed := fun hpp => hdisj p hpp p hp rfl
  refine ⟨?_, ?_, ?_, ?_, ?_, ?_⟩
  · -- nodup of (p :: processed) ++ (pending.erase p ++ nt)
    simp only [wstep]
    rw [List.cons_append, List.nodup_cons]
    constructor
    · simp only [List.mem_append, not_or]
      refine ⟨hp_notproc, ?_, ?_⟩
      · exact fun hmem => (List.Nodup.mem_erase_iff hnd_pend).1 hmem |>.1 rfl
      · intro hmem; exact ((hnt p).1 hmem).2.1 hp_taken
    · rw [List.nodup_append]
      refine ⟨hnd_proc, ?_, ?_⟩
      · rw [List.nodup_append]
        refine ⟨hnd_pend.erase p, hnd_nt, ?_⟩
        intro a ha b hb hab
        subst hab
        have : a ∈ s.pending := List.mem_of_mem_erase ha
        exact ((hnt a).1 hb).2.1 ((hperm a).2 (Or.inr this))
      · intro a ha b hb hab
        subst hab
        rcases List.mem_append.1 hb with h1 | h1
        · exact hdisj a ha a (List.mem_of_mem_erase h1) rfl
        · exact ((hnt a).1 h1).2.1 ((hperm a).2 (Or.inl ha))
  · intro x
    simp only [wstep, List.mem_append, List.mem_cons]
    constructor
    · rintro (hx | hx)
      · by_cases hxp : x = p
        · exact Or.inl (Or.inl hxp)
        · rcases (hperm x).1 hx with h1 | h1
          · exact Or.inl (Or.inr h1)
          · exact Or.inr (Or.inl ((List.mem_erase_of_ne hxp).2 h1))
      · exact Or.inr (Or.inr hx)
    · rintro ((hx | hx) | (hx | hx))
      · subst hx; exact Or.inl hp_taken
      · exact Or.inl ((hperm x).2 (Or.inl hx))
      · exact Or.inl ((hperm x).2 (Or.inr (List.mem_of_mem_erase hx)))
      · exact Or.inr hx
  · intro x hx
    simp only [wstep, List.mem_append] at hx
    rcases hx with hx | hx
    · exact hsound x hx
    · have := (hnt x).1 hx
      exact Reachable.edge p x (hsound p hp_taken) this.1 this.2.2
  · intro i hlt hr
    simp only [wstep, List.mem_append]
    exact Or.inl (hmand i hlt hr)
  · intro i hi d hd hlt
    simp only [wstep, List.mem_cons] at hi
    simp only [wstep, List.mem_append]
    rcases hi with hi | hi
    · subst hi
      by_cases hdt : d ∈ s.taken
      · exact Or.inl hdt
      · exact Or.inr ((hnt d).2 ⟨hd, hdt, hlt⟩)
    · exact Or.inl (hclosed i hi d hd hlt)
  · simp only [wstep]
    rw [List.nodup_append]
    refine ⟨htnd, hnd_nt, ?_⟩
    intro a ha b hb hab
    subst hab
    exact ((hnt a).1 hb).2.1 ha

theorem wreach_inv (g : Graph) (s : WState) (h : WReach g s) : WInv g s := by
  induction h with
  | init => exact winit_inv g
  | step s p _ hp ih => exact wstep_inv g s p ih hp

/-- **C05 (exactly once, every schedule).** In every reachable state no section has been processed
twice. -/
theorem worklist_processed_once (g : Graph) (s : WState) (h : WReach g s) :
    s.processed.Nodup :=
  (List.nodup_append.1 (wreach_inv g s h).nodup).1

/-- **C05 (every schedule ends in the closure).** When the work list is empty, the processed
sections are exactly the closure. -/
theorem worklist_terminal_is_reachable (g : Graph) (s : WState) (h : WReach g s)
    (hterm : s.pending = []) : ∀ i, i ∈ s.processed ↔ Reachable g i := by
  have inv := wreach_inv g s h
  have hpt : ∀ x, x ∈ s.taken ↔ x ∈ s.processed := by
    intro x; rw [inv.perm x, hterm]; simp
  apply any_order_is_reachable g (fun i => i ∈ s.processed)
  · intro i hlt hr; exact (hpt i).1 (inv.mand i hlt hr)
  · intro i d hi hd hlt; exact (hpt d).1 (inv.closed i hi d hd hlt)
  · intro i hi; exact inv.sound i ((hpt i).2 hi)

/-- **C05 (termination of every schedule).** Each step strictly decreases
`2 * (#sections not yet taken) + #pending`, so no schedule is infinite. -/
def wmeasure (g : Graph) (s : WState) : Nat :=
  2 * (g.n - s.taken.length) + s.pending.length

theorem wstep_measure (g : Graph) (s : WState) (p : Nat) (h : WInv g s) (hp : p ∈ s.pending) :
    wmeasure g (wstep g s p) < wmeasure g s := by
  have h' := wstep_inv g s p h hp
  have hb : (wstep g s p).taken.length ≤ g.n := by
    have hsub : (wstep g s p).taken ⊆ List.range g.n := by
      intro x hx
      simp only [List.mem_range]
      exact (h'.sound x hx).lt
    have := List.Nodup.length_le_of_subset h'.takenNodup hsub
    simpa using this
  have hpl : (s.pending.erase p).length = s.pending.length - 1 := List.length_erase_of_mem hp
  have hpos : 0 < s.pending.length := List.length_pos_of_mem hp
  simp only [wmeasure, wstep, List.length_append] at hb ⊢
  omega


/-! ## Non-vacuity -/

/-- cycle 0↔1, self loop on 2 (unreachable), start/stop set {3,4} referenced from 1, FDE edge from the
empty section 5 (not followed) to 6, must-load section 7 referencing 5. -/
def exGraph : Graph :=
  { rootRefs := [.sec 0, .none],
    secs := [
      { refs := [.sec 1], fdeRefs := [], nonEmpty := true, mustLoad := false, startStopSet := none },
      { refs := [.sec 0, .startStop 9], fdeRefs := [], nonEmpty := true, mustLoad := false, startStopSet := none },
      { refs := [.sec 2], fdeRefs := [], nonEmpty := true, mustLoad := false, startStopSet := none },
      { refs := [], fdeRefs := [], nonEmpty := true, mustLoad := false, startStopSet := some 9 },
      { refs := [], fdeRefs := [], nonEmpty := true, mustLoad := false, startStopSet := some 9 },
      { refs := [], fdeRefs := [.sec 6], nonEmpty := false, mustLoad := false, startStopSet := none },
      { refs := [], fdeRefs := [], nonEmpty := true, mustLoad := false, startStopSet := none },
      { refs := [.sec 5], fdeRefs := [], nonEmpty := true, mustLoad := true, startStopSet := none }] }

example : keptMask exGraph = [true, true, false, true, true, true, false, true] := by decide

end Wild.Gc
