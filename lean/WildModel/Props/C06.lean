import WildModel.Props.C04
import WildModel.Props.C07
import WildModel.Props.C39
import WildModel.Props.C40
/-!
# C06 — Output bytes are deterministic

Each modelled parallel combination point of the linker is a FUNCTION OF ITS ORDERED INPUTS: the result
does not depend on the number of hash buckets / threads, on the order in which buckets or tasks run,
on how files are partitioned into groups, or on the order in which a concurrent queue delivered items.

* (a) `bucket_fill_schedule_free` — `symbol_db.rs populate_symbol_db`: symbols are pre-hashed into
  `B = available_threads` buckets; bucket `b` walks the per-group pending lists IN GROUP ORDER
  (`for outputs in per_group_outputs { for symbol in &outputs.pending_symbols_by_bucket[b].symbols ..`)
  and keeps the first id per name, pushing later ids to the alternatives list. The name → first-id map
  and the alternatives are those of the id-ordered symbol list, for every `B`, every grouping and
  every order in which the buckets are processed (`buckets.par_iter_mut()`).
* (b) `undefined_canonicalisation_sorted` — `resolution.rs canonicalise_undefined_symbols`: the
  `SegQueue` of undefined symbols is sorted by (descending) symbol id before use; ids are unique, so
  the processed sequence is invariant under every permutation of the arrival order.
* (c) `dynsort_total_of_unique_names` / `dynsort_counterexample` — `elf.rs create_gnu_hash_layout`:
  `par_sort_unstable_by_key(|d| (bucket(d.hash), d.name))`, where `d.name` is the name WITHOUT its
  version. With unique names every correct sort (stable or not) of every arrival order produces the
  same sequence; with two versions of one name (`foo@V1`, `foo@@V2`) that key is not total and two
  different outputs are both "sorted". Fix c06-dynsym-sort-total appends the symbol id to the key (and
  sorts under `--hash-style=sysv` too, where the arrival order used to be emitted as is):
  `dynsort_total_with_id`.
* (d) `grouping_irrelevant` — `grouping.rs create_groups` (symbol-id / section-id ranges) and
  `layout.rs compute_start_offsets_by_group`: per-file starts are the prefix sums over the file order,
  whatever the partition into groups (`WILD_FILES_PER_GROUP`, `--wild-experiments` group sizes).
* (e) re-exported: string merging (`Wild.StrMerge.split_invisible`, C07; `Wild.ProtoMerge.bucket_order`,
  C40) and the GC traversal (`Wild.ProtoLayout.terminal_is_closure`, C39) are schedule free.

* (f) `Wild.InPlace.inplace_covers_all` — in the layout model of C04 the part file ranges and the padding
  ranges in front of them tile `[0, fileSize)` exactly, so (given that every part writer stores all its
  bytes and padding is zero-filled) no byte of a reused output file survives `--update-in-place`.

Whole-file determinism beyond these merge points is NOT a theorem here; it is explored by
`vlib/props/c06.py` (threads x grouping x experiments x schedule perturbation x prior output state).
-/
namespace Wild.Determinism

/-! ## (a) symbol-bucket fill -/

/-- `PendingSymbol`: symbol id and (interned) name; the bucket is `hash name % B`. -/
structure Pending where
  id : Nat
  name : Nat
  deriving Repr, DecidableEq

/-- `SymbolBucket`: `name_to_id` and `alternative_definitions` (keyed here by the name; the code keys
by the first id, which identifies the name because ids are unique). -/
structure Bucket where
  first : Nat → Option Nat
  alts : Nat → List Nat

def Bucket.empty : Bucket := { first := fun _ => none, alts := fun _ => [] }

/-- `SymbolBucket::add_symbol`. -/
def Bucket.add (b : Bucket) (p : Pending) : Bucket :=
  match b.first p.name with
  | some _ => { b with alts := fun n => if n = p.name then b.alts n ++ [p.id] else b.alts n }
  | none => { b with first := fun n => if n = p.name then some p.id else b.first n }

/-- `pending_symbols_by_bucket[b]` of one group: the group's symbols that hash to `b`, in order. -/
def pendingOf (hash : Nat → Nat) (B b : Nat) (g : List Pending) : List Pending :=
  g.filter fun p => hash p.name % B == b

/-- The body of `populate_symbol_db` for bucket `b`: groups in order, symbols in order. -/
def fillBucket (hash : Nat → Nat) (B : Nat) (groups : List (List Pending)) (b : Nat) : Bucket :=
  groups.foldl (fun acc g => (pendingOf hash B b g).foldl Bucket.add acc) Bucket.empty

/-- `SymbolDb::get`: look the name up in its bucket. -/
def lookupFirst (hash : Nat → Nat) (B : Nat) (groups : List (List Pending)) (n : Nat) : Option Nat :=
  (fillBucket hash B groups (hash n % B)).first n

def lookupAlts (hash : Nat → Nat) (B : Nat) (groups : List (List Pending)) (n : Nat) : List Nat :=
  (fillBucket hash B groups (hash n % B)).alts n

/-- Spec: over the id-ordered symbol list, the first symbol with the name ... -/
def firstOf (all : List Pending) (n : Nat) : Option Nat :=
  ((all.filter fun p => p.name == n).head?).map (·.id)

/-- ... and all later ones, in order. -/
def altsOf (all : List Pending) (n : Nat) : List Nat :=
  ((all.filter fun p => p.name == n).tail).map (·.id)

theorem foldl_add_spec (l : List Pending) (e : Bucket) (n : Nat) :
    ((l.foldl Bucket.add e).first n =
        match e.first n with
        | some f => some f
        | none => ((l.filter fun p => p.name == n).head?).map (·.id)) ∧
    ((l.foldl Bucket.add e).alts n =
        e.alts n ++ match e.first n with
          | some _ => (l.filter fun p => p.name == n).map (·.id)
          | none => ((l.filter fun p => p.name == n).tail).map (·.id)) := by
  induction l generalizing e with
  | nil => cases h : e.first n <;> simp [h]
  | cons p r ih =>
    simp only [List.foldl_cons]
    have := ih (e.add p)
    by_cases hn : p.name = n
    · subst hn
      cases h : e.first p.name with
      | some f =>
        have h1 : (e.add p).first p.name = some f := by simp [Bucket.add, h]
        have h2 : (e.add p).alts p.name = e.alts p.name ++ [p.id] := by simp [Bucket.add, h]
        rw [h1, h2] at this
        simpa [List.filter_cons] using this
      | none =>
        have h1 : (e.add p).first p.name = some p.id := by simp [Bucket.add, h]
        have h2 : (e.add p).alts p.name = e.alts p.name := by simp [Bucket.add, h]
        rw [h1, h2] at this
        simpa [List.filter_cons] using this
    · have hn' : (p.name == n) = false := by simpa using hn
      have h1 : (e.add p).first n = e.first n := by
        unfold Bucket.add; cases e.first p.name <;> simp [Ne.symm hn]
      have h2 : (e.add p).alts n = e.alts n := by
        unfold Bucket.add; cases e.first p.name <;> simp [Ne.symm hn]
      rw [h1, h2] at this
      simpa [List.filter_cons, hn'] using this

theorem fill_eq_flat (hash : Nat → Nat) (B b : Nat) (groups : List (List Pending)) (e : Bucket) :
    groups.foldl (fun acc g => (pendingOf hash B b g).foldl Bucket.add acc) e
      = (pendingOf hash B b groups.flatten).foldl Bucket.add e := by
  induction groups generalizing e with
  | nil => rfl
  | cons g gs ih =>
    simp only [List.foldl_cons, List.flatten_cons]
    rw [ih]
    unfold pendingOf
    rw [List.filter_append, List.foldl_append]

theorem filter_name_pending (hash : Nat → Nat) (B : Nat) (all : List Pending) (n : Nat) :
    ((pendingOf hash B (hash n % B) all).filter fun p => p.name == n) = all.filter fun p => p.name == n := by
  unfold pendingOf
  rw [List.filter_filter]
  apply List.filter_congr
  intro p _
  by_cases h : p.name = n
  · subst h; simp
  · simp [h]

/-- **(a)** The symbol db after the parallel bucket fill is the one of the id-ordered symbol list:
independent of the bucket count `B` (= thread count), of the hash function and of the grouping. -/
theorem bucket_fill_schedule_free (hash : Nat → Nat) (B : Nat) (groups : List (List Pending)) (n : Nat) :
    lookupFirst hash B groups n = firstOf groups.flatten n ∧
    lookupAlts hash B groups n = altsOf groups.flatten n := by
  unfold lookupFirst lookupAlts fillBucket firstOf altsOf
  rw [fill_eq_flat]
  have := foldl_add_spec (pendingOf hash B (hash n % B) groups.flatten) Bucket.empty n
  rw [filter_name_pending] at this
  simpa [Bucket.empty] using this

/-- Two runs with different thread counts, hash functions and groupings of the same ordered symbol
list build the same db. -/
theorem bucket_fill_config_free (hash hash' : Nat → Nat) (B B' : Nat) (groups groups' : List (List Pending))
    (h : groups.flatten = groups'.flatten) (n : Nat) :
    lookupFirst hash B groups n = lookupFirst hash' B' groups' n ∧
    lookupAlts hash B groups n = lookupAlts hash' B' groups' n := by
  rw [(bucket_fill_schedule_free hash B groups n).1, (bucket_fill_schedule_free hash B groups n).2,
      (bucket_fill_schedule_free hash' B' groups' n).1, (bucket_fill_schedule_free hash' B' groups' n).2, h]
  exact ⟨rfl, rfl⟩

/-- `buckets.par_iter_mut().for_each(..)`: the buckets are filled in some order `σ` (any schedule, a
bucket may even be visited again); every visited bucket ends up with `fillBucket`'s value. -/
def runBuckets {β} (fill : Nat → β) (σ : List Nat) (init : Nat → Option β) : Nat → Option β :=
  σ.foldl (fun st b => fun k => if k = b then some (fill b) else st k) init

theorem runBuckets_spec {β} (fill : Nat → β) (σ : List Nat) (init : Nat → Option β) (k : Nat) :
    runBuckets fill σ init k = if k ∈ σ then some (fill k) else init k := by
  unfold runBuckets
  induction σ generalizing init with
  | nil => simp
  | cons b r ih =>
    simp only [List.foldl_cons]
    rw [ih]
    by_cases h1 : k ∈ r
    · simp [h1]
    · by_cases h2 : k = b
      · subst h2; simp [h1]
      · simp [h1, h2]

/-- The order in which buckets are processed is irrelevant. -/
theorem bucket_order_irrelevant {β} (fill : Nat → β) (σ σ' : List Nat) (init : Nat → Option β)
    (h : ∀ k, k ∈ σ ↔ k ∈ σ') : runBuckets fill σ init = runBuckets fill σ' init := by
  funext k
  rw [runBuckets_spec, runBuckets_spec]
  by_cases hk : k ∈ σ
  · simp [hk, (h k).mp hk]
  · have : k ∉ σ' := fun h' => hk ((h k).mpr h')
    simp [hk, this]

/-! ## (b) canonicalisation of undefined symbols -/

/-- `undefined_symbols.sort_by_key(|u| usize::MAX - u.symbol_id)`: descending id. -/
def sortUndefined (l : List Nat) : List Nat := l.mergeSort (fun a b => decide (b ≤ a))

/-- **(b)** Whatever order the concurrent queue delivered the undefined symbols in, the sequence that
`canonicalise_undefined_symbols` processes is the same (ids are unique). Everything computed from it
— canonical id per name = the LAST referencing file's symbol — is therefore schedule free. -/
theorem undefined_canonicalisation_sorted (l l' : List Nat) (hp : l.Perm l') :
    sortUndefined l = sortUndefined l' := by
  unfold sortUndefined
  have tr : ∀ a b c : Nat, decide (b ≤ a) = true → decide (c ≤ b) = true → decide (c ≤ a) = true := by
    intro a b c h1 h2; simp at *; omega
  have tot : ∀ a b : Nat, (decide (b ≤ a) || decide (a ≤ b)) = true := by
    intro a b; simp; omega
  apply List.Perm.eq_of_pairwise (le := fun a b => decide (b ≤ a) = true)
  · intro a b _ _ h1 h2; simp at h1 h2; omega
  · exact List.pairwise_mergeSort tr tot l
  · exact List.pairwise_mergeSort tr tot l'
  · exact (List.mergeSort_perm l _).trans (hp.trans (List.mergeSort_perm l' _).symm)

/-! ## (c) dynamic-symbol sort -/

/-- `DynamicSymbolDefinition`: the name without version, the version index, the symbol id. -/
structure DynDef where
  name : Nat
  version : Nat
  id : Nat
  deriving Repr, DecidableEq

/-- The sort key of `create_gnu_hash_layout` BEFORE fix c06-dynsym-sort-total:
`(hash(name) % bucket_count, name)`, lexicographic. -/
def keyLe (hash : Nat → Nat) (nb : Nat) (a b : DynDef) : Prop :=
  hash a.name % nb < hash b.name % nb ∨ (hash a.name % nb = hash b.name % nb ∧ a.name ≤ b.name)

/-- The key in the working tree: `(hash(name) % bucket_count, name, symbol_id)`; with
`--hash-style=sysv` the same with a constant bucket (`nb = 1`). -/
def keyLeId (hash : Nat → Nat) (nb : Nat) (a b : DynDef) : Prop :=
  hash a.name % nb < hash b.name % nb ∨
    (hash a.name % nb = hash b.name % nb ∧ (a.name < b.name ∨ (a.name = b.name ∧ a.id ≤ b.id)))

/-- What ANY sorting routine by a key guarantees, stable or not (`par_sort_unstable_by_key`). -/
def SortedOutput (le : DynDef → DynDef → Prop) (input out : List DynDef) : Prop :=
  out.Perm input ∧ out.Pairwise le

theorem eq_of_proj_eq {β} (pr : DynDef → β) {l : List DynDef} (h : (l.map pr).Nodup) {a b : DynDef}
    (ha : a ∈ l) (hb : b ∈ l) (hn : pr a = pr b) : a = b := by
  induction l with
  | nil => cases ha
  | cons x l ih =>
    simp only [List.map_cons, List.nodup_cons, List.mem_map, not_exists, not_and] at h
    rcases List.mem_cons.mp ha with rfl | ha' <;> rcases List.mem_cons.mp hb with rfl | hb'
    · rfl
    · exact absurd hn.symm (h.1 b hb')
    · exact absurd hn (h.1 a ha')
    · exact ih h.2 ha' hb'

/-- **(c)** With unique names the old key is already a total order on the definitions: every correct
sort of every arrival order (`input'` is any permutation of `input`) yields the same `.dynsym` order. -/
theorem dynsort_total_of_unique_names (hash : Nat → Nat) (nb : Nat) (input input' out out' : List DynDef)
    (huniq : (input.map (·.name)).Nodup) (hperm : input.Perm input')
    (h : SortedOutput (keyLe hash nb) input out) (h' : SortedOutput (keyLe hash nb) input' out') : out = out' := by
  apply List.Perm.eq_of_pairwise (le := keyLe hash nb) _ h.2 h'.2 (h.1.trans (hperm.trans h'.1.symm))
  intro a b ha hb h1 h2
  have hn : a.name = b.name := by
    unfold keyLe at h1 h2
    rcases h1 with h1 | ⟨_, h1⟩ <;> rcases h2 with h2 | ⟨_, h2⟩ <;> omega
  exact eq_of_proj_eq (·.name) huniq (h.1.subset ha) ((h'.1.trans hperm.symm).subset hb) hn

/-- **(c')** Two versions of one name (`foo@V1` and `foo@@V2`: same `name`, hence same old key): both
orders are valid results of a sort by the old key, so an unstable / parallel sort — or any sort fed
with a schedule-dependent arrival order — may emit either. The old key is NOT total. -/
theorem dynsort_counterexample :
    ∃ (input out out' : List DynDef), SortedOutput (keyLe (fun n => n) 4) input out ∧
      SortedOutput (keyLe (fun n => n) 4) input out' ∧ out ≠ out' := by
  refine ⟨[⟨7, 1, 10⟩, ⟨7, 2, 20⟩], [⟨7, 1, 10⟩, ⟨7, 2, 20⟩], [⟨7, 2, 20⟩, ⟨7, 1, 10⟩], ⟨List.Perm.refl _, ?_⟩, ⟨?_, ?_⟩, by decide⟩
  · simp [keyLe]
  · exact List.Perm.swap _ _ _
  · simp [keyLe]

/-- **(c'')** The key of the working tree is total as soon as symbol ids are unique (they always are):
versioned duplicates included, every correct sort of every arrival order yields the same order. -/
theorem dynsort_total_with_id (hash : Nat → Nat) (nb : Nat) (input input' out out' : List DynDef)
    (huniq : (input.map (·.id)).Nodup) (hperm : input.Perm input')
    (h : SortedOutput (keyLeId hash nb) input out) (h' : SortedOutput (keyLeId hash nb) input' out') : out = out' := by
  apply List.Perm.eq_of_pairwise (le := keyLeId hash nb) _ h.2 h'.2 (h.1.trans (hperm.trans h'.1.symm))
  intro a b ha hb h1 h2
  have hn : a.id = b.id := by
    unfold keyLeId at h1 h2
    rcases h1 with h1 | ⟨_, h1 | ⟨_, h1⟩⟩ <;> rcases h2 with h2 | ⟨_, h2 | ⟨_, h2⟩⟩ <;> omega
  exact eq_of_proj_eq (·.id) huniq (h.1.subset ha) ((h'.1.trans hperm.symm).subset hb) hn

/-! ## (d) grouping -/

/-- Start offsets of consecutive items of sizes `l`, from `start`. -/
def prefixStarts (start : Nat) : List Nat → List Nat
  | [] => []
  | x :: xs => start :: prefixStarts (start + x) xs

/-- `create_groups` / `compute_start_offsets_by_group`: every group starts where the previous group
ended; inside a group files follow each other. -/
def groupedStarts (start : Nat) : List (List Nat) → List Nat
  | [] => []
  | g :: gs => prefixStarts start g ++ groupedStarts (start + g.sum) gs

theorem prefixStarts_append (start : Nat) (a b : List Nat) :
    prefixStarts start (a ++ b) = prefixStarts start a ++ prefixStarts (start + a.sum) b := by
  induction a generalizing start with
  | nil => simp [prefixStarts]
  | cons x xs ih => simp [prefixStarts, ih, Nat.add_assoc]

/-- **(d)** Per-file starts (symbol ids, section ids, offsets inside an output section part) are the
prefix sums over the FILE ORDER, whatever the partition into groups. -/
theorem grouping_irrelevant (start : Nat) (groups : List (List Nat)) :
    groupedStarts start groups = prefixStarts start groups.flatten := by
  induction groups generalizing start with
  | nil => rfl
  | cons g gs ih => simp [groupedStarts, prefixStarts_append, ih]

theorem grouping_partition_free (start : Nat) (groups groups' : List (List Nat))
    (h : groups.flatten = groups'.flatten) : groupedStarts start groups = groupedStarts start groups' := by
  rw [grouping_irrelevant, grouping_irrelevant, h]

/-! ## (e) string merging and GC traversal (proved in their own modules) -/

/-- C07 (iii): the string-merge result denotes the same strings for any split size, bucket count and
bucket hash. -/
def merge_split_invisible := @Wild.StrMerge.split_invisible

/-- C40 (O): under every interleaving each string-merge bucket consumes the input groups in order. -/
def merge_bucket_order := @Wild.ProtoMerge.bucket_order

/-- C39 (S3): under every interleaving the GC traversal ends with exactly the closure of the roots. -/
def gc_terminal_is_closure := @Wild.ProtoLayout.terminal_is_closure

/-! ## Non-vacuity -/

private def g1 : List (List Pending) := [[⟨0, 5⟩, ⟨1, 6⟩], [⟨2, 5⟩], [⟨3, 6⟩, ⟨4, 5⟩]]
private def g2 : List (List Pending) := [[⟨0, 5⟩], [⟨1, 6⟩, ⟨2, 5⟩, ⟨3, 6⟩], [], [⟨4, 5⟩]]
example : lookupFirst (fun n => n * 7) 3 g1 5 = some 0 ∧ lookupAlts (fun n => n * 7) 3 g1 5 = [2, 4] := by decide
example : lookupFirst (fun n => n + 1) 16 g2 5 = some 0 ∧ lookupAlts (fun n => n + 1) 16 g2 5 = [2, 4] := by decide
example : sortUndefined [3, 9, 1] = sortUndefined [1, 3, 9] := undefined_canonicalisation_sorted _ _ (by decide)
example : groupedStarts 100 [[4, 8], [], [16]] = [100, 104, 112] ∧ groupedStarts 100 [[4], [8, 16]] = [100, 104, 112] := by decide

end Wild.Determinism

/-! ## (f) `--update-in-place`: the layout leaves no byte of the file unassigned -/

namespace Wild.InPlace
open Wild.Layout

/-- A byte range `[start, stop)` of the output file: a part's file range (`pad = false`) or the padding in
front of it (`pad = true`). -/
structure Tile where
  start : Nat
  stop : Nat
  pad : Bool
  deriving Repr, DecidableEq

/-- Walk the part records in layout order with a file cursor `lo`: before each part the padding range from the
cursor to the part's file offset, then the part's own file range. -/
def tiles (lo : Nat) : List Rec → List Tile
  | [] => []
  | r :: rs => ⟨lo, r.fileOff, true⟩ :: ⟨r.fileOff, r.fileOff + r.fileSize, false⟩ :: tiles (r.fileOff + r.fileSize) rs

/-- `compute_total_file_size`: the largest end of any file range (taken over the parts; a section's range is
the hull of its parts, so the maximum is the same). -/
def totalFileSize (rs : List Rec) : Nat := rs.foldl (fun a r => max a (r.fileOff + r.fileSize)) 0

/-- `ts` tiles `[lo, hi)` without gap or overlap: each tile starts where the previous one stopped. -/
def Chain (lo hi : Nat) : List Tile → Prop
  | [] => lo = hi
  | t :: ts => t.start = lo ∧ t.start ≤ t.stop ∧ Chain t.stop hi ts

theorem Chain.le {lo hi : Nat} {ts : List Tile} (h : Chain lo hi ts) : lo ≤ hi := by
  induction ts generalizing lo with
  | nil => exact Nat.le_of_eq h
  | cons t ts ih =>
    obtain ⟨h1, h2, h3⟩ := h
    have := ih h3; omega

theorem Chain.bounds {lo hi : Nat} {ts : List Tile} (h : Chain lo hi ts) :
    ∀ t ∈ ts, lo ≤ t.start ∧ t.start ≤ t.stop ∧ t.stop ≤ hi := by
  induction ts generalizing lo with
  | nil => intro t ht; cases ht
  | cons t ts ih =>
    obtain ⟨h1, h2, h3⟩ := h
    intro t' ht'
    rcases List.mem_cons.1 ht' with rfl | hm
    · have := h3.le; omega
    · have := ih h3 t' hm; omega

/-- A chain covers exactly `[lo, hi)`. -/
theorem Chain.cover {lo hi : Nat} {ts : List Tile} (h : Chain lo hi ts) (b : Nat) :
    (lo ≤ b ∧ b < hi) ↔ ∃ t ∈ ts, t.start ≤ b ∧ b < t.stop := by
  induction ts generalizing lo with
  | nil =>
    have : lo = hi := h
    constructor
    · intro hb; omega
    · rintro ⟨t, ht, _⟩; cases ht
  | cons t ts ih =>
    obtain ⟨h1, h2, h3⟩ := h
    have hle := h3.le
    constructor
    · intro hb
      by_cases hlt : b < t.stop
      · exact ⟨t, List.mem_cons_self, by omega, hlt⟩
      · obtain ⟨t', ht', hin⟩ := (ih h3).1 ⟨by omega, hb.2⟩
        exact ⟨t', List.mem_cons_of_mem _ ht', hin⟩
    · rintro ⟨t', ht', hin⟩
      rcases List.mem_cons.1 ht' with rfl | hm
      · omega
      · have := (ih h3).2 ⟨t', hm, hin⟩; omega

/-- The tiles of a chain are pairwise disjoint (ascending). -/
theorem Chain.pairwise {lo hi : Nat} {ts : List Tile} (h : Chain lo hi ts) :
    ts.Pairwise (fun a b => a.stop ≤ b.start) := by
  induction ts generalizing lo with
  | nil => exact List.Pairwise.nil
  | cons t ts ih =>
    obtain ⟨h1, h2, h3⟩ := h
    refine List.Pairwise.cons ?_ (ih h3)
    intro t' ht'
    exact (h3.bounds t' ht').1

/-- End of the last file range (the cursor after the walk). -/
def fileEnd (lo : Nat) : List Rec → Nat
  | [] => lo
  | r :: rs => fileEnd (r.fileOff + r.fileSize) rs

theorem tiles_chain (lo : Nat) (rs : List Rec) (hlo : ∀ r ∈ rs, lo ≤ r.fileOff)
    (hp : rs.Pairwise (fun a b => a.fileOff + a.fileSize ≤ b.fileOff)) :
    Chain lo (fileEnd lo rs) (tiles lo rs) := by
  induction rs generalizing lo with
  | nil => exact rfl
  | cons r rs ih =>
    rw [List.pairwise_cons] at hp
    refine ⟨rfl, hlo r List.mem_cons_self, rfl, Nat.le_add_right _ _, ?_⟩
    exact ih _ (fun q hq => hp.1 q hq) hp.2

theorem foldl_max_eq_fileEnd (lo : Nat) (rs : List Rec) (hlo : ∀ r ∈ rs, lo ≤ r.fileOff)
    (hp : rs.Pairwise (fun a b => a.fileOff + a.fileSize ≤ b.fileOff)) :
    rs.foldl (fun a r => max a (r.fileOff + r.fileSize)) lo = fileEnd lo rs := by
  induction rs generalizing lo with
  | nil => rfl
  | cons r rs ih =>
    rw [List.pairwise_cons] at hp
    have h1 := hlo r List.mem_cons_self
    simp only [List.foldl_cons, fileEnd]
    rw [show max lo (r.fileOff + r.fileSize) = r.fileOff + r.fileSize by omega]
    exact ih _ (fun q hq => hp.1 q hq) hp.2

/-- The part tiles are exactly the file ranges of the records, in order. -/
theorem tiles_parts (lo : Nat) (rs : List Rec) :
    ((tiles lo rs).filter (fun t => !t.pad)).map (fun t => (t.start, t.stop)) =
      rs.map (fun r => (r.fileOff, r.fileOff + r.fileSize)) := by
  induction rs generalizing lo with
  | nil => rfl
  | cons r rs ih => simp [tiles, ih]

/-- **C06 `inplace_covers_all`.** In the layout model of C04 (`layoutParts` = `layout_section_parts`), for every
input: walking the part records in layout order, the padding range in front of each part followed by the part's
own file range tile `[0, fileSize)` without gap or overlap, where `fileSize` is what `compute_total_file_size`
passes to `set_size` (the output is truncated / extended to exactly that length). Hence every byte of the output
file lies either in the file range of exactly one run of parts or in a padding range, nothing lies outside, and
the ranges are pairwise disjoint.

Writer-side assumption (not modelled here, explored by the `--update-in-place` runs of `vlib/props/c06.py`):
(1) the writer of every part stores all `fileSize` bytes of the buffer it is handed; (2) padding is zero-filled:
`split_output_into_sections` zero-fills the bytes between consecutive section ranges (`padding.fill(0)`) and
`fill_padding` zero-fills whatever remains of a section's buffer after `split_buffers_by_alignment` has handed
out `fileSize` bytes per part (the parts' buffers are carved consecutively, so the left-over has the total
length of the padding ranges inside the section). Under (1) and (2) every byte of `[0, fileSize)` is stored by
the link, so the previous contents of an output file reused by `--update-in-place` cannot show through. -/
theorem inplace_covers_all (cfg : Config) (il : Nat → Bool) (secs : Nat → Sec) (evs : List Event) :
    let recs := allRecs (layoutParts cfg il secs evs)
    let ts := tiles 0 recs
    let size := totalFileSize recs
    Chain 0 size ts ∧
    (∀ b, b < size ↔ ∃ t ∈ ts, t.start ≤ b ∧ b < t.stop) ∧
    ts.Pairwise (fun a b => a.stop ≤ b.start) ∧
    (∀ t ∈ ts, t.start ≤ t.stop ∧ t.stop ≤ size) ∧
    (ts.filter (fun t => !t.pad)).map (fun t => (t.start, t.stop)) =
      recs.map (fun r => (r.fileOff, r.fileOff + r.fileSize)) := by
  intro recs ts size
  have hs := layoutWalk_file cfg il (segmentAlignments il secs cfg.page evs) secs
      { file := 0, mem := cfg.base, pending := none } evs
  have hp : recs.Pairwise (fun a b => a.fileOff + a.fileSize ≤ b.fileOff) := hs.2.2
  have hlo : ∀ r ∈ recs, 0 ≤ r.fileOff := fun r _ => Nat.zero_le _
  have hc : Chain 0 size ts := by
    have h1 := tiles_chain 0 recs hlo hp
    have h2 := foldl_max_eq_fileEnd 0 recs hlo hp
    show Chain 0 (totalFileSize recs) (tiles 0 recs)
    unfold totalFileSize
    rw [h2]; exact h1
  refine ⟨hc, ?_, hc.pairwise, ?_, tiles_parts 0 recs⟩
  · intro b
    have := hc.cover b
    constructor
    · intro h; exact this.1 ⟨Nat.zero_le _, h⟩
    · intro h; exact (this.2 h).2
  · intro t ht
    have := hc.bounds t ht
    exact ⟨this.2.1, this.2.2⟩

/-- Non-vacuity: a 0x30-byte part, 0x10 bytes of alignment padding, a 0x100-byte part aligned to 64. -/
example :
    let secs : Nat → Sec := fun sid =>
      if sid = 0 then { (default : Sec) with alloc := true, hasData := true, parts := [⟨4, 0x30⟩] }
      else { (default : Sec) with alloc := true, hasData := true, parts := [⟨6, 0x100⟩] }
    let recs := allRecs (layoutParts ⟨false, 0x400000, 12, 0, 99⟩ (fun _ => true) secs
      [.segStart 0, .section 0, .section 1, .segEnd 0])
    tiles 0 recs = [⟨0, 0, true⟩, ⟨0, 0x30, false⟩, ⟨0x30, 0x40, true⟩, ⟨0x40, 0x140, false⟩] ∧
    totalFileSize recs = 0x140 := by
  decide

end Wild.InPlace
