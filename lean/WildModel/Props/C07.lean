import WildModel.Model.StrMerge
/-!
# C07 — String merging preserves every referenced string

Model: `WildModel/Model/StrMerge.lean` (mirror of libwild/src/string_merging.rs, sequential content).
For ALL lists of non-empty input sections, ALL group sizes (positive multiples of the map block size,
which is what `.next_multiple_of(MAP_BLOCK_SIZE)` produces), ALL bucket functions `h` and bucket
counts `nb > 0`:

* `splitSections_valid` — `split_sections` cuts the linear input space into groups whose ranges cover
  every byte of every section, list the right sections, and start inside a section only at a place
  where `remaining[offset - 1]` is in bounds (block-aligned cuts);
* `skip_boundary`, `processSection_mem` — the straddling-string logic: a group collects exactly the
  strings that START in its range;
* (i) `each_string_in_output`, `each_string_once`;
* (ii) `merge_preserves_cstr`, `section_symbol_reference`, `named_symbol_reference`;
* (iii) `split_invisible`;
* (iv) `merge_unterminated_error`, `merge_error_unterminated_iff`.

No size bounds; the only side conditions are the ones the code establishes before string merging
(non-empty sections: resolution.rs discards empty merge sections) and 64-bit address arithmetic
(`≤ 2^64` on lengths where wrapping arithmetic is involved).
-/
namespace Wild.StrMerge

theorem findNul_some {l : List UInt8} {i : Nat} (h : findNul l = some i) :
    l[i]? = some 0 ∧ ∀ j, j < i → l[j]? ≠ some 0 := by
  induction l generalizing i with
  | nil => simp [findNul] at h
  | cons b r ih =>
    unfold findNul at h
    split at h
    · cases h; simp_all
    · cases hr : findNul r with
      | none => simp [hr] at h
      | some k =>
        simp [hr] at h; subst h
        have ih' := ih hr
        refine ⟨by simpa using ih'.1, ?_⟩
        intro j hj
        cases j with
        | zero => simp_all
        | succ j => simpa using ih'.2 j (by omega)

theorem findNul_none {l : List UInt8} (h : findNul l = none) : ∀ j : Nat, l[j]? ≠ some 0 := by
  induction l with
  | nil => simp
  | cons b r ih =>
    unfold findNul at h
    split at h
    · cases h
    · cases hr : findNul r with
      | none =>
        intro j
        cases j with
        | zero => simp_all
        | succ j => simpa using ih hr j
      | some k => simp [hr] at h

theorem findNul_lt {l : List UInt8} {i : Nat} (h : findNul l = some i) : i < l.length := by
  have := (findNul_some h).1
  exact (List.getElem?_eq_some_iff.mp this).1


/-- `q` is a string boundary of `d`: the start of the data or just after a NUL. -/
def Bnd (d : List UInt8) (q : Nat) : Prop := q = 0 ∨ d[q - 1]? = some 0

/-- A string starts at offset `q` of `d`. -/
def IsStart (d : List UInt8) (q : Nat) : Prop := q < d.length ∧ Bnd d q

theorem scanLoop_spec (d : List UInt8) (st hi : Nat) :
    ∀ fuel p, (Bnd d p ∨ d.length ≤ p) → d.length - p < fuel →
      (∀ es, scanLoop hi fuel (d.drop p) (st + p) = .ok es →
        (∀ k s, (k, s) ∈ es ↔ ∃ q, k = st + q ∧ p ≤ q ∧ IsStart d q ∧ st + q < hi ∧ cstr d q = some s)
        ∧ (∀ q, p ≤ q → IsStart d q → st + q < hi → cstr d q ≠ none))
      ∧ (∀ e, scanLoop hi fuel (d.drop p) (st + p) = .error e →
        e = .unterminated ∧ ∃ q, p ≤ q ∧ IsStart d q ∧ st + q < hi ∧ cstr d q = none) := by
  intro fuel
  induction fuel with
  | zero => intro p _ h; omega
  | succ fuel ih =>
    intro p hb hf
    unfold scanLoop
    by_cases hstop : ((d.drop p).isEmpty || !(decide (st + p < hi))) = true
    · rw [if_pos hstop]
      refine ⟨?_, by intro e h; cases h⟩
      intro es h
      cases h
      have hcase : d.length ≤ p ∨ hi ≤ st + p := by
        simp only [Bool.or_eq_true, List.isEmpty_iff, List.drop_eq_nil_iff, Bool.not_eq_eq_eq_not,
          Bool.not_true, decide_eq_false_iff_not, Nat.not_lt] at hstop
        exact hstop
      constructor
      · intro k s
        constructor
        · intro h; cases h
        · rintro ⟨q, -, hq, hs, hlt, -⟩
          have := hs.1
          omega
      · intro q hq hs hlt
        have := hs.1
        omega
    · rw [if_neg hstop]
      have hlen : p < d.length ∧ st + p < hi := by
        simp only [Bool.or_eq_true, List.isEmpty_iff, List.drop_eq_nil_iff, Bool.not_eq_eq_eq_not,
          Bool.not_true, decide_eq_false_iff_not, Nat.not_lt, not_or, Nat.not_le] at hstop
        exact hstop
      have hbnd : Bnd d p := by
        cases hb with
        | inl h => exact h
        | inr h => omega
      have hstart : IsStart d p := ⟨hlen.1, hbnd⟩
      cases hn : findNul (d.drop p) with
      | none =>
        have hts : takeString (d.drop p) = none := by simp [takeString, hn]
        rw [hts]
        refine ⟨(by intro es h; cases h), ?_⟩
        intro e h
        cases h
        refine ⟨rfl, p, Nat.le_refl _, hstart, hlen.2, ?_⟩
        simp [cstr, hn]
      | some i =>
        have hts : takeString (d.drop p) = some ((d.drop p).take (i + 1), (d.drop p).drop (i + 1)) := by
          simp [takeString, hn]
        rw [hts]
        have hi_lt := findNul_lt hn
        have hnul := findNul_some hn
        have hlen_d : (d.drop p).length = d.length - p := List.length_drop
        have hlen_s : ((d.drop p).take (i + 1)).length = i + 1 := by
          rw [List.length_take]; omega
        have hrest : (d.drop p).drop (i + 1) = d.drop (p + (i + 1)) := by
          rw [List.drop_drop]
        have hoff : st + p + ((d.drop p).take (i + 1)).length = st + (p + (i + 1)) := by
          rw [hlen_s]; omega
        simp only []
        rw [hrest, hoff]
        have hb' : Bnd d (p + (i + 1)) ∨ d.length ≤ p + (i + 1) := by
          left; right
          have := hnul.1
          rw [List.getElem?_drop] at this
          simpa [Nat.add_assoc] using this
        have ih' := ih (p + (i + 1)) hb' (by omega)
        have hcp : cstr d p = some ((d.drop p).take (i + 1)) := by simp [cstr, hn]
        -- no string starts strictly inside the first string
        have hgap : ∀ q, p < q → q < p + (i + 1) → ¬ Bnd d q := by
          intro q h1 h2 hbq
          cases hbq with
          | inl h => omega
          | inr h =>
            have := hnul.2 (q - 1 - p) (by omega)
            rw [List.getElem?_drop] at this
            have e : p + (q - 1 - p) = q - 1 := by omega
            rw [e] at this
            exact this h
        cases hrec : scanLoop hi fuel (d.drop (p + (i + 1))) (st + (p + (i + 1))) with
        | error e =>
          simp only []
          refine ⟨(by intro es h; cases h), ?_⟩
          intro e' h
          cases h
          obtain ⟨he, q, hq, hs, hlt, hc⟩ := ih'.2 e hrec
          exact ⟨he, q, by omega, hs, hlt, hc⟩
        | ok es' =>
          simp only []
          refine ⟨?_, by intro e h; cases h⟩
          intro es h
          cases h
          obtain ⟨hmem, hterm⟩ := ih'.1 es' hrec
          constructor
          · intro k s
            rw [List.mem_cons]
            constructor
            · rintro (h | h)
              · cases h
                exact ⟨p, rfl, Nat.le_refl _, hstart, hlen.2, hcp⟩
              · obtain ⟨q, hk, hq, hs, hlt, hc⟩ := (hmem k s).mp h
                exact ⟨q, hk, by omega, hs, hlt, hc⟩
            · rintro ⟨q, hk, hq, hs, hlt, hc⟩
              by_cases hqp : q = p
              · subst hqp
                left
                rw [hcp] at hc
                cases hc
                rw [hk]
              · right
                have : p + (i + 1) ≤ q := by
                  apply Nat.le_of_not_gt
                  intro hgt
                  exact hgap q (by omega) hgt hs.2
                exact (hmem k s).mpr ⟨q, hk, this, hs, hlt, hc⟩
          · intro q hq hs hlt
            by_cases hqp : q = p
            · subst hqp; rw [hcp]; simp
            · have : p + (i + 1) ≤ q := by
                apply Nat.le_of_not_gt
                intro hgt
                exact hgap q (by omega) hgt hs.2
              exact hterm q this hs hlt

/-- The delicate boundary logic (`remaining[offset_in_section - 1]`): when a group starts `x > 0`
bytes into a section, the bytes skipped end exactly at the first string start at or after `x`. -/
theorem skip_boundary (d : List UInt8) (x : Nat) (hx : 0 < x) (hlt : x - 1 < d.length) :
    ∃ adv, skipAdvance d x = .ok adv ∧ x ≤ adv ∧ adv ≤ d.length ∧ (Bnd d adv ∨ d.length ≤ adv) ∧
      ∀ q, IsStart d q → (x ≤ q ↔ adv ≤ q) := by
  unfold skipAdvance
  have hget : d[x - 1]? = some d[x - 1] := List.getElem?_eq_getElem hlt
  rw [hget]
  simp only []
  by_cases hb : d[x - 1] = 0
  · rw [if_pos hb]
    refine ⟨x, rfl, Nat.le_refl _, by omega, ?_, fun q _ => Iff.rfl⟩
    left; right; rw [hget, hb]
  · rw [if_neg hb]
    have hnb : ¬ Bnd d x := by
      rintro (h | h)
      · omega
      · rw [hget] at h; exact hb (Option.some.inj h)
    cases hn : findNul (d.drop x) with
    | none =>
      refine ⟨d.length, rfl, by omega, Nat.le_refl _, Or.inr (Nat.le_refl _), ?_⟩
      intro q hs
      constructor
      · intro hxq
        exfalso
        by_cases hqx : q = x
        · subst hqx; exact hnb hs.2
        · cases hs.2 with
          | inl h => omega
          | inr h =>
            have := findNul_none hn (q - 1 - x)
            rw [List.getElem?_drop] at this
            have e : x + (q - 1 - x) = q - 1 := by omega
            rw [e] at this
            exact this h
      · intro h; have := hs.1; omega
    | some i =>
      have hi_lt := findNul_lt hn
      have hnul := findNul_some hn
      have hlen_d : (d.drop x).length = d.length - x := List.length_drop
      refine ⟨x + i + 1, rfl, by omega, by omega, ?_, ?_⟩
      · left; right
        have := hnul.1
        rw [List.getElem?_drop] at this
        simpa using this
      · intro q hs
        constructor
        · intro hxq
          apply Nat.le_of_not_gt
          intro hgt
          by_cases hqx : q = x
          · subst hqx; exact hnb hs.2
          · cases hs.2 with
            | inl h => omega
            | inr h =>
              have := hnul.2 (q - 1 - x) (by omega)
              rw [List.getElem?_drop] at this
              have e : x + (q - 1 - x) = q - 1 := by omega
              rw [e] at this
              exact this h
        · intro h; omega

/-- `process_input_section` on a string section collects exactly the strings that START inside the
group's range (each with its full bytes, even when it extends past the range end); it fails exactly
when such a string is not terminated. `hsafe` is what `split_sections` guarantees (block-aligned cuts). -/
theorem processSection_mem (st : Nat) (sec : Sec) (lo hi : Nat) (hs : sec.isString = true)
    (hsafe : st < lo → lo - st - 1 < sec.data.length) :
    (∀ es, processSection st sec lo hi = .ok es →
      (∀ k s, (k, s) ∈ es ↔ ∃ q, k = st + q ∧ IsStart sec.data q ∧ lo ≤ st + q ∧ st + q < hi ∧
          cstr sec.data q = some s)
      ∧ (∀ q, IsStart sec.data q → lo ≤ st + q → st + q < hi → cstr sec.data q ≠ none))
    ∧ (∀ e, processSection st sec lo hi = .error e →
      e = .unterminated ∧ ∃ q, IsStart sec.data q ∧ lo ≤ st + q ∧ st + q < hi ∧ cstr sec.data q = none) := by
  unfold processSection
  by_cases hlo : lo > st
  · rw [if_pos hlo]
    obtain ⟨adv, hadv, h1, h2, h3, h4⟩ := skip_boundary sec.data (lo - st) (by omega) (hsafe hlo)
    rw [hadv]
    simp only [hs, Bool.not_true, Bool.false_eq_true, if_false]
    have hlen_d : (sec.data.drop adv).length = sec.data.length - adv := List.length_drop
    have sp := scanLoop_spec sec.data st hi ((sec.data.drop adv).length + 1) adv h3 (by omega)
    have conv : ∀ q, IsStart sec.data q → (adv ≤ q ↔ lo ≤ st + q) := by
      intro q hq
      rw [← h4 q hq]
      omega
    constructor
    · intro es hes
      obtain ⟨a, b⟩ := sp.1 es hes
      constructor
      · intro k s
        rw [a k s]
        constructor
        · rintro ⟨q, hk, hq, hst, hlt, hc⟩
          exact ⟨q, hk, hst, (conv q hst).mp hq, hlt, hc⟩
        · rintro ⟨q, hk, hst, hq, hlt, hc⟩
          exact ⟨q, hk, (conv q hst).mpr hq, hst, hlt, hc⟩
      · intro q hst hq hlt
        exact b q ((conv q hst).mpr hq) hst hlt
    · intro e he
      obtain ⟨a, q, hq, hst, hlt, hc⟩ := sp.2 e he
      exact ⟨a, q, hst, (conv q hst).mp hq, hlt, hc⟩
  · rw [if_neg hlo]
    simp only [hs, Bool.not_true, Bool.false_eq_true, if_false, List.drop_zero, Nat.add_zero]
    have sp := scanLoop_spec sec.data st hi (sec.data.length + 1) 0 (Or.inl (Or.inl rfl)) (by omega)
    simp only [List.drop_zero, Nat.add_zero] at sp
    constructor
    · intro es hes
      obtain ⟨a, b⟩ := sp.1 es hes
      constructor
      · intro k s
        rw [a k s]
        constructor
        · rintro ⟨q, hk, hq, hst, hlt, hc⟩
          exact ⟨q, hk, hst, by omega, hlt, hc⟩
        · rintro ⟨q, hk, hst, hq, hlt, hc⟩
          exact ⟨q, hk, by omega, hst, hlt, hc⟩
      · intro q hst hq hlt
        exact b q (by omega) hst hlt
    · intro e he
      obtain ⟨a, q, hq, hst, hlt, hc⟩ := sp.2 e he
      exact ⟨a, q, hst, by omega, hlt, hc⟩


/-! ### cstr algebra -/

theorem findNul_eq_some_iff {l : List UInt8} {i : Nat} :
    findNul l = some i ↔ l[i]? = some 0 ∧ ∀ j, j < i → l[j]? ≠ some 0 := by
  constructor
  · exact findNul_some
  · induction l generalizing i with
    | nil => intro h; simp at h
    | cons b r ih =>
      intro ⟨h1, h2⟩
      unfold findNul
      by_cases hb : b = 0
      · rw [if_pos hb]
        cases i with
        | zero => rfl
        | succ i => exact absurd (by simp [hb]) (h2 0 (by omega))
      · rw [if_neg hb]
        cases i with
        | zero => simp at h1; exact absurd h1 hb
        | succ i =>
          have : findNul r = some i := by
            apply ih
            refine ⟨by simpa using h1, ?_⟩
            intro j hj
            simpa using h2 (j + 1) (by omega)
          rw [this]

/-- If the C string at `p` of `d` is `s`, then wherever a copy of `s` sits (at `X` of `out`), the
C string `j` bytes into the copy is the same as `j` bytes into the original. -/
theorem cstr_shift {d : List UInt8} {p : Nat} {s : List UInt8} (hc : cstr d p = some s)
    {j : Nat} (hj : j < s.length) (out : List UInt8) (X : Nat) (r : List UInt8)
    (ho : out.drop X = s ++ r) : cstr out (X + j) = some (s.drop j) := by
  unfold cstr at hc
  cases hn : findNul (d.drop p) with
  | none => simp [hn] at hc
  | some i =>
    simp only [hn, Option.some.injEq] at hc
    have hi_lt := findNul_lt hn
    have hnul := findNul_some hn
    have hslen : s.length = i + 1 := by rw [← hc, List.length_take]; omega
    have hsget : ∀ n, n < i + 1 → s[n]? = (d.drop p)[n]? := by
      intro n hn'
      rw [← hc, List.getElem?_take]; simp [hn']
    have hdrop : out.drop (X + j) = s.drop j ++ r := by
      rw [← List.drop_drop, ho, List.drop_append_of_le_length (by omega)]
    have hfn : findNul (s.drop j ++ r) = some (i - j) := by
      rw [findNul_eq_some_iff]
      constructor
      · rw [List.getElem?_append_left (by rw [List.length_drop]; omega), List.getElem?_drop]
        have e : j + (i - j) = i := by omega
        rw [e, hsget i (by omega)]; exact hnul.1
      · intro n hn'
        rw [List.getElem?_append_left (by rw [List.length_drop]; omega), List.getElem?_drop,
          hsget (j + n) (by omega)]
        exact hnul.2 (j + n) (by omega)
    unfold cstr
    rw [hdrop, hfn]
    simp only [Option.some.injEq]
    rw [List.take_append_of_le_length (by rw [List.length_drop]; omega)]
    apply List.take_of_length_le
    rw [List.length_drop]; omega

theorem cstr_drop_eq {d : List UInt8} {p : Nat} {s : List UInt8} (hc : cstr d p = some s) :
    ∃ r, d.drop p = s ++ r ∧ 0 < s.length := by
  unfold cstr at hc
  cases hn : findNul (d.drop p) with
  | none => simp [hn] at hc
  | some i =>
    simp only [hn, Option.some.injEq] at hc
    have hi_lt := findNul_lt hn
    refine ⟨(d.drop p).drop (i + 1), ?_, ?_⟩
    · rw [← hc, List.take_append_drop]
    · rw [← hc, List.length_take]; omega

/-! ### buckets and output bytes -/

theorem mem_foldl_addString (l : List (List UInt8)) (acc : List (List UInt8)) (s : List UInt8) :
    s ∈ l.foldl addString acc ↔ s ∈ acc ∨ s ∈ l := by
  induction l generalizing acc with
  | nil => simp
  | cons t r ih =>
    rw [List.foldl_cons, ih]
    unfold addString
    by_cases ht : t ∈ acc
    · rw [if_pos ht]
      constructor
      · rintro (h | h)
        · exact Or.inl h
        · exact Or.inr (List.mem_cons_of_mem _ h)
      · rintro (h | h)
        · exact Or.inl h
        · rcases List.mem_cons.mp h with h | h
          · subst h; exact Or.inl ht
          · exact Or.inr h
    · rw [if_neg ht]
      simp only [List.mem_append, List.mem_cons, List.not_mem_nil, or_false, or_assoc]

theorem nodup_foldl_addString (l : List (List UInt8)) (acc : List (List UInt8)) (h : acc.Nodup) :
    (l.foldl addString acc).Nodup := by
  induction l generalizing acc with
  | nil => simpa
  | cons t r ih =>
    rw [List.foldl_cons]
    apply ih
    unfold addString
    by_cases ht : t ∈ acc
    · rw [if_pos ht]; exact h
    · rw [if_neg ht]
      rw [List.nodup_append]
      refine ⟨h, by simp, ?_⟩
      intro a ha b hb
      simp at hb
      subst hb
      intro e; subst e; exact ht ha

theorem mem_bucketStrs (nb : Nat) (h : List UInt8 → Nat) (b : Nat) (es : List Entry) (s : List UInt8) :
    s ∈ bucketStrs nb h b es ↔ (∃ k, (k, s) ∈ es) ∧ h s % nb = b := by
  unfold bucketStrs
  rw [mem_foldl_addString]
  simp only [List.not_mem_nil, false_or, List.mem_map, List.mem_filter, beq_iff_eq]
  constructor
  · rintro ⟨⟨k, s'⟩, ⟨hm, hb⟩, rfl⟩
    exact ⟨⟨k, hm⟩, hb⟩
  · rintro ⟨⟨k, hm⟩, hb⟩
    exact ⟨(k, s), ⟨hm, hb⟩, rfl⟩

theorem allBuckets_getD (nb : Nat) (h : List UInt8 → Nat) (es : List Entry) (b : Nat) (hb : b < nb) :
    (allBuckets nb h es).getD b [] = bucketStrs nb h b es := by
  unfold allBuckets
  rw [List.getD_eq_getElem?_getD, List.getElem?_map, List.getElem?_range hb]
  rfl

theorem allBuckets_length (nb : Nat) (h : List UInt8 → Nat) (es : List Entry) :
    (allBuckets nb h es).length = nb := by
  simp [allBuckets]

theorem flatten_drop_offIn (strs : List (List UInt8)) (s : List UInt8) (hs : s ∈ strs) :
    ∃ rest, strs.flatten.drop (offIn strs s) = s ++ rest := by
  induction strs with
  | nil => cases hs
  | cons t r ih =>
    unfold offIn
    by_cases hts : t = s
    · rw [if_pos hts]
      subst hts
      exact ⟨r.flatten, by simp⟩
    · rw [if_neg hts]
      have : s ∈ r := by
        rcases List.mem_cons.mp hs with h | h
        · exact absurd h.symm hts
        · exact h
      obtain ⟨rest, hr⟩ := ih this
      refine ⟨rest, ?_⟩
      rw [List.flatten_cons, List.drop_append, List.drop_of_length_le (by omega)]
      simpa using hr

theorem outBytes_drop_base (bs : List (List (List UInt8))) (b : Nat) (hb : b < bs.length) :
    ∃ rest, (outBytes bs).drop (baseOf bs b) = (bs.getD b []).flatten ++ rest := by
  induction bs generalizing b with
  | nil => simp at hb
  | cons t r ih =>
    cases b with
    | zero => exact ⟨outBytes r, by simp [outBytes, baseOf]⟩
    | succ b =>
      obtain ⟨rest, hr⟩ := ih b (by simpa using hb)
      refine ⟨rest, ?_⟩
      have hbase : baseOf (t :: r) (b + 1) = t.flatten.length + baseOf r b := by
        simp [baseOf]
      have hout : outBytes (t :: r) = t.flatten ++ outBytes r := by simp [outBytes]
      rw [hbase, hout, List.drop_append, List.drop_of_length_le (by omega)]
      simpa using hr

theorem offIn_le (strs : List (List UInt8)) (s : List UInt8) (hs : s ∈ strs) :
    offIn strs s ≤ strs.flatten.length := by
  induction strs with
  | nil => cases hs
  | cons t r ih =>
    unfold offIn
    by_cases hts : t = s
    · rw [if_pos hts]; omega
    · rw [if_neg hts]
      have : s ∈ r := by
        rcases List.mem_cons.mp hs with h | h
        · exact absurd h.symm hts
        · exact h
      have := ih this
      rw [List.flatten_cons, List.length_append]; omega

/-- The bytes of `s` sit in the output at `bucket base + offset in bucket`. -/
theorem out_at (bs : List (List (List UInt8))) (b : Nat) (s : List UInt8) (hb : b < bs.length)
    (hs : s ∈ bs.getD b []) :
    ∃ rest, (outBytes bs).drop (baseOf bs b + offIn (bs.getD b []) s) = s ++ rest := by
  obtain ⟨r1, h1⟩ := outBytes_drop_base bs b hb
  obtain ⟨r2, h2⟩ := flatten_drop_offIn _ s hs
  refine ⟨r2 ++ r1, ?_⟩
  rw [← List.drop_drop, h1, List.drop_append]
  have hle := offIn_le _ s hs
  rw [h2]
  have : offIn (bs.getD b []) s - (bs.getD b []).flatten.length = 0 := by omega
  rw [this]; simp

/-! ### groups -/

theorem processSecs_spec (lo hi : Nat) : ∀ (l : List (Nat × Sec)),
    (∀ es, processSecs lo hi l = .ok es →
      (∀ p ∈ l, ∃ es', processSection p.1 p.2 lo hi = .ok es') ∧
      (∀ e, e ∈ es ↔ ∃ p ∈ l, ∃ es', processSection p.1 p.2 lo hi = .ok es' ∧ e ∈ es'))
    ∧ (∀ e, processSecs lo hi l = .error e → ∃ p ∈ l, processSection p.1 p.2 lo hi = .error e) := by
  intro l
  induction l with
  | nil =>
    refine ⟨?_, by intro e h; cases h⟩
    intro es h
    cases h
    simp
  | cons a r ih =>
    obtain ⟨st, s⟩ := a
    unfold processSecs
    cases h1 : processSection st s lo hi with
    | error e1 =>
      refine ⟨(by intro es h; cases h), ?_⟩
      intro e h
      cases h
      exact ⟨(st, s), List.mem_cons_self, h1⟩
    | ok es1 =>
      cases h2 : processSecs lo hi r with
      | error e2 =>
        refine ⟨(by intro es h; cases h), ?_⟩
        intro e h
        cases h
        obtain ⟨p, hp, he⟩ := ih.2 e2 h2
        exact ⟨p, List.mem_cons_of_mem _ hp, he⟩
      | ok es2 =>
        refine ⟨?_, by intro e h; cases h⟩
        intro es h
        cases h
        obtain ⟨ia, ib⟩ := ih.1 es2 h2
        constructor
        · intro p hp
          rcases List.mem_cons.mp hp with h | h
          · subst h; exact ⟨es1, h1⟩
          · exact ia p h
        · intro e
          rw [List.mem_append, ib e]
          constructor
          · rintro (h | ⟨p, hp, es', he, hm⟩)
            · exact ⟨(st, s), List.mem_cons_self, es1, h1, h⟩
            · exact ⟨p, List.mem_cons_of_mem _ hp, es', he, hm⟩
          · rintro ⟨p, hp, es', he, hm⟩
            rcases List.mem_cons.mp hp with h | h
            · subst h
              rw [h1] at he
              cases he
              exact Or.inl hm
            · exact Or.inr ⟨p, h, es', he, hm⟩

theorem processGroups_spec : ∀ (gs : List Group),
    (∀ es, processGroups gs = .ok es →
      (∀ g ∈ gs, ∀ p ∈ g.secs, ∃ es', processSection p.1 p.2 g.lo g.hi = .ok es') ∧
      (∀ e, e ∈ es ↔ ∃ g ∈ gs, ∃ p ∈ g.secs, ∃ es', processSection p.1 p.2 g.lo g.hi = .ok es' ∧ e ∈ es'))
    ∧ (∀ e, processGroups gs = .error e →
      ∃ g ∈ gs, ∃ p ∈ g.secs, processSection p.1 p.2 g.lo g.hi = .error e) := by
  intro gs
  induction gs with
  | nil =>
    refine ⟨?_, by intro e h; cases h⟩
    intro es h
    cases h
    simp
  | cons g r ih =>
    unfold processGroups
    have sp := processSecs_spec g.lo g.hi g.secs
    cases h1 : processSecs g.lo g.hi g.secs with
    | error e1 =>
      refine ⟨(by intro es h; cases h), ?_⟩
      intro e h
      cases h
      obtain ⟨p, hp, he⟩ := sp.2 e1 h1
      exact ⟨g, List.mem_cons_self, p, hp, he⟩
    | ok es1 =>
      obtain ⟨sa, sb⟩ := sp.1 es1 h1
      cases h2 : processGroups r with
      | error e2 =>
        refine ⟨(by intro es h; cases h), ?_⟩
        intro e h
        cases h
        obtain ⟨g', hg', p, hp, he⟩ := ih.2 e2 h2
        exact ⟨g', List.mem_cons_of_mem _ hg', p, hp, he⟩
      | ok es2 =>
        refine ⟨?_, by intro e h; cases h⟩
        intro es h
        cases h
        obtain ⟨ia, ib⟩ := ih.1 es2 h2
        constructor
        · intro g' hg'
          rcases List.mem_cons.mp hg' with h | h
          · subst h; exact sa
          · exact ia g' h
        · intro e
          rw [List.mem_append, ib e, sb e]
          constructor
          · rintro (⟨p, hp, es', he, hm⟩ | ⟨g', hg', p, hp, es', he, hm⟩)
            · exact ⟨g, List.mem_cons_self, p, hp, es', he, hm⟩
            · exact ⟨g', List.mem_cons_of_mem _ hg', p, hp, es', he, hm⟩
          · rintro ⟨g', hg', p, hp, es', he, hm⟩
            rcases List.mem_cons.mp hg' with h | h
            · subst h; exact Or.inl ⟨p, hp, es', he, hm⟩
            · exact Or.inr ⟨g', h, p, hp, es', he, hm⟩

theorem processSection_nonstring (st : Nat) (sec : Sec) (lo hi : Nat) (hs : sec.isString = false)
    (hlo : ¬ st < lo) : processSection st sec lo hi = .ok [(st, sec.data)] := by
  unfold processSection
  have : ¬ lo > st := hlo
  rw [if_neg this]
  simp [hs]

/-- What the group list must satisfy for the scan to see every string exactly where it starts
(proved for `splitSections` in `splitSections_valid`). -/
structure Valid (ss : List (Nat × Sec)) (gs : List Group) : Prop where
  /-- every byte of every section lies in the range of a group that lists the section -/
  cover : ∀ p ∈ ss, ∀ q, q < p.2.data.length → ∃ g ∈ gs, p ∈ g.secs ∧ g.lo ≤ p.1 + q ∧ p.1 + q < g.hi
  sub : ∀ g ∈ gs, ∀ p ∈ g.secs, p ∈ ss
  /-- a group starts inside a section only for string sections, and then inside its data -/
  safe : ∀ g ∈ gs, ∀ p ∈ g.secs, p.1 < g.lo → p.2.isString = true ∧ g.lo - p.1 - 1 < p.2.data.length

theorem collected_error {ss : List (Nat × Sec)} {gs : List Group} (hv : Valid ss gs) {e : Err}
    (h : processGroups gs = .error e) :
    e = .unterminated ∧ ∃ p ∈ ss, p.2.isString = true ∧ ∃ q, IsStart p.2.data q ∧ cstr p.2.data q = none := by
  obtain ⟨g, hg, p, hp, he⟩ := (processGroups_spec gs).2 e h
  cases hs : p.2.isString with
  | false =>
    have hlo : ¬ p.1 < g.lo := by
      intro hlt
      have := (hv.safe g hg p hp hlt).1
      rw [hs] at this; cases this
    rw [processSection_nonstring p.1 p.2 g.lo g.hi hs hlo] at he
    cases he
  | true =>
    have sp := processSection_mem p.1 p.2 g.lo g.hi hs (fun hlt => (hv.safe g hg p hp hlt).2)
    obtain ⟨h1, q, hq, _, _, hc⟩ := sp.2 e he
    exact ⟨h1, p, hv.sub g hg p hp, hs, q, hq, hc⟩

theorem collected_sound {ss : List (Nat × Sec)} {gs : List Group} (hv : Valid ss gs) {es : List Entry}
    (h : processGroups gs = .ok es) (e : Entry) (he : e ∈ es) :
    ∃ p ∈ ss, (p.2.isString = true ∧ ∃ q, e.1 = p.1 + q ∧ IsStart p.2.data q ∧ cstr p.2.data q = some e.2)
      ∨ (p.2.isString = false ∧ e = (p.1, p.2.data)) := by
  obtain ⟨g, hg, p, hp, es', hes', hm⟩ := (((processGroups_spec gs).1 es h).2 e).mp he
  refine ⟨p, hv.sub g hg p hp, ?_⟩
  cases hs : p.2.isString with
  | false =>
    right
    have hlo : ¬ p.1 < g.lo := by
      intro hlt
      have := (hv.safe g hg p hp hlt).1
      rw [hs] at this; cases this
    rw [processSection_nonstring p.1 p.2 g.lo g.hi hs hlo] at hes'
    cases hes'
    simp at hm
    exact ⟨rfl, hm⟩
  | true =>
    left
    have sp := processSection_mem p.1 p.2 g.lo g.hi hs (fun hlt => (hv.safe g hg p hp hlt).2)
    obtain ⟨q, hk, hq, _, _, hc⟩ := (((sp.1 es' hes').1 e.1 e.2).mp hm)
    exact ⟨rfl, q, hk, hq, hc⟩

theorem collected_complete {ss : List (Nat × Sec)} {gs : List Group} (hv : Valid ss gs) {es : List Entry}
    (h : processGroups gs = .ok es) (p : Nat × Sec) (hp : p ∈ ss) (hs : p.2.isString = true)
    (q : Nat) (hq : IsStart p.2.data q) :
    ∃ s, cstr p.2.data q = some s ∧ (p.1 + q, s) ∈ es := by
  obtain ⟨g, hg, hpg, hlo, hhi⟩ := hv.cover p hp q hq.1
  obtain ⟨ga, gb⟩ := (processGroups_spec gs).1 es h
  obtain ⟨es', hes'⟩ := ga g hg p hpg
  have sp := processSection_mem p.1 p.2 g.lo g.hi hs (fun hlt => (hv.safe g hg p hpg hlt).2)
  obtain ⟨sa, sb⟩ := sp.1 es' hes'
  cases hc : cstr p.2.data q with
  | none => exact absurd hc (sb q hq hlo hhi)
  | some s =>
    refine ⟨s, rfl, ?_⟩
    apply (gb (p.1 + q, s)).mpr
    exact ⟨g, hg, p, hpg, es', hes', (sa (p.1 + q) s).mpr ⟨q, rfl, hq, hlo, hhi, hc⟩⟩

/-! ### start offsets are disjoint -/

theorem le_padLen (n : Nat) : n ≤ padLen n := by unfold padLen; omega

theorem withStarts_ge : ∀ (secs : List Sec) (st : Nat), ∀ p ∈ withStarts st secs, st ≤ p.1 := by
  intro secs
  induction secs with
  | nil => intro st p hp; cases hp
  | cons s r ih =>
    intro st p hp
    unfold withStarts at hp
    rcases List.mem_cons.mp hp with h | h
    · subst h; exact Nat.le_refl _
    · have := ih _ p h; omega

theorem withStarts_disjoint : ∀ (secs : List Sec) (st : Nat), ∀ p ∈ withStarts st secs,
    ∀ p' ∈ withStarts st secs, ∀ q q', q < p.2.data.length → q' < p'.2.data.length →
      p.1 + q = p'.1 + q' → p = p' := by
  intro secs
  induction secs with
  | nil => intro st p hp; cases hp
  | cons s r ih =>
    intro st p hp p' hp' q q' hq hq' he
    unfold withStarts at hp hp'
    have hpad := le_padLen s.data.length
    rcases List.mem_cons.mp hp with h | h <;> rcases List.mem_cons.mp hp' with h' | h'
    · rw [h, h']
    · subst h
      have := withStarts_ge r _ p' h'
      simp only at hq he
      omega
    · subst h'
      have := withStarts_ge r _ p h
      simp only at hq' he
      omega
    · exact ih _ p h p' h' q q' hq hq' he

/-! ### the offset map and `find_string` -/

theorem lookup_offMap_some (nb : Nat) (h : List UInt8 → Nat) (bs : List (List (List UInt8)))
    (es : List Entry) (k : Nat) (s : List UInt8) (hm : (k, s) ∈ es)
    (huniq : ∀ s', (k, s') ∈ es → s' = s) :
    (offMap nb h bs es).lookup k = some (h s % nb, offIn (bs.getD (h s % nb) []) s) := by
  induction es with
  | nil => cases hm
  | cons e r ih =>
    obtain ⟨k', s'⟩ := e
    unfold offMap
    rw [List.map_cons, List.lookup_cons]
    by_cases hk : k = k'
    · subst hk
      have : s' = s := huniq s' List.mem_cons_self
      subst this
      simp
    · have hne : (k == k') = false := by simpa using hk
      simp only [hne]
      have hm' : (k, s) ∈ r := by
        rcases List.mem_cons.mp hm with h | h
        · cases h; exact absurd rfl hk
        · exact h
      exact ih hm' (fun s'' h'' => huniq s'' (List.mem_cons_of_mem _ h''))

theorem lookup_offMap_none (nb : Nat) (h : List UInt8 → Nat) (bs : List (List (List UInt8)))
    (es : List Entry) (k : Nat) (hno : ∀ s, (k, s) ∉ es) : (offMap nb h bs es).lookup k = none := by
  induction es with
  | nil => rfl
  | cons e r ih =>
    obtain ⟨k', s'⟩ := e
    unfold offMap
    rw [List.map_cons, List.lookup_cons]
    have hk : k ≠ k' := by
      intro hk; subst hk; exact hno s' List.mem_cons_self
    have hne : (k == k') = false := by simpa using hk
    simp only [hne]
    exact ih (fun s hs => hno s (List.mem_cons_of_mem _ hs))

theorem findBack_spec (m : List (Nat × (Nat × Nat))) (st o p : Nat) (v : Nat × Nat)
    (hv : m.lookup (st + p) = some v)
    (hgap : ∀ j, p < j → j < o → m.lookup (st + j) = none) :
    ∀ n, p + n < o → findBack m st o (p + n + 1) = some (v.1, v.2 + (o - p)) := by
  intro n
  induction n with
  | zero =>
    intro _
    show findBack m st o (p + 1) = _
    unfold findBack
    rw [hv]
  | succ n ih =>
    intro hlt
    show findBack m st o ((p + n + 1) + 1) = _
    unfold findBack
    rw [hgap (p + n + 1) (by omega) (by omega)]
    exact ih (by omega)

theorem exists_start (d : List UInt8) (o : Nat) (ho : o < d.length) :
    ∃ q, IsStart d q ∧ q ≤ o ∧ ∀ j, q < j → j ≤ o → ¬ Bnd d j := by
  induction o with
  | zero => exact ⟨0, ⟨ho, Or.inl rfl⟩, Nat.le_refl _, by intro j h1 h2; omega⟩
  | succ o ih =>
    by_cases hb : Bnd d (o + 1)
    · exact ⟨o + 1, ⟨ho, hb⟩, Nat.le_refl _, by intro j h1 h2; omega⟩
    · obtain ⟨q, hq, hle, hgap⟩ := ih (by omega)
      refine ⟨q, hq, by omega, ?_⟩
      intro j h1 h2
      by_cases hj : j = o + 1
      · subst hj; exact hb
      · exact hgap j h1 (by omega)

theorem merge_ok {size nb : Nat} {h : List UInt8 → Nat} {secs : List Sec} {m : Merged}
    (hm : merge size nb h secs = .ok m) :
    ∃ es, processGroups (splitSections size (withStarts 0 secs)) = .ok es ∧
      m = ⟨allBuckets nb h es, offMap nb h (allBuckets nb h es) es, withStarts 0 secs⟩ := by
  unfold merge at hm
  simp only [] at hm
  cases hg : processGroups (splitSections size (withStarts 0 secs)) with
  | error e => rw [hg] at hm; cases hm
  | ok es =>
    rw [hg] at hm
    simp only [] at hm
    split at hm
    · cases hm
    · cases hm
      exact ⟨es, rfl, rfl⟩

/-! ### main lemmas, for any group list satisfying `Valid` -/

theorem withStarts_mem_snd : ∀ (secs : List Sec) (st : Nat), ∀ p ∈ withStarts st secs, p.2 ∈ secs := by
  intro secs
  induction secs with
  | nil => intro st p hp; cases hp
  | cons s r ih =>
    intro st p hp
    unfold withStarts at hp
    rcases List.mem_cons.mp hp with h | h
    · subst h; exact List.mem_cons_self
    · exact List.mem_cons_of_mem _ (ih _ p h)

/-- An entry whose key lies inside a string section `p` is a string start of `p` with that string. -/
theorem entry_key {secs : List Sec} (hne : ∀ sec ∈ secs, sec.data ≠ []) {gs : List Group}
    (hv : Valid (withStarts 0 secs) gs) {es : List Entry} (hes : processGroups gs = .ok es)
    (p : Nat × Sec) (hp : p ∈ withStarts 0 secs) (hs : p.2.isString = true)
    (j : Nat) (hj : j < p.2.data.length) (s' : List UInt8) (hmem : (p.1 + j, s') ∈ es) :
    IsStart p.2.data j ∧ cstr p.2.data j = some s' := by
  obtain ⟨p', hp', hcase⟩ := collected_sound hv hes (p.1 + j, s') hmem
  rcases hcase with ⟨_, q', hk, hq', hc'⟩ | ⟨hs', he⟩
  · have heq := withStarts_disjoint secs 0 p hp p' hp' j q' hj hq'.1 hk
    subst heq
    have : j = q' := by simp only at hk; omega
    subst this
    exact ⟨hq', hc'⟩
  · have hlen : 0 < p'.2.data.length := by
      have := hne p'.2 (withStarts_mem_snd secs 0 p' hp')
      exact List.length_pos_iff.mpr this
    have hk : p.1 + j = p'.1 + 0 := by
      have := congrArg Prod.fst he
      simpa using this
    have heq := withStarts_disjoint secs 0 p hp p' hp' j 0 hj hlen hk
    subst heq
    rw [hs] at hs'; cases hs'

theorem cstr_len_of_gap {d : List UInt8} {q o : Nat} {s : List UInt8} (hc : cstr d q = some s)
    (hqo : q ≤ o) (hgap : ∀ j, q < j → j ≤ o → ¬ Bnd d j) : o - q < s.length := by
  unfold cstr at hc
  cases hn : findNul (d.drop q) with
  | none => simp [hn] at hc
  | some i =>
    simp only [hn, Option.some.injEq] at hc
    have hi_lt := findNul_lt hn
    have hnul := findNul_some hn
    have hlen_d : (d.drop q).length = d.length - q := List.length_drop
    have hslen : s.length = i + 1 := by rw [← hc, List.length_take]; omega
    rw [hslen]
    apply Nat.lt_of_not_ge
    intro hge
    have h0 := hnul.1
    rw [List.getElem?_drop] at h0
    apply hgap (q + i + 1) (by omega) (by omega)
    right
    simpa using h0

/-- Core: for a string of section `p` starting at `q`, the whole string sits at some `X` in the
output, and for every offset `o` inside that string `find_string` + bucket base give `X + (o - q)`. -/
theorem addr_of_start {size nb : Nat} {h : List UInt8 → Nat} {secs : List Sec} {m : Merged}
    (hne : ∀ sec ∈ secs, sec.data ≠ [])
    (hv : Valid (withStarts 0 secs) (splitSections size (withStarts 0 secs))) (hnb : 0 < nb)
    (hm : merge size nb h secs = .ok m) (p : Nat × Sec) (hp : p ∈ withStarts 0 secs)
    (hs : p.2.isString = true) (q : Nat) (hq : IsStart p.2.data q) :
    ∃ s X r, cstr p.2.data q = some s ∧ m.bytes.drop X = s ++ r ∧
      ∀ o, q ≤ o → o < p.2.data.length → (∀ j, q < j → j ≤ o → ¬ Bnd p.2.data j) →
        o - q < s.length ∧ addr m p.1 o = .ok (X + (o - q)) := by
  obtain ⟨es, hes, rfl⟩ := merge_ok hm
  obtain ⟨s, hc, hmem⟩ := collected_complete hv hes p hp hs q hq
  have huniq : ∀ s', (p.1 + q, s') ∈ es → s' = s := by
    intro s' h'
    have := (entry_key hne hv hes p hp hs q hq.1 s' h').2
    rw [hc] at this; cases this; rfl
  have hb : h s % nb < nb := Nat.mod_lt _ hnb
  have hlook := lookup_offMap_some nb h (allBuckets nb h es) es (p.1 + q) s hmem huniq
  have hsb : s ∈ (allBuckets nb h es).getD (h s % nb) [] := by
    rw [allBuckets_getD nb h es _ hb, mem_bucketStrs]
    exact ⟨⟨_, hmem⟩, rfl⟩
  obtain ⟨r, hr⟩ := out_at (allBuckets nb h es) (h s % nb) s (by rw [allBuckets_length]; exact hb) hsb
  refine ⟨s, baseOf (allBuckets nb h es) (h s % nb) + offIn ((allBuckets nb h es).getD (h s % nb) []) s, r,
    hc, hr, ?_⟩
  intro o hqo ho hgap
  have hnone : ∀ j, q < j → j ≤ o → (offMap nb h (allBuckets nb h es) es).lookup (p.1 + j) = none := by
    intro j h1 h2
    apply lookup_offMap_none
    intro s' h'
    exact hgap j h1 h2 (entry_key hne hv hes p hp hs j (by omega) s' h').1.2
  refine ⟨cstr_len_of_gap hc hqo hgap, ?_⟩
  unfold addr findString
  simp only []
  by_cases hoq : o = q
  · subst hoq
    rw [hlook]
    simp
  · rw [hnone o (by omega) (Nat.le_refl _)]
    simp only []
    have hfb := findBack_spec (offMap nb h (allBuckets nb h es) es) p.1 o q _ hlook
      (fun j h1 h2 => hnone j h1 (by omega)) (o - q - 1) (by omega)
    have e : q + (o - q - 1) + 1 = o := by omega
    rw [e] at hfb
    rw [hfb]
    simp only [Except.ok.injEq]
    omega

theorem preserves_of_valid {size nb : Nat} {h : List UInt8 → Nat} {secs : List Sec} {m : Merged}
    (hne : ∀ sec ∈ secs, sec.data ≠ [])
    (hv : Valid (withStarts 0 secs) (splitSections size (withStarts 0 secs))) (hnb : 0 < nb)
    (hm : merge size nb h secs = .ok m) (p : Nat × Sec) (hp : p ∈ withStarts 0 secs)
    (hs : p.2.isString = true) (o : Nat) (ho : o < p.2.data.length) :
    ∃ a c, addr m p.1 o = .ok a ∧ cstr m.bytes a = some c ∧ cstr p.2.data o = some c := by
  obtain ⟨q, hq, hqo, hgap⟩ := exists_start p.2.data o ho
  obtain ⟨s, X, r, hc, hout, hall⟩ := addr_of_start hne hv hnb hm p hp hs q hq
  obtain ⟨hlen, ha⟩ := hall o hqo ho hgap
  refine ⟨X + (o - q), s.drop (o - q), ha, cstr_shift hc hlen m.bytes X r hout, ?_⟩
  obtain ⟨r', hr', _⟩ := cstr_drop_eq hc
  have := cstr_shift hc hlen p.2.data q r' hr'
  have e : q + (o - q) = o := by omega
  rw [e] at this
  exact this

theorem unterminated_of_valid {size nb : Nat} {h : List UInt8 → Nat} {secs : List Sec}
    (hv : Valid (withStarts 0 secs) (splitSections size (withStarts 0 secs)))
    (p : Nat × Sec) (hp : p ∈ withStarts 0 secs) (hs : p.2.isString = true) (q : Nat)
    (hq : IsStart p.2.data q) (hc : cstr p.2.data q = none) :
    merge size nb h secs = .error .unterminated := by
  unfold merge
  simp only []
  cases hg : processGroups (splitSections size (withStarts 0 secs)) with
  | error e =>
    have := (collected_error hv hg).1
    subst this; rfl
  | ok es =>
    obtain ⟨s, hc', _⟩ := collected_complete hv hg p hp hs q hq
    rw [hc] at hc'; cases hc'

theorem error_unterminated_of_valid {size nb : Nat} {h : List UInt8 → Nat} {secs : List Sec}
    (hv : Valid (withStarts 0 secs) (splitSections size (withStarts 0 secs)))
    (hm : merge size nb h secs = .error .unterminated) :
    ∃ p ∈ withStarts 0 secs, p.2.isString = true ∧ ∃ q, IsStart p.2.data q ∧ cstr p.2.data q = none := by
  unfold merge at hm
  simp only [] at hm
  cases hg : processGroups (splitSections size (withStarts 0 secs)) with
  | error e => exact (collected_error hv hg).2
  | ok es =>
    rw [hg] at hm
    simp only [] at hm
    split at hm <;> cases hm

/-! ### `split_sections` produces a valid group list -/

theorem padLen_facts (n : Nat) : ∃ k, padLen n = 256 * k ∧ n ≤ 256 * k ∧ 256 * k < n + 256 := by
  refine ⟨(n + 255) / 256, ?_, ?_, ?_⟩
  · unfold padLen; omega
  · omega
  · omega

theorem splitLoop_nil (size fuel x : Nat) (cur : List (Nat × Sec)) (lo rem : Nat) :
    splitLoop size fuel [] x cur lo rem = [] := by
  cases fuel <;> rfl

theorem splitLoop_spec (size : Nat) (hsz : 0 < size) (h256 : 256 ∣ size) :
    ∀ (fuel : Nat) (s : Sec) (r : List Sec) (st x : Nat) (cur : List (Nat × Sec)) (lo rem : Nat),
      (∀ t ∈ s :: r, t.data ≠ []) → 0 < rem → 256 ∣ rem → 256 ∣ x → x < padLen s.data.length →
      (0 < x → cur = [] ∧ s.isString = true) → (cur ≠ [] → lo ≤ st) →
      (∀ p ∈ cur, p.1 < lo → p.2.isString = true ∧ lo - p.1 - 1 < p.2.data.length) →
      splitFuel (withStarts st (s :: r)) < fuel + x + 1 →
      (∀ q, x ≤ q → q < s.data.length →
        ∃ g ∈ splitLoop size fuel (withStarts st (s :: r)) x cur lo rem,
          (st, s) ∈ g.secs ∧ g.lo ≤ st + q ∧ st + q < g.hi) ∧
      (∀ p ∈ withStarts (st + padLen s.data.length) r, ∀ q, q < p.2.data.length →
        ∃ g ∈ splitLoop size fuel (withStarts st (s :: r)) x cur lo rem,
          p ∈ g.secs ∧ g.lo ≤ p.1 + q ∧ p.1 + q < g.hi) ∧
      (∀ p ∈ cur, ∃ g ∈ splitLoop size fuel (withStarts st (s :: r)) x cur lo rem,
          p ∈ g.secs ∧ g.lo = lo ∧ st + x ≤ g.hi) ∧
      (∀ g ∈ splitLoop size fuel (withStarts st (s :: r)) x cur lo rem, ∀ p ∈ g.secs,
          p ∈ cur ∨ p ∈ withStarts st (s :: r)) ∧
      (∀ g ∈ splitLoop size fuel (withStarts st (s :: r)) x cur lo rem, ∀ p ∈ g.secs,
          p.1 < g.lo → p.2.isString = true ∧ g.lo - p.1 - 1 < p.2.data.length) := by
  obtain ⟨ks, hks⟩ := h256
  intro fuel
  induction fuel with
  | zero =>
    intro s r st x cur lo rem _ _ _ _ hx _ _ _ hf
    exfalso
    simp only [withStarts, splitFuel] at hf
    omega
  | succ fuel ih =>
    intro s r st x cur lo rem hne hrem hrem256 hx256 hx hxpos hlo hsafe hf
    obtain ⟨kr, hkr⟩ := hrem256
    obtain ⟨kx, hkx⟩ := hx256
    obtain ⟨kp, hP, hPle, hPlt⟩ := padLen_facts s.data.length
    have hdpos : 0 < s.data.length := List.length_pos_iff.mpr (hne s List.mem_cons_self)
    have hws : withStarts st (s :: r) = (st, s) :: withStarts (st + padLen s.data.length) r := rfl
    have hfuel : splitFuel (withStarts st (s :: r)) =
        padLen s.data.length + 1 + splitFuel (withStarts (st + padLen s.data.length) r) := by
      rw [hws]; rfl
    -- the group emitted in this step, if any, and facts about it
    have hlo' : (if cur.isEmpty then st + x else lo) ≤ st + x := by
      by_cases hc : cur = []
      · simp [hc]
      · have : cur.isEmpty = false := by simpa using hc
        rw [this]; simp only [Bool.false_eq_true, if_false]
        have := hlo hc; omega
    have hlo_eq : ∀ p ∈ cur, (if cur.isEmpty then st + x else lo) = lo := by
      intro p hp
      have : cur.isEmpty = false := by
        cases cur with
        | nil => cases hp
        | cons _ _ => rfl
      rw [this]; simp
    -- safety of the sections `cur ++ [(st, s)]` w.r.t. the group start
    have hsafe' : ∀ p ∈ cur ++ [(st, s)], p.1 < (if cur.isEmpty then st + x else lo) →
        p.2.isString = true ∧ (if cur.isEmpty then st + x else lo) - p.1 - 1 < p.2.data.length := by
      intro p hp hlt
      rcases List.mem_append.mp hp with h | h
      · rw [hlo_eq p h] at hlt ⊢
        exact hsafe p h hlt
      · simp only [List.mem_singleton] at h
        subst h
        by_cases hc : cur = []
        · simp only [hc, List.isEmpty_nil, if_true] at hlt ⊢
          have hxp : 0 < x := by omega
          refine ⟨(hxpos hxp).2, ?_⟩
          omega
        · have : cur.isEmpty = false := by simpa using hc
          rw [this] at hlt
          simp only [Bool.false_eq_true, if_false] at hlt
          have := hlo hc
          omega
    rw [hws]
    unfold splitLoop
    simp only []
    rw [← hws]
    by_cases hb1 : (decide (padLen s.data.length - x > rem) && s.isString) = true
    · -- cut inside this string section
      rw [if_pos hb1]
      have hgt : padLen s.data.length - x > rem ∧ s.isString = true := by simpa using hb1
      have ih' := ih s r st (x + rem) [] 0 size hne hsz ⟨ks, hks⟩ ⟨kx + kr, by omega⟩ (by omega)
        (fun _ => ⟨rfl, hgt.2⟩) (fun h => absurd rfl h) (by intro p hp; cases hp) (by omega)
      obtain ⟨i1, i2, _, i4, i5⟩ := ih'
      refine ⟨?_, ?_, ?_, ?_, ?_⟩
      · intro q hq1 hq2
        by_cases hq : st + q < st + x + rem
        · exact ⟨_, List.mem_cons_self, by simp, by simp only; omega, hq⟩
        · obtain ⟨g, hg, h1, h2, h3⟩ := i1 q (by omega) hq2
          exact ⟨g, List.mem_cons_of_mem _ hg, h1, h2, h3⟩
      · intro p hp q hq
        obtain ⟨g, hg, h1, h2, h3⟩ := i2 p hp q hq
        exact ⟨g, List.mem_cons_of_mem _ hg, h1, h2, h3⟩
      · intro p hp
        exact ⟨_, List.mem_cons_self, by simp [hp], hlo_eq p hp, by simp only; omega⟩
      · intro g hg p hp
        rcases List.mem_cons.mp hg with h | h
        · subst h
          rcases List.mem_append.mp hp with h' | h'
          · exact Or.inl h'
          · simp only [List.mem_singleton] at h'
            subst h'
            exact Or.inr (by rw [hws]; exact List.mem_cons_self)
        · rcases i4 g h p hp with h' | h'
          · cases h'
          · exact Or.inr h'
      · intro g hg p hp
        rcases List.mem_cons.mp hg with h | h
        · subst h; exact hsafe' p hp
        · exact i5 g h p hp
    · rw [if_neg hb1]
      have hngt : ¬ (padLen s.data.length - x > rem ∧ s.isString = true) := by simpa using hb1
      by_cases hb2 : (decide (padLen s.data.length - x ≥ rem) || (withStarts (st + padLen s.data.length) r).isEmpty) = true
      · -- the group ends with this section
        rw [if_pos hb2]
        have hhi : st + x + (padLen s.data.length - x) = st + padLen s.data.length := by omega
        rw [hhi]
        cases r with
        | nil =>
          simp only [withStarts, splitLoop_nil]
          refine ⟨?_, ?_, ?_, ?_, ?_⟩
          · intro q hq1 hq2
            exact ⟨_, List.mem_cons_self, by simp, by simp only; omega, by simp only; omega⟩
          · intro p hp; cases hp
          · intro p hp
            exact ⟨_, List.mem_cons_self, by simp [hp], hlo_eq p hp, by simp only; omega⟩
          · intro g hg p hp
            simp only [List.mem_singleton] at hg
            subst hg
            rcases List.mem_append.mp hp with h' | h'
            · exact Or.inl h'
            · exact Or.inr h'
          · intro g hg p hp
            simp only [List.mem_singleton] at hg
            subst hg
            exact hsafe' p hp
        | cons s2 r2 =>
          obtain ⟨kp2, hP2, hP2le, hP2lt⟩ := padLen_facts s2.data.length
          have hd2pos : 0 < s2.data.length :=
            List.length_pos_iff.mpr (hne s2 (List.mem_cons_of_mem _ List.mem_cons_self))
          have ih' := ih s2 r2 (st + padLen s.data.length) 0 [] 0 size
            (fun t ht => hne t (List.mem_cons_of_mem _ ht)) hsz ⟨ks, hks⟩ ⟨0, rfl⟩ (by omega)
            (fun h => absurd h (Nat.lt_irrefl 0)) (fun h => absurd rfl h) (by intro p hp; cases hp)
            (by omega)
          obtain ⟨i1, i2, _, i4, i5⟩ := ih'
          refine ⟨?_, ?_, ?_, ?_, ?_⟩
          · intro q hq1 hq2
            exact ⟨_, List.mem_cons_self, by simp, by simp only; omega, by simp only; omega⟩
          · intro p hp q hq
            have hws2 : withStarts (st + padLen s.data.length) (s2 :: r2) =
              (st + padLen s.data.length, s2) :: withStarts (st + padLen s.data.length + padLen s2.data.length) r2 := rfl
            rw [hws2] at hp
            rcases List.mem_cons.mp hp with h | h
            · subst h
              obtain ⟨g, hg, h1, h2, h3⟩ := i1 q (Nat.zero_le _) hq
              exact ⟨g, List.mem_cons_of_mem _ hg, h1, h2, h3⟩
            · obtain ⟨g, hg, h1, h2, h3⟩ := i2 p h q hq
              exact ⟨g, List.mem_cons_of_mem _ hg, h1, h2, h3⟩
          · intro p hp
            exact ⟨_, List.mem_cons_self, by simp [hp], hlo_eq p hp, by simp only; omega⟩
          · intro g hg p hp
            rcases List.mem_cons.mp hg with h | h
            · subst h
              rcases List.mem_append.mp hp with h' | h'
              · exact Or.inl h'
              · simp only [List.mem_singleton] at h'
                subst h'
                exact Or.inr (by rw [hws]; exact List.mem_cons_self)
            · rcases i4 g h p hp with h' | h'
              · cases h'
              · exact Or.inr (by rw [hws]; exact List.mem_cons_of_mem _ h')
          · intro g hg p hp
            rcases List.mem_cons.mp hg with h | h
            · subst h; exact hsafe' p hp
            · exact i5 g h p hp
      · -- continue the open group with the next section
        rw [if_neg hb2]
        have hlt : padLen s.data.length - x < rem ∧ (withStarts (st + padLen s.data.length) r).isEmpty = false := by
          simpa using hb2
        cases r with
        | nil => simp [withStarts] at hlt
        | cons s2 r2 =>
          obtain ⟨kp2, hP2, hP2le, hP2lt⟩ := padLen_facts s2.data.length
          have hd2pos : 0 < s2.data.length :=
            List.length_pos_iff.mpr (hne s2 (List.mem_cons_of_mem _ List.mem_cons_self))
          have ih' := ih s2 r2 (st + padLen s.data.length) 0 (cur ++ [(st, s)])
            (if cur.isEmpty then st + x else lo) (rem - (padLen s.data.length - x))
            (fun t ht => hne t (List.mem_cons_of_mem _ ht)) (by omega)
            ⟨kr - (kp - kx), by omega⟩ ⟨0, rfl⟩ (by omega)
            (fun h => absurd h (Nat.lt_irrefl 0)) (fun _ => by omega) hsafe' (by omega)
          obtain ⟨i1, i2, i3, i4, i5⟩ := ih'
          refine ⟨?_, ?_, ?_, ?_, ?_⟩
          · intro q hq1 hq2
            obtain ⟨g, hg, h1, h2, h3⟩ := i3 (st, s) (by simp)
            exact ⟨g, hg, h1, by omega, by omega⟩
          · intro p hp q hq
            have hws2 : withStarts (st + padLen s.data.length) (s2 :: r2) =
              (st + padLen s.data.length, s2) :: withStarts (st + padLen s.data.length + padLen s2.data.length) r2 := rfl
            rw [hws2] at hp
            rcases List.mem_cons.mp hp with h | h
            · subst h
              exact i1 q (Nat.zero_le _) hq
            · exact i2 p h q hq
          · intro p hp
            obtain ⟨g, hg, h1, h2, h3⟩ := i3 p (by simp [hp])
            exact ⟨g, hg, h1, by rw [h2]; exact hlo_eq p hp, by omega⟩
          · intro g hg p hp
            rcases i4 g hg p hp with h' | h'
            · rcases List.mem_append.mp h' with h'' | h''
              · exact Or.inl h''
              · simp only [List.mem_singleton] at h''
                subst h''
                exact Or.inr (by rw [hws]; exact List.mem_cons_self)
            · exact Or.inr (by rw [hws]; exact List.mem_cons_of_mem _ h')
          · exact i5

/-- `split_sections` yields groups whose ranges and section lists let the scan see every string. -/
theorem splitSections_valid (size : Nat) (hsz : 0 < size) (h256 : 256 ∣ size) (secs : List Sec)
    (hne : ∀ sec ∈ secs, sec.data ≠ []) :
    Valid (withStarts 0 secs) (splitSections size (withStarts 0 secs)) := by
  cases secs with
  | nil =>
    refine ⟨(by intro p hp; cases hp), ?_, ?_⟩ <;>
      · intro g hg; simp [splitSections, withStarts, splitFuel, splitLoop] at hg
  | cons s r =>
    obtain ⟨kp, hP, hPle, hPlt⟩ := padLen_facts s.data.length
    have hdpos : 0 < s.data.length := List.length_pos_iff.mpr (hne s List.mem_cons_self)
    have sp := splitLoop_spec size hsz h256 (splitFuel (withStarts 0 (s :: r))) s r 0 0 [] 0 size hne hsz
      h256 ⟨0, rfl⟩ (by omega) (fun h => absurd h (Nat.lt_irrefl 0)) (fun h => absurd rfl h)
      (by intro p hp; cases hp) (by omega)
    obtain ⟨c1, c2, _, c4, c5⟩ := sp
    unfold splitSections
    refine ⟨?_, ?_, c5⟩
    · intro p hp q hq
      have hws : withStarts 0 (s :: r) = (0, s) :: withStarts (0 + padLen s.data.length) r := rfl
      rw [hws] at hp
      rcases List.mem_cons.mp hp with h | h
      · subst h; exact c1 q (Nat.zero_le _) hq
      · exact c2 p h q hq
    · intro g hg p hp
      rcases c4 g hg p hp with h | h
      · cases h
      · exact h

/-! ## The property theorems (for ALL section lists, split sizes, bucket functions and counts) -/

/-- (iv) A string section containing a string start after which no NUL follows (unterminated final
data) makes the merge fail with "not null-terminated", whatever the split size and hash. -/
theorem merge_unterminated_error (size nb : Nat) (h : List UInt8 → Nat) (secs : List Sec)
    (hsz : 0 < size) (h256 : 256 ∣ size) (hne : ∀ sec ∈ secs, sec.data ≠ [])
    (p : Nat × Sec) (hp : p ∈ withStarts 0 secs) (hs : p.2.isString = true) (q : Nat)
    (hq : IsStart p.2.data q) (hc : cstr p.2.data q = none) :
    merge size nb h secs = .error .unterminated :=
  unterminated_of_valid (splitSections_valid size hsz h256 secs hne) p hp hs q hq hc

/-- ... and that is the only way to get this error. -/
theorem merge_error_unterminated_iff (size nb : Nat) (h : List UInt8 → Nat) (secs : List Sec)
    (hsz : 0 < size) (h256 : 256 ∣ size) (hne : ∀ sec ∈ secs, sec.data ≠ []) :
    merge size nb h secs = .error .unterminated ↔
      ∃ p ∈ withStarts 0 secs, p.2.isString = true ∧ ∃ q, IsStart p.2.data q ∧ cstr p.2.data q = none := by
  have hv := splitSections_valid size hsz h256 secs hne
  constructor
  · exact error_unterminated_of_valid hv
  · rintro ⟨p, hp, hs, q, hq, hc⟩
    exact unterminated_of_valid hv p hp hs q hq hc

/-- (ii) Every reference into a string section — to a string start or into the middle of a string —
resolves to an output offset whose C string (bytes up to and including the NUL) equals the input's. -/
theorem merge_preserves_cstr (size nb : Nat) (h : List UInt8 → Nat) (secs : List Sec) (m : Merged)
    (hsz : 0 < size) (h256 : 256 ∣ size) (hnb : 0 < nb) (hne : ∀ sec ∈ secs, sec.data ≠ [])
    (hm : merge size nb h secs = .ok m) (p : Nat × Sec) (hp : p ∈ withStarts 0 secs)
    (hs : p.2.isString = true) (o : Nat) (ho : o < p.2.data.length) :
    ∃ a c, addr m p.1 o = .ok a ∧ cstr m.bytes a = some c ∧ cstr p.2.data o = some c :=
  preserves_of_valid hne (splitSections_valid size hsz h256 secs hne) hnb hm p hp hs o ho

/-- (i) Every string of every string section occurs in the output bytes. -/
theorem each_string_in_output (size nb : Nat) (h : List UInt8 → Nat) (secs : List Sec) (m : Merged)
    (hsz : 0 < size) (h256 : 256 ∣ size) (hnb : 0 < nb) (hne : ∀ sec ∈ secs, sec.data ≠ [])
    (hm : merge size nb h secs = .ok m) (p : Nat × Sec) (hp : p ∈ withStarts 0 secs)
    (hs : p.2.isString = true) (q : Nat) (hq : IsStart p.2.data q) :
    ∃ s pre post, cstr p.2.data q = some s ∧ m.bytes = pre ++ s ++ post := by
  obtain ⟨s, X, r, hc, hout, _⟩ :=
    addr_of_start hne (splitSections_valid size hsz h256 secs hne) hnb hm p hp hs q hq
  refine ⟨s, m.bytes.take X, r, hc, ?_⟩
  rw [List.append_assoc, ← hout, List.take_append_drop]

/-- Deduplication: within the output every bucket holds each string at most once, and a string can
only be in the bucket its hash selects (so no string is stored twice). -/
theorem each_string_once (size nb : Nat) (h : List UInt8 → Nat) (secs : List Sec) (m : Merged)
    (hm : merge size nb h secs = .ok m) (b : Nat) (hb : b < nb) :
    (m.buckets.getD b []).Nodup ∧ ∀ s ∈ m.buckets.getD b [], h s % nb = b := by
  obtain ⟨es, _, rfl⟩ := merge_ok hm
  simp only
  rw [allBuckets_getD nb h es b hb]
  constructor
  · unfold bucketStrs
    exact nodup_foldl_addString _ _ List.nodup_nil
  · intro s hs
    exact ((mem_bucketStrs nb h b es s).mp hs).2

theorem cstr_some_lt {bs : List UInt8} {a : Nat} {c : List UInt8} (hc : cstr bs a = some c) :
    a < bs.length := by
  unfold cstr at hc
  cases hn : findNul (bs.drop a) with
  | none => simp [hn] at hc
  | some i =>
    have := findNul_lt hn
    rw [List.length_drop] at this
    omega

theorem wrap64_of_lt (n : Nat) (hn : n < 2 ^ 64) : wrap64 (n : Int) = n := by
  unfold wrap64
  have h2 : (2 : Int) ^ 64 = 18446744073709551616 := by decide
  have h3 : (2 : Nat) ^ 64 = 18446744073709551616 := by decide
  rw [h2]
  rw [h3] at hn
  omega

/-- Section-symbol style (`get_merged_string_output_address`, unnamed symbol): the addend is applied
BEFORE the lookup, so any `symbol value + addend` landing at offset `o` of the section denotes the
same C string in the output. -/
theorem section_symbol_reference (size nb : Nat) (h : List UInt8 → Nat) (secs : List Sec) (m : Merged)
    (hsz : 0 < size) (h256 : 256 ∣ size) (hnb : 0 < nb) (hne : ∀ sec ∈ secs, sec.data ≠ [])
    (hm : merge size nb h secs = .ok m) (p : Nat × Sec) (hp : p ∈ withStarts 0 secs)
    (hs : p.2.isString = true) (value : Nat) (addend : Int) (o : Nat)
    (hsum : (value : Int) + addend = (o : Int)) (ho : o < p.2.data.length)
    (h64 : p.2.data.length ≤ 2 ^ 64) :
    ∃ a c, refAddr m p.1 value addend false = .ok a ∧ cstr m.bytes a = some c ∧
      cstr p.2.data o = some c := by
  obtain ⟨a, c, ha, h1, h2⟩ := merge_preserves_cstr size nb h secs m hsz h256 hnb hne hm p hp hs o ho
  refine ⟨a, c, ?_, h1, h2⟩
  unfold refAddr
  simp only [Bool.false_eq_true, if_false]
  rw [hsum, wrap64_of_lt o (by omega)]
  exact ha

/-- Named-symbol style: the string is chosen at the symbol value `v`, the addend is added to the
OUTPUT address afterwards. Whenever `v + addend = w` stays inside the string `v` points into (no NUL
between the two offsets), the reference denotes the same C string as in the input. -/
theorem named_symbol_reference (size nb : Nat) (h : List UInt8 → Nat) (secs : List Sec) (m : Merged)
    (hsz : 0 < size) (h256 : 256 ∣ size) (hnb : 0 < nb) (hne : ∀ sec ∈ secs, sec.data ≠ [])
    (hm : merge size nb h secs = .ok m) (p : Nat × Sec) (hp : p ∈ withStarts 0 secs)
    (hs : p.2.isString = true) (v : Nat) (addend : Int) (w : Nat)
    (hsum : (v : Int) + addend = (w : Int)) (hv : v < p.2.data.length) (hw : w < p.2.data.length)
    (hsame : ∀ j, min v w ≤ j → j < max v w → p.2.data[j]? ≠ some 0)
    (h64 : m.bytes.length ≤ 2 ^ 64) :
    ∃ a c, refAddr m p.1 v addend true = .ok a ∧ cstr m.bytes a = some c ∧
      cstr p.2.data w = some c := by
  have hvalid := splitSections_valid size hsz h256 secs hne
  obtain ⟨q, hq, hqo, hgap⟩ := exists_start p.2.data (min v w) (by omega)
  -- `q` is the start of the string containing both `v` and `w`
  have hgap' : ∀ j, q < j → j ≤ max v w → ¬ Bnd p.2.data j := by
    intro j h1 h2 hb
    by_cases hj : j ≤ min v w
    · exact hgap j h1 hj hb
    · rcases hb with hb | hb
      · omega
      · exact hsame (j - 1) (by omega) (by omega) hb
  obtain ⟨s, X, r, hc, hout, hall⟩ := addr_of_start hne hvalid hnb hm p hp hs q hq
  obtain ⟨_, hav⟩ := hall v (by omega) hv (fun j h1 h2 => hgap' j h1 (by omega))
  obtain ⟨hlw, haw⟩ := hall w (by omega) hw (fun j h1 h2 => hgap' j h1 (by omega))
  have hcw := cstr_shift hc hlw m.bytes X r hout
  have hlt := cstr_some_lt hcw
  refine ⟨X + (w - q), s.drop (w - q), ?_, hcw, ?_⟩
  · unfold refAddr
    simp only [if_true]
    rw [hav]
    simp only []
    have e : ((X + (v - q) : Nat) : Int) + addend = ((X + (w - q) : Nat) : Int) := by omega
    rw [e, wrap64_of_lt _ (by omega)]
  · obtain ⟨r', hr', _⟩ := cstr_drop_eq hc
    have := cstr_shift hc hlw p.2.data q r' hr'
    have e : q + (w - q) = w := by omega
    rw [e] at this
    exact this

/-- (iii) Splitting is invisible: for any two group sizes (and even any two bucket functions and
bucket counts) every reference denotes the same C string in both outputs. -/
theorem split_invisible (k k' nb nb' : Nat) (h h' : List UInt8 → Nat) (secs : List Sec) (m m' : Merged)
    (hk : 0 < k) (hk256 : 256 ∣ k) (hk' : 0 < k') (hk256' : 256 ∣ k') (hnb : 0 < nb) (hnb' : 0 < nb')
    (hne : ∀ sec ∈ secs, sec.data ≠ [])
    (hm : merge k nb h secs = .ok m) (hm' : merge k' nb' h' secs = .ok m')
    (p : Nat × Sec) (hp : p ∈ withStarts 0 secs) (hs : p.2.isString = true) (o : Nat)
    (ho : o < p.2.data.length) :
    ∃ a a' c, addr m p.1 o = .ok a ∧ addr m' p.1 o = .ok a' ∧ cstr m.bytes a = some c ∧
      cstr m'.bytes a' = some c := by
  obtain ⟨a, c, ha, h1, h2⟩ := merge_preserves_cstr k nb h secs m hk hk256 hnb hne hm p hp hs o ho
  obtain ⟨a', c', ha', h1', h2'⟩ := merge_preserves_cstr k' nb' h' secs m' hk' hk256' hnb' hne hm' p hp hs o ho
  rw [h2] at h2'
  cases h2'
  exact ⟨a, a', c, ha, ha', h1, h1'⟩

/-! ## Non-vacuity: concrete inputs satisfying the hypotheses -/

/-- "ab\0b\0" and "b\0": two sections, a shared suffix and a duplicate. -/
def exSecs : List Sec := [⟨[97, 98, 0, 98, 0], true⟩, ⟨[98, 0], true⟩]
def exHash (s : List UInt8) : Nat := s.length

example : (merge 256 16 exHash exSecs).toOption.map (·.bytes) = some [98, 0, 97, 98, 0] := by decide
example : ∀ sec ∈ exSecs, sec.data ≠ [] := by decide
/-- offset 1 of section 0 is the middle of "ab\0"; it resolves to output offset 3 = "b\0" inside "ab\0". -/
example : (merge 256 16 exHash exSecs).toOption.bind (fun m => (addr m 0 1).toOption) = some 3 := by decide
/-- the named-symbol path with a negative addend staying inside the string -/
example : (merge 256 16 exHash exSecs).toOption.bind (fun m => (refAddr m 0 1 (-1) true).toOption) = some 2 := by decide
/-- section 1 starts at linear offset 256 -/
example : (withStarts 0 exSecs).map (·.1) = [0, 256] := by decide
/-- an unterminated section is rejected -/
example : (merge 256 16 exHash [⟨[97, 0, 98], true⟩]).toOption.isNone = true := by decide
example : IsStart [97, 0, 98] 2 ∧ cstr [97, 0, 98] 2 = none := by
  refine ⟨⟨by decide, Or.inr (by decide)⟩, by decide⟩

/-- A 300-byte string followed by "b\0" in one section of 303 bytes: with group size 256 the section is
split into two groups and the long string straddles the cut (output: "b\0" in bucket 2, then the long string). -/
def exLong : List Sec := [⟨List.replicate 300 97 ++ [0, 98, 0], true⟩]
example : (splitSections 256 (withStarts 0 exLong)).map (fun g => (g.lo, g.hi)) = [(0, 256), (256, 512)] := by
  decide +kernel
example : (merge 256 16 exHash exLong).toOption.bind (fun m => (addr m 0 299).toOption) = some 301 ∧
    (merge 256 16 exHash exLong).toOption.bind (fun m => (addr m 0 302).toOption) = some 1 := by
  decide +kernel

end Wild.StrMerge
